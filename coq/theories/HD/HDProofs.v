(* C04: the HD model conforms to BIP32 (Bip32Spec.v), step by step and along every path. *)
From BU Require Import Lib.Bytes Lib.Radix Base58.Base58 Gen.Nets HD.HD HD.HDLemmas HD.HDGuards HD.Bip32Spec.
From Coq Require Import ZifyBool ZifyN ZifyNat.

(* ---------- ties: constants and literals of the Go source the proofs depend on ---------- *)
Lemma tie_n : secp_n = Bip32Spec.n.
Proof. reflexivity. Qed.
Lemma tie_nN : Z.of_N secp_nN = Bip32Spec.n.
Proof. reflexivity. Qed.
Lemma tie_masterKey : masterKey = bitcoin_seed.
Proof. reflexivity. Qed.
Lemma tie_lits_child :
  (LC 0, LC 1, LC 2, LC 3, LC 4, LC 7, LC 8, LC 11, LC 12) = (33, 4, 1, 2, 2, 32, 32, 4, 1)%nat.
Proof. reflexivity. Qed.
Lemma tie_lits_master : (LM 0, LM 1, LM 4, LM 5, LM 6, LM 7, LM 8, LM 9) = (2, 2, 0, 0, 0, 0, 0, 0)%nat.
Proof. reflexivity. Qed.
Lemma tie_lits_string : (LS 0, LS 1, LS 4, LS 5, LS 6) = (0, 4, 0, 32, 4)%nat.
Proof. reflexivity. Qed.

Ltac tie_child :=
  change (LC 0) with 33%nat; change (LC 1) with 4%nat; change (LC 2) with 1%nat;
  change (LC 3) with 2%nat; change (LC 4) with 2%nat; change (LC 7) with 32%nat;
  change (LC 8) with 32%nat; change (LC 11) with 4%nat; change (LC 12) with 1%nat;
  rewrite ?child_oor_eq.
Ltac tie_child_in H :=
  change (LC 0) with 33%nat in H; change (LC 1) with 4%nat in H; change (LC 2) with 1%nat in H;
  change (LC 3) with 2%nat in H; change (LC 4) with 2%nat in H; change (LC 7) with 32%nat in H;
  change (LC 8) with 32%nat in H; change (LC 11) with 4%nat in H; change (LC 12) with 1%nat in H;
  rewrite ?child_oor_eq in H.
Ltac tie_master :=
  change (LM 0) with 2%nat; change (LM 1) with 2%nat; change (LM 4) with 0%nat;
  change (LM 5) with 0%nat; change (LM 6) with 0%nat; change (LM 7) with 0%nat;
  change (LM 8) with 0%nat; change (LM 9) with 0%nat;
  rewrite ?master_oor_eq.
Ltac tie_master_in H :=
  change (LM 0) with 2%nat in H; change (LM 1) with 2%nat in H; change (LM 4) with 0%nat in H;
  change (LM 5) with 0%nat in H; change (LM 6) with 0%nat in H; change (LM 7) with 0%nat in H;
  change (LM 8) with 0%nat in H; change (LM 9) with 0%nat in H;
  rewrite ?master_oor_eq in H.
Ltac tie_string :=
  change (LS 0) with 0%nat; change (LS 1) with 4%nat; change (LS 4) with 0%nat;
  change (LS 5) with 32%nat; change (LS 6) with 4%nat.

Lemma n_lt_2_256 : (Bip32Spec.n < 2 ^ 256)%Z.
Proof. reflexivity. Qed.

Lemma bound_2_256 v : (0 <= v < Bip32Spec.n)%Z -> Z.to_N v < 256 ^ N.of_nat 32.
Proof.
  intros Hv. pose proof n_lt_2_256 as Hn.
  assert (E : 256 ^ N.of_nat 32 = Z.to_N (2 ^ 256)) by reflexivity.
  rewrite E. generalize dependent Bip32Spec.n. intros m Hv Hm.
  apply Z2N.inj_lt; lia.
Qed.

Lemma set_bytes_ser256 k : (0 <= k < Bip32Spec.n)%Z -> set_bytes (ser256 k) = Z.to_N k.
Proof. intros Hk. unfold set_bytes, ser256. apply be_value_be_bytes. apply bound_2_256. exact Hk. Qed.

Lemma scalar_of_ser256 k : (0 <= k < Bip32Spec.n)%Z -> scalar_of (ser256 k) = k.
Proof. intros Hk. unfold scalar_of. rewrite set_bytes_ser256 by exact Hk. apply Z2N.id. lia. Qed.

Lemma ser256_length k : length (ser256 k) = 32%nat.
Proof. apply be_bytes_length. Qed.
Lemma ser32_length i : length (ser32 i) = 4%nat.
Proof. apply be_bytes_length. Qed.

Lemma hardened_N i : (0 <= i)%Z -> (2 ^ 31 <=? Z.to_N i) = hardened i.
Proof. intros Hi. unfold hardened. destruct (N.leb_spec (2 ^ 31) (Z.to_N i)), (Z.leb_spec (2 ^ 31) i); auto; lia. Qed.

Lemma out_of_range_spec b :
  out_of_range (set_bytes b) = (Bip32Spec.n <=? parse256 b)%Z || (parse256 b =? 0)%Z.
Proof.
  unfold out_of_range, parse256, set_bytes. rewrite <- tie_nN.
  destruct (N.leb_spec secp_nN (be_value b 0)), (Z.leb_spec (Z.of_N secp_nN) (Z.of_N (be_value b 0))),
           (N.eqb_spec (be_value b 0) 0), (Z.eqb_spec (Z.of_N (be_value b 0)) 0); auto; lia.
Qed.

Section Conform.
Variable point : Type.
Variable hmac512 : list N -> list N -> list N.
Variable point_of_scalar : Z -> point.
Variable padd : point -> point -> point.
Variable pzero : point -> bool.
Variable ser_point : point -> list N.
Variable parse_point : list N -> res point.
Variable hash160 : list N -> list N.
Variable dsha : list N -> list N.

(* what the proofs need of the dependencies *)
Hypothesis H_hmac_len : forall k d, length (hmac512 k d) = 64%nat.
Hypothesis H_hmac_bytes : forall k d, Bytes (hmac512 k d).
Hypothesis H_h160_len : forall m, length (hash160 m) = 20%nat.
Hypothesis H_ser_len : forall P, length (ser_point P) = 33%nat.
Hypothesis H_parse_ser : forall P, pzero P = false -> parse_point (ser_point P) = Ok P.
Hypothesis H_mul_nonzero : forall a, (0 < a < Bip32Spec.n)%Z -> pzero (point_of_scalar a) = false.
Hypothesis H_hom : forall a b, (0 <= a < Bip32Spec.n)%Z -> (0 <= b < Bip32Spec.n)%Z ->
  point_of_scalar ((a + b) mod Bip32Spec.n) = padd (point_of_scalar a) (point_of_scalar b).

Ltac clear_vars := try clear dsha; try clear hash160; try clear parse_point; try clear ser_point; try clear pzero;
  try clear padd; try clear point_of_scalar; try clear hmac512; try clear point.
Local Notation child := (child point hmac512 point_of_scalar padd pzero ser_point parse_point hash160).
Local Notation neuter := (neuter point point_of_scalar ser_point).
Local Notation new_master := (new_master hmac512).
Local Notation pubkey_bytes := (pubkey_bytes point point_of_scalar ser_point).
Local Notation derive := (derive point hmac512 point_of_scalar padd pzero ser_point parse_point hash160).
Local Notation I_priv := (I_priv point hmac512 point_of_scalar ser_point).
Local Notation I_pub := (I_pub point hmac512 ser_point).
Local Notation CKDpriv := (CKDpriv point hmac512 point_of_scalar ser_point).
Local Notation CKDpub := (CKDpub point hmac512 point_of_scalar padd pzero ser_point).
Local Notation child_priv_node := (child_priv_node point hmac512 point_of_scalar ser_point hash160).
Local Notation child_pub_node := (child_pub_node point hmac512 point_of_scalar padd pzero ser_point hash160).
Local Notation master_node := (master_node hmac512).
Local Notation fingerprint := (fingerprint point ser_point hash160).
Local Notation identifier := (identifier point ser_point hash160).
Local Notation derive_priv := (derive_priv point hmac512 point_of_scalar ser_point hash160).
Local Notation derive_pub := (derive_pub point hmac512 point_of_scalar padd pzero ser_point hash160).
Local Notation derive_from_seed := (derive_from_seed point hmac512 point_of_scalar padd pzero ser_point parse_point hash160).
Local Notation to_string := (to_string point point_of_scalar ser_point dsha).
Local Notation payload := (payload point point_of_scalar ser_point).
Local Notation address := (address point point_of_scalar ser_point hash160).
Local Notation string_priv := (string_priv dsha).
Local Notation string_pub := (string_pub point ser_point dsha).

(* a specification node as a Go ExtendedKey *)
Definition embed_priv (ver : list N) (nd : priv_node) : xkey :=
  mk_xkey ver (ser256 (s_k nd)) (s_c nd) (s_fp nd) (Z.to_N (s_depth nd)) (Z.to_N (s_index nd)) true.
Definition embed_pub (ver : list N) (nd : pub_node point) : xkey :=
  mk_xkey ver (ser_point (p_K nd)) (p_c nd) (p_fp nd) (Z.to_N (p_depth nd)) (Z.to_N (p_index nd)) false.
Definition embed_res {A} (f : A -> xkey) (o : option A) : res xkey :=
  match o with Some a => Ok (f a) | None => Err E_invalid_child end.

Lemma half64 k d : (length (hmac512 k d) / 2 = 32)%nat.
Proof using H_hmac_len.
  clear H_hmac_bytes H_h160_len H_ser_len H_parse_ser H_mul_nonzero H_hom; clear_vars. rewrite H_hmac_len. reflexivity. Qed.

(* ---------- Child on a private key with a 32-byte scalar, in closed form ---------- *)
Lemma child_priv_eq k i :
  xk_priv k = true -> xk_depth k <> 255 -> length (xk_key k) = 32%nat ->
  child k i =
    let P := point_of_scalar (scalar_of (xk_key k)) in
    let I := hmac512 (xk_chain k) ((if 2 ^ 31 <=? i then [0] ++ xk_key k else ser_point P) ++ be_bytes 4 i) in
    let il := set_bytes (firstn 32 I) in
    if out_of_range il then Err E_invalid_child else
    Ok (mk_xkey (xk_version k) (be_bytes 32 ((il + set_bytes (xk_key k)) mod secp_nN)) (skipn 32 I)
                (firstn 4 (hash160 (ser_point P))) (xk_depth k + 1) i true).
Proof using H_hmac_len H_ser_len.
  clear H_hmac_bytes H_h160_len H_parse_ser H_mul_nonzero H_hom; clear_vars.
  intros Hp Hd Hl. unfold HD.child. tie_child. rewrite const_maxUint8, const_HardenedKeyStart.
  unfold HD.pubkey_bytes. rewrite Hp. cbv zeta.
  destruct (N.eqb_spec (xk_depth k) 255) as [|_]; [contradiction|].
  cbn [negb andb].
  change (33 - 1)%nat with 32%nat. rewrite (copy_to_exact 32 _ Hl), (copy_to_exact 33 _ (H_ser_len _)).
  change (repeat 0 1) with [0].
  set (P := point_of_scalar (scalar_of (xk_key k))).
  set (I := hmac512 (xk_chain k) _).
  assert (HI : (length I / 2 = 32)%nat) by apply half64. rewrite HI.
  destruct (out_of_range (set_bytes (firstn 32 I))); [reflexivity|].
  cbn [rbind]. rewrite pad_if_short.
  - reflexivity.
  - pose proof secp_n_bound. pose proof secp_n_pos.
    assert ((set_bytes (firstn 32 I) + set_bytes (xk_key k)) mod secp_nN < secp_nN) by (apply N.mod_lt; lia). lia.
Qed.

Theorem child_priv_conforms ver nd i :
  (0 < s_k nd < Bip32Spec.n)%Z -> (0 <= s_depth nd < 255)%Z -> (0 <= i < 2 ^ 32)%Z ->
  let il := parse256 (IL (I_priv (s_k nd) (s_c nd) i)) in
  il <> 0%Z ->
  ((il < Bip32Spec.n)%Z -> ((il + s_k nd) mod Bip32Spec.n <> 0)%Z) ->
  child (embed_priv ver nd) (Z.to_N i) = embed_res (embed_priv ver) (child_priv_node nd i).
Proof using H_hmac_len H_ser_len.
  clear H_hmac_bytes H_h160_len H_parse_ser H_mul_nonzero H_hom; clear_vars.
  intros Hk Hd Hi il Hil0 Hki.
  rewrite child_priv_eq; cbn [embed_priv xk_depth xk_priv xk_key xk_chain xk_version xk_fp xk_childnum];
    [ | reflexivity | lia | apply ser256_length ].
  cbv zeta. rewrite scalar_of_ser256, set_bytes_ser256 by lia. rewrite hardened_N by lia.
  assert (EI : hmac512 (s_c nd) ((if hardened i then [0] ++ ser256 (s_k nd) else ser_point (point_of_scalar (s_k nd))) ++
                                 be_bytes 4 (Z.to_N i)) = I_priv (s_k nd) (s_c nd) i).
  { unfold Bip32Spec.I_priv, ser32. destruct (hardened i); [rewrite <- app_assoc|]; reflexivity. }
  rewrite EI. clear EI.
  unfold Bip32Spec.child_priv_node, Bip32Spec.CKDpriv.
  fold (IL (I_priv (s_k nd) (s_c nd) i)). rewrite out_of_range_spec. fold il.
  destruct (Z.leb_spec Bip32Spec.n il) as [Hge|Hlt]; cbn [orb].
  - reflexivity.
  - destruct (Z.eqb_spec il 0) as [|_]; [contradiction|].
    specialize (Hki Hlt). destruct (Z.eqb_spec ((il + s_k nd) mod Bip32Spec.n) 0) as [|_]; [contradiction|].
    cbn [orb embed_res embed_priv s_k s_c s_depth s_fp s_index]. f_equal. unfold set_bytes, embed_priv.
    cbn [s_k s_c s_depth s_fp s_index]. f_equal.
    + unfold ser256. f_equal. unfold il, parse256 in Hil0, Hki, Hlt |- *. fold (IL (I_priv (s_k nd) (s_c nd) i)) in Hil0, Hki, Hlt |- *.
      set (v := be_value _ 0) in Hil0, Hki, Hlt |- *. pose proof tie_nN.
      apply N2Z.inj. rewrite N2Z.inj_mod, N2Z.inj_add, !Z2N.id; try lia.
      rewrite H. reflexivity.
    + lia.
Qed.

(* ---------- Child on a public key holding a serialised, non-zero point ---------- *)
Lemma child_pub_eq k K i :
  xk_priv k = false -> xk_depth k <> 255 -> xk_key k = ser_point K -> pzero K = false -> i < 2 ^ 31 ->
  child k i =
    let I := hmac512 (xk_chain k) (ser_point K ++ be_bytes 4 i) in
    let il := set_bytes (firstn 32 I) in
    if out_of_range il then Err E_invalid_child else
    if pzero (point_of_scalar (Z.of_N il)) then Err E_invalid_child else
    Ok (mk_xkey (xk_version k) (ser_point (padd (point_of_scalar (Z.of_N il)) K)) (skipn 32 I)
                (firstn 4 (hash160 (ser_point K))) (xk_depth k + 1) i false).
Proof using H_hmac_len H_ser_len H_parse_ser.
  clear H_hmac_bytes H_h160_len H_mul_nonzero H_hom; clear_vars.
  intros Hp Hd Hk HK Hi. unfold HD.child. tie_child. rewrite const_maxUint8, const_HardenedKeyStart.
  unfold HD.pubkey_bytes. rewrite Hp, Hk. cbv zeta.
  destruct (N.eqb_spec (xk_depth k) 255) as [|_]; [contradiction|].
  destruct (N.leb_spec (2 ^ 31) i) as [|_]; [lia|].
  cbn [negb andb]. rewrite (copy_to_exact 33 _ (H_ser_len _)).
  set (I := hmac512 (xk_chain k) _).
  assert (HI : (length I / 2 = 32)%nat) by apply half64. rewrite HI.
  destruct (out_of_range (set_bytes (firstn 32 I))); [reflexivity|].
  destruct (pzero (point_of_scalar (Z.of_N (set_bytes (firstn 32 I))))); [reflexivity|].
  rewrite (H_parse_ser K HK). reflexivity.
Qed.

Definition embed_pub_res (ver : list N) (r : option (pub_node point)) : res xkey :=
  match r with Some nd => Ok (embed_pub ver nd) | None => Err E_invalid_child end.

Theorem child_pub_conforms ver nd i :
  pzero (p_K nd) = false -> (0 <= p_depth nd < 255)%Z -> (0 <= i < 2 ^ 31)%Z ->
  let il := parse256 (IL (I_pub (p_K nd) (p_c nd) i)) in
  il <> 0%Z ->                                                                   (* the code also refuses IL = 0 *)
  ((il < Bip32Spec.n)%Z -> pzero (padd (point_of_scalar il) (p_K nd)) = false) -> (* the code does not test K_i = infinity *)
  child (embed_pub ver nd) (Z.to_N i) = embed_pub_res ver (child_pub_node nd i).
Proof using H_hmac_len H_ser_len H_parse_ser H_mul_nonzero.
  clear H_hmac_bytes H_h160_len H_hom; clear_vars.
  intros HK Hd Hi il Hil0 Hinf.
  rewrite (child_pub_eq _ (p_K nd)); cbn [embed_pub xk_depth xk_priv xk_key xk_chain xk_version xk_fp xk_childnum];
    [ | reflexivity | lia | reflexivity | exact HK | lia ].
  cbv zeta.
  change (hmac512 (p_c nd) (ser_point (p_K nd) ++ be_bytes 4 (Z.to_N i))) with (I_pub (p_K nd) (p_c nd) i).
  unfold Bip32Spec.child_pub_node, Bip32Spec.CKDpub.
  assert (Hh : hardened i = false) by (unfold hardened; destruct (Z.leb_spec (2 ^ 31) i); [lia | reflexivity]).
  rewrite Hh. fold (IL (I_pub (p_K nd) (p_c nd) i)). rewrite out_of_range_spec. fold il.
  assert (Eil : Z.of_N (set_bytes (IL (I_pub (p_K nd) (p_c nd) i))) = il) by reflexivity.
  rewrite Eil.
  destruct (Z.leb_spec Bip32Spec.n il) as [Hge|Hlt]; cbn [orb].
  - reflexivity.
  - destruct (Z.eqb_spec il 0) as [|_]; [contradiction|].
    assert (Hpos : (0 <= il)%Z) by (unfold il, parse256; lia).
    rewrite H_mul_nonzero by lia.
    rewrite (Hinf Hlt). cbn [embed_pub_res].
    unfold embed_pub. cbn [p_K p_c p_depth p_fp p_index]. f_equal. f_equal. lia.
Qed.

(* ---------- Neuter and Child commute on non-hardened indices ---------- *)
Lemma scalar_of_be_bytes32 v : v < secp_nN -> scalar_of (be_bytes 32 v) = Z.of_N v.
Proof using.
  clear H_hmac_len H_hmac_bytes H_h160_len H_ser_len H_parse_ser H_mul_nonzero H_hom; clear_vars.
  intros Hv. unfold scalar_of, set_bytes. rewrite be_value_be_bytes; [reflexivity|].
  pose proof secp_n_bound. lia.
Qed.

Theorem neuter_commutes k i v :
  xk_priv k = true -> length (xk_key k) = 32%nat -> 0 < set_bytes (xk_key k) < secp_nN ->
  i < 2 ^ 31 -> priv_to_pub_id (xk_version k) = Ok v ->
  (do kn <- neuter k ;; child kn i) = (do c <- child k i ;; neuter c).
Proof using H_hmac_len H_ser_len H_parse_ser H_mul_nonzero H_hom.
  clear H_hmac_bytes H_h160_len; clear_vars.
  intros Hp Hl Hk Hi Hv.
  set (P := point_of_scalar (scalar_of (xk_key k))).
  assert (HP : pzero P = false).
  { apply H_mul_nonzero. unfold scalar_of. rewrite <- tie_nN. lia. }
  unfold HD.neuter at 1. rewrite Hp, Hv. cbn [negb rbind]. unfold HD.pubkey_bytes. rewrite Hp. fold P.
  destruct (N.eq_dec (xk_depth k) 255) as [Hd|Hd].
  { rewrite !guard_depth by (cbn [xk_depth]; exact Hd). reflexivity. }
  rewrite (child_pub_eq _ P) by (cbn [xk_priv xk_depth xk_key]; auto).
  rewrite child_priv_eq by assumption.
  cbn [xk_chain xk_version xk_depth]. cbv zeta. fold P.
  destruct (N.leb_spec (2 ^ 31) i) as [|_]; [lia|].
  set (I := hmac512 (xk_chain k) (ser_point P ++ be_bytes 4 i)).
  destruct (out_of_range (set_bytes (firstn 32 I))) eqn:Eo; [reflexivity|].
  apply out_of_range_false in Eo. set (il := set_bytes (firstn 32 I)) in Eo |- *.
  rewrite H_mul_nonzero by (rewrite <- tie_nN; lia).
  cbn [rbind]. unfold HD.neuter. cbn [xk_priv xk_version xk_chain xk_fp xk_depth xk_childnum negb].
  rewrite Hv. cbn [rbind]. unfold HD.pubkey_bytes. cbn [xk_priv xk_key].
  assert (Hm : (il + set_bytes (xk_key k)) mod secp_nN < secp_nN) by (apply N.mod_lt; lia).
  rewrite scalar_of_be_bytes32 by exact Hm.
  rewrite N2Z.inj_mod, N2Z.inj_add, tie_nN.
  rewrite H_hom by (rewrite <- tie_nN; lia).
  reflexivity.
Qed.

(* ---------- NewMaster ---------- *)
Theorem master_conforms seed nt :
  seed_length_ok seed ->
  new_master seed nt =
    match master_node seed with Some nd => Ok (embed_priv (hd_priv_id nt) nd) | None => Err E_unusable end.
Proof using H_hmac_len H_hmac_bytes.
  clear H_h160_len H_ser_len H_parse_ser H_mul_nonzero H_hom; clear_vars.
  intros [Hlo Hhi]. unfold HD.new_master. tie_master. destruct const_seed_bounds as [-> ->].
  destruct (Nat.ltb_spec (length seed) 16); [lia|]. destruct (Nat.ltb_spec 64 (length seed)); [lia|].
  cbn [orb]. cbv zeta. rewrite tie_masterKey.
  set (I := hmac512 bitcoin_seed seed).
  assert (HI : (length I / 2 = 32)%nat) by apply half64. rewrite HI.
  unfold Bip32Spec.master_node, Bip32Spec.master. fold I. fold (IL I). rewrite out_of_range_spec.
  rewrite orb_comm.
  destruct ((parse256 (IL I) =? 0)%Z || (Bip32Spec.n <=? parse256 (IL I))%Z) eqn:E; [reflexivity|].
  unfold embed_priv. cbn [s_k s_c s_depth s_fp s_index]. f_equal. f_equal.
  unfold ser256, parse256. rewrite N2Z.id. symmetry. apply be_bytes_unique.
  - apply Bytes_firstn. apply H_hmac_bytes.
  - unfold IL. rewrite firstn_length. unfold I. rewrite H_hmac_len. reflexivity.
Qed.

(* ---------- whole paths ---------- *)
(* the two places where the code's validity test differs from the BIP's (DESIGN C04): excluded along the path *)
Fixpoint nogap_priv (nd : priv_node) (path : list Z) : Prop :=
  match path with
  | [] => True
  | i :: t =>
      let il := parse256 (IL (I_priv (s_k nd) (s_c nd) i)) in
      il <> 0%Z /\ ((il < Bip32Spec.n)%Z -> ((il + s_k nd) mod Bip32Spec.n <> 0)%Z) /\
      match child_priv_node nd i with Some c => nogap_priv c t | None => True end
  end.

Fixpoint nogap_pub (nd : pub_node point) (path : list Z) : Prop :=
  match path with
  | [] => True
  | i :: t =>
      let il := parse256 (IL (I_pub (p_K nd) (p_c nd) i)) in
      il <> 0%Z /\ ((il < Bip32Spec.n)%Z -> pzero (padd (point_of_scalar il) (p_K nd)) = false) /\
      match child_pub_node nd i with Some c => nogap_pub c t | None => True end
  end.

Definition index_ok (i : Z) : Prop := (0 <= i < 2 ^ 32)%Z.
Definition normal_index (i : Z) : Prop := (0 <= i < 2 ^ 31)%Z.

Lemma child_priv_node_range nd i c :
  child_priv_node nd i = Some c -> (0 < s_k c < Bip32Spec.n)%Z /\ s_depth c = (s_depth nd + 1)%Z.
Proof using.
  clear H_hmac_len H_hmac_bytes H_h160_len H_ser_len H_parse_ser H_mul_nonzero H_hom; clear_vars.
  unfold Bip32Spec.child_priv_node, Bip32Spec.CKDpriv.
  set (I := I_priv _ _ _). set (ki := ((parse256 (IL I) + s_k nd) mod Bip32Spec.n)%Z).
  destruct (Z.leb_spec Bip32Spec.n (parse256 (IL I))); cbn [orb]; [discriminate|].
  destruct (Z.eqb_spec ki 0); [discriminate|]. intros Hs. injection Hs as <-. cbn [s_k s_depth].
  assert (0 <= ki < Bip32Spec.n)%Z by (apply Z.mod_pos_bound; reflexivity). split; [lia | reflexivity].
Qed.

Theorem path_conforms ver path : forall nd,
  (0 < s_k nd < Bip32Spec.n)%Z -> (0 <= s_depth nd)%Z -> (s_depth nd + Z.of_nat (length path) <= 255)%Z ->
  Forall index_ok path -> nogap_priv nd path ->
  derive (embed_priv ver nd) (map Z.to_N path) = embed_res (embed_priv ver) (derive_priv nd path).
Proof using H_hmac_len H_ser_len.
  clear H_hmac_bytes H_h160_len H_parse_ser H_mul_nonzero H_hom; clear_vars.
  induction path as [|i t IH]; intros nd Hk Hd0 Hd Hidx Hgap.
  - reflexivity.
  - inversion Hidx as [|? ? Hi Ht]; subst. destruct Hgap as [G1 [G2 G3]].
    cbn [map HD.derive Bip32Spec.derive_priv length] in Hd, G3 |- *.
    rewrite child_priv_conforms by (auto; lia).
    destruct (child_priv_node nd i) as [c|] eqn:Ec; cbn [embed_res rbind]; [|reflexivity].
    destruct (child_priv_node_range _ _ _ Ec) as [Hkc Hdc].
    apply IH; auto; lia.
Qed.

Lemma child_pub_node_range nd i c :
  child_pub_node nd i = Some c -> pzero (p_K c) = false /\ p_depth c = (p_depth nd + 1)%Z.
Proof using.
  clear H_hmac_len H_hmac_bytes H_h160_len H_ser_len H_parse_ser H_mul_nonzero H_hom; clear_vars.
  unfold Bip32Spec.child_pub_node, Bip32Spec.CKDpub. destruct (hardened i); [discriminate|].
  set (I := I_pub _ _ _).
  destruct (Z.leb_spec Bip32Spec.n (parse256 (IL I))); cbn [orb]; [discriminate|].
  destruct (pzero _) eqn:E; [discriminate|]. intros Hs. injection Hs as <-. cbn [p_K p_depth]. auto.
Qed.

Theorem path_conforms_pub ver path : forall nd,
  pzero (p_K nd) = false -> (0 <= p_depth nd)%Z -> (p_depth nd + Z.of_nat (length path) <= 255)%Z ->
  Forall normal_index path -> nogap_pub nd path ->
  derive (embed_pub ver nd) (map Z.to_N path) = embed_pub_res ver (derive_pub nd path).
Proof using H_hmac_len H_ser_len H_parse_ser H_mul_nonzero.
  clear H_hmac_bytes H_h160_len H_hom; clear_vars.
  induction path as [|i t IH]; intros nd HK Hd0 Hd Hidx Hgap.
  - reflexivity.
  - inversion Hidx as [|? ? Hi Ht]; subst. destruct Hgap as [G1 [G2 G3]].
    cbn [map HD.derive Bip32Spec.derive_pub length] in Hd, G3 |- *.
    rewrite child_pub_conforms by (auto; lia).
    destruct (child_pub_node nd i) as [c|] eqn:Ec; cbn [embed_pub_res rbind]; [|reflexivity].
    destruct (child_pub_node_range _ _ _ Ec) as [HKc Hdc].
    apply IH; auto; lia.
Qed.

(* from any legal seed *)
Theorem seed_path_conforms seed nt path :
  seed_length_ok seed -> (length path <= 255)%nat -> Forall index_ok path ->
  match master_node seed with Some m => nogap_priv m path | None => True end ->
  derive_from_seed seed nt (map Z.to_N path) =
    match master_node seed with
    | Some m => embed_res (embed_priv (hd_priv_id nt)) (derive_priv m path)
    | None => Err E_unusable
    end.
Proof using H_hmac_len H_hmac_bytes H_ser_len.
  clear H_h160_len H_parse_ser H_mul_nonzero H_hom; clear_vars.
  intros Hs Hl Hidx Hgap. unfold HD.derive_from_seed. rewrite master_conforms by exact Hs.
  destruct (master_node seed) as [m|] eqn:Em; cbn [rbind]; [|reflexivity].
  unfold Bip32Spec.master_node, Bip32Spec.master in Em.
  set (I := hmac512 bitcoin_seed seed) in Em |- *.
  destruct (Z.eqb_spec (parse256 (IL I)) 0) as [|Hne]; cbn [orb] in Em; [discriminate|].
  destruct (Z.leb_spec Bip32Spec.n (parse256 (IL I))) as [|Hlt]; [discriminate|].
  injection Em as <-.
  apply path_conforms; cbn [s_k s_depth]; auto; try lia.
  unfold parse256 in Hne, Hlt |- *. lia.
Qed.

(* ---------- what a node's embedding prints: String, Address, Neuter ---------- *)
Lemma string_priv_conforms ver nd :
  to_string (embed_priv ver nd) = string_priv ver nd.
Proof using.
  clear H_hmac_len H_hmac_bytes H_h160_len H_ser_len H_parse_ser H_mul_nonzero H_hom; clear_vars.
  unfold HD.to_string, HD.payload, HD.cks4, embed_priv. tie_string.
  cbn [xk_key xk_priv xk_version xk_depth xk_fp xk_childnum xk_chain].
  rewrite ser256_length. cbn [Nat.eqb].
  rewrite padded_append_exact by apply ser256_length.
  reflexivity.
Qed.

Lemma string_pub_conforms ver nd :
  to_string (embed_pub ver nd) = string_pub ver nd.
Proof using H_ser_len.
  clear H_hmac_len H_hmac_bytes H_h160_len H_parse_ser H_mul_nonzero H_hom; clear_vars.
  unfold HD.to_string, HD.payload, HD.cks4, HD.pubkey_bytes, embed_pub. tie_string.
  cbn [xk_key xk_priv xk_version xk_depth xk_fp xk_childnum xk_chain].
  rewrite H_ser_len. cbn [Nat.eqb]. reflexivity.
Qed.

Lemma address_priv_conforms ver nd :
  (0 <= s_k nd < Bip32Spec.n)%Z -> address (embed_priv ver nd) = Ok (identifier (point_of_scalar (s_k nd))).
Proof using H_h160_len.
  clear H_hmac_len H_hmac_bytes H_ser_len H_parse_ser H_mul_nonzero H_hom; clear_vars.
  intros Hk. unfold HD.address, HD.pubkey_bytes, embed_priv. cbn [xk_key xk_priv].
  rewrite scalar_of_ser256 by exact Hk. rewrite H_h160_len. reflexivity.
Qed.

Lemma address_pub_conforms ver nd : address (embed_pub ver nd) = Ok (identifier (p_K nd)).
Proof using H_h160_len.
  clear H_hmac_len H_hmac_bytes H_ser_len H_parse_ser H_mul_nonzero H_hom; clear_vars. unfold HD.address, HD.pubkey_bytes, embed_pub. cbn [xk_key xk_priv]. rewrite H_h160_len. reflexivity. Qed.

Lemma neuter_conforms ver pubver nd :
  (0 <= s_k nd < Bip32Spec.n)%Z -> priv_to_pub_id ver = Ok pubver ->
  neuter (embed_priv ver nd) = Ok (embed_pub pubver (neuter_node point point_of_scalar nd)).
Proof using.
  clear H_hmac_len H_hmac_bytes H_h160_len H_ser_len H_parse_ser H_mul_nonzero H_hom; clear_vars.
  intros Hk Hv. unfold HD.neuter, HD.pubkey_bytes, embed_priv, embed_pub, neuter_node.
  cbn [xk_key xk_priv xk_version xk_depth xk_fp xk_childnum xk_chain negb p_K p_c p_depth p_fp p_index].
  rewrite Hv. cbn [rbind]. rewrite scalar_of_ser256 by exact Hk. reflexivity.
Qed.

(* every network's private id is registered with its public id *)
Lemma registered_ids : forallb (fun nt => match priv_to_pub_id (hd_priv_id nt) with
                                         | Ok p => list_eqb p (hd_pub_id nt) | _ => false end) all_nets = true.
Proof using.
  clear H_hmac_len H_hmac_bytes H_h160_len H_ser_len H_parse_ser H_mul_nonzero H_hom; clear_vars. reflexivity. Qed.

Lemma priv_to_pub_id_net nt : In nt all_nets -> priv_to_pub_id (hd_priv_id nt) = Ok (hd_pub_id nt).
Proof using.
  clear H_hmac_len H_hmac_bytes H_h160_len H_ser_len H_parse_ser H_mul_nonzero H_hom; clear_vars.
  intros Hin. pose proof registered_ids as H. rewrite forallb_forall in H. specialize (H nt Hin).
  destruct (priv_to_pub_id (hd_priv_id nt)) as [p| |]; try discriminate. apply list_eqb_eq in H. congruence.
Qed.

(* ---------- key length on everything reachable ---------- *)
Lemma child_key_length k i c :
  child k i = Ok c -> xk_priv c = xk_priv k /\ length (xk_key c) = if xk_priv k then 32%nat else 33%nat.
Proof using H_ser_len.
  clear H_hmac_len H_hmac_bytes H_h160_len H_parse_ser H_mul_nonzero H_hom; clear_vars.
  unfold HD.child. tie_child. cbv zeta.
  destruct (xk_depth k =? maxUint8); [discriminate|].
  destruct (negb (xk_priv k) && (HardenedKeyStart <=? i)); [discriminate|].
  set (ilr := hmac512 _ _).
  destruct (out_of_range (set_bytes (firstn (length ilr / 2) ilr))); [discriminate|].
  destruct (xk_priv k) eqn:Hp.
  - cbn [rbind]. intros H. injection H as <-. cbn [xk_priv xk_key]. split; [reflexivity|].
    rewrite pad_if_short; [apply be_bytes_length|].
    pose proof secp_n_bound. pose proof secp_n_pos.
    match goal with |- ?a mod _ < _ => assert (a mod secp_nN < secp_nN) by (apply N.mod_lt; lia) end. lia.
  - destruct (pzero _); [discriminate|].
    destruct (parse_point (xk_key k)) as [K| |]; cbn [rbind]; try discriminate.
    intros H. injection H as <-. cbn [xk_priv xk_key]. split; [reflexivity | apply H_ser_len].
Qed.

Inductive reachable : xkey -> Prop :=
| reach_master seed nt k : new_master seed nt = Ok k -> reachable k
| reach_child k i c : reachable k -> child k i = Ok c -> reachable c
| reach_neuter k c : reachable k -> neuter k = Ok c -> reachable c.

Theorem key_length_invariant k :
  reachable k -> length (xk_key k) = if xk_priv k then 32%nat else 33%nat.
Proof using H_hmac_len H_ser_len.
  clear H_hmac_bytes H_h160_len H_parse_ser H_mul_nonzero H_hom; clear_vars.
  induction 1 as [seed nt k Hm | k i c Hr IH Hc | k c Hr IH Hn].
  - unfold HD.new_master in Hm. tie_master_in Hm. cbv zeta in Hm.
    destruct (_ || _)%bool in Hm; [discriminate|].
    destruct (out_of_range _) in Hm; [discriminate|]. injection Hm as <-. cbn [xk_priv xk_key].
    rewrite firstn_length, H_hmac_len. reflexivity.
  - destruct (child_key_length _ _ _ Hc) as [Ep El]. rewrite Ep. exact El.
  - unfold HD.neuter in Hn. destruct (xk_priv k) eqn:Hp; cbn [negb] in Hn.
    + destruct (priv_to_pub_id (xk_version k)); cbn [rbind] in Hn; try discriminate.
      injection Hn as <-. cbn [xk_priv xk_key]. unfold HD.pubkey_bytes. rewrite Hp. apply H_ser_len.
    + injection Hn as <-. rewrite Hp. exact IH.
Qed.
End Conform.

(* ---------- the two gaps between the code's validity test and the BIP's, exhibited with artificial oracles ----------
   (a real input would need an HMAC-SHA512 output whose left half is 0, resp. n - k_par: a preimage problem) *)
Definition gap_point_of (a : Z) : Z := (a mod Bip32Spec.n)%Z.          (* the group Z_n itself *)
Definition gap_padd (a b : Z) : Z := ((a + b) mod Bip32Spec.n)%Z.
Definition gap_pzero (a : Z) : bool := (a =? 0)%Z.
Definition gap_ser (a : Z) : list N := 2 :: be_bytes 32 (Z.to_N a).
Definition gap_parse (b : list N) : res Z := Err E_pubkey.
Definition gap_h160 (m : list N) : list N := repeat 0 20.
Definition gap_node : priv_node := mk_priv 1 (repeat 7 32) 0 [0;0;0;0] 0.

(* (b) IL = n - k_par: the code returns the all-zero key, the BIP marks the child invalid *)
Theorem child_zero_gap :
  exists hmac : list N -> list N -> list N,
    HD.child Z hmac gap_point_of gap_padd gap_pzero gap_ser gap_parse gap_h160 (embed_priv [4;136;173;228] gap_node) 0
      = Ok (mk_xkey [4;136;173;228] (repeat 0 32) (repeat 9 32) (repeat 0 4) 1 0 true) /\
    child_priv_node Z hmac gap_point_of gap_ser gap_h160 gap_node 0 = None.
Proof.
  exists (fun _ _ => be_bytes 32 (Z.to_N (Bip32Spec.n - 1)) ++ repeat 9 32).
  split; vm_compute; reflexivity.
Qed.

(* (a) IL = 0: the code refuses the index, the BIP accepts it (k_i = k_par) *)
Theorem child_ilzero_gap :
  exists hmac : list N -> list N -> list N,
    HD.child Z hmac gap_point_of gap_padd gap_pzero gap_ser gap_parse gap_h160 (embed_priv [4;136;173;228] gap_node) 0
      = Err E_invalid_child /\
    child_priv_node Z hmac gap_point_of gap_ser gap_h160 gap_node 0 <> None.
Proof.
  exists (fun _ _ => repeat 0 32 ++ repeat 9 32).
  split; vm_compute; [reflexivity | discriminate].
Qed.

(* Model of hdkeychain/extendedkey.go: NewMaster, Child, Neuter, pubKeyBytes, paddedAppend, String,
   NewKeyFromString, Address, ECPubKey, ECPrivKey, SetNet, IsForNet.

   Dependencies are Section variables (DESIGN section 8): HMAC-SHA512, secp256k1 (base-point scalar
   multiplication, addition, compressed serialisation, bchec.ParsePubKey = format + decompression +
   on-curve test), HASH160, double SHA-256.  Keys are BYTE LISTS exactly as in the Go struct, so a
   child key that is not left-padded to 32 bytes is a representable (wrong) state.

   Not modelled here: the memoised pubKey buffer (the model recomputes it; the memo is only ever
   written by pubKeyBytes with the value recomputed here) and buffer identity/aliasing (C15).

   Literals and constants come from Gen.Xhdkeychain (regenerated from the Go source on every run). *)
From BU Require Import Lib.Bytes Lib.Radix Lib.PolyMod Base58.Base58 Gen.Xhdkeychain Gen.Nets.

(* the order of secp256k1 (bchec.S256().N); the harness compares it with the linked library on every run *)
Definition secp_n : Z := 115792089237316195423570985008687907852837564279074904382605163141518161494337%Z.
Definition secp_nN : N := Z.to_N secp_n.

(* ---------- constants and literals of the source ---------- *)
Definition HardenedKeyStart : N := Z.to_N c_HardenedKeyStart.
Definition MinSeedBytes : nat := Z.to_nat c_MinSeedBytes.
Definition MaxSeedBytes : nat := Z.to_nat c_MaxSeedBytes.
Definition serializedKeyLen : nat := Z.to_nat c_serializedKeyLen.
Definition maxUint8 : N := Z.to_N c_maxUint8.
Definition masterKey : list N := c_masterKey.

Definition LC (i : nat) : nat := N.to_nat (lit lits_ExtendedKey_Child i).
Definition LS (i : nat) : nat := N.to_nat (lit lits_ExtendedKey_String i).
Definition LP (i : nat) : nat := N.to_nat (lit lits_NewKeyFromString i).
Definition LM (i : nat) : nat := N.to_nat (lit lits_NewMaster i).

(* error classes (never error text) *)
Definition E_depth : N := 1.        (* ErrDeriveBeyondMaxDepth *)
Definition E_hardpub : N := 2.      (* ErrDeriveHardFromPublic *)
Definition E_invalid_child : N := 3. (* ErrInvalidChild *)
Definition E_pubkey : N := 4.       (* any error of bchec.ParsePubKey *)
Definition E_seedlen : N := 5.      (* ErrInvalidSeedLen *)
Definition E_unusable : N := 6.     (* ErrUnusableSeed *)
Definition E_keylen : N := 7.       (* ErrInvalidKeyLen *)
Definition E_checksum : N := 8.     (* ErrBadChecksum *)
Definition E_unknown_id : N := 9.   (* chaincfg.ErrUnknownHDKeyID *)
Definition E_notpriv : N := 10.     (* ErrNotPrivExtKey *)
Definition E_addr : N := 11.        (* NewAddressPubKeyHash: hash must be 20 bytes *)

(* type ExtendedKey struct (without the memo field pubKey) *)
Record xkey := mk_xkey {
  xk_version : list N;
  xk_key : list N;        (* private: the scalar bytes; public: the compressed point *)
  xk_chain : list N;
  xk_fp : list N;
  xk_depth : N;           (* uint8 *)
  xk_childnum : N;        (* uint32 *)
  xk_priv : bool }.

(* dst := make([]byte, n); copy(dst, src) *)
Definition copy_to (n : nat) (src : list N) : list N := firstn n (src ++ repeat 0 n).

(* paddedAppend(size, dst, src) *)
Definition padded_append (size : nat) (dst src : list N) : list N :=
  dst ++ repeat 0 (size - length src) ++ src.

(* big.Int.SetBytes / big.Int.Bytes *)
Definition set_bytes (b : list N) : N := be_value b 0.
Definition big_bytes (v : N) : list N := digits 256 v.

(* "zeroed extended key" *)
Definition zeroed_string : list N :=
  [122;101;114;111;101;100;32;101;120;116;101;110;100;101;100;32;107;101;121].

Fixpoint assoc_bytes {A} (tab : list (list N * A)) (key : list N) : option A :=
  match tab with
  | [] => None
  | (k, v) :: t => if list_eqb k key then Some v else assoc_bytes t key
  end.

Section HD.
Variable point : Type.
Variable hmac512 : list N -> list N -> list N.      (* key, data *)
Variable point_of_scalar : Z -> point.              (* S256().ScalarBaseMult on the big-endian value *)
Variable padd : point -> point -> point.            (* S256().Add *)
Variable pzero : point -> bool.                     (* x.Sign() == 0 || y.Sign() == 0 *)
Variable ser_point : point -> list N.               (* SerializeCompressed *)
Variable parse_point : list N -> res point.         (* bchec.ParsePubKey (format, decompression, on-curve test); Err E_pubkey *)
Variable hash160 : list N -> list N.                (* bchutil.Hash160 *)
Variable dsha : list N -> list N.                   (* chainhash.DoubleHashB *)

Definition scalar_of (b : list N) : Z := Z.of_N (set_bytes b).

(* pubKeyBytes *)
Definition pubkey_bytes (k : xkey) : list N :=
  if xk_priv k then ser_point (point_of_scalar (scalar_of (xk_key k))) else xk_key k.

Definition out_of_range (v : N) : bool := (secp_nN <=? v) || (v =? 0).   (* Cmp(N) >= 0 || Sign() == 0 *)

(* The same test with the two integer literals of the source kept as parameters: `x.Cmp(N) >= c || x.Sign() == s`
   (big.Int.Cmp gives -1 / 0 / 1, Sign of a non-negative value 0 / 1).  Child and NewMaster use this form with the
   literals extracted from their bodies (review round 2): no input can reach IL = n or IL = 0 on the real code, so
   only the tie can notice `>= 1` or `== 1` there.  NewKeyFromString keeps [out_of_range]; its boundaries (0, n) are
   exercised directly by the C05 harness. *)
Definition cmp_n (v : N) : Z := match N.compare v secp_nN with Lt => (-1)%Z | Eq => 0%Z | Gt => 1%Z end.
Definition sign_n (v : N) : Z := if N.eqb v 0%N then 0%Z else 1%Z.
Definition out_of_range_lit (c s : Z) (v : N) : bool := (c <=? cmp_n v)%Z || (sign_n v =? s)%Z.
Definition child_out_of_range : N -> bool :=
  out_of_range_lit (Z.of_N (lit lits_ExtendedKey_Child 5)) (Z.of_N (lit lits_ExtendedKey_Child 6)).
Definition master_out_of_range : N -> bool :=
  out_of_range_lit (Z.of_N (lit lits_NewMaster 2)) (Z.of_N (lit lits_NewMaster 3)).

(* Child *)
Definition child (k : xkey) (i : N) : res xkey :=
  if xk_depth k =? maxUint8 then Err E_depth else
  let hardened := HardenedKeyStart <=? i in
  if negb (xk_priv k) && hardened then Err E_hardpub else
  let keyLen := LC 0 in
  (* data := make([]byte, keyLen+4); copy(data[1:], k.key) | copy(data, k.pubKeyBytes()); PutUint32(data[keyLen:], i) *)
  let data :=
    (if hardened then repeat 0 (LC 2) ++ copy_to (keyLen - LC 2) (xk_key k)
     else copy_to keyLen (pubkey_bytes k)) ++ be_bytes (LC 1) i in
  let ilr := hmac512 (xk_chain k) data in
  let il := firstn (length ilr / LC 3) ilr in
  let cc := skipn (length ilr / LC 4) ilr in
  let ilNum := set_bytes il in
  if child_out_of_range ilNum then Err E_invalid_child else
  do childKey <-
    (if xk_priv k then
       let v := (ilNum + set_bytes (xk_key k)) mod secp_nN in
       let raw := big_bytes v in
       Ok (if (length raw <? LC 7)%nat then repeat 0 (LC 8 - length raw) ++ raw else raw)
     else
       let P := point_of_scalar (Z.of_N ilNum) in
       if pzero P then Err E_invalid_child else
       do K <- parse_point (xk_key k) ;;
       Ok (ser_point (padd P K))) ;;
  let fp := firstn (LC 11) (hash160 (pubkey_bytes k)) in
  Ok (mk_xkey (xk_version k) childKey cc fp (xk_depth k + N.of_nat (LC 12)) i (xk_priv k)).

(* chaincfg.HDPrivateKeyToPublicKeyID on the registered networks (Gen.Nets) *)
Definition priv_to_pub_id (v : list N) : res (list N) :=
  match assoc_bytes hd_priv_to_pub v with Some p => Ok p | None => Err E_unknown_id end.

(* Neuter *)
Definition neuter (k : xkey) : res xkey :=
  if negb (xk_priv k) then Ok k else
  do v <- priv_to_pub_id (xk_version k) ;;
  Ok (mk_xkey v (pubkey_bytes k) (xk_chain k) (xk_fp k) (xk_depth k) (xk_childnum k) false).

(* NewMaster *)
Definition new_master (seed : list N) (nt : net) : res xkey :=
  if (length seed <? MinSeedBytes)%nat || (MaxSeedBytes <? length seed)%nat then Err E_seedlen else
  let lr := hmac512 masterKey seed in
  let sk := firstn (length lr / LM 0) lr in
  let cc := skipn (length lr / LM 1) lr in
  if master_out_of_range (set_bytes sk) then Err E_unusable else
  Ok (mk_xkey (hd_priv_id nt) sk cc
        [N.of_nat (LM 4); N.of_nat (LM 5); N.of_nat (LM 6); N.of_nat (LM 7)] (N.of_nat (LM 8)) (N.of_nat (LM 9)) true).

(* the 78 serialised bytes of String *)
Definition payload (k : xkey) : list N :=
  xk_version k ++ [xk_depth k] ++ xk_fp k ++ be_bytes (LS 1) (xk_childnum k) ++ xk_chain k ++
  (if xk_priv k then padded_append (LS 5) [N.of_nat (LS 4)] (xk_key k) else pubkey_bytes k).

Definition cks4 (p : list N) : list N := firstn (LS 6) (dsha p).

(* String *)
Definition to_string (k : xkey) : list N :=
  if (length (xk_key k) =? LS 0)%nat then zeroed_string
  else let p := payload k in Base58.encode (p ++ cks4 p).

Definition slice (a b : nat) (l : list N) : list N := firstn (b - a) (skipn a l).

(* NewKeyFromString *)
Definition parse (s : list N) : res xkey :=
  let decoded := Base58.decode s in
  if negb (length decoded =? serializedKeyLen + LP 0)%nat then Err E_keylen else
  let pl := firstn (length decoded - LP 1) decoded in
  let ck := skipn (length decoded - LP 2) decoded in
  if negb (list_eqb ck (firstn (LP 3) (dsha pl))) then Err E_checksum else
  let version := firstn (LP 4) pl in
  let depth := nth (LP 7) (slice (LP 5) (LP 6) pl) 0 in
  let fp := slice (LP 8) (LP 9) pl in
  let childnum := be_value (slice (LP 10) (LP 11) pl) 0 in
  let cc := slice (LP 12) (LP 13) pl in
  let keyData := slice (LP 14) (LP 15) pl in
  let isPrivate := nth (LP 16) keyData 0 =? N.of_nat (LP 17) in
  if isPrivate then
    let kd := skipn (LP 18) keyData in
    if out_of_range (set_bytes kd) then Err E_unusable
    else Ok (mk_xkey version kd cc fp depth childnum true)
  else
    do _ <- parse_point keyData ;;
    Ok (mk_xkey version keyData cc fp depth childnum false).

(* Address: the HASH160 the P2PKH address is built from (its text encoding is C01's subject) *)
Definition address (k : xkey) : res (list N) :=
  let h := hash160 (pubkey_bytes k) in
  if (length h =? 20)%nat then Ok h else Err E_addr.

Definition ec_pub (k : xkey) : res point := parse_point (pubkey_bytes k).
Definition ec_priv (k : xkey) : res N :=
  if xk_priv k then Ok (set_bytes (xk_key k)) else Err E_notpriv.

Definition is_for_net (k : xkey) (nt : net) : bool :=
  list_eqb (xk_version k) (hd_priv_id nt) || list_eqb (xk_version k) (hd_pub_id nt).
Definition set_net (k : xkey) (nt : net) : xkey :=
  mk_xkey (if xk_priv k then hd_priv_id nt else hd_pub_id nt) (xk_key k) (xk_chain k) (xk_fp k)
          (xk_depth k) (xk_childnum k) (xk_priv k).
Definition parent_fingerprint (k : xkey) : N := be_value (xk_fp k) 0.

(* derivation along a path, and the same followed by Neuter *)
Fixpoint derive (k : xkey) (path : list N) : res xkey :=
  match path with
  | [] => Ok k
  | i :: t => do k' <- child k i ;; derive k' t
  end.

Definition derive_from_seed (seed : list N) (nt : net) (path : list N) : res xkey :=
  do m <- new_master seed nt ;; derive m path.

End HD.

(* Guards of Child and NewMaster (C04): depth 255, hardened from public, seed length. *)
From BU Require Import Lib.Bytes Gen.Nets HD.HD.
From Coq Require Import ZifyBool ZifyN ZifyNat.

(* the constants the statements mention, as the source has them now *)
Lemma const_maxUint8 : maxUint8 = 255.
Proof. reflexivity. Qed.
Lemma const_HardenedKeyStart : HardenedKeyStart = 2 ^ 31.
Proof. reflexivity. Qed.
Lemma const_seed_bounds : MinSeedBytes = 16%nat /\ MaxSeedBytes = 64%nat.
Proof. split; reflexivity. Qed.

Section Guards.
Variable point : Type.
Variable hmac512 : list N -> list N -> list N.
Variable point_of_scalar : Z -> point.
Variable padd : point -> point -> point.
Variable pzero : point -> bool.
Variable ser_point : point -> list N.
Variable parse_point : list N -> res point.
Variable hash160 : list N -> list N.

Local Notation child := (child point hmac512 point_of_scalar padd pzero ser_point parse_point hash160).

Lemma guard_depth k i : xk_depth k = 255 -> child k i = Err E_depth.
Proof using. intros H. unfold HD.child. rewrite H, const_maxUint8. reflexivity. Qed.

Lemma guard_hardened_from_public k i :
  xk_depth k <> 255 -> xk_priv k = false -> 2 ^ 31 <= i -> child k i = Err E_hardpub.
Proof using.
  intros Hd Hp Hi. unfold HD.child. rewrite const_maxUint8, const_HardenedKeyStart.
  destruct (N.eqb_spec (xk_depth k) 255) as [|_]; [contradiction|].
  rewrite Hp. destruct (N.leb_spec (2 ^ 31) i) as [_|]; [reflexivity | lia].
Qed.

End Guards.

Lemma guard_seed_length (hmac512 : list N -> list N -> list N) seed nt :
  (length seed < 16 \/ 64 < length seed)%nat -> new_master hmac512 seed nt = Err E_seedlen.
Proof.
  intros H. unfold new_master. destruct const_seed_bounds as [-> ->].
  destruct (Nat.ltb_spec (length seed) 16), (Nat.ltb_spec 64 (length seed)); try reflexivity; lia.
Qed.

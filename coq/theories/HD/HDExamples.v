(* Concrete instances: BIP32 test vector 1 (seed 000102...0f, chain m/0H/1) evaluated by the model with the
   dependency values tabulated (HMAC-SHA512, k*G, P+Q, ParsePubKey, HASH160 as computed by the Go
   libraries; double SHA-256 by Lib/Sha256.v), and the premises of the conformance theorems on it. *)
From BU Require Import Lib.Bytes Lib.Sha256 Base58.Base58 Gen.Nets HD.HD HD.HDRun HD.Bip32Spec HD.HDProofs.

Definition tv1_seed : list N := [0;1;2;3;4;5;6;7;8;9;10;11;12;13;14;15].
Definition tv1_oracle : oracle :=
  (mk_oracle [(([66;105;116;99;111;105;110;32;115;101;101;100], [0;1;2;3;4;5;6;7;8;9;10;11;12;13;14;15]), [232;243;46;114;61;236;244;5;26;239;172;142;44;147;201;197;178;20;49;56;23;205;176;26;20;148;185;23;200;67;107;53;135;61;255;129;192;47;82;86;35;253;31;229;22;126;172;58;85;160;73;222;61;49;75;180;46;226;39;255;237;55;213;8]); (([135;61;255;129;192;47;82;86;35;253;31;229;22;126;172;58;85;160;73;222;61;49;75;180;46;226;39;255;237;55;213;8], [0;232;243;46;114;61;236;244;5;26;239;172;142;44;147;201;197;178;20;49;56;23;205;176;26;20;148;185;23;200;67;107;53;128;0;0;0]), [4;191;178;221;96;250;137;33;194;164;8;94;193;85;7;169;33;244;156;220;131;159;39;240;242;128;233;193;73;93;68;181;71;253;172;189;15;16;151;4;59;120;198;60;32;195;78;244;237;154;17;29;152;0;71;173;22;40;44;122;230;35;97;65]); (([71;253;172;189;15;16;151;4;59;120;198;60;32;195;78;244;237;154;17;29;152;0;71;173;22;40;44;122;230;35;97;65], [3;90;120;70;98;164;162;10;101;191;106;171;154;233;138;108;6;138;129;197;46;75;3;44;15;181;64;12;112;108;252;204;86;0;0;0;1]), [78;185;215;129;87;186;231;162;65;21;0;22;33;196;217;30;58;49;16;225;30;20;60;82;89;234;164;229;92;94;196;191;42;120;87;99;19;134;186;35;218;202;195;65;128;221;25;131;115;78;68;79;219;247;116;4;21;120;233;182;173;179;124;25])] [(0xe8f32e723decf4051aefac8e2c93c9c5b214313817cdb01a1494b917c8436b35, (0x39a36013301597daef41fbe593a02cc513d0b55527ec2df1050e2e8ff49c85c2, 0x3cbe7ded0e7ce6a594896b8f62888fdbc5c8821305e2ea42bf01e37300116281)); (0xedb2e14f9ee77d26dd93b4ecede8d16ed408ce149b6cd80b0715a2d911a0afea, (0x5a784662a4a20a65bf6aab9ae98a6c068a81c52e4b032c0fb5400c706cfccc56, 0x7f717885be239daadce76b568958305183ad616ff74ed4dc219a74c26d35f839)); (0x3c6cb8d0f6a264c91ea8b5030fadaa8e538b020f0a387421a12de9319dc93368, (0x501e454bf00751f24b1b489aa925215d66af2234e3891c3b21a52bedb3cd711c, 0x8794c1df8131b9ad1e1359965b3f3ee2feef0866be693729772be14be881ab)); (0x4eb9d78157bae7a24115001621c4d91e3a3110e11e143c5259eaa4e55c5ec4bf, (0x69b154b42ff9452c31251cb341d7db01ad603dc56d64f9c5fb9e7031b89a241d, 0xeeedc91342b3c8982c1e676435780fe5f9d62f3f692e8d1512485d77fab35997))] [(((0x69b154b42ff9452c31251cb341d7db01ad603dc56d64f9c5fb9e7031b89a241d, 0xeeedc91342b3c8982c1e676435780fe5f9d62f3f692e8d1512485d77fab35997), (0x5a784662a4a20a65bf6aab9ae98a6c068a81c52e4b032c0fb5400c706cfccc56, 0x7f717885be239daadce76b568958305183ad616ff74ed4dc219a74c26d35f839)), (0x501e454bf00751f24b1b489aa925215d66af2234e3891c3b21a52bedb3cd711c, 0x8794c1df8131b9ad1e1359965b3f3ee2feef0866be693729772be14be881ab))] [([3;90;120;70;98;164;162;10;101;191;106;171;154;233;138;108;6;138;129;197;46;75;3;44;15;181;64;12;112;108;252;204;86], Some (0x5a784662a4a20a65bf6aab9ae98a6c068a81c52e4b032c0fb5400c706cfccc56, 0x7f717885be239daadce76b568958305183ad616ff74ed4dc219a74c26d35f839))] [([3;57;163;96;19;48;21;151;218;239;65;251;229;147;160;44;197;19;208;181;85;39;236;45;241;5;14;46;143;244;156;133;194], [52;66;25;62;27;183;9;22;233;20;85;33;114;205;78;45;188;157;248;17]); ([3;90;120;70;98;164;162;10;101;191;106;171;154;233;138;108;6;138;129;197;46;75;3;44;15;181;64;12;112;108;252;204;86], [92;27;214;72;237;35;170;95;213;11;165;43;36;87;193;30;158;128;166;167]); ([3;80;30;69;75;240;7;81;242;75;27;72;154;169;37;33;93;102;175;34;52;227;137;28;59;33;165;43;237;179;205;113;28], [190;245;162;249;165;106;148;170;177;36;89;247;42;217;207;140;241;156;123;190])] []).

Definition xprv_m_0H : list N := [120;112;114;118;57;117;72;82;90;90;104;107;54;75;65;74;67;49;97;118;88;112;68;65;112;52;77;68;99;51;115;81;75;78;120;68;105;80;118;118;107;88;56;66;114;53;110;103;76;78;118;49;84;120;118;85;120;116;52;99;86;49;114;71;76;53;104;106;54;75;67;101;115;110;68;89;85;104;100;55;111;87;103;84;49;49;101;90;71;55;88;110;120;72;114;110;89;101;83;118;107;122;89;55;100;50;98;104;107;74;55].
Definition xprv_m_0H_1 : list N := [120;112;114;118;57;119;84;89;109;77;70;100;86;50;51;78;50;84;100;78;71;53;55;51;81;111;69;115;102;82;114;87;75;81;103;87;101;105;98;109;76;110;116;122;110;105;97;116;90;118;82;57;66;109;76;110;118;83;120;113;117;53;51;75;119;49;85;109;89;80;120;76;103;98;111;121;90;81;97;88;119;84;67;103;56;77;83;89;51;72;50;69;85;52;112;87;99;81;68;110;82;110;114;86;65;49;120;101;56;102;115].
Definition xpub_m_0H_1 : list N := [120;112;117;98;54;65;83;117;65;114;110;88;75;80;98;102;69;119;104;113;78;54;101;51;109;119;66;99;68;84;103;122;105;115;81;78;49;119;88;78;57;66;74;99;77;52;55;115;83;105;107;72;106;74;102;51;85;70;72;75;107;78;65;87;98;87;77;105;71;106;55;87;102;53;117;77;97;115;104;55;83;121;89;113;53;50;55;72;113;99;107;50;65;120;89;121;115;65;65;55;120;109;65;76;112;112;117;67;107;119;81].
Definition h160_m_0H_1 : list N := [190;245;162;249;165;106;148;170;177;36;89;247;42;217;207;140;241;156;123;190].

Definition tv1_derive (path : list N) : res xkey :=
  do m <- r_new_master tv1_oracle tv1_seed mainnet ;; r_derive tv1_oracle m path.

(* the published strings of test vector 1 come out of the model *)
Lemma tv1_m_0H : match tv1_derive [2 ^ 31] with Ok k => r_to_string tv1_oracle k = xprv_m_0H | _ => False end.
Proof. vm_compute. reflexivity. Qed.

Lemma tv1_m_0H_1 :
  match tv1_derive [2 ^ 31; 1] with
  | Ok k => r_to_string tv1_oracle k = xprv_m_0H_1 /\
            (match r_neuter tv1_oracle k with Ok nk => r_to_string tv1_oracle nk = xpub_m_0H_1 | _ => False end) /\
            r_address tv1_oracle k = Ok h160_m_0H_1
  | _ => False
  end.
Proof. vm_compute. repeat split; reflexivity. Qed.

(* Child (Neuter k) 1 = Neuter (Child k 1) on m/0H *)
Lemma tv1_neuter_commutes :
  match tv1_derive [2 ^ 31] with
  | Ok k => (do kn <- r_neuter tv1_oracle k ;; r_child tv1_oracle kn 1) = (do c <- r_child tv1_oracle k 1 ;; r_neuter tv1_oracle c)
  | _ => False
  end.
Proof. vm_compute. reflexivity. Qed.

(* the premises of child_priv_conforms / path_conforms hold on the master node of test vector 1 *)
Definition tv1_master : option priv_node := master_node (r_hmac tv1_oracle) tv1_seed.

Lemma tv1_premises :
  match tv1_master with
  | Some m =>
      (0 < s_k m < Bip32Spec.n)%Z /\
      nogap_priv pt (r_hmac tv1_oracle) (r_mul tv1_oracle) r_ser (r_h160 tv1_oracle) m [(2 ^ 31)%Z; 1%Z]
  | None => False
  end.
Proof. vm_compute. repeat split; try reflexivity; discriminate. Qed.

(* C05: the model's NewKeyFromString accepts the published xprv of m/0H/1 (double SHA-256 inside Coq), the
   returned key prints the same string, and it equals the key the derivation produced *)
Lemma tv1_parse_roundtrip :
  match r_parse_key no_oracle xprv_m_0H_1, tv1_derive [2 ^ 31; 1] with
  | Ok k, Ok k' => r_to_string no_oracle k = xprv_m_0H_1 /\ xkey_eqb k k' = true
  | _, _ => False
  end.
Proof. vm_compute. split; reflexivity. Qed.

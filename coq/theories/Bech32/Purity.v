(* C07, "none of these functions modifies memory reachable from its arguments":
   the memory behaviour of bech32.Encode over Lib/Slice.v, and the static
   obligation produced by the translator (no exported codec function appends to,
   index-assigns into or copies into a slice parameter, transitively). *)
From BU Require Import Lib.Bytes Lib.Slice Bech32.PurityModel Gen.AppendSites.
From Coq Require Import ZifyBool ZifyN ZifyNat.

Lemma contents_length h s : slice_ok h s -> length (contents h s) = s_len s.
Proof.
  intros (H1 & H2 & H3). unfold contents. rewrite firstn_length, skipn_length. lia.
Qed.

Lemma go_append_inplace h s xs : (s_len s + length xs <= s_cap s)%nat ->
  go_append h s xs =
    (set_nth h (s_arr s) (write_at (arr h (s_arr s)) (s_off s + s_len s) xs),
     {| s_arr := s_arr s; s_off := s_off s; s_len := s_len s + length xs; s_cap := s_cap s |}).
Proof. intros H. unfold go_append. destruct (Nat.leb_spec (s_len s + length xs) (s_cap s)); [reflexivity|lia]. Qed.

(* the state after the two appends, spelled out *)
Lemma encode_mem_eq h data checksum : slice_ok h data ->
  encode_mem h data checksum =
    (h ++ [contents h data ++ checksum],
     {| s_arr := length h; s_off := 0; s_len := s_len data + length checksum; s_cap := s_len data + length checksum |}).
Proof.
  intros Hok. pose proof (contents_length h data Hok) as Hcl.
  unfold encode_mem, go_make. cbn [fst snd].
  set (c0 := {| s_arr := length h; s_off := 0; s_len := 0; s_cap := s_len data + length checksum |}).
  rewrite (go_append_inplace _ c0 (contents h data)) by (cbn [c0 s_len s_cap]; lia).
  cbn [fst snd c0 s_arr s_off s_len s_cap].
  rewrite go_append_inplace by (cbn [s_len s_cap]; lia). cbn [fst snd s_arr s_off s_len s_cap].
  rewrite Hcl. f_equal.
  assert (Hset : forall (l : heap) x y, set_nth (l ++ [x]) (length l) y = l ++ [y]).
  { induction l as [|z l IH]; intros; cbn [app length set_nth]; [reflexivity|]. rewrite IH. reflexivity. }
  assert (Hnth : forall (l : heap) x, arr (l ++ [x]) (length l) = x).
  { intros l x. unfold arr. rewrite app_nth2, Nat.sub_diag by lia. reflexivity. }
  rewrite Hnth, Hset, Hnth, Hset. f_equal. f_equal.
  unfold write_at. cbn [firstn Nat.add app]. rewrite Hcl.
  set (d := contents h data) in *.
  (* first write: d ++ skipn |d| zeros ; second write at |d| *)
  rewrite (firstn_app (s_len data) d), firstn_all2 by lia.
  replace (s_len data - length d)%nat with O by lia. cbn [firstn]. rewrite app_nil_r.
  f_equal. f_equal.
  rewrite skipn_app. rewrite (skipn_all2 d) by lia. cbn [app].
  rewrite (skipn_all2 (n := (s_len data + length checksum - length d)%nat)) by (rewrite skipn_length, repeat_length; lia).
  apply app_nil_r.
Qed.

Theorem encode_pure h data checksum id :
  slice_ok h data -> (id < length h)%nat -> arr (fst (encode_mem h data checksum)) id = arr h id.
Proof.
  intros Hok Hid. rewrite encode_mem_eq by exact Hok. cbn [fst]. unfold arr. apply app_nth1. exact Hid.
Qed.

Theorem encode_combined h data checksum :
  slice_ok h data ->
  contents (fst (encode_mem h data checksum)) (snd (encode_mem h data checksum)) = contents h data ++ checksum.
Proof.
  intros Hok. rewrite encode_mem_eq by exact Hok. cbn [fst snd]. unfold contents at 1. cbn [s_arr s_off s_len skipn].
  unfold arr. rewrite app_nth2, Nat.sub_diag by lia. cbn [nth].
  apply firstn_all2. rewrite app_length, (contents_length h data Hok). lia.
Qed.

(* the old code wrote the checksum into the caller's spare capacity *)
Theorem encode_old_impure_refuted :
  exists h data checksum id, slice_ok h data /\ (id < length h)%nat /\
    arr (fst (encode_mem_old h data checksum)) id <> arr h id.
Proof.
  exists [[1; 2; 3; 165; 165; 165; 165; 165; 165; 165]],
         {| s_arr := 0; s_off := 0; s_len := 3; s_cap := 10 |}, [9; 9; 9; 9; 9; 9], O.
  split; [|split].
  - unfold slice_ok, arr. cbn. lia.
  - cbn. lia.
  - vm_compute. discriminate.
Qed.

(* the translator's purity analysis of base58, bech32 and the root package finds no exported function
   that may write through a slice parameter (recomputed from the Go source on every run) *)
Lemma no_exported_append_sites : append_sites_exported = [].
Proof. reflexivity. Qed.

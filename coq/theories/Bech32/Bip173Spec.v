(* BIP173 (bech32) written from the BIP text with its own literals; nothing here comes from the Go
   source.  Reference Python of the BIP:
     GEN = [0x3b6a57b2, 0x26508e6d, 0x1ea119fa, 0x3d4233dd, 0x2a1462b3]
     chk = 1; for v in values: b = chk >> 25; chk = (chk & 0x1ffffff) << 5 ^ v;
                               for i in range(5): chk ^= GEN[i] if ((b >> i) & 1) else 0
     hrp_expand(s) = [ord(x) >> 5 for x in s] + [0] + [ord(x) & 31 for x in s]
     verify(hrp, data) = polymod(hrp_expand(hrp) + data) == 1
     create_checksum(hrp, data) = let p = polymod(hrp_expand(hrp) + data + [0]*6) ^ 1 in [(p >> 5*(5-i)) & 31 for i in range(6)]
   No proofs in this file. *)
From BU Require Import Lib.Bytes Lib.PolyMod.

Definition bip_charset : list N :=   (* "qpzry9x8gf2tvdw0s3jn54khce6mua7l" *)
  [113;112;122;114;121;57;120;56;103;102;50;116;118;100;119;48;115;51;106;110;53;52;107;104;99;101;54;109;117;97;55;108].

Definition bip_params : pm_params :=
  {| pm_shift := 25; pm_mask := 0x1ffffff; pm_sym := 5;
     pm_gens := [(1, 0x3b6a57b2); (2, 0x26508e6d); (4, 0x1ea119fa); (8, 0x3d4233dd); (16, 0x2a1462b3)] |}.

Definition bip_polymod (values : list N) : N := pm_fold bip_params 1 values.

Definition bip_hrp_expand (hrp : list N) : list N :=
  map (fun c => c / 32) hrp ++ [0] ++ map (fun c => c mod 32) hrp.

Definition bip_verify (hrp data : list N) : bool := bip_polymod (bip_hrp_expand hrp ++ data) =? 1.

Definition bip_create_checksum (hrp data : list N) : list N :=
  let p := N.lxor (bip_polymod (bip_hrp_expand hrp ++ data ++ [0;0;0;0;0;0])) 1 in
  map (fun i => (p / 2 ^ (5 * (5 - i))) mod 32) [0;1;2;3;4;5].

Definition bip_chr (d : N) : N := nth (N.to_nat d) bip_charset 0.

(* the bech32 string of (hrp, data): hrp, the separator '1', the data and checksum symbols *)
Definition bip_encode (hrp data : list N) : list N :=
  hrp ++ [49] ++ map bip_chr (data ++ bip_create_checksum hrp data).

Definition bip_lower (c : N) : N := if (65 <=? c) && (c <=? 90) then c + 32 else c.
Definition bip_upper (c : N) : N := if (97 <=? c) && (c <=? 122) then c - 32 else c.

(* "s is a valid bech32 string and stands for (hrp, data)", as the BIP defines validity:
   at most 90 characters, every character in 33..126, not mixed case, a non-empty human-readable
   part, the separator, data values below 32 (six of them the checksum) and a verifying checksum *)
Definition bip_valid (s hrp data : list N) : Prop :=
  (length s <= 90)%nat /\
  Forall (fun c => 33 <= c /\ c <= 126) s /\
  (s = map bip_lower s \/ s = map bip_upper s) /\
  hrp <> [] /\ Forall (fun x => x < 32) data /\
  exists ck, length ck = 6%nat /\ Forall (fun x => x < 32) ck /\
             map bip_lower s = hrp ++ [49] ++ map bip_chr (data ++ ck) /\
             bip_verify hrp (data ++ ck) = true.

(* Model of bech32/bech32.go.  Literals are taken from Gen.Xbech32 so the model
   follows the source; strings are lists of byte values. *)
From BU Require Import Lib.Bytes Lib.PolyMod Gen.Xbech32.

Definition charset : list N := c_charset.
Definition gens : list N := map Z.to_N c_gen.

Definition bech_params : pm_params :=
  {| pm_shift := lit lits_bech32Polymod 1;   (* chk >> 25 *)
     pm_mask  := lit lits_bech32Polymod 2;   (* 0x1ffffff *)
     pm_sym   := lit lits_bech32Polymod 3;   (* << 5 *)
     (* for i := 0; i < 5; i++ { if (b>>uint(i))&1 == 1 { chk ^= gen[i] } } *)
     pm_gens  := combine (map (fun i => 2 ^ N.of_nat i) (seq 0 (N.to_nat (lit lits_bech32Polymod 5)))) gens |}.

Definition polymod (values : list N) : N := pm_fold bech_params (lit lits_bech32Polymod 0) values.

Definition hrp_expand (hrp : list N) : list N :=
  map (fun c => N.shiftr c (lit lits_bech32HrpExpand 4)) hrp ++ [0] ++
  map (fun c => N.land c (lit lits_bech32HrpExpand 7)) hrp.

Definition create_checksum (hrp data : list N) : list N :=
  let values := hrp_expand hrp ++ data ++ repeat 0 6 in
  let pm := N.lxor (polymod values) (lit lits_bech32Checksum 6) in
  unpack 6 pm.

Definition verify_checksum (hrp data : list N) : bool :=
  polymod (hrp_expand hrp ++ data) =? lit lits_bech32VerifyChecksum 0.

Fixpoint index_of (c : N) (l : list N) (i : N) : option N :=
  match l with [] => None | x :: t => if x =? c then Some i else index_of c t (i + 1) end.

Fixpoint to_bytes (chars : list N) : option (list N) :=
  match chars with
  | [] => Some []
  | c :: t => match index_of c charset 0, to_bytes t with
              | Some i, Some r => Some (i :: r)
              | _, _ => None
              end
  end.

Fixpoint to_chars (data : list N) : option (list N) :=
  match data with
  | [] => Some []
  | b :: t => if b <? N.of_nat (length charset)
              then match to_chars t with Some r => Some (nth (N.to_nat b) charset 0 :: r) | None => None end
              else None
  end.

Definition to_lower (c : N) : N := if (65 <=? c) && (c <=? 90) then c + 32 else c.
Definition to_upper (c : N) : N := if (97 <=? c) && (c <=? 122) then c - 32 else c.

Fixpoint last_index (c : N) (l : list N) (i : nat) (best : option nat) : option nat :=
  match l with [] => best | x :: t => last_index c t (S i) (if x =? c then Some i else best) end.

(* error classes: 1 length, 2 character range, 3 mixed case, 4 separator position,
   5 character outside the charset, 6 checksum *)
Definition decode (bech : list N) : res (list N * list N) :=
  let n := length bech in
  if (N.of_nat n <? lit lits_Decode 0) || (lit lits_Decode 1 <? N.of_nat n) then Err 1 else
  if negb (forallb (fun c => negb ((c <? lit lits_Decode 3) || (lit lits_Decode 4 <? c))) bech) then Err 2 else
  let lower := map to_lower bech in
  let upper := map to_upper bech in
  if negb (list_eqb bech lower) && negb (list_eqb bech upper) then Err 3 else
  match last_index (lit lits_Decode 5) lower 0 None with
  | None => Err 4
  | Some one =>
      if (one <? 1)%nat || (n <? one + 7)%nat then Err 4 else
      let hrp := firstn one lower in
      let data := skipn (one + 1) lower in
      match to_bytes data with
      | None => Err 5
      | Some decoded =>
          if verify_checksum hrp decoded
          then Ok (hrp, firstn (length decoded - 6) decoded)
          else Err 6
      end
  end.

(* error class 7: data byte outside 0..31 *)
Definition encode (hrp data : list N) : res (list N) :=
  match to_chars (data ++ create_checksum hrp data) with
  | Some chars => Ok (hrp ++ [49] ++ chars)
  | None => Err 7
  end.

(* ConvertBits: all arithmetic is on uint8 *)
Definition u8 (x : N) : N := x mod 256.

(* one pass of the inner loop `for remFromBits > 0` *)
Fixpoint inner (fuel : nat) (toBits : N) (b remFrom next filled : N) (out : list N)
  : N * N * list N :=   (* next, filled, out (reversed) *)
  match fuel with
  | O => (next, filled, out)
  | S f =>
      if remFrom =? 0 then (next, filled, out) else
      let remTo := toBits - filled in
      let toExtract := if remTo <? remFrom then remTo else remFrom in
      let next := u8 (N.lor (N.shiftl next toExtract) (N.shiftr b (8 - toExtract))) in
      let b := u8 (N.shiftl b toExtract) in
      let remFrom := remFrom - toExtract in
      let filled := filled + toExtract in
      if filled =? toBits
      then inner f toBits b remFrom 0 0 (next :: out)
      else inner f toBits b remFrom next filled out
  end.

Fixpoint convert_loop (fromBits toBits : N) (data : list N) (next filled : N) (out : list N)
  : N * N * list N :=
  match data with
  | [] => (next, filled, out)
  | b :: t =>
      let b := u8 (N.shiftl b (8 - fromBits)) in
      let '(next, filled, out) := inner 8 toBits b fromBits next filled out in
      convert_loop fromBits toBits t next filled out
  end.

(* error classes: 8 bit-group size, 9 invalid incomplete group *)
Definition convert_bits (data : list N) (fromBits toBits : N) (pad : bool) : res (list N) :=
  if (fromBits <? 1) || (8 <? fromBits) || (toBits <? 1) || (8 <? toBits) then Err 8 else
  let '(next, filled, out) := convert_loop fromBits toBits data 0 0 [] in
  let '(next, filled, out) :=
    if pad && (0 <? filled) then (0, 0, u8 (N.shiftl next (toBits - filled)) :: out)
    else (next, filled, out) in
  if (0 <? filled) && ((4 <? filled) || negb (next =? 0)) then Err 9
  else Ok (rev out).

(* Proofs about the bech32 string codec model: Encode/Decode are mutual inverses
   on the BIP173 domain, and everything Decode accepts is canonical. *)
From BU Require Import Lib.Bytes Lib.PolyMod Gen.Xbech32 Bech32.Bech32 Checksum.StepFacts Checksum.Valid.
From Coq Require Import ZifyBool ZifyN ZifyNat.

Definition chr (x : N) : N := nth (N.to_nat x) charset 0.

(* ---------- obligations over the extracted constants ---------- *)
Lemma decode_lits :
  lit lits_Decode 0 = 8 /\ lit lits_Decode 1 = 90 /\ lit lits_Decode 3 = 33 /\
  lit lits_Decode 4 = 126 /\ lit lits_Decode 5 = 49.
Proof. repeat split; reflexivity. Qed.

Lemma charset_len : length charset = 32%nat.
Proof. reflexivity. Qed.

Definition upper_case (c : N) : bool := (65 <=? c) && (c <=? 90).
Definition lower_letter (c : N) : bool := (97 <=? c) && (c <=? 122).

(* every charset character is printable, is not an upper-case letter, is not '1' *)
Lemma charset_class :
  forallb (fun c => (33 <=? c) && (c <=? 126) && negb (upper_case c) && negb (c =? 49)) charset = true.
Proof. vm_compute. reflexivity. Qed.

Fixpoint index_ok (l : list N) (i : N) (n : nat) : bool :=
  match n with
  | O => true
  | S k => (match index_of (nth (N.to_nat i) l 0) l 0 with Some j => j =? i | None => false end)
           && index_ok l (i + 1) k
  end.
Lemma charset_nodup_b : index_ok charset 0 32 = true.
Proof. vm_compute. reflexivity. Qed.

Lemma index_ok_spec l n : forall i, index_ok l i n = true ->
  forall x, i <= x < i + N.of_nat n -> index_of (nth (N.to_nat x) l 0) l 0 = Some x.
Proof.
  induction n as [|n IH]; intros i H x Hx; [lia|].
  cbn [index_ok] in H. apply andb_true_iff in H as [H1 H2].
  destruct (N.eq_dec x i) as [->|Hne].
  - destruct (index_of (nth (N.to_nat i) l 0) l 0) as [j|]; [|discriminate].
    apply N.eqb_eq in H1. congruence.
  - apply (IH (i + 1) H2). lia.
Qed.

Lemma index_of_chr x : x < 32 -> index_of (chr x) charset 0 = Some x.
Proof. intros Hx. apply (index_ok_spec charset 32 0 charset_nodup_b). lia. Qed.

Lemma chr_in x : x < 32 -> In (chr x) charset.
Proof. intros Hx. unfold chr. apply nth_In. rewrite charset_len. lia. Qed.

Lemma charset_class_in c : In c charset ->
  33 <= c /\ c <= 126 /\ upper_case c = false /\ c <> 49.
Proof.
  intros Hin. pose proof charset_class as H. rewrite forallb_forall in H. specialize (H c Hin).
  unfold upper_case in *. lia.
Qed.

(* ---------- index_of ---------- *)
Lemma index_of_spec c l : forall k i, index_of c l k = Some i ->
  k <= i /\ i < k + N.of_nat (length l) /\ nth (N.to_nat (i - k)) l 0 = c.
Proof.
  induction l as [|x t IH]; intros k i H; [discriminate|].
  cbn [index_of] in H. destruct (N.eqb_spec x c) as [->|Hne].
  - inversion H; subst. rewrite N.sub_diag. cbn [length]. repeat split; lia.
  - destruct (IH _ _ H) as (H1 & H2 & H3). cbn [length]. repeat split; try lia.
    replace (N.to_nat (i - k)) with (S (N.to_nat (i - (k + 1)))) by lia. exact H3.
Qed.

(* ---------- to_bytes / to_chars ---------- *)
Lemma to_chars_ok syms : Forall (fun x => x < 32) syms -> to_chars syms = Some (map chr syms).
Proof.
  induction 1 as [|x t Hx _ IH]; [reflexivity|].
  cbn [to_chars map]. rewrite charset_len.
  destruct (N.ltb_spec x (N.of_nat 32)); [|lia]. rewrite IH. reflexivity.
Qed.

Lemma to_chars_some syms chars : to_chars syms = Some chars ->
  Forall (fun x => x < 32) syms /\ chars = map chr syms.
Proof.
  revert chars; induction syms as [|x t IH]; intros chars H.
  - inversion H. split; constructor.
  - cbn [to_chars] in H. rewrite charset_len in H.
    destruct (N.ltb_spec x (N.of_nat 32)) as [Hx|]; [|discriminate].
    destruct (to_chars t) as [r|]; [|discriminate]. inversion H; subst.
    destruct (IH r eq_refl) as [H1 H2]. split; [constructor; [lia|assumption]|].
    cbn [map]. rewrite H2. reflexivity.
Qed.

Lemma to_bytes_chr syms : Forall (fun x => x < 32) syms -> to_bytes (map chr syms) = Some syms.
Proof.
  induction 1 as [|x t Hx _ IH]; [reflexivity|].
  cbn [map to_bytes]. rewrite (index_of_chr x Hx), IH. reflexivity.
Qed.

Lemma to_bytes_some chars syms : to_bytes chars = Some syms ->
  Forall (fun x => x < 32) syms /\ chars = map chr syms.
Proof.
  revert syms; induction chars as [|c t IH]; intros syms H.
  - inversion H. split; constructor.
  - cbn [to_bytes] in H. destruct (index_of c charset 0) as [i|] eqn:Ei; [|discriminate].
    destruct (to_bytes t) as [r|]; [|discriminate]. inversion H; subst.
    destruct (IH r eq_refl) as [H1 H2]. destruct (index_of_spec _ _ _ _ Ei) as (_ & Hi & Hn).
    rewrite charset_len in Hi. rewrite N.sub_0_r in Hn.
    split; [constructor; [lia|assumption]|]. cbn [map]. unfold chr at 1. rewrite Hn, H2. reflexivity.
Qed.

(* ---------- last_index ---------- *)
Fixpoint find_last (c : N) (l : list N) : option nat :=
  match l with
  | [] => None
  | x :: t => match find_last c t with
              | Some p => Some (S p)
              | None => if x =? c then Some O else None
              end
  end.

Lemma last_index_find c l : forall i best,
  last_index c l i best = match find_last c l with Some p => Some (i + p)%nat | None => best end.
Proof.
  induction l as [|x t IH]; intros i best; [reflexivity|].
  cbn [last_index find_last]. rewrite IH.
  destruct (find_last c t) as [p|].
  - f_equal. lia.
  - destruct (x =? c); [f_equal; lia | reflexivity].
Qed.

Lemma find_last_spec c l p : find_last c l = Some p ->
  (p < length l)%nat /\ nth p l 0 = c /\ ~ In c (skipn (S p) l).
Proof.
  revert p; induction l as [|x t IH]; intros p H; [discriminate|].
  cbn [find_last] in H. destruct (find_last c t) as [q|] eqn:Eq.
  - inversion H; subst. destruct (IH q eq_refl) as (H1 & H2 & H3). cbn [length nth skipn].
    repeat split; try lia; assumption.
  - destruct (N.eqb_spec x c) as [->|]; [|discriminate]. inversion H; subst. cbn [length nth skipn].
    repeat split; try lia.
    clear IH H. revert Eq. induction t as [|y t IHt]; cbn [find_last]; [tauto|].
    destruct (find_last c t); [discriminate|]. destruct (N.eqb_spec y c); [discriminate|].
    intros _ [E|Hin]; [congruence|]. apply IHt; auto.
Qed.

Lemma find_last_none c l : ~ In c l -> find_last c l = None.
Proof.
  induction l as [|x t IH]; intros H; [reflexivity|]. cbn [find_last].
  rewrite IH by (intros Hin; apply H; right; exact Hin).
  destruct (N.eqb_spec x c) as [->|]; [exfalso; apply H; left; reflexivity | reflexivity].
Qed.

Lemma find_last_app c a b : ~ In c b -> find_last c (a ++ c :: b) = Some (length a).
Proof.
  intros Hb. induction a as [|x a IH]; cbn [app find_last length].
  - rewrite (find_last_none _ _ Hb), N.eqb_refl. reflexivity.
  - rewrite IH. reflexivity.
Qed.

(* ---------- case folding ---------- *)
Lemma to_lower_id c : upper_case c = false -> to_lower c = c.
Proof. unfold to_lower, upper_case. intros ->. reflexivity. Qed.

Lemma map_to_lower_id l : Forall (fun c => upper_case c = false) l -> map to_lower l = l.
Proof. induction 1 as [|c t Hc _ IH]; cbn [map]; [reflexivity|]. rewrite (to_lower_id c Hc), IH. reflexivity. Qed.

Lemma to_lower_idem c : to_lower (to_lower c) = to_lower c.
Proof. unfold to_lower. destruct ((65 <=? c) && (c <=? 90)) eqn:E; [|rewrite E; reflexivity].
  destruct ((65 <=? c + 32) && (c + 32 <=? 90)) eqn:E2; [lia|reflexivity]. Qed.

Lemma to_lower_not_upper c : upper_case (to_lower c) = false.
Proof. unfold to_lower, upper_case. destruct ((65 <=? c) && (c <=? 90)) eqn:E; lia. Qed.

(* ---------- the BIP173 domain ---------- *)
Definition hrp_ok (hrp : list N) : Prop :=
  hrp <> [] /\ Forall (fun c => 33 <= c /\ c <= 126 /\ upper_case c = false) hrp.

Definition in_range (c : N) : bool := negb ((c <? 33) || (126 <? c)).

Theorem bech32_roundtrip hrp data :
  hrp_ok hrp -> Forall (fun x => x < 32) data -> (length hrp + 1 + length data + 6 <= 90)%nat ->
  exists s, encode hrp data = Ok s /\ length s = (length hrp + 1 + length data + 6)%nat /\
            decode s = Ok (hrp, data).
Proof.
  intros [Hne Hhrp] Hdata Hlen.
  set (cs := create_checksum hrp data).
  assert (Hcs : Forall (fun x => x < 32) cs) by apply bech32_create_lt32.
  assert (Hcl : length cs = 6%nat) by apply bech32_create_length.
  assert (Hsyms : Forall (fun x => x < 32) (data ++ cs)) by (apply Forall_app; split; assumption).
  set (chars := map chr (data ++ cs)).
  exists (hrp ++ [49] ++ chars).
  assert (Hclen : length chars = (length data + 6)%nat).
  { unfold chars. rewrite map_length, app_length, Hcl. reflexivity. }
  assert (Hslen : length (hrp ++ [49] ++ chars) = (length hrp + 1 + length data + 6)%nat).
  { rewrite !app_length, Hclen. cbn [length]. lia. }
  split; [|split; [exact Hslen|]].
  { unfold encode. fold cs. rewrite (to_chars_ok _ Hsyms). reflexivity. }
  (* decode *)
  assert (Hchars_class : Forall (fun c => 33 <= c /\ c <= 126 /\ upper_case c = false /\ c <> 49) chars).
  { unfold chars. apply Forall_forall. intros c Hc. apply in_map_iff in Hc as [x [<- Hx]].
    rewrite Forall_forall in Hsyms. apply charset_class_in, chr_in, Hsyms, Hx. }
  set (s := hrp ++ [49] ++ chars) in *.
  assert (Hs_nu : Forall (fun c => upper_case c = false) s).
  { unfold s. apply Forall_app. split; [|apply Forall_app; split].
    - eapply Forall_impl; [|exact Hhrp]. cbn beta. tauto.
    - constructor; [reflexivity|constructor].
    - eapply Forall_impl; [|exact Hchars_class]. cbn beta. tauto. }
  assert (Hs_rng : forallb (fun c => negb ((c <? 33) || (126 <? c))) s = true).
  { apply forallb_forall. intros c Hc. unfold s in Hc. apply in_app_or in Hc as [Hc|Hc].
    - rewrite Forall_forall in Hhrp. specialize (Hhrp c Hc). lia.
    - apply in_app_or in Hc as [Hc|Hc].
      + destruct Hc as [<-|[]]. reflexivity.
      + rewrite Forall_forall in Hchars_class. specialize (Hchars_class c Hc). lia. }
  assert (Hlower : map to_lower s = s) by (apply map_to_lower_id; exact Hs_nu).
  assert (Hnot1 : ~ In 49 chars).
  { intros Hin. rewrite Forall_forall in Hchars_class. specialize (Hchars_class 49 Hin). lia. }
  unfold decode.
  destruct decode_lits as (L0 & L1 & L3 & L4 & L5). rewrite L0, L1, L3, L4, L5.
  rewrite Hslen.
  destruct (N.ltb_spec (N.of_nat (length hrp + 1 + length data + 6)) 8) as [Hlt|_].
  { destruct hrp; [congruence|]. cbn [length] in Hlt. lia. }
  destruct (N.ltb_spec 90 (N.of_nat (length hrp + 1 + length data + 6))) as [Hlt|_]; [lia|].
  cbn [orb]. rewrite Hs_rng. cbn [negb]. rewrite Hlower, list_eqb_refl. cbn [negb andb].
  rewrite last_index_find. unfold s at 1. cbn [app]. rewrite (find_last_app 49 hrp chars Hnot1).
  cbn [Nat.add].
  assert (Hl1 : (1 <= length hrp)%nat) by (destruct hrp; [congruence|cbn [length]; lia]).
  destruct (Nat.ltb_spec (length hrp) 1); [lia|].
  destruct (Nat.ltb_spec (length hrp + 1 + length data + 6) (length hrp + 7)); [lia|].
  cbn [orb].
  assert (Hfirst : firstn (length hrp) s = hrp).
  { unfold s. rewrite firstn_app, Nat.sub_diag, firstn_all. cbn [firstn]. apply app_nil_r. }
  assert (Hskip : skipn (length hrp + 1) s = chars).
  { unfold s. rewrite app_assoc. rewrite skipn_app.
    replace (length hrp + 1)%nat with (length (hrp ++ [49])) by (rewrite app_length; reflexivity).
    rewrite skipn_all, Nat.sub_diag. reflexivity. }
  rewrite Hfirst, Hskip. unfold chars at 1. rewrite (to_bytes_chr _ Hsyms).
  unfold cs. rewrite bech32_checksum_valid_strong.
  fold cs. rewrite app_length, Hcl. replace (length data + 6 - 6)%nat with (length data + 0)%nat by lia.
  rewrite firstn_app_2. cbn [firstn]. rewrite app_nil_r. reflexivity.
Qed.

(* Everything Decode accepts: the BIP173 conditions hold and the string is the
   (case-folded) encoding of what was returned. *)
Theorem bech32_decode_canonical s hrp data :
  decode s = Ok (hrp, data) ->
  (8 <= length s <= 90)%nat /\
  Forall (fun c => 33 <= c /\ c <= 126) s /\
  (s = map to_lower s \/ s = map to_upper s) /\
  hrp_ok hrp /\ Forall (fun x => x < 32) data /\
  encode hrp data = Ok (map to_lower s).
Proof.
  unfold decode. destruct decode_lits as (L0 & L1 & L3 & L4 & L5). rewrite L0, L1, L3, L4, L5.
  destruct (N.ltb_spec (N.of_nat (length s)) 8) as [|Hn8]; [discriminate|].
  destruct (N.ltb_spec 90 (N.of_nat (length s))) as [|Hn90]; [discriminate|]. cbn [orb].
  destruct (forallb (fun c => negb ((c <? 33) || (126 <? c))) s) eqn:Hrng; [|discriminate]. cbn [negb].
  destruct (list_eqb s (map to_lower s)) eqn:El; destruct (list_eqb s (map to_upper s)) eqn:Eu; cbn [negb andb];
    try discriminate.
  all: set (lower := map to_lower s).
  all: rewrite last_index_find; destruct (find_last 49 lower) as [one|] eqn:Eone; [|discriminate]; cbn [Nat.add].
  all: destruct (Nat.ltb_spec one 1) as [|Hone1]; [discriminate|].
  all: destruct (Nat.ltb_spec (length s) (one + 7)) as [|Hone7]; [discriminate|]; cbn [orb].
  all: destruct (to_bytes (skipn (one + 1) lower)) as [decoded|] eqn:Etb; [|discriminate].
  all: destruct (verify_checksum (firstn one lower) decoded) eqn:Ev; [|discriminate].
  all: intros H; injection H as Hh Hd.
  all: destruct (find_last_spec _ _ _ Eone) as (Hp1 & Hp2 & Hp3).
  all: destruct (to_bytes_some _ _ Etb) as (Hdec32 & Hchars).
  all: assert (Hllen : length lower = length s) by (unfold lower; apply map_length).
  all: assert (Hdlen : length decoded = (length s - one - 1)%nat)
         by (apply (f_equal (@length N)) in Hchars; rewrite map_length, skipn_length, Hllen in Hchars; lia).
  all: assert (Hrange : Forall (fun c => 33 <= c /\ c <= 126) s)
         by (apply Forall_forall; intros c Hc; rewrite forallb_forall in Hrng; specialize (Hrng c Hc); lia).
  all: (split; [lia|]); (split; [exact Hrange|]).
  all: split; [try (left; apply list_eqb_eq; exact El); try (right; apply list_eqb_eq; exact Eu)|].
  all: assert (Hlower_rng : Forall (fun c => 33 <= c /\ c <= 126 /\ upper_case c = false) lower).
  all: try (unfold lower; apply Forall_forall; intros c Hc; apply in_map_iff in Hc as [x [<- Hx]];
            rewrite Forall_forall in Hrange; specialize (Hrange x Hx);
            split; [|split; [|apply to_lower_not_upper]]; unfold to_lower;
            destruct ((65 <=? x) && (x <=? 90)) eqn:E; lia).
  all: assert (Hhrp : hrp_ok hrp).
  all: try (subst hrp; split;
            [ intros E; apply (f_equal (@length N)) in E; rewrite firstn_length in E; cbn [length] in E; lia
            | rewrite <- (firstn_skipn one lower) in Hlower_rng; apply Forall_app in Hlower_rng; tauto ]).
  all: (split; [exact Hhrp|]).
  all: set (b := skipn (length decoded - 6) decoded).
  all: assert (Hsplit : decoded = data ++ b) by (subst data; unfold b; symmetry; apply firstn_skipn).
  all: assert (Hb6 : length b = 6%nat) by (unfold b; rewrite skipn_length; lia).
  all: assert (Hb32 : Forall (fun x => x < 32) b)
         by (rewrite Hsplit in Hdec32; apply Forall_app in Hdec32; tauto).
  all: assert (Hd32 : Forall (fun x => x < 32) data)
         by (rewrite Hsplit in Hdec32; apply Forall_app in Hdec32; tauto).
  all: (split; [exact Hd32|]).
  all: rewrite Hsplit in Ev; rewrite Hh in Ev.
  all: pose proof (bech32_checksum_unique_app hrp data b Hb6 Hb32 Ev) as Hbcs.
  all: unfold encode; rewrite <- Hbcs, <- Hsplit, (to_chars_ok _ Hdec32), <- Hchars.
  all: f_equal; rewrite <- Hh.
  all: rewrite <- (firstn_skipn one lower) at 3; f_equal.
  all: replace (one + 1)%nat with (S one) by lia.
  all: rewrite <- Hp2.
  all: clear - Hp1; revert one Hp1; induction lower as [|x t IH]; intros one Hp1; [cbn [length] in Hp1; lia|].
  all: destruct one as [|one]; [reflexivity|]; cbn [skipn nth length] in *; apply IH; lia.
Qed.

(* the individual rejection rules, read off the canonical form *)
Corollary bech32_rejects_mixed_case s :
  s <> map to_lower s -> s <> map to_upper s -> forall r, decode s <> Ok r.
Proof.
  intros H1 H2 [hrp data] H. apply bech32_decode_canonical in H as (_ & _ & [E|E] & _); congruence.
Qed.

Corollary bech32_rejects_length s : (length s < 8 \/ 90 < length s)%nat -> forall r, decode s <> Ok r.
Proof. intros Hl [hrp data] H. apply bech32_decode_canonical in H as (Hlen & _). lia. Qed.

Corollary bech32_rejects_foreign_char s c :
  In c s -> (c < 33 \/ 126 < c) -> forall r, decode s <> Ok r.
Proof.
  intros Hin Hc [hrp data] H. apply bech32_decode_canonical in H as (_ & Hr & _).
  rewrite Forall_forall in Hr. specialize (Hr c Hin). lia.
Qed.

(* a data character outside the charset, a misplaced separator or a bad checksum:
   anything accepted is exactly an encoding, so a string that is not the encoding of
   (hrp, data) for any 5-bit data is rejected *)
Corollary bech32_accepts_only_encodings s r :
  decode s = Ok r -> encode (fst r) (snd r) = Ok (map to_lower s).
Proof. destruct r as [hrp data]. intros H. apply bech32_decode_canonical in H. tauto. Qed.

(* BIP173 test vectors *)
Example bip173_valid_1 : decode [65;49;50;85;69;76;53;76] = Ok ([97], []).   (* "A12UEL5L" *)
Proof. vm_compute. reflexivity. Qed.
Example bip173_invalid_mixed : decode [65;49;50;85;69;76;53;108] = Err 3.    (* "A12UEL5l" *)
Proof. vm_compute. reflexivity. Qed.
Example bip173_invalid_no_sep : decode [112;122;114;121;57;120;48;115;48;109;117;107] = Err 4.  (* "pzry9x0s0muk" *)
Proof. vm_compute. reflexivity. Qed.
Example bip173_invalid_empty_hrp : decode [49;112;122;114;121;57;120;48;115;48;109;117;107] = Err 4. (* "1pzry9x0s0muk" *)
Proof. vm_compute. reflexivity. Qed.
Example bip173_invalid_char : decode [120;49;98;52;110;48;113;53;118] = Err 5.  (* "x1b4n0q5v" *)
Proof. vm_compute. reflexivity. Qed.
Example bip173_invalid_short_checksum : decode [108;105;49;100;103;109;116;51] = Err 4. (* "li1dgmt3" *)
Proof. vm_compute. reflexivity. Qed.
Example bip173_invalid_checksum : decode [65;49;50;85;69;76;53;77] = Err 6.
Proof. vm_compute. reflexivity. Qed.
Example roundtrip_hypotheses_satisfiable :
  hrp_ok [98;99] /\ Forall (fun x => x < 32) [0;14;20;15] /\ (length [98;99] + 1 + length [0;14;20;15] + 6 <= 90)%nat.
Proof. repeat split; try discriminate; repeat constructor; vm_compute; congruence. Qed.

(* The bech32 model (Bech32/Bech32.v, literals from the Go source) IS BIP173 (Bech32/Bip173Spec.v, own
   literals): Encode produces the BIP's string, Decode accepts exactly the BIP's valid strings and
   returns what they stand for; the individual rejection rules are corollaries. *)
From BU Require Import Lib.Bytes Lib.PolyMod Gen.Xbech32 Bech32.Bech32 Checksum.StepFacts Checksum.Valid
  Bech32.Bech32Proofs.
From BU Require Import Bech32.Bip173Spec.
From Coq Require Import ZifyBool ZifyN ZifyNat.

(* ---------- obligations over the extracted constants: the Go literals are the BIP's ---------- *)
Lemma tie_params : bech_params = bip_params.
Proof. reflexivity. Qed.

Lemma tie_charset : charset = bip_charset.
Proof. reflexivity. Qed.

Lemma tie_polymod_init : lit lits_bech32Polymod 0 = 1.
Proof. reflexivity. Qed.

Lemma tie_hrp_lits : lit lits_bech32HrpExpand 4 = 5 /\ lit lits_bech32HrpExpand 7 = 31.
Proof. split; reflexivity. Qed.

Lemma polymod_is_bip v : polymod v = bip_polymod v.
Proof. unfold polymod, bip_polymod. rewrite tie_params, tie_polymod_init. reflexivity. Qed.

Lemma hrp_expand_is_bip hrp : hrp_expand hrp = bip_hrp_expand hrp.
Proof.
  unfold hrp_expand, bip_hrp_expand. destruct tie_hrp_lits as [-> ->].
  f_equal; [|f_equal]; apply map_ext; intros c.
  - rewrite N.shiftr_div_pow2. reflexivity.
  - change 31 with (N.ones 5). rewrite N.land_ones. reflexivity.
Qed.

Lemma verify_is_bip hrp data : verify_checksum hrp data = bip_verify hrp data.
Proof.
  unfold verify_checksum, bip_verify. rewrite polymod_is_bip, hrp_expand_is_bip.
  destruct bech_consts as (_ & -> & _). reflexivity.
Qed.

Lemma sym_is_bip p k : N.land (N.shiftr p (5 * k)) 31 = (p / 2 ^ (5 * k)) mod 32.
Proof. rewrite N.shiftr_div_pow2. change 31 with (N.ones 5). rewrite N.land_ones. reflexivity. Qed.

Lemma create_checksum_is_bip hrp data : create_checksum hrp data = bip_create_checksum hrp data.
Proof.
  unfold create_checksum, bip_create_checksum. rewrite polymod_is_bip, hrp_expand_is_bip.
  destruct bech_consts as (-> & _ & _).
  change (repeat 0 6) with [0;0;0;0;0;0].
  set (p := N.lxor _ 1). cbn [unpack map N.of_nat Pos.of_succ_nat Pos.succ].
  rewrite !sym_is_bip. reflexivity.
Qed.

Lemma chr_is_bip d : chr d = bip_chr d.
Proof. unfold chr, bip_chr. rewrite tie_charset. reflexivity. Qed.

Lemma lower_is_bip s : map to_lower s = map bip_lower s.
Proof. apply map_ext. reflexivity. Qed.
Lemma upper_is_bip s : map to_upper s = map bip_upper s.
Proof. apply map_ext. reflexivity. Qed.

(* ---------- Encode is the BIP's encoding ---------- *)
Theorem encode_is_bip173 hrp data : Forall (fun x => x < 32) data ->
  encode hrp data = Ok (bip_encode hrp data).
Proof.
  intros Hd. unfold encode, bip_encode.
  assert (Hs : Forall (fun x => x < 32) (data ++ create_checksum hrp data))
    by (apply Forall_app; split; [exact Hd | apply bech32_create_lt32]).
  rewrite (to_chars_ok _ Hs), create_checksum_is_bip.
  rewrite (map_ext _ _ chr_is_bip). reflexivity.
Qed.

(* ---------- Decode works on the case-folded string ---------- *)
Lemma in_range_lower c : negb ((to_lower c <? 33) || (126 <? to_lower c)) = negb ((c <? 33) || (126 <? c)).
Proof. unfold to_lower. destruct ((65 <=? c) && (c <=? 90)) eqn:E; lia. Qed.

Lemma decode_folds s : s = map to_lower s \/ s = map to_upper s -> decode s = decode (map to_lower s).
Proof.
  intros Hc. unfold decode. rewrite map_length.
  assert (Hr : forallb (fun c => negb ((c <? lit lits_Decode 3) || (lit lits_Decode 4 <? c))) (map to_lower s) =
               forallb (fun c => negb ((c <? lit lits_Decode 3) || (lit lits_Decode 4 <? c))) s).
  { destruct decode_lits as (_ & _ & -> & -> & _).
    induction s as [|c t IH]; [reflexivity|]. cbn [map forallb]. rewrite in_range_lower. f_equal.
    apply IH. destruct Hc as [Hc|Hc]; cbn [map] in Hc; injection Hc as _ Hc; auto. }
  rewrite Hr.
  assert (Hidem : map to_lower (map to_lower s) = map to_lower s).
  { rewrite map_map. apply map_ext. apply to_lower_idem. }
  rewrite Hidem, list_eqb_refl.
  assert (Hcase : negb (list_eqb s (map to_lower s)) && negb (list_eqb s (map to_upper s)) = false).
  { destruct Hc as [Hc|Hc].
    - rewrite <- Hc, list_eqb_refl. reflexivity.
    - rewrite <- Hc, list_eqb_refl. apply andb_false_r. }
  rewrite Hcase. cbn [negb andb]. reflexivity.
Qed.

(* a string splits in one way only around its last '1' *)
Lemma split_last_unique (c : N) a b a' b' :
  ~ In c b -> ~ In c b' -> a ++ c :: b = a' ++ c :: b' -> a = a' /\ b = b'.
Proof.
  revert a'. induction a as [|x a IH]; intros [|y a'] Hb Hb' E; cbn [app] in E.
  - injection E as E. auto.
  - injection E as E1 E2. exfalso. apply Hb. rewrite E2. apply in_or_app. right. left. reflexivity.
  - injection E as E1 E2. exfalso. apply Hb'. rewrite <- E2. apply in_or_app. right. left. reflexivity.
  - injection E as E1 E2. destruct (IH a' Hb Hb' E2) as [-> ->]. subst. auto.
Qed.

Lemma chars_no_sep syms : Forall (fun x => x < 32) syms -> ~ In 49 (map chr syms).
Proof.
  intros H Hin. apply in_map_iff in Hin as [x [E Hx]]. rewrite Forall_forall in H.
  pose proof (charset_class_in _ (chr_in x (H x Hx))) as Hc. rewrite E in Hc. lia.
Qed.

(* ---------- Decode accepts exactly the BIP's valid strings ---------- *)
Theorem decode_iff_bip173 s hrp data : decode s = Ok (hrp, data) <-> bip_valid s hrp data.
Proof.
  split.
  - intros H. apply bech32_decode_canonical in H as (Hlen & Hrng & Hcase & [Hne Hhrp] & Hd & He).
    unfold bip_valid. split; [lia|]. split; [exact Hrng|]. split.
    { rewrite <- lower_is_bip, <- upper_is_bip. exact Hcase. }
    split; [exact Hne|]. split; [exact Hd|].
    exists (create_checksum hrp data). split; [apply bech32_create_length|]. split; [apply bech32_create_lt32|]. split.
    + rewrite <- lower_is_bip. rewrite (encode_is_bip173 _ _ Hd) in He. injection He as He.
      rewrite <- He. unfold bip_encode. rewrite create_checksum_is_bip. reflexivity.
    + rewrite <- verify_is_bip. apply bech32_checksum_valid_strong.
  - intros (Hlen & Hrng & Hcase & Hne & Hd & ck & Hck6 & Hck32 & Hs & Hv).
    rewrite <- lower_is_bip, <- upper_is_bip in Hcase. rewrite <- lower_is_bip in Hs.
    rewrite <- verify_is_bip in Hv.
    pose proof (bech32_checksum_unique_app hrp data ck Hck6 Hck32 Hv) as ->.
    rewrite (decode_folds s Hcase).
    (* the folded string is in range and has no upper-case letter *)
    assert (Hlow : Forall (fun c => 33 <= c /\ c <= 126 /\ upper_case c = false) (map to_lower s)).
    { apply Forall_forall. intros c Hc. apply in_map_iff in Hc as [x [<- Hx]].
      rewrite Forall_forall in Hrng. specialize (Hrng x Hx).
      split; [|split; [|apply to_lower_not_upper]]; unfold to_lower;
        destruct ((65 <=? x) && (x <=? 90)) eqn:E; lia. }
    assert (Hhrp : hrp_ok hrp).
    { split; [exact Hne|]. rewrite Hs in Hlow. apply Forall_app in Hlow. tauto. }
    assert (Hl : (length hrp + 1 + length data + 6 <= 90)%nat).
    { apply (f_equal (@length N)) in Hs. rewrite map_length in Hs.
      rewrite !app_length, map_length, app_length, bech32_create_length in Hs. cbn [length] in Hs. lia. }
    destruct (bech32_roundtrip hrp data Hhrp Hd Hl) as (s0 & He & _ & Hdec).
    rewrite (encode_is_bip173 _ _ Hd) in He. injection He as <-.
    rewrite Hs. unfold bip_encode in Hdec. rewrite <- create_checksum_is_bip in Hdec.
    exact Hdec.
Qed.

(* ---------- the rejection rules one by one ---------- *)
(* separator: none at all, or nothing before the last one, or fewer than six characters after it *)
Corollary rejects_misplaced_separator s :
  (forall h t, map to_lower s = h ++ 49 :: t -> ~ In 49 t -> h = [] \/ (length t < 6)%nat) ->
  forall r, decode s <> Ok r.
Proof.
  intros Hsep [hrp data] H. apply decode_iff_bip173 in H as (_ & _ & _ & Hne & Hd & ck & Hck6 & Hck32 & Hs & _).
  rewrite <- lower_is_bip in Hs. cbn [app] in Hs.
  assert (Hsyms : Forall (fun x => x < 32) (data ++ ck)) by (apply Forall_app; split; assumption).
  destruct (Hsep hrp (map bip_chr (data ++ ck)) Hs) as [E|E].
  - rewrite <- (map_ext _ _ chr_is_bip). apply chars_no_sep. exact Hsyms.
  - contradiction.
  - rewrite map_length, app_length, Hck6 in E. lia.
Qed.

(* a character after the last separator that is not in the charset *)
Corollary rejects_data_char_outside_charset s h t c :
  map to_lower s = h ++ 49 :: t -> ~ In 49 t -> In c t -> ~ In c charset ->
  forall r, decode s <> Ok r.
Proof.
  intros Es Ht Hc Hnc [hrp data] H.
  apply decode_iff_bip173 in H as (_ & _ & _ & Hne & Hd & ck & Hck6 & Hck32 & Hs & _).
  rewrite <- lower_is_bip, Es in Hs. cbn [app] in Hs.
  assert (Hsyms : Forall (fun x => x < 32) (data ++ ck)) by (apply Forall_app; split; assumption).
  apply split_last_unique in Hs as [_ Et]; [| exact Ht |].
  2:{ rewrite <- (map_ext _ _ chr_is_bip). apply chars_no_sep. exact Hsyms. }
  rewrite Et in Hc. apply in_map_iff in Hc as [x [<- Hx]]. apply Hnc.
  rewrite <- chr_is_bip. apply chr_in. rewrite Forall_forall in Hsyms. apply Hsyms, Hx.
Qed.

(* six symbols other than the checksum *)
Corollary rejects_bad_checksum hrp data ck :
  Forall (fun x => x < 32) data -> Forall (fun x => x < 32) ck -> length ck = 6%nat ->
  ck <> create_checksum hrp data ->
  forall s, map to_lower s = hrp ++ 49 :: map chr (data ++ ck) -> forall r, decode s <> Ok r.
Proof.
  intros Hd Hck Hl Hne s Es [hrp' data'] H.
  apply decode_iff_bip173 in H as (_ & _ & _ & _ & Hd' & ck' & Hck6 & Hck32 & Hs & Hv).
  rewrite <- lower_is_bip, Es in Hs. cbn [app] in Hs. rewrite <- verify_is_bip in Hv.
  assert (H1 : Forall (fun x => x < 32) (data ++ ck)) by (apply Forall_app; split; assumption).
  assert (H2 : Forall (fun x => x < 32) (data' ++ ck')) by (apply Forall_app; split; assumption).
  apply split_last_unique in Hs as [<- Et].
  2:{ apply chars_no_sep. exact H1. }
  2:{ rewrite <- (map_ext _ _ chr_is_bip). apply chars_no_sep. exact H2. }
  change (map bip_chr (data' ++ ck')) with (map chr (data' ++ ck')) in Et.
  (* chr is injective on symbols: recover the symbol lists *)
  assert (Esyms : Some (data ++ ck) = Some (data' ++ ck')).
  { rewrite <- (to_bytes_chr _ H1), <- (to_bytes_chr _ H2), Et. reflexivity. }
  injection Esyms as Esyms.
  assert (El : length data = length data').
  { apply (f_equal (@length N)) in Esyms. rewrite !app_length in Esyms. lia. }
  assert (Ed : data = data' /\ ck = ck').
  { clear - Esyms El. revert data' El Esyms. induction data as [|x d IH]; intros [|y d'] El E; cbn in *; try lia.
    - auto.
    - injection E as -> E. destruct (IH d' ltac:(lia) E) as [-> ->]. auto. }
  destruct Ed as [<- <-]. apply Hne. apply bech32_checksum_unique_app; assumption.
Qed.

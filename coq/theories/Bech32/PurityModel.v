(* Memory behaviour of bech32.Encode over Lib/Slice.v (model only; proofs in Purity.v). *)
From BU Require Import Lib.Bytes Lib.Slice.

(* current code:  combined := make([]byte, 0, len(data)+len(checksum));
                  combined = append(combined, data...); combined = append(combined, checksum...) *)
Definition encode_mem (h : heap) (data : slice) (checksum : list N) : heap * slice :=
  let m := go_make h (s_len data + length checksum) in
  let a := go_append (fst m) (snd m) (contents h data) in
  go_append (fst a) (snd a) checksum.

(* the code before the fix:  combined := append(data, checksum...) *)
Definition encode_mem_old (h : heap) (data : slice) (checksum : list N) : heap * slice :=
  go_append h data checksum.


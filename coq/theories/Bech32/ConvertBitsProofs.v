(* bech32.ConvertBits: the model [convert_bits] (Bech32.v) regroups bits.

   Specification [regroup_spec]: every input value contributes its [fromBits] low bits, most
   significant first; the bit stream is cut into groups of [toBits]; every group is read as a
   number, most significant bit first.  A trailing incomplete group of r bits (0 < r < toBits)
   is, with pad = true, emitted shifted left by toBits - r; with pad = false it is an error
   when r > 4 (the constant is hard-coded in the Go code, whatever toBits is) or when the r
   bits are not all zero, and dropped otherwise.

   Main results: [convert_bits_is_spec], [convert_8_5_inverse], [convert_5_8_canonical],
   [convert_bits_no_panic], [convert_bits_rejects_range]. *)
From BU Require Import Lib.Bytes Bech32.Bech32.
From Coq Require Import ZifyBool ZifyN ZifyNat.

(* ================================================================== *)
(* Bits                                                                *)
(* ================================================================== *)

(* the [w] low bits of [v], most significant first *)
Fixpoint bits_of (w : nat) (v : N) : list bool :=
  match w with
  | O => []
  | S k => N.testbit v (N.of_nat k) :: bits_of k v
  end.

(* the number written by a bit list, most significant bit first *)
Definition val_of (bs : list bool) : N :=
  fold_left (fun a b => 2 * a + N.b2n b) bs 0.

(* cut [bs] into groups of [w] bits; result: the complete groups, and the incomplete rest
   (fewer than [w] bits, possibly none).  [fuel] = [length bs] is always enough. *)
Fixpoint groups (fuel w : nat) (bs : list bool) : list (list bool) * list bool :=
  match fuel with
  | O => ([], bs)
  | S f =>
      if (length bs <? w)%nat then ([], bs)
      else let '(gs, tl) := groups f w (skipn w bs) in (firstn w bs :: gs, tl)
  end.

(* the specification, without the range check on the group sizes *)
Definition regroup_core (data : list N) (fromBits toBits : nat) (pad : bool) : res (list N) :=
  let bits := flat_map (bits_of fromBits) data in
  let '(gs, tl) := groups (length bits) toBits bits in
  let r := length tl in
  match tl with
  | [] => Ok (map val_of gs)
  | _ :: _ =>
      if pad then Ok (map val_of gs ++ [val_of tl * 2 ^ N.of_nat (toBits - r)])
      else if (4 <? r)%nat || negb (forallb negb tl) then Err 9
      else Ok (map val_of gs)
  end.

Definition regroup_spec (data : list N) (fromBits toBits : N) (pad : bool) : res (list N) :=
  if (fromBits <? 1) || (8 <? fromBits) || (toBits <? 1) || (8 <? toBits) then Err 8
  else regroup_core data (N.to_nat fromBits) (N.to_nat toBits) pad.

(* ---------- val_of ---------- *)
Lemma val_acc bs : forall a,
  fold_left (fun a b => 2 * a + N.b2n b) bs a = a * 2 ^ N.of_nat (length bs) + val_of bs.
Proof.
  unfold val_of. induction bs as [|b bs IH]; intros a.
  - cbn [fold_left length]. change (N.of_nat 0) with 0. rewrite N.pow_0_r. lia.
  - cbn [fold_left length]. rewrite (IH (2 * a + N.b2n b)), (IH (2 * 0 + N.b2n b)).
    rewrite Nat2N.inj_succ, N.pow_succ_r'. ring.
Qed.

Lemma val_of_nil : val_of [] = 0.
Proof. reflexivity. Qed.

Lemma val_of_cons b bs : val_of (b :: bs) = N.b2n b * 2 ^ N.of_nat (length bs) + val_of bs.
Proof.
  unfold val_of at 1. cbn [fold_left]. rewrite val_acc. change (2 * 0) with 0. rewrite N.add_0_l. reflexivity.
Qed.

Lemma val_of_app a b : val_of (a ++ b) = val_of a * 2 ^ N.of_nat (length b) + val_of b.
Proof. unfold val_of at 1. rewrite fold_left_app. fold (val_of a). apply val_acc. Qed.

Lemma pow2_pos n : 0 < 2 ^ n.
Proof. apply N.neq_0_lt_0, N.pow_nonzero. discriminate. Qed.

Lemma val_of_lt bs : val_of bs < 2 ^ N.of_nat (length bs).
Proof.
  induction bs as [|b bs IH].
  - cbn. lia.
  - rewrite val_of_cons. cbn [length]. rewrite Nat2N.inj_succ, N.pow_succ_r'.
    destruct b; cbn [N.b2n]; lia.
Qed.

Lemma val_of_zeros k : val_of (repeat false k) = 0.
Proof.
  induction k as [|k IH]; [reflexivity|].
  cbn [repeat]. rewrite val_of_cons, IH. cbn [N.b2n]. lia.
Qed.

Lemma val_of_zero_iff bs : val_of bs = 0 <-> forallb negb bs = true.
Proof.
  induction bs as [|b bs IH]; [cbn; tauto|].
  rewrite val_of_cons. cbn [forallb]. rewrite andb_true_iff, <- IH.
  pose proof (pow2_pos (N.of_nat (length bs))) as Hp.
  destruct b; cbn [N.b2n negb]; split; intros H.
  - lia.
  - destruct H; discriminate.
  - split; [reflexivity | lia].
  - lia.
Qed.

Lemma all_zero_repeat bs : forallb negb bs = true -> bs = repeat false (length bs).
Proof.
  induction bs as [|b bs IH]; [reflexivity|].
  cbn [forallb length repeat]. intros H. apply andb_true_iff in H as [Hb H].
  destruct b; [discriminate|]. f_equal. auto.
Qed.

(* ---------- bits_of ---------- *)
Lemma bits_of_length w v : length (bits_of w v) = w.
Proof. induction w as [|w IH]; cbn [bits_of length]; auto. Qed.

Lemma val_bits_of w v : val_of (bits_of w v) = v mod 2 ^ N.of_nat w.
Proof.
  induction w as [|w IH].
  - cbn [bits_of]. change (N.of_nat 0) with 0. rewrite N.pow_0_r, N.mod_1_r. reflexivity.
  - cbn [bits_of]. rewrite val_of_cons, bits_of_length, IH, N.testbit_spec'.
    rewrite Nat2N.inj_succ, N.pow_succ_r', (N.mul_comm 2).
    pose proof (pow2_pos (N.of_nat w)) as Hp.
    rewrite N.mod_mul_r by lia. lia.
Qed.

Lemma bits_of_mod w w' v : (w <= w')%nat -> bits_of w (v mod 2 ^ N.of_nat w') = bits_of w v.
Proof.
  induction w as [|w IH]; intros Hle; [reflexivity|].
  cbn [bits_of]. f_equal.
  - apply N.mod_pow2_bits_low. lia.
  - apply IH. lia.
Qed.

Lemma bits_val_of g : bits_of (length g) (val_of g) = g.
Proof.
  induction g as [|b g IH]; [reflexivity|].
  cbn [length bits_of]. rewrite val_of_cons.
  pose proof (pow2_pos (N.of_nat (length g))) as Hp.
  pose proof (val_of_lt g) as Hlt.
  f_equal.
  - apply N.b2n_inj. rewrite N.testbit_spec'.
    rewrite N.div_add_l by lia. rewrite (N.div_small (val_of g)) by lia.
    destruct b; reflexivity.
  - rewrite <- (bits_of_mod (length g) (length g)) by lia.
    rewrite N.add_comm, N.mod_add by lia. rewrite N.mod_small by lia. exact IH.
Qed.

Lemma bits_val_of_map w gs :
  Forall (fun g => length g = w) gs -> flat_map (bits_of w) (map val_of gs) = concat gs.
Proof.
  induction 1 as [|g gs Hg _ IH]; [reflexivity|].
  cbn [map flat_map concat]. rewrite IH. f_equal. subst w. apply bits_val_of.
Qed.

Lemma val_bits_of_map w l :
  map val_of (map (bits_of w) l) = map (fun v => v mod 2 ^ N.of_nat w) l.
Proof. rewrite map_map. apply map_ext. intros v. apply val_bits_of. Qed.

Lemma map_mod_small w l :
  Forall (fun v => v < 2 ^ N.of_nat w) l -> map (fun v => v mod 2 ^ N.of_nat w) l = l.
Proof.
  induction 1 as [|v l Hv _ IH]; [reflexivity|].
  cbn [map]. rewrite IH, N.mod_small by exact Hv. reflexivity.
Qed.

(* ---------- groups ---------- *)
Lemma length_concat_uniform w (gs : list (list bool)) :
  Forall (fun g => length g = w) gs -> length (concat gs) = (w * length gs)%nat.
Proof.
  induction 1 as [|g gs Hg _ IH]; [cbn; lia|].
  cbn [concat length]. rewrite app_length, IH, Hg. lia.
Qed.

(* what [groups] returns: the unique cutting of bs into w-groups and a short rest *)
Lemma groups_sound w : (1 <= w)%nat -> forall fuel bs gs tl,
  (length bs <= fuel)%nat -> groups fuel w bs = (gs, tl) ->
  bs = concat gs ++ tl /\ Forall (fun g => length g = w) gs /\ (length tl < w)%nat.
Proof.
  intros Hw. induction fuel as [|f IH]; intros bs gs tl Hlen E.
  - destruct bs; [|cbn in Hlen; lia]. cbn in E. inversion E; subst. cbn. repeat split; auto; lia.
  - cbn [groups] in E. destruct (Nat.ltb_spec (length bs) w) as [Hs|Hs].
    + inversion E; subst. cbn. repeat split; auto.
    + destruct (groups f w (skipn w bs)) as [gs' tl'] eqn:E'.
      inversion E; subst. apply IH in E'.
      * destruct E' as (E1 & E2 & E3). repeat split; auto.
        -- cbn [concat]. rewrite <- app_assoc, <- E1. symmetry. apply firstn_skipn.
        -- constructor; auto. rewrite firstn_length. lia.
      * rewrite skipn_length. lia.
Qed.

Lemma groups_unique w : (1 <= w)%nat -> forall gs fuel tl,
  Forall (fun g => length g = w) gs -> (length tl < w)%nat ->
  (length (concat gs ++ tl) <= fuel)%nat ->
  groups fuel w (concat gs ++ tl) = (gs, tl).
Proof.
  intros Hw. induction gs as [|g gs IH]; intros fuel tl Hgs Htl Hfuel.
  - cbn [concat app] in *. destruct fuel as [|f]; [reflexivity|].
    cbn [groups]. destruct (Nat.ltb_spec (length tl) w); [reflexivity | lia].
  - inversion Hgs as [|? ? Hg Hgs']; subst.
    cbn [concat] in *. rewrite <- app_assoc in *. rewrite app_length in Hfuel.
    destruct fuel as [|f]; [lia|].
    cbn [groups]. rewrite app_length.
    destruct (Nat.ltb_spec (length g + length (concat gs ++ tl)) (length g)); [lia|].
    rewrite skipn_app, firstn_app, Nat.sub_diag, skipn_all, firstn_all. cbn [skipn firstn app].
    rewrite app_nil_r, IH by (auto; lia). reflexivity.
Qed.

(* ================================================================== *)
(* The bit-serial machine: the state (nextByte, filledBits, regrouped) *)
(* of the Go loop, fed one bit at a time                               *)
(* ================================================================== *)
Definition state : Type := N * N * list N.

Definition step (toBits : N) (st : state) (b : bool) : state :=
  let '(nx, fl, out) := st in
  let nx' := 2 * nx + N.b2n b in
  if fl + 1 =? toBits then (0, 0, nx' :: out) else (nx', fl + 1, out).

Definition run (toBits : N) (bs : list bool) (st : state) : state := fold_left (step toBits) bs st.

Definition push_out (st : state) (out : list N) : state :=
  let '(nx, fl, o) := st in (nx, fl, o ++ out).

Lemma run_out toBits bs : forall nx fl o out,
  run toBits bs (nx, fl, o ++ out) = push_out (run toBits bs (nx, fl, o)) out.
Proof.
  unfold run. induction bs as [|b bs IH]; intros nx fl o out; [reflexivity|].
  cbn [fold_left step]. destruct (fl + 1 =? toBits).
  - rewrite app_comm_cons. apply IH.
  - apply IH.
Qed.

Lemma inner_out fuel toBits : forall b rf nx fl o out,
  inner fuel toBits b rf nx fl (o ++ out) = push_out (inner fuel toBits b rf nx fl o) out.
Proof.
  induction fuel as [|f IH]; intros b rf nx fl o out; [reflexivity|].
  cbn [inner]. destruct (rf =? 0); [reflexivity|].
  cbv zeta.
  match goal with |- context [if ?c then inner _ _ _ _ 0 0 _ else _] => destruct c end.
  - rewrite app_comm_cons. apply IH.
  - apply IH.
Qed.

(* ---------- the finite sweep: one input value through [inner] = its bits through [step] ---------- *)
Definition nrange (k : N) : list N := map N.of_nat (seq 0 (N.to_nat k)).

Lemma forallb_nrange (P : N -> bool) k :
  forallb P (nrange k) = true -> forall x, x < k -> P x = true.
Proof.
  intros H x Hx. rewrite forallb_forall in H. apply H.
  unfold nrange. apply in_map_iff. exists (N.to_nat x). split; [lia|].
  apply in_seq. lia.
Qed.

Definition st_eqb (a b : state) : bool :=
  let '(n1, f1, o1) := a in let '(n2, f2, o2) := b in
  (n1 =? n2) && (f1 =? f2) && list_eqb o1 o2.

Lemma st_eqb_eq a b : st_eqb a b = true -> a = b.
Proof.
  destruct a as [[n1 f1] o1], b as [[n2 f2] o2]. cbn [st_eqb].
  rewrite !andb_true_iff, !N.eqb_eq, list_eqb_eq. intros [[-> ->] ->]. reflexivity.
Qed.


(* toBits, fromBits in 1..8; v < 256; filled < toBits; next < 2^filled: about 10^6 cases *)
Definition sweep5 (P : N -> N -> N -> N -> N -> bool) : bool :=
  forallb (fun t => forallb (fun f => forallb (fun v => forallb (fun fl => forallb (fun nx =>
    P (t + 1) (f + 1) v fl nx)
    (nrange (2 ^ fl))) (nrange (t + 1))) (nrange 256)) (nrange 8)) (nrange 8).

Lemma sweep5_lift P : sweep5 P = true ->
  forall t f v fl nx,
  1 <= t <= 8 -> 1 <= f <= 8 -> v < 256 -> fl < t -> nx < 2 ^ fl -> P t f v fl nx = true.
Proof.
  intros S t f v fl nx Ht Hf Hv Hfl Hnx.
  assert (H1 : t - 1 < 8) by lia.
  assert (H2 : f - 1 < 8) by lia.
  assert (H3 : t - 1 + 1 = t) by lia.
  assert (H4 : f - 1 + 1 = f) by lia.
  unfold sweep5 in S.
  apply forallb_nrange with (x := t - 1) in S; [|exact H1].
  apply forallb_nrange with (x := f - 1) in S; [|exact H2].
  apply forallb_nrange with (x := v) in S; [|exact Hv].
  rewrite H3, H4 in S.
  apply forallb_nrange with (x := fl) in S; [|exact Hfl].
  apply forallb_nrange with (x := nx) in S; [|exact Hnx].
  exact S.
Qed.


Local Notation check1 := (fun toBits fromBits v fl nx : N =>
  st_eqb (inner 8 toBits (u8 (N.shiftl v (8 - fromBits))) fromBits nx fl [])
         (run toBits (bits_of (N.to_nat fromBits) v) (nx, fl, []))).

Lemma sweep_ok : sweep5 check1 = true.
Proof. vm_cast_no_check (eq_refl true). Qed.

Lemma inner_out_nil fuel toBits b rf nx fl out :
  inner fuel toBits b rf nx fl out = push_out (inner fuel toBits b rf nx fl []) out.
Proof. exact (inner_out fuel toBits b rf nx fl [] out). Qed.

Lemma run_out_nil toBits bs nx fl out :
  run toBits bs (nx, fl, out) = push_out (run toBits bs (nx, fl, [])) out.
Proof. exact (run_out toBits bs nx fl [] out). Qed.

Lemma inner_is_run toBits fromBits v fl nx out :
  1 <= toBits <= 8 -> 1 <= fromBits <= 8 -> v < 256 -> fl < toBits -> nx < 2 ^ fl ->
  inner 8 toBits (u8 (N.shiftl v (8 - fromBits))) fromBits nx fl out =
  run toBits (bits_of (N.to_nat fromBits) v) (nx, fl, out).
Proof.
  intros Ht Hf Hv Hfl Hnx.
  pose proof (sweep5_lift _ sweep_ok _ _ _ _ _ Ht Hf Hv Hfl Hnx) as S.
  cbv beta in S.
  apply st_eqb_eq in S.
  rewrite inner_out_nil, run_out_nil.
  rewrite S. reflexivity.
Qed.

(* ---------- the outer loop ---------- *)
Definition good (toBits : N) (st : state) : Prop :=
  let '(nx, fl, _) := st in fl < toBits /\ nx < 2 ^ fl.

Lemma step_good toBits st b : 1 <= toBits -> good toBits st -> good toBits (step toBits st b).
Proof.
  destruct st as [[nx fl] out]. cbn [good step]. intros Ht [Hfl Hnx].
  destruct (N.eqb_spec (fl + 1) toBits) as [E|E]; cbn [good].
  - split; [lia | cbn; lia].
  - split; [lia|]. rewrite N.add_1_r, N.pow_succ_r'. destruct b; cbn [N.b2n]; lia.
Qed.

Lemma run_good toBits bs : 1 <= toBits -> forall st, good toBits st -> good toBits (run toBits bs st).
Proof.
  intros Ht. unfold run. induction bs as [|b bs IH]; intros st Hst; [exact Hst|].
  cbn [fold_left]. apply IH, step_good; assumption.
Qed.

Lemma run_app toBits a b st : run toBits (a ++ b) st = run toBits b (run toBits a st).
Proof. unfold run. apply fold_left_app. Qed.

Lemma convert_loop_is_run fromBits toBits data :
  1 <= toBits <= 8 -> 1 <= fromBits <= 8 -> Bytes data ->
  forall nx fl out, good toBits (nx, fl, out) ->
  convert_loop fromBits toBits data nx fl out =
  run toBits (flat_map (bits_of (N.to_nat fromBits)) data) (nx, fl, out).
Proof.
  intros Ht Hf. induction data as [|v data IH]; intros Hb nx fl out Hg; [reflexivity|].
  apply Bytes_cons in Hb as [Hv Hb].
  cbn [convert_loop flat_map]. rewrite run_app.
  destruct Hg as [Hfl Hnx].
  rewrite (inner_is_run toBits fromBits v fl nx out Ht Hf Hv Hfl Hnx).
  pose proof (run_good toBits (bits_of (N.to_nat fromBits) v) (proj1 Ht) (nx, fl, out) (conj Hfl Hnx)) as Hg'.
  destruct (run toBits (bits_of (N.to_nat fromBits) v) (nx, fl, out)) as [[nx' fl'] out'].
  apply IH; assumption.
Qed.

(* ---------- the bit-serial machine computes [groups] ---------- *)
Lemma run_short toBits bs : forall nx fl out,
  fl + N.of_nat (length bs) < toBits ->
  run toBits bs (nx, fl, out) =
  (nx * 2 ^ N.of_nat (length bs) + val_of bs, fl + N.of_nat (length bs), out).
Proof.
  unfold run. induction bs as [|b bs IH]; intros nx fl out H.
  - cbn [fold_left length]. change (N.of_nat 0) with 0.
    rewrite val_of_nil, N.pow_0_r, N.mul_1_r, !N.add_0_r. reflexivity.
  - cbn [length] in *. cbn [fold_left step].
    destruct (N.eqb_spec (fl + 1) toBits) as [E|E]; [lia|].
    rewrite IH by lia. rewrite val_of_cons, Nat2N.inj_succ, N.pow_succ_r'.
    replace (fl + 1 + N.of_nat (length bs)) with (fl + N.succ (N.of_nat (length bs))) by lia.
    f_equal. f_equal. ring.
Qed.

Lemma run_group toBits g out :
  1 <= toBits -> N.of_nat (length g) = toBits ->
  run toBits g (0, 0, out) = (0, 0, val_of g :: out).
Proof.
  intros Ht Hg. destruct g as [|b0 g0] using rev_ind; [cbn in Hg; lia|]. clear IHg0.
  rewrite app_length in Hg. cbn [length] in Hg.
  rewrite run_app, run_short by lia. unfold run. cbn [fold_left step].
  destruct (N.eqb_spec (0 + N.of_nat (length g0) + 1) toBits) as [E|E]; [|lia].
  rewrite val_of_app. cbn [length]. change (2 ^ N.of_nat 1) with 2.
  replace (val_of [b0]) with (N.b2n b0) by (destruct b0; reflexivity).
  f_equal. f_equal. lia.
Qed.

Lemma run_concat toBits gs rest : 1 <= toBits ->
  Forall (fun g => length g = N.to_nat toBits) gs -> forall out,
  run toBits (concat gs ++ rest) (0, 0, out) = run toBits rest (0, 0, rev (map val_of gs) ++ out).
Proof.
  intros Ht. induction 1 as [|g gs Hg _ IH]; intros out; [reflexivity|].
  cbn [concat map rev]. rewrite <- !app_assoc, run_app, run_group by lia.
  rewrite IH. reflexivity.
Qed.

Lemma run_groups toBits bs gs tl : 1 <= toBits ->
  groups (length bs) (N.to_nat toBits) bs = (gs, tl) ->
  run toBits bs (0, 0, []) = (val_of tl, N.of_nat (length tl), rev (map val_of gs)).
Proof.
  intros Ht E. apply groups_sound in E as (E & Hgs & Htl); [|lia|lia].
  subst bs. rewrite run_concat, run_short by (auto; lia).
  rewrite app_nil_r, N.mul_0_l, !N.add_0_l. reflexivity.
Qed.

(* ================================================================== *)
(* convert_bits = regroup_spec                                         *)
(* ================================================================== *)
Lemma range_ok fromBits toBits :
  (fromBits <? 1) || (8 <? fromBits) || (toBits <? 1) || (8 <? toBits) = false ->
  1 <= fromBits <= 8 /\ 1 <= toBits <= 8.
Proof. lia. Qed.

Lemma pad_value v r toBits :
  v < 2 ^ r -> r <= toBits -> toBits <= 8 ->
  u8 (N.shiftl v (toBits - r)) = v * 2 ^ (toBits - r).
Proof.
  intros Hv Hr Ht. unfold u8. rewrite N.shiftl_mul_pow2. apply N.mod_small.
  assert (H2 : 2 ^ r * 2 ^ (toBits - r) = 2 ^ toBits).
  { rewrite <- N.pow_add_r. f_equal. lia. }
  assert (H3 : 2 ^ toBits <= 2 ^ 8) by (apply N.pow_le_mono_r; lia).
  change (2 ^ 8) with 256 in H3.
  pose proof (pow2_pos (toBits - r)) as Hp.
  nia.
Qed.

Theorem convert_bits_is_spec data fromBits toBits pad :
  Bytes data ->
  convert_bits data fromBits toBits pad = regroup_spec data fromBits toBits pad.
Proof.
  intros Hb. unfold convert_bits, regroup_spec.
  destruct ((fromBits <? 1) || (8 <? fromBits) || (toBits <? 1) || (8 <? toBits)) eqn:R;
    [reflexivity|].
  apply range_ok in R as [Hf Ht].
  rewrite convert_loop_is_run by (auto; cbn; lia).
  unfold regroup_core.
  set (bits := flat_map (bits_of (N.to_nat fromBits)) data).
  destruct (groups (length bits) (N.to_nat toBits) bits) as [gs tl] eqn:G.
  rewrite (run_groups toBits bits gs tl) by (auto; lia).
  apply groups_sound in G as (_ & _ & Htl); [|lia|lia].
  destruct tl as [|b tl].
  - cbn [length]. change (N.of_nat 0) with 0. change (0 <? 0) with false.
    rewrite andb_false_r. cbn [andb]. rewrite rev_involutive. reflexivity.
  - set (t := b :: tl) in *. set (r := N.of_nat (length t)).
    assert (Hr : 0 < r) by (subst r t; cbn [length]; lia).
    assert (Hr' : r < toBits) by lia.
    replace (0 <? r) with true by lia.
    destruct pad; cbn [andb].
    + change (0 <? 0) with false. cbn [andb]. cbn [rev]. rewrite rev_involutive.
      rewrite pad_value by (try lia; apply val_of_lt).
      do 3 f_equal. subst r. lia.
    + replace (4 <? length t)%nat with (4 <? r) by lia.
      destruct (4 <? r); cbn [orb]; [reflexivity|].
      destruct (N.eqb_spec (val_of t) 0) as [E|E]; cbn [negb].
      * apply val_of_zero_iff in E. rewrite E. cbn [negb]. rewrite rev_involutive. reflexivity.
      * destruct (forallb negb t) eqn:F; [apply val_of_zero_iff in F; contradiction|]. reflexivity.
Qed.

(* ================================================================== *)
(* Consequences of the specification                                   *)
(* ================================================================== *)
Lemma forallb_negb_repeat k : forallb negb (repeat false k) = true.
Proof. induction k; cbn; auto. Qed.

Lemma flat_map_bits_length w l : length (flat_map (bits_of w) l) = (w * length l)%nat.
Proof.
  induction l as [|v l IH]; cbn [flat_map length]; [lia|].
  rewrite app_length, bits_of_length, IH. lia.
Qed.

Lemma Forall_bits_of_length w l : Forall (fun g => length g = w) (map (bits_of w) l).
Proof. apply Forall_forall. intros g Hg. apply in_map_iff in Hg as (v & <- & _). apply bits_of_length. Qed.

Lemma concat_uniform_inj w (a b : list (list bool)) : (1 <= w)%nat ->
  Forall (fun g => length g = w) a -> Forall (fun g => length g = w) b ->
  concat a = concat b -> a = b.
Proof.
  intros Hw Ha Hb E.
  pose proof (groups_unique w Hw a (length (concat a ++ [])) [] Ha ltac:(cbn; lia) ltac:(lia)) as G1.
  pose proof (groups_unique w Hw b (length (concat a ++ [])) [] Hb ltac:(cbn; lia) ltac:(rewrite E; lia)) as G2.
  rewrite E in G1 at 2. rewrite G1 in G2. inversion G2. reflexivity.
Qed.

(* pad = true: the bit stream, completed with fewer than w zero bits, is cut exactly *)
Lemma regroup_core_pad data f w : (1 <= w)%nat ->
  exists gs Z,
    regroup_core data f w true = Ok (map val_of gs) /\
    flat_map (bits_of f) data ++ Z = concat gs /\
    Forall (fun g => length g = w) gs /\
    Z = repeat false (length Z) /\ (length Z < w)%nat.
Proof.
  intros Hw. unfold regroup_core.
  set (bits := flat_map (bits_of f) data).
  destruct (groups (length bits) w bits) as [gs tl] eqn:G.
  apply groups_sound in G as (E & Hgs & Htl); [|lia|lia].
  destruct tl as [|b tl].
  - exists gs, []. rewrite !app_nil_r in *. repeat split; auto.
  - set (t := b :: tl) in *.
    assert (Ht : (1 <= length t)%nat) by (subst t; cbn [length]; lia).
    exists (gs ++ [t ++ repeat false (w - length t)]), (repeat false (w - length t)).
    rewrite repeat_length. repeat split.
    + rewrite map_app. cbn [map]. rewrite val_of_app, val_of_zeros, repeat_length, N.add_0_r.
      reflexivity.
    + rewrite concat_app. cbn [concat]. rewrite app_nil_r, E, app_assoc. reflexivity.
    + apply Forall_app. split; [exact Hgs|]. constructor; [|constructor].
      rewrite app_length, repeat_length. lia.
    + lia.
Qed.

(* pad = false: accepted exactly when the rest is at most 4 zero bits *)
Lemma regroup_core_nopad_ok data f w G Z : (1 <= w)%nat ->
  flat_map (bits_of f) data = concat G ++ Z ->
  Forall (fun g => length g = w) G -> (length Z < w)%nat -> (length Z <= 4)%nat ->
  Z = repeat false (length Z) ->
  regroup_core data f w false = Ok (map val_of G).
Proof.
  intros Hw E HG HZ HZ4 HZ0. unfold regroup_core. rewrite E.
  rewrite groups_unique by (auto; lia).
  destruct Z as [|b Z]; [reflexivity|].
  replace (4 <? length (b :: Z))%nat with false by lia.
  rewrite HZ0, forallb_negb_repeat. reflexivity.
Qed.

Lemma regroup_core_nopad_inv data f w d : (1 <= w)%nat ->
  regroup_core data f w false = Ok d ->
  exists G Z,
    flat_map (bits_of f) data = concat G ++ Z /\
    Forall (fun g => length g = w) G /\ (length Z < w)%nat /\ (length Z <= 4)%nat /\
    Z = repeat false (length Z) /\ d = map val_of G.
Proof.
  intros Hw. unfold regroup_core.
  set (bits := flat_map (bits_of f) data).
  destruct (groups (length bits) w bits) as [gs tl] eqn:G.
  apply groups_sound in G as (E & Hgs & Htl); [|lia|lia].
  intros H. exists gs, tl. destruct tl as [|b tl].
  - inversion H. cbn [length]. repeat split; auto; lia.
  - set (t := b :: tl) in *.
    destruct (Nat.ltb_spec 4 (length t)) as [H4|H4]; cbn [orb] in H; [discriminate|].
    destruct (forallb negb t) eqn:F; cbn [negb] in H; [|discriminate].
    inversion H. repeat split; auto. apply all_zero_repeat, F.
Qed.

Lemma Bytes_of_lt32 l : Forall (fun v => v < 32) l -> Bytes l.
Proof. unfold Bytes. apply Forall_impl. intros; lia. Qed.

Lemma Forall_val_of_lt w gs :
  Forall (fun g => length g = w) gs -> Forall (fun v => v < 2 ^ N.of_nat w) (map val_of gs).
Proof.
  intros H. apply Forall_map. eapply Forall_impl; [|exact H].
  cbn beta. intros g <-. apply val_of_lt.
Qed.

(* 8 -> 5 with padding followed by strict 5 -> 8 gives the bytes back *)
Theorem convert_8_5_inverse d : Bytes d ->
  exists five,
    convert_bits d 8 5 true = Ok five /\ Forall (fun v => v < 32) five /\
    convert_bits five 5 8 false = Ok d.
Proof.
  intros Hd.
  destruct (regroup_core_pad d 8 5 ltac:(lia)) as (gs & Z & E1 & E2 & E3 & E4 & E5).
  assert (H32 : Forall (fun v => v < 32) (map val_of gs)) by exact (Forall_val_of_lt 5 gs E3).
  exists (map val_of gs). split; [|split].
  - rewrite convert_bits_is_spec by exact Hd. exact E1.
  - exact H32.
  - rewrite convert_bits_is_spec by (apply Bytes_of_lt32, H32).
    unfold regroup_spec. cbn [N.ltb N.compare Pos.compare Pos.compare_cont orb].
    change (N.to_nat 5) with 5%nat. change (N.to_nat 8) with 8%nat.
    rewrite (regroup_core_nopad_ok (map val_of gs) 5 8 (map (bits_of 8) d) Z).
    + rewrite val_bits_of_map. f_equal. apply (map_mod_small 8). exact Hd.
    + lia.
    + rewrite (bits_val_of_map 5 gs E3), <- E2, flat_map_concat_map. reflexivity.
    + apply Forall_bits_of_length.
    + lia.
    + lia.
    + exact E4.
Qed.

(* whatever strict 5 -> 8 decoding accepts is the canonical 8 -> 5 encoding of its result *)
Theorem convert_5_8_canonical five d :
  Forall (fun v => v < 32) five ->
  convert_bits five 5 8 false = Ok d -> convert_bits d 8 5 true = Ok five.
Proof.
  intros H32 H.
  rewrite convert_bits_is_spec in H by (apply Bytes_of_lt32, H32).
  apply (regroup_core_nopad_inv five 5 8 d ltac:(lia)) in H
    as (G & Z & E1 & HG & HZ & HZ4 & HZ0 & ->).
  assert (Hd : Bytes (map val_of G)) by exact (Forall_val_of_lt 8 G HG).
  rewrite convert_bits_is_spec by exact Hd.
  destruct (regroup_core_pad (map val_of G) 8 5 ltac:(lia)) as (gs & Z' & F1 & F2 & F3 & F4 & F5).
  change (regroup_spec (map val_of G) 8 5 true) with (regroup_core (map val_of G) 8 5 true).
  rewrite F1. f_equal.
  rewrite (bits_val_of_map 8 G HG) in F2.
  (* the two paddings have the same length, hence are equal *)
  assert (L1 : (5 * length five = 8 * length G + length Z)%nat).
  { rewrite <- (flat_map_bits_length 5 five), E1, app_length, (length_concat_uniform 8 G HG). reflexivity. }
  assert (L2 : (8 * length G + length Z' = 5 * length gs)%nat).
  { rewrite <- (length_concat_uniform 5 gs F3), <- F2, app_length, (length_concat_uniform 8 G HG). reflexivity. }
  assert (LZ : length Z' = length Z) by lia.
  assert (EZ : Z' = Z) by (rewrite F4, HZ0, LZ; reflexivity).
  subst Z'. rewrite <- E1, flat_map_concat_map in F2.
  apply (concat_uniform_inj 5) in F2; [|lia|apply Forall_bits_of_length|exact F3].
  rewrite <- F2, val_bits_of_map. apply (map_mod_small 5). exact H32.
Qed.

(* the model has no panicking path (all shifts are by in-range amounts on uint8, no indexing) *)
Theorem convert_bits_no_panic data fromBits toBits pad :
  is_panic (convert_bits data fromBits toBits pad) = false.
Proof.
  unfold convert_bits.
  destruct ((fromBits <? 1) || (8 <? fromBits) || (toBits <? 1) || (8 <? toBits)); [reflexivity|].
  destruct (convert_loop fromBits toBits data 0 0 []) as [[nx fl] out].
  destruct (pad && (0 <? fl));
    match goal with |- context [if ?c then Err 9 else _] => destruct c end; reflexivity.
Qed.

Theorem convert_bits_rejects_range data fromBits toBits pad :
  fromBits < 1 \/ 8 < fromBits \/ toBits < 1 \/ 8 < toBits ->
  convert_bits data fromBits toBits pad = Err 8.
Proof.
  intros H. unfold convert_bits.
  replace ((fromBits <? 1) || (8 <? fromBits) || (toBits <? 1) || (8 <? toBits)) with true by lia.
  reflexivity.
Qed.

(* ---------- in-range sizes: the specification proper ---------- *)
Corollary convert_bits_is_core data fromBits toBits pad :
  1 <= fromBits <= 8 -> 1 <= toBits <= 8 -> Bytes data ->
  convert_bits data fromBits toBits pad =
  regroup_core data (N.to_nat fromBits) (N.to_nat toBits) pad.
Proof.
  intros Hf Ht Hb. rewrite convert_bits_is_spec by exact Hb. unfold regroup_spec.
  replace ((fromBits <? 1) || (8 <? fromBits) || (toBits <? 1) || (8 <? toBits)) with false by lia.
  reflexivity.
Qed.

(* ---------- bits above fromBits are shifted out: only v mod 2^fromBits matters ---------- *)
Lemma regroup_core_mod data f w pad :
  regroup_core (map (fun v => v mod 2 ^ N.of_nat f) data) f w pad = regroup_core data f w pad.
Proof.
  unfold regroup_core.
  replace (flat_map (bits_of f) (map (fun v => v mod 2 ^ N.of_nat f) data))
    with (flat_map (bits_of f) data); [reflexivity|].
  induction data as [|v data IH]; [reflexivity|].
  cbn [map flat_map]. rewrite IH, bits_of_mod by lia. reflexivity.
Qed.

Theorem convert_bits_high_bits_ignored data fromBits toBits pad :
  Bytes data ->
  convert_bits (map (fun v => v mod 2 ^ fromBits) data) fromBits toBits pad =
  convert_bits data fromBits toBits pad.
Proof.
  intros Hb.
  assert (Hb' : Bytes (map (fun v => v mod 2 ^ fromBits) data)).
  { apply Forall_map. eapply Forall_impl; [|exact Hb]. cbn beta. intros v Hv.
    pose proof (pow2_pos fromBits) as Hp.
    pose proof (N.mod_le v (2 ^ fromBits) ltac:(lia)). lia. }
  rewrite !convert_bits_is_spec by assumption. unfold regroup_spec.
  destruct ((fromBits <? 1) || (8 <? fromBits) || (toBits <? 1) || (8 <? toBits)); [reflexivity|].
  rewrite <- (regroup_core_mod data). rewrite N2Nat.id. reflexivity.
Qed.

(* ---------- the specification on examples (and the hypotheses are satisfiable) ---------- *)
Example regroup_ex_pad : regroup_spec [255; 1] 8 5 true = Ok [31; 28; 0; 16].
Proof. vm_compute. reflexivity. Qed.
Example regroup_ex_strict : regroup_spec [31; 28; 0; 16] 5 8 false = Ok [255; 1].
Proof. vm_compute. reflexivity. Qed.
Example regroup_ex_long_rest : regroup_spec [0] 5 8 false = Err 9.        (* 5 zero bits left: r > 4 *)
Proof. vm_compute. reflexivity. Qed.
Example regroup_ex_long_rest_3 : regroup_spec [0; 0] 3 8 false = Err 9.   (* the 4 is not toBits-dependent *)
Proof. vm_compute. reflexivity. Qed.
Example regroup_ex_nonzero_rest : regroup_spec [31; 28; 0; 17] 5 8 false = Err 9.
Proof. vm_compute. reflexivity. Qed.
Example regroup_ex_high_bits : regroup_spec [255] 5 5 false = Ok [31].
Proof. vm_compute. reflexivity. Qed.
Example convert_ex_pad : convert_bits [255; 1] 8 5 true = Ok [31; 28; 0; 16].
Proof. vm_compute. reflexivity. Qed.
Example convert_ex_inverse :
  Bytes [255; 1] /\ Forall (fun v => v < 32) [31; 28; 0; 16] /\
  convert_bits [31; 28; 0; 16] 5 8 false = Ok [255; 1].
Proof. split; [|split]; [repeat constructor; lia | repeat constructor; lia | vm_compute; reflexivity]. Qed.

Print Assumptions convert_bits_is_spec.
Print Assumptions convert_8_5_inverse.
Print Assumptions convert_5_8_canonical.
Print Assumptions convert_bits_no_panic.
Print Assumptions convert_bits_rejects_range.
Print Assumptions convert_bits_high_bits_ignored.

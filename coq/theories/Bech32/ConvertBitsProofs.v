(* bech32.ConvertBits: the model [convert_bits] (Bech32.v) regroups bits.

   Specification [regroup_spec]: every input value contributes its [fromBits] low bits, most
   significant first; the bit stream is cut into groups of [toBits]; every group is read as a
   number, most significant bit first.  A trailing incomplete group of r bits (0 < r < toBits)
   is, with pad = true, emitted shifted left by toBits - r; with pad = false it is an error
   when r > 4 (the constant is hard-coded in the Go code, whatever toBits is) or when the r
   bits are not all zero, and dropped otherwise.

   Main results: [convert_bits_is_spec], [convert_8_5_inverse], [convert_5_8_canonical],
   [convert_bits_no_panic], [convert_bits_rejects_range]. *)
From BU Require Import Lib.Bytes Bech32.Bech32.
From Coq Require Import ZifyBool ZifyN ZifyNat.

(* ================================================================== *)
(* Bits                                                                *)
(* ================================================================== *)

(* the [w] low bits of [v], most significant first *)
Fixpoint bits_of (w : nat) (v : N) : list bool :=
  match w with
  | O => []
  | S k => N.testbit v (N.of_nat k) :: bits_of k v
  end.

(* the number written by a bit list, most significant bit first *)
Definition val_of (bs : list bool) : N :=
  fold_left (fun a b => 2 * a + N.b2n b) bs 0.

(* cut [bs] into groups of [w] bits; result: the complete groups, and the incomplete rest
   (fewer than [w] bits, possibly none).  [fuel] = [length bs] is always enough. *)
Fixpoint groups (fuel w : nat) (bs : list bool) : list (list bool) * list bool :=
  match fuel with
  | O => ([], bs)
  | S f =>
      if (length bs <? w)%nat then ([], bs)
      else let '(gs, tl) := groups f w (skipn w bs) in (firstn w bs :: gs, tl)
  end.

(* the specification, without the range check on the group sizes *)
Definition regroup_core (data : list N) (fromBits toBits : nat) (pad : bool) : res (list N) :=
  let bits := flat_map (bits_of fromBits) data in
  let '(gs, tl) := groups (length bits) toBits bits in
  let r := length tl in
  match tl with
  | [] => Ok (map val_of gs)
  | _ :: _ =>
      if pad then Ok (map val_of gs ++ [val_of tl * 2 ^ N.of_nat (toBits - r)])
      else if (4 <? r)%nat || negb (forallb negb tl) then Err 9
      else Ok (map val_of gs)
  end.

Definition regroup_spec (data : list N) (fromBits toBits : N) (pad : bool) : res (list N) :=
  if (fromBits <? 1) || (8 <? fromBits) || (toBits <? 1) || (8 <? toBits) then Err 8
  else regroup_core data (N.to_nat fromBits) (N.to_nat toBits) pad.

(* ---------- val_of ---------- *)
Lemma val_acc bs : forall a,
  fold_left (fun a b => 2 * a + N.b2n b) bs a = a * 2 ^ N.of_nat (length bs) + val_of bs.
Proof.
  unfold val_of. induction bs as [|b bs IH]; intros a.
  - cbn [fold_left length]. change (N.of_nat 0) with 0. rewrite N.pow_0_r. lia.
  - cbn [fold_left length]. rewrite (IH (2 * a + N.b2n b)), (IH (2 * 0 + N.b2n b)).
    rewrite Nat2N.inj_succ, N.pow_succ_r'. ring.
Qed.

Lemma val_of_nil : val_of [] = 0.
Proof. reflexivity. Qed.

Lemma val_of_cons b bs : val_of (b :: bs) = N.b2n b * 2 ^ N.of_nat (length bs) + val_of bs.
Proof.
  unfold val_of at 1. cbn [fold_left]. rewrite val_acc. change (2 * 0) with 0. rewrite N.add_0_l. reflexivity.
Qed.

Lemma val_of_app a b : val_of (a ++ b) = val_of a * 2 ^ N.of_nat (length b) + val_of b.
Proof. unfold val_of at 1. rewrite fold_left_app. fold (val_of a). apply val_acc. Qed.

Lemma pow2_pos n : 0 < 2 ^ n.
Proof. apply N.neq_0_lt_0, N.pow_nonzero. discriminate. Qed.

Lemma val_of_lt bs : val_of bs < 2 ^ N.of_nat (length bs).
Proof.
  induction bs as [|b bs IH].
  - cbn. lia.
  - rewrite val_of_cons. cbn [length]. rewrite Nat2N.inj_succ, N.pow_succ_r'.
    destruct b; cbn [N.b2n]; lia.
Qed.

Lemma val_of_zeros k : val_of (repeat false k) = 0.
Proof.
  induction k as [|k IH]; [reflexivity|].
  cbn [repeat]. rewrite val_of_cons, IH. cbn [N.b2n]. lia.
Qed.

Lemma val_of_zero_iff bs : val_of bs = 0 <-> forallb negb bs = true.
Proof.
  induction bs as [|b bs IH]; [cbn; tauto|].
  rewrite val_of_cons. cbn [forallb]. rewrite andb_true_iff, <- IH.
  pose proof (pow2_pos (N.of_nat (length bs))) as Hp.
  destruct b; cbn [N.b2n negb]; split; intros H.
  - lia.
  - destruct H; discriminate.
  - split; [reflexivity | lia].
  - lia.
Qed.

Lemma all_zero_repeat bs : forallb negb bs = true -> bs = repeat false (length bs).
Proof.
  induction bs as [|b bs IH]; [reflexivity|].
  cbn [forallb length repeat]. intros H. apply andb_true_iff in H as [Hb H].
  destruct b; [discriminate|]. f_equal. auto.
Qed.

(* ---------- bits_of ---------- *)
Lemma bits_of_length w v : length (bits_of w v) = w.
Proof. induction w as [|w IH]; cbn [bits_of length]; auto. Qed.

Lemma val_bits_of w v : val_of (bits_of w v) = v mod 2 ^ N.of_nat w.
Proof.
  induction w as [|w IH].
  - cbn [bits_of]. change (N.of_nat 0) with 0. rewrite N.pow_0_r, N.mod_1_r. reflexivity.
  - cbn [bits_of]. rewrite val_of_cons, bits_of_length, IH, N.testbit_spec'.
    rewrite Nat2N.inj_succ, N.pow_succ_r', (N.mul_comm 2).
    pose proof (pow2_pos (N.of_nat w)) as Hp.
    rewrite N.mod_mul_r by lia. lia.
Qed.

Lemma bits_of_mod w w' v : (w <= w')%nat -> bits_of w (v mod 2 ^ N.of_nat w') = bits_of w v.
Proof.
  induction w as [|w IH]; intros Hle; [reflexivity|].
  cbn [bits_of]. f_equal.
  - apply N.mod_pow2_bits_low. lia.
  - apply IH. lia.
Qed.

Lemma bits_val_of g : bits_of (length g) (val_of g) = g.
Proof.
  induction g as [|b g IH]; [reflexivity|].
  cbn [length bits_of]. rewrite val_of_cons.
  pose proof (pow2_pos (N.of_nat (length g))) as Hp.
  pose proof (val_of_lt g) as Hlt.
  f_equal.
  - apply N.b2n_inj. rewrite N.testbit_spec'.
    rewrite N.div_add_l by lia. rewrite (N.div_small (val_of g)) by lia.
    destruct b; reflexivity.
  - rewrite <- (bits_of_mod (length g) (length g)) by lia.
    rewrite N.add_comm, N.mod_add by lia. rewrite N.mod_small by lia. exact IH.
Qed.

Lemma bits_val_of_map w gs :
  Forall (fun g => length g = w) gs -> flat_map (bits_of w) (map val_of gs) = concat gs.
Proof.
  induction 1 as [|g gs Hg _ IH]; [reflexivity|].
  cbn [map flat_map concat]. rewrite IH. f_equal. subst w. apply bits_val_of.
Qed.

Lemma val_bits_of_map w l :
  map val_of (map (bits_of w) l) = map (fun v => v mod 2 ^ N.of_nat w) l.
Proof. rewrite map_map. apply map_ext. intros v. apply val_bits_of. Qed.

Lemma map_mod_small w l :
  Forall (fun v => v < 2 ^ N.of_nat w) l -> map (fun v => v mod 2 ^ N.of_nat w) l = l.
Proof.
  induction 1 as [|v l Hv _ IH]; [reflexivity|].
  cbn [map]. rewrite IH, N.mod_small by exact Hv. reflexivity.
Qed.

(* ---------- groups ---------- *)
Lemma length_concat_uniform w (gs : list (list bool)) :
  Forall (fun g => length g = w) gs -> length (concat gs) = (w * length gs)%nat.
Proof.
  induction 1 as [|g gs Hg _ IH]; [cbn; lia|].
  cbn [concat length]. rewrite app_length, IH, Hg. lia.
Qed.

(* what [groups] returns: the unique cutting of bs into w-groups and a short rest *)
Lemma groups_sound w : (1 <= w)%nat -> forall fuel bs gs tl,
  (length bs <= fuel)%nat -> groups fuel w bs = (gs, tl) ->
  bs = concat gs ++ tl /\ Forall (fun g => length g = w) gs /\ (length tl < w)%nat.
Proof.
  intros Hw. induction fuel as [|f IH]; intros bs gs tl Hlen E.
  - destruct bs; [|cbn in Hlen; lia]. cbn in E. inversion E; subst. cbn. repeat split; auto; lia.
  - cbn [groups] in E. destruct (Nat.ltb_spec (length bs) w) as [Hs|Hs].
    + inversion E; subst. cbn. repeat split; auto.
    + destruct (groups f w (skipn w bs)) as [gs' tl'] eqn:E'.
      inversion E; subst. apply IH in E'.
      * destruct E' as (E1 & E2 & E3). repeat split; auto.
        -- cbn [concat]. rewrite <- app_assoc, <- E1. symmetry. apply firstn_skipn.
        -- constructor; auto. rewrite firstn_length. lia.
      * rewrite skipn_length. lia.
Qed.

Lemma groups_unique w : (1 <= w)%nat -> forall gs fuel tl,
  Forall (fun g => length g = w) gs -> (length tl < w)%nat ->
  (length (concat gs ++ tl) <= fuel)%nat ->
  groups fuel w (concat gs ++ tl) = (gs, tl).
Proof.
  intros Hw. induction gs as [|g gs IH]; intros fuel tl Hgs Htl Hfuel.
  - cbn [concat app] in *. destruct fuel as [|f]; [reflexivity|].
    cbn [groups]. destruct (Nat.ltb_spec (length tl) w); [reflexivity | lia].
  - inversion Hgs as [|? ? Hg Hgs']; subst.
    cbn [concat] in *. rewrite <- app_assoc in *. rewrite app_length in Hfuel.
    destruct fuel as [|f]; [lia|].
    cbn [groups]. rewrite app_length.
    destruct (Nat.ltb_spec (length g + length (concat gs ++ tl)) (length g)); [lia|].
    rewrite skipn_app, firstn_app, Nat.sub_diag, skipn_all, firstn_all. cbn [skipn firstn app].
    rewrite app_nil_r, IH by (auto; lia). reflexivity.
Qed.

(* ================================================================== *)
(* The bit-serial machine: the state (nextByte, filledBits, regrouped) *)
(* of the Go loop, fed one bit at a time                               *)
(* ================================================================== *)
Definition state : Type := N * N * list N.

Definition step (toBits : N) (st : state) (b : bool) : state :=
  let '(nx, fl, out) := st in
  let nx' := 2 * nx + N.b2n b in
  if fl + 1 =? toBits then (0, 0, nx' :: out) else (nx', fl + 1, out).

Definition run (toBits : N) (bs : list bool) (st : state) : state := fold_left (step toBits) bs st.

Definition push_out (st : state) (out : list N) : state :=
  let '(nx, fl, o) := st in (nx, fl, o ++ out).

Lemma run_out toBits bs : forall nx fl o out,
  run toBits bs (nx, fl, o ++ out) = push_out (run toBits bs (nx, fl, o)) out.
Proof.
  unfold run. induction bs as [|b bs IH]; intros nx fl o out; [reflexivity|].
  cbn [fold_left step]. destruct (fl + 1 =? toBits).
  - rewrite app_comm_cons. apply IH.
  - apply IH.
Qed.

Lemma inner_out fuel toBits : forall b rf nx fl o out,
  inner fuel toBits b rf nx fl (o ++ out) = push_out (inner fuel toBits b rf nx fl o) out.
Proof.
  induction fuel as [|f IH]; intros b rf nx fl o out; [reflexivity|].
  cbn [inner]. destruct (rf =? 0); [reflexivity|].
  cbv zeta.
  match goal with |- context [if ?c then inner _ _ _ _ 0 0 _ else _] => destruct c end.
  - rewrite app_comm_cons. apply IH.
  - apply IH.
Qed.

(* ---------- the finite sweep: one input value through [inner] = its bits through [step] ---------- *)
Definition nrange (k : N) : list N := map N.of_nat (seq 0 (N.to_nat k)).

Lemma forallb_nrange (P : N -> bool) k :
  forallb P (nrange k) = true -> forall x, x < k -> P x = true.
Proof.
  intros H x Hx. rewrite forallb_forall in H. apply H.
  unfold nrange. apply in_map_iff. exists (N.to_nat x). split; [lia|].
  apply in_seq. lia.
Qed.

Definition st_eqb (a b : state) : bool :=
  let '(n1, f1, o1) := a in let '(n2, f2, o2) := b in
  (n1 =? n2) && (f1 =? f2) && list_eqb o1 o2.

Lemma st_eqb_eq a b : st_eqb a b = true -> a = b.
Proof.
  destruct a as [[n1 f1] o1], b as [[n2 f2] o2]. cbn [st_eqb].
  rewrite !andb_true_iff, !N.eqb_eq, list_eqb_eq. intros [[-> ->] ->]. reflexivity.
Qed.


(* toBits, fromBits in 1..8; v < 256; filled < toBits; next < 2^filled: about 10^6 cases *)
Definition sweep5 (P : N -> N -> N -> N -> N -> bool) : bool :=
  forallb (fun t => forallb (fun f => forallb (fun v => forallb (fun fl => forallb (fun nx =>
    P (t + 1) (f + 1) v fl nx)
    (nrange (2 ^ fl))) (nrange (t + 1))) (nrange 256)) (nrange 8)) (nrange 8).

Lemma sweep5_lift P : sweep5 P = true ->
  forall t f v fl nx,
  1 <= t <= 8 -> 1 <= f <= 8 -> v < 256 -> fl < t -> nx < 2 ^ fl -> P t f v fl nx = true.
Proof.
  intros S t f v fl nx Ht Hf Hv Hfl Hnx.
  assert (H1 : t - 1 < 8) by lia.
  assert (H2 : f - 1 < 8) by lia.
  assert (H3 : t - 1 + 1 = t) by lia.
  assert (H4 : f - 1 + 1 = f) by lia.
  unfold sweep5 in S.
  apply forallb_nrange with (x := t - 1) in S; [|exact H1].
  apply forallb_nrange with (x := f - 1) in S; [|exact H2].
  apply forallb_nrange with (x := v) in S; [|exact Hv].
  rewrite H3, H4 in S.
  apply forallb_nrange with (x := fl) in S; [|exact Hfl].
  apply forallb_nrange with (x := nx) in S; [|exact Hnx].
  exact S.
Qed.


Local Notation check1 := (fun toBits fromBits v fl nx : N =>
  st_eqb (inner 8 toBits (u8 (N.shiftl v (8 - fromBits))) fromBits nx fl [])
         (run toBits (bits_of (N.to_nat fromBits) v) (nx, fl, []))).

Lemma sweep_ok : sweep5 check1 = true.
Proof. vm_cast_no_check (eq_refl true). Qed.

Lemma inner_out_nil fuel toBits b rf nx fl out :
  inner fuel toBits b rf nx fl out = push_out (inner fuel toBits b rf nx fl []) out.
Proof. exact (inner_out fuel toBits b rf nx fl [] out). Qed.

Lemma run_out_nil toBits bs nx fl out :
  run toBits bs (nx, fl, out) = push_out (run toBits bs (nx, fl, [])) out.
Proof. exact (run_out toBits bs nx fl [] out). Qed.

Lemma inner_is_run toBits fromBits v fl nx out :
  1 <= toBits <= 8 -> 1 <= fromBits <= 8 -> v < 256 -> fl < toBits -> nx < 2 ^ fl ->
  inner 8 toBits (u8 (N.shiftl v (8 - fromBits))) fromBits nx fl out =
  run toBits (bits_of (N.to_nat fromBits) v) (nx, fl, out).
Proof.
  intros Ht Hf Hv Hfl Hnx.
  pose proof (sweep5_lift _ sweep_ok _ _ _ _ _ Ht Hf Hv Hfl Hnx) as S.
  cbv beta in S.
  apply st_eqb_eq in S.
  rewrite inner_out_nil, run_out_nil.
  rewrite S. reflexivity.
Qed.

(* ---------- the outer loop ---------- *)
Definition good (toBits : N) (st : state) : Prop :=
  let '(nx, fl, _) := st in fl < toBits /\ nx < 2 ^ fl.

Lemma step_good toBits st b : 1 <= toBits -> good toBits st -> good toBits (step toBits st b).
Proof.
  destruct st as [[nx fl] out]. cbn [good step]. intros Ht [Hfl Hnx].
  destruct (N.eqb_spec (fl + 1) toBits) as [E|E]; cbn [good].
  - split; [lia | cbn; lia].
  - split; [lia|]. rewrite N.add_1_r, N.pow_succ_r'. destruct b; cbn [N.b2n]; lia.
Qed.

Lemma run_good toBits bs : 1 <= toBits -> forall st, good toBits st -> good toBits (run toBits bs st).
Proof.
  intros Ht. unfold run. induction bs as [|b bs IH]; intros st Hst; [exact Hst|].
  cbn [fold_left]. apply IH, step_good; assumption.
Qed.

Lemma run_app toBits a b st : run toBits (a ++ b) st = run toBits b (run toBits a st).
Proof. unfold run. apply fold_left_app. Qed.

Lemma convert_loop_is_run fromBits toBits data :
  1 <= toBits <= 8 -> 1 <= fromBits <= 8 -> Bytes data ->
  forall nx fl out, good toBits (nx, fl, out) ->
  convert_loop fromBits toBits data nx fl out =
  run toBits (flat_map (bits_of (N.to_nat fromBits)) data) (nx, fl, out).
Proof.
  intros Ht Hf. induction data as [|v data IH]; intros Hb nx fl out Hg; [reflexivity|].
  apply Bytes_cons in Hb as [Hv Hb].
  cbn [convert_loop flat_map]. rewrite run_app.
  destruct Hg as [Hfl Hnx].
  rewrite (inner_is_run toBits fromBits v fl nx out Ht Hf Hv Hfl Hnx).
  pose proof (run_good toBits (bits_of (N.to_nat fromBits) v) (proj1 Ht) (nx, fl, out) (conj Hfl Hnx)) as Hg'.
  destruct (run toBits (bits_of (N.to_nat fromBits) v) (nx, fl, out)) as [[nx' fl'] out'].
  apply IH; assumption.
Qed.

(* ---------- the bit-serial machine computes [groups] ---------- *)
Lemma run_short toBits bs : forall nx fl out,
  fl + N.of_nat (length bs) < toBits ->
  run toBits bs (nx, fl, out) =
  (nx * 2 ^ N.of_nat (length bs) + val_of bs, fl + N.of_nat (length bs), out).
Proof.
  unfold run. induction bs as [|b bs IH]; intros nx fl out H.
  - cbn [fold_left length]. change (N.of_nat 0) with 0.
    rewrite val_of_nil, N.pow_0_r, N.mul_1_r, !N.add_0_r. reflexivity.
  - cbn [length] in *. cbn [fold_left step].
    destruct (N.eqb_spec (fl + 1) toBits) as [E|E]; [lia|].
    rewrite IH by lia. rewrite val_of_cons, Nat2N.inj_succ, N.pow_succ_r'.
    replace (fl + 1 + N.of_nat (length bs)) with (fl + N.succ (N.of_nat (length bs))) by lia.
    f_equal. f_equal. ring.
Qed.

Lemma run_group toBits g out :
  1 <= toBits -> N.of_nat (length g) = toBits ->
  run toBits g (0, 0, out) = (0, 0, val_of g :: out).
Proof.
  intros Ht Hg. destruct g as [|b0 g0] using rev_ind; [cbn in Hg; lia|]. clear IHg0.
  rewrite app_length in Hg. cbn [length] in Hg.
  rewrite run_app, run_short by lia. unfold run. cbn [fold_left step].
  destruct (N.eqb_spec (0 + N.of_nat (length g0) + 1) toBits) as [E|E]; [|lia].
  rewrite val_of_app. cbn [length]. change (2 ^ N.of_nat 1) with 2.
  replace (val_of [b0]) with (N.b2n b0) by (destruct b0; reflexivity).
  f_equal. f_equal. lia.
Qed.

Lemma run_concat toBits gs rest : 1 <= toBits ->
  Forall (fun g => length g = N.to_nat toBits) gs -> forall out,
  run toBits (concat gs ++ rest) (0, 0, out) = run toBits rest (0, 0, rev (map val_of gs) ++ out).
Proof.
  intros Ht. induction 1 as [|g gs Hg _ IH]; intros out; [reflexivity|].
  cbn [concat map rev]. rewrite <- !app_assoc, run_app, run_group by lia.
  rewrite IH. reflexivity.
Qed.

Lemma run_groups toBits bs gs tl : 1 <= toBits ->
  groups (length bs) (N.to_nat toBits) bs = (gs, tl) ->
  run toBits bs (0, 0, []) = (val_of tl, N.of_nat (length tl), rev (map val_of gs)).
Proof.
  intros Ht E. apply groups_sound in E as (E & Hgs & Htl); [|lia|lia].
  subst bs. rewrite run_concat, run_short by (auto; lia).
  rewrite app_nil_r, N.mul_0_l, !N.add_0_l. reflexivity.
Qed.

(* ================================================================== *)
(* convert_bits = regroup_spec                                         *)
(* ================================================================== *)
Lemma range_ok fromBits toBits :
  (fromBits <? 1) || (8 <? fromBits) || (toBits <? 1) || (8 <? toBits) = false ->
  1 <= fromBits <= 8 /\ 1 <= toBits <= 8.
Proof. lia. Qed.

Lemma pad_value v r toBits :
  v < 2 ^ r -> r <= toBits -> toBits <= 8 ->
  u8 (N.shiftl v (toBits - r)) = v * 2 ^ (toBits - r).
Proof.
  intros Hv Hr Ht. unfold u8. rewrite N.shiftl_mul_pow2. apply N.mod_small.
  assert (H2 : 2 ^ r * 2 ^ (toBits - r) = 2 ^ toBits).
  { rewrite <- N.pow_add_r. f_equal. lia. }
  assert (H3 : 2 ^ toBits <= 2 ^ 8) by (apply N.pow_le_mono_r; lia).
  change (2 ^ 8) with 256 in H3.
  pose proof (pow2_pos (toBits - r)) as Hp.
  nia.
Qed.

Theorem convert_bits_is_spec data fromBits toBits pad :
  Bytes data ->
  convert_bits data fromBits toBits pad = regroup_spec data fromBits toBits pad.
Proof.
  intros Hb. unfold convert_bits, regroup_spec.
  destruct ((fromBits <? 1) || (8 <? fromBits) || (toBits <? 1) || (8 <? toBits)) eqn:R;
    [reflexivity|].
  apply range_ok in R as [Hf Ht].
  rewrite convert_loop_is_run by (auto; cbn; lia).
  unfold regroup_core.
  set (bits := flat_map (bits_of (N.to_nat fromBits)) data).
  destruct (groups (length bits) (N.to_nat toBits) bits) as [gs tl] eqn:G.
  rewrite (run_groups toBits bits gs tl) by (auto; lia).
  apply groups_sound in G as (_ & _ & Htl); [|lia|lia].
  destruct tl as [|b tl].
  - cbn [length]. change (N.of_nat 0) with 0. change (0 <? 0) with false.
    rewrite andb_false_r. cbn [andb]. rewrite rev_involutive. reflexivity.
  - set (t := b :: tl) in *. set (r := N.of_nat (length t)).
    assert (Hr : 0 < r) by (subst r t; cbn [length]; lia).
    assert (Hr' : r < toBits) by lia.
    replace (0 <? r) with true by lia.
    destruct pad; cbn [andb].
    + change (0 <? 0) with false. cbn [andb]. cbn [rev]. rewrite rev_involutive.
      rewrite pad_value by (try lia; apply val_of_lt).
      do 3 f_equal. subst r. lia.
    + replace (4 <? length t)%nat with (4 <? r) by lia.
      destruct (4 <? r); cbn [orb]; [reflexivity|].
      destruct (N.eqb_spec (val_of t) 0) as [E|E]; cbn [negb].
      * apply val_of_zero_iff in E. rewrite E. cbn [negb]. rewrite rev_involutive. reflexivity.
      * destruct (forallb negb t) eqn:F; [apply val_of_zero_iff in F; contradiction|]. reflexivity.
Qed.

(* CashAddr, string level: a string that differs from an accepted string in 1..5 characters of
   the part after the separator is rejected by decode_cashaddr (with an error, never a panic).
   Substitutions are arbitrary characters: outside the charset, of the other case, digits,
   further separators -- the character rules of the decoder are part of the argument. *)
From BU Require Import Lib.Bytes Lib.PolyMod CashAddr.CashAddr Checksum.StepFacts Checksum.Syndrome
  Checksum.CashDetect.
From Coq Require Import ZifyBool ZifyN ZifyNat.

Definition lowerb (c : N) : bool := (97 <=? c) && (c <=? 122).
Definition upperb (c : N) : bool := (65 <=? c) && (c <=? 90).
Definition digitb (c : N) : bool := (48 <=? c) && (c <=? 57).

(* the model with its extracted literals evaluated *)
Lemma scan_cons c t i l u ps :
  scan (c :: t) i l u ps =
    if lowerb c then scan t (i + 1) true u ps
    else if upperb c then scan t (i + 1) l true ps
    else if digitb c then (if ps =? 0 then Err 1 else scan t (i + 1) l u ps)
    else if c =? 58 then (if (i =? 0) || negb (ps =? 0) then Err 2 else scan t (i + 1) l u i)
    else Err 3.
Proof. reflexivity. Qed.

Definition cval (c : N) : N := Z.to_N (nth (N.to_nat c) charset_rev 0%Z) mod 256.
Definition okchar (c : N) : bool := (c <=? 127) && negb (nth (N.to_nat c) charset_rev (-1)%Z =? -1)%Z.

Lemma to_values_cons c t :
  to_values (c :: t) =
    if 127 <? c then Err 6 else
    match nth_error charset_rev (N.to_nat c) with
    | None => Panic 1
    | Some v => if (v =? -1)%Z then Err 6 else do r <- to_values t ;; Ok (Z.to_N v mod 256 :: r)
    end.
Proof. reflexivity. Qed.

Lemma decode_eq str :
  decode_cashaddr str =
    match scan str 0 false false 0 with
    | Ok (lower, upper, ps) =>
        if ps =? 0 then Err 4 else
        if upper && lower then Err 5 else
        match to_values (skipn (N.to_nat ps + 1) str) with
        | Ok values =>
            if N.of_nat (length values) <? 8 then Err 7 else
            if negb (verify_checksum (map lower_case (firstn (N.to_nat ps) str)) values) then Err 8 else
            Ok (map lower_case (firstn (N.to_nat ps) str), firstn (length values - 8) values)
        | Err e => Err e
        | Panic k => Panic k
        end
    | Err e => Err e
    | Panic k => Panic k
    end.
Proof.
  unfold decode_cashaddr, rbind. change (D 0) with 0.
  destruct (scan str 0 false false 0) as [[[l u] ps]|e|k]; reflexivity.
Qed.

(* ---------- table facts (vm_compute over the extracted CharsetRev) ---------- *)
Definition below128 : list N := Eval vm_compute in map N.of_nat (seq 0 128).

Lemma in_below128 c : c <= 127 -> In c below128.
Proof.
  intros H. change below128 with (map N.of_nat (seq 0 128)).
  apply in_map_iff. exists (N.to_nat c). split; [lia|]. apply in_seq. lia.
Qed.

Lemma rev_table_length : length charset_rev = 128%nat.
Proof. vm_compute. reflexivity. Qed.

Lemma rev_table_range : forallb (fun c => negb (okchar c) || (cval c <? 32)) below128 = true.
Proof. vm_compute. reflexivity. Qed.

(* two different accepted characters with the same value are the two cases of one letter *)
Lemma rev_table_inj : forallb (fun c => forallb (fun c' =>
    negb (okchar c && okchar c' && (cval c =? cval c') && negb (c =? c')) ||
    (lowerb c && upperb c') || (upperb c && lowerb c')) below128) below128 = true.
Proof. vm_compute. reflexivity. Qed.

Lemma okchar_le c : okchar c = true -> c <= 127.
Proof. unfold okchar. intros H. apply andb_true_iff in H as [H _]. lia. Qed.

Lemma cval_lt32 c : okchar c = true -> cval c < 32.
Proof.
  intros H. pose proof rev_table_range as T. rewrite forallb_forall in T.
  specialize (T c (in_below128 c (okchar_le c H))). rewrite H in T. cbn in T. lia.
Qed.

Lemma cval_inj c c' : okchar c = true -> okchar c' = true -> cval c = cval c' -> c <> c' ->
  (lowerb c = true /\ upperb c' = true) \/ (upperb c = true /\ lowerb c' = true).
Proof.
  intros H H' E Hne. pose proof rev_table_inj as T. rewrite forallb_forall in T.
  specialize (T c (in_below128 c (okchar_le c H))). cbv beta in T. rewrite forallb_forall in T.
  specialize (T c' (in_below128 c' (okchar_le c' H'))). cbv beta in T.
  rewrite H, H', E, N.eqb_refl in T. cbn [andb negb] in T.
  destruct (N.eqb_spec c c') as [->|_]; [contradiction|]. cbn [negb orb] in T.
  apply orb_true_iff in T as [T|T]; apply andb_true_iff in T; tauto.
Qed.

(* ---------- scan ---------- *)
Definition has_lower (s : list N) : bool := existsb lowerb s.
Definition has_upper (s : list N) : bool := existsb upperb s.

Lemma scan_no_panic s : forall i l u ps k, scan s i l u ps <> Panic k.
Proof.
  induction s as [|c t IH]; intros i l u ps k; [discriminate|]. rewrite scan_cons.
  destruct (lowerb c); [apply IH|]. destruct (upperb c); [apply IH|].
  destruct (digitb c); [destruct (ps =? 0); [discriminate | apply IH]|].
  destruct (c =? 58); [|discriminate].
  destruct ((i =? 0) || negb (ps =? 0)); [discriminate | apply IH].
Qed.

Lemma lower_not_upper c : lowerb c = true -> upperb c = false.
Proof. unfold lowerb, upperb. lia. Qed.

(* after the separator (prefixSize <> 0): an error, or the flags accumulate and prefixSize stays *)
Lemma scan_body b : forall i l u ps, ps <> 0 ->
  (exists e, scan b i l u ps = Err e) \/
  scan b i l u ps = Ok (l || has_lower b, u || has_upper b, ps).
Proof.
  induction b as [|c t IH]; intros i l u ps Hps.
  - right. cbn. rewrite !orb_false_r. reflexivity.
  - rewrite scan_cons. unfold has_lower, has_upper. cbn [existsb].
    destruct (lowerb c) eqn:El.
    + rewrite (lower_not_upper c El). cbn [orb]. rewrite orb_true_r.
      destruct (IH (i + 1) true u ps Hps) as [He|Hok]; [left; exact He | right; exact Hok].
    + destruct (upperb c) eqn:Eu.
      * cbn [orb]. rewrite orb_true_r.
        destruct (IH (i + 1) l true ps Hps) as [He|Hok]; [left; exact He | right; exact Hok].
      * cbn [orb]. destruct (digitb c).
        -- destruct (N.eqb_spec ps 0); [contradiction|]. apply IH. exact Hps.
        -- destruct (c =? 58); [|left; eexists; reflexivity].
           destruct (N.eqb_spec ps 0); [contradiction|]. rewrite orb_true_r. left. eexists. reflexivity.
Qed.

(* before the separator (prefixSize = 0 at the end): only letters were seen *)
Lemma scan_pre pre : forall i l u l' u', scan pre i l u 0 = Ok (l', u', 0) ->
  l' = l || has_lower pre /\ u' = u || has_upper pre /\ Forall (fun c => lowerb c || upperb c = true) pre.
Proof.
  induction pre as [|c t IH]; intros i l u l' u' H.
  - cbn in H. inversion H; subst. cbn. rewrite !orb_false_r. auto.
  - rewrite scan_cons in H. unfold has_lower, has_upper. cbn [existsb].
    destruct (lowerb c) eqn:El.
    + rewrite (lower_not_upper c El). apply IH in H as (-> & -> & HF). cbn [orb].
      rewrite orb_true_r. repeat split; auto. constructor; [rewrite El; reflexivity | exact HF].
    + destruct (upperb c) eqn:Eu.
      * apply IH in H as (-> & -> & HF). cbn [orb]. rewrite orb_true_r. repeat split; auto.
        constructor; [rewrite El, Eu; reflexivity | exact HF].
      * destruct (digitb c); [cbn in H; discriminate|].
        destruct (c =? 58); [|discriminate].
        cbn [N.eqb negb] in H. rewrite orb_false_r in H.
        destruct (N.eqb_spec i 0) as [Ei|Ei]; [discriminate|].
        destruct (scan_body t (i + 1) l u i Ei) as [[e He]|Hok]; rewrite H in *; [discriminate|].
        inversion Hok; subst. contradiction.
Qed.

Lemma scan_app a : forall b i l u ps,
  scan (a ++ b) i l u ps =
    match scan a i l u ps with
    | Ok (l1, u1, ps1) => scan b (i + N.of_nat (length a)) l1 u1 ps1
    | Err e => Err e
    | Panic k => Panic k
    end.
Proof.
  induction a as [|c t IH]; intros b i l u ps.
  - cbn. rewrite N.add_0_r. reflexivity.
  - cbn [app length]. rewrite !scan_cons. rewrite Nat2N.inj_succ.
    replace (i + N.succ (N.of_nat (length t))) with (i + 1 + N.of_nat (length t)) by lia.
    destruct (lowerb c); [apply IH|]. destruct (upperb c); [apply IH|].
    destruct (digitb c); [destruct (ps =? 0); [reflexivity | apply IH]|].
    destruct (c =? 58); [|reflexivity].
    destruct ((i =? 0) || negb (ps =? 0)); [reflexivity | apply IH].
Qed.

(* scanning  pre ++ ':' :: body  *)
Lemma scan_sep pre body l u ps :
  scan (pre ++ 58 :: body) 0 false false 0 = Ok (l, u, ps) ->
  pre <> [] /\ ps = N.of_nat (length pre) /\
  Forall (fun c => lowerb c || upperb c = true) pre /\
  scan body (N.of_nat (length pre) + 1) (has_lower pre) (has_upper pre) (N.of_nat (length pre)) = Ok (l, u, ps).
Proof.
  intros H. rewrite scan_app in H.
  destruct (scan pre 0 false false 0) as [[[l1 u1] ps1]|e|k] eqn:Epre; try discriminate.
  rewrite scan_cons in H. cbn [lowerb upperb digitb N.leb N.compare Pos.compare Pos.compare_cont andb N.eqb Pos.eqb] in H.
  rewrite N.add_0_l in H.
  destruct (N.eqb_spec (N.of_nat (length pre)) 0) as [E0|E0]; [discriminate|].
  destruct (N.eqb_spec ps1 0) as [->|E1]; [|discriminate]. cbn [negb orb] in H.
  apply scan_pre in Epre as (-> & -> & HF). cbn [orb] in H.
  assert (Hne : pre <> []) by (intros ->; cbn in E0; lia).
  destruct (scan_body body (N.of_nat (length pre) + 1) (has_lower pre) (has_upper pre) (N.of_nat (length pre)) E0)
    as [[e He]|Hok]; rewrite H in *; [discriminate|].
  inversion Hok; subst. auto.
Qed.

(* ---------- to_values ---------- *)
Lemma to_values_spec b :
  (exists e, to_values b = Err e) \/
  (to_values b = Ok (map cval b) /\ Forall (fun c => okchar c = true) b).
Proof.
  induction b as [|c t IH]; [right; split; [reflexivity | constructor]|].
  rewrite to_values_cons. destruct (N.ltb_spec 127 c) as [Hc|Hc]; [left; eexists; reflexivity|].
  assert (Hn : (N.to_nat c < length charset_rev)%nat) by (rewrite rev_table_length; lia).
  rewrite (nth_error_nth' charset_rev (-1)%Z Hn).
  destruct (Z.eqb_spec (nth (N.to_nat c) charset_rev (-1)%Z) (-1)%Z) as [E|E]; [left; eexists; reflexivity|].
  destruct IH as [[e He]|[Hok HF]].
  - left. exists e. rewrite He. reflexivity.
  - right. rewrite Hok. cbn [rbind map]. split.
    + unfold cval. rewrite (nth_indep charset_rev 0%Z (-1)%Z Hn). reflexivity.
    + constructor; [|exact HF]. unfold okchar.
      destruct (N.leb_spec c 127); [|lia]. cbn [andb].
      destruct (Z.eqb_spec (nth (N.to_nat c) charset_rev (-1)%Z) (-1)%Z); [contradiction | reflexivity].
Qed.

(* ---------- hamming distance under a map ---------- *)
Lemma hamming_map_le (f : N -> N) a : forall b, (hamming (map f a) (map f b) <= hamming a b)%nat.
Proof.
  induction a as [|x a IH]; intros [|y b]; cbn [map hamming]; try lia.
  specialize (IH b). destruct (N.eqb_spec x y) as [->|Hne].
  - rewrite N.eqb_refl. lia.
  - destruct (f x =? f y); lia.
Qed.

Lemma hamming_map_zero (f : N -> N) a : forall b, length a = length b ->
  hamming (map f a) (map f b) = 0%nat -> (1 <= hamming a b)%nat ->
  exists c c', In c a /\ In c' b /\ c <> c' /\ f c = f c'.
Proof.
  induction a as [|x a IH]; intros [|y b] Hl H0 H1; cbn [length map hamming] in *; try lia.
  destruct (N.eqb_spec (f x) (f y)) as [Ef|Ef]; [|lia].
  destruct (N.eqb_spec x y) as [Exy|Exy].
  - destruct (IH b) as (c & c' & Hc & Hc' & Hne & E); try lia.
    exists c, c'. split; [right; exact Hc|]. split; [right; exact Hc'|]. split; assumption.
  - exists x, y. split; [left; reflexivity|]. split; [left; reflexivity|]. split; assumption.
Qed.

Lemma hamming_length_firstn pre (a b : list N) : hamming (pre ++ a) (pre ++ b) = hamming a b.
Proof. induction pre as [|x pre IH]; cbn [app hamming]; [reflexivity|]. rewrite N.eqb_refl. exact IH. Qed.

Lemma firstn_app_len {A} (l r : list A) : firstn (length l) (l ++ r) = l.
Proof. induction l; cbn; congruence. Qed.

Lemma skipn_app_len {A} (l r : list A) x : skipn (length l + 1) (l ++ x :: r) = r.
Proof. induction l; cbn; auto. Qed.

Lemma existsb_in (f : N -> bool) l c : In c l -> f c = true -> existsb f l = true.
Proof. intros Hin Hf. apply existsb_exists. exists c. auto. Qed.

(* ---------- the theorem ---------- *)
Theorem cashaddr_detects_5_app : forall pre body body' r,
  decode_cashaddr (pre ++ 58 :: body) = Ok r ->
  length body' = length body -> (length body <= 112)%nat ->
  (1 <= hamming body body' <= 5)%nat ->
  exists e, decode_cashaddr (pre ++ 58 :: body') = Err e.
Proof.
  intros pre body body' r Hdec Hlen Hn Hham.
  rewrite decode_eq in Hdec. rewrite decode_eq.
  (* the accepted string *)
  destruct (scan (pre ++ 58 :: body) 0 false false 0) as [[[l u] ps]|e|k] eqn:Escan; try discriminate.
  apply scan_sep in Escan as (Hpre & -> & Hletters & Ebody).
  destruct (N.eqb_spec (N.of_nat (length pre)) 0) as [E0|E0]; [discriminate|].
  destruct (scan_body body (N.of_nat (length pre) + 1) (has_lower pre) (has_upper pre) _ E0) as [[e He]|Hb];
    rewrite Ebody in *; [discriminate|]. inversion Hb as [[El Eu]]. clear Hb.
  destruct (u && l) eqn:Emix; [discriminate|].
  rewrite Nat2N.id, skipn_app_len, firstn_app_len in Hdec.
  destruct (to_values_spec body) as [[e He]|[Hv Hokc]]; [rewrite He in Hdec; discriminate|].
  rewrite Hv in Hdec. rewrite map_length in Hdec.
  destruct (N.ltb_spec (N.of_nat (length body)) 8) as [H8|H8]; [discriminate|].
  destruct (verify_checksum (map lower_case pre) (map cval body)) eqn:Ever; [|discriminate]. clear Hdec.
  (* the corrupted string *)
  rewrite scan_app.
  assert (Epre : scan pre 0 false false 0 = Ok (has_lower pre, has_upper pre, 0)).
  { clear - Hletters. assert (G : forall i l u, scan pre i l u 0 = Ok (l || has_lower pre, u || has_upper pre, 0)).
    { induction Hletters as [|c t Hc HF IH]; intros i l u.
      - cbn. rewrite !orb_false_r. reflexivity.
      - rewrite scan_cons. unfold has_lower, has_upper. cbn [existsb].
        destruct (lowerb c) eqn:El.
        + rewrite (lower_not_upper c El). rewrite IH. cbn [orb]. rewrite orb_true_r. reflexivity.
        + cbn [orb] in Hc. rewrite Hc. rewrite IH. cbn [orb]. rewrite orb_true_r. reflexivity. }
    apply (G 0 false false). }
  rewrite Epre. rewrite scan_cons.
  cbn [lowerb upperb digitb N.leb N.compare Pos.compare Pos.compare_cont andb N.eqb Pos.eqb].
  rewrite N.add_0_l.
  destruct (N.eqb_spec (N.of_nat (length pre)) 0) as [|_]; [contradiction|]. cbn [negb orb].
  destruct (scan_body body' (N.of_nat (length pre) + 1) (has_lower pre) (has_upper pre) _ E0) as [[e He]|Hb'].
  { rewrite He. exists e. reflexivity. }
  rewrite Hb'.
  destruct (N.eqb_spec (N.of_nat (length pre)) 0) as [|_]; [contradiction|].
  destruct ((has_upper pre || has_upper body') && (has_lower pre || has_lower body')) eqn:Emix'; [exists 5; reflexivity|].
  rewrite Nat2N.id, skipn_app_len, firstn_app_len.
  destruct (to_values_spec body') as [[e He]|[Hv' Hokc']]; [rewrite He; exists e; reflexivity|].
  rewrite Hv'. rewrite map_length, Hlen.
  destruct (N.ltb_spec (N.of_nat (length body)) 8) as [|_]; [lia|].
  assert (Hfalse : verify_checksum (map lower_case pre) (map cval body') = false).
  { apply (cash_verify_detects_5 (map lower_case pre) (map cval body) (map cval body')).
    - rewrite !map_length. lia.
    - rewrite map_length. exact Hn.
    - apply Forall_map. eapply Forall_impl; [|exact Hokc]. intros c Hc. apply cval_lt32. exact Hc.
    - apply Forall_map. eapply Forall_impl; [|exact Hokc']. intros c Hc. apply cval_lt32. exact Hc.
    - split; [|pose proof (hamming_map_le cval body body'); lia].
      destruct (hamming (map cval body) (map cval body')) eqn:Eh; [|lia]. exfalso.
      destruct (hamming_map_zero cval body body' (eq_sym Hlen) Eh (proj1 Hham)) as (c & c' & Hc & Hc' & Hne & Ec).
      rewrite Forall_forall in Hokc, Hokc'.
      pose proof (cval_inj c c' (Hokc c Hc) (Hokc' c' Hc') Ec Hne) as Hcase.
      (* pre is non-empty and consists of letters, so it carries the case of the accepted string *)
      assert (Hpl : has_lower pre || has_upper pre = true).
      { destruct pre as [|p0 pre']; [contradiction|]. inversion Hletters as [|? ? Hp0 _]; subst.
        unfold has_lower, has_upper. cbn [existsb].
        apply orb_true_iff in Hp0 as [Hp0|Hp0]; rewrite Hp0; cbn [orb]; rewrite ?orb_true_r; reflexivity. }
      subst l u.
      destruct Hcase as [[Hl Hu]|[Hu Hl]].
      + assert (A1 : has_lower body = true) by (apply (existsb_in lowerb body c); auto).
        assert (A2 : has_upper body' = true) by (apply (existsb_in upperb body' c'); auto).
        rewrite A1, A2 in *. rewrite !orb_true_r in *.
        destruct (has_lower pre), (has_upper pre), (has_upper body), (has_lower body'); cbn in *; discriminate.
      + assert (A1 : has_upper body = true) by (apply (existsb_in upperb body c); auto).
        assert (A2 : has_lower body' = true) by (apply (existsb_in lowerb body' c'); auto).
        rewrite A1, A2 in *. rewrite !orb_true_r in *.
        destruct (has_lower pre), (has_upper pre), (has_lower body), (has_upper body'); cbn in *; discriminate.
    - exact Ever. }
  rewrite Hfalse. exists 8. reflexivity.
Qed.

(* the same statement without naming the parts: s' agrees with the accepted s on the prefix and the
   separator, has the same length, and differs in 1..5 positions *)
Theorem cashaddr_detects_5 : forall s s' prefix payload,
  decode_cashaddr s = Ok (prefix, payload) ->
  length s' = length s ->
  firstn (length prefix + 1) s' = firstn (length prefix + 1) s ->
  (length s - (length prefix + 1) <= 112)%nat ->
  (1 <= hamming s s' <= 5)%nat ->
  exists e, decode_cashaddr s' = Err e.
Proof.
  intros s s' prefix payload Hdec Hlen Hfirst Hn Hham.
  pose proof Hdec as Hdec0. rewrite decode_eq in Hdec0.
  destruct (scan s 0 false false 0) as [[[l u] ps]|e|k] eqn:Escan; try discriminate.
  destruct (N.eqb_spec ps 0) as [E0|E0]; [discriminate|].
  destruct (u && l); [discriminate|].
  destruct (to_values (skipn (N.to_nat ps + 1) s)) as [values|e|k]; try discriminate.
  destruct (N.of_nat (length values) <? 8); [discriminate|].
  destruct (negb (verify_checksum (map lower_case (firstn (N.to_nat ps) s)) values)); [discriminate|].
  inversion Hdec0 as [[Hprefix Hpayload]]. clear Hdec0.
  (* the separator sits at index ps: split s there *)
  assert (Hsplit : exists pre body, s = pre ++ 58 :: body /\ length pre = N.to_nat ps).
  { clear - Escan E0.
    assert (G : forall s0 i0 la ua lb ub ps0, scan s0 i0 la ua 0 = Ok (lb, ub, ps0) -> ps0 <> 0 ->
              exists pre body, s0 = pre ++ 58 :: body /\ N.of_nat (length pre) + i0 = ps0).
    { clear. induction s0 as [|c t IH]; intros i l u l' u' ps H Hps.
      - cbn in H. inversion H; subst. contradiction.
      - rewrite scan_cons in H.
        destruct (lowerb c); [apply IH in H as (pre & body & -> & E); auto; exists (c :: pre), body; split; [reflexivity | cbn [length]; lia]|].
        destruct (upperb c); [apply IH in H as (pre & body & -> & E); auto; exists (c :: pre), body; split; [reflexivity | cbn [length]; lia]|].
        destruct (digitb c); [cbn in H; discriminate|].
        destruct (N.eqb_spec c 58) as [->|]; [|discriminate].
        cbn [N.eqb negb] in H. rewrite orb_false_r in H.
        destruct (N.eqb_spec i 0) as [|Ei]; [discriminate|].
        destruct (scan_body t (i + 1) l u i Ei) as [[e He]|Hok]; rewrite H in *; [discriminate|].
        inversion Hok; subst. exists [], t. split; [reflexivity | cbn; lia]. }
    destruct (G s 0 false false l u ps Escan E0) as (pre & body & -> & E). exists pre, body. split; [reflexivity | lia]. }
  destruct Hsplit as (pre & body & -> & Hpl).
  assert (Hlp : length prefix = length pre).
  { rewrite <- Hprefix, map_length, <- Hpl, firstn_app_len. reflexivity. }
  rewrite Hlp in *.
  (* s' has the same first |pre|+1 characters *)
  assert (Hs' : s' = pre ++ 58 :: skipn (length pre + 1) s').
  { rewrite <- (firstn_skipn (length pre + 1) s') at 1. rewrite Hfirst.
    replace (pre ++ 58 :: body) with ((pre ++ [58]) ++ body) by (rewrite <- app_assoc; reflexivity).
    replace (length pre + 1)%nat with (length (pre ++ [58])) by (rewrite app_length; reflexivity).
    rewrite firstn_app_len. rewrite <- app_assoc. reflexivity. }
  remember (skipn (length pre + 1) s') as body' eqn:Eb'. clear Eb' Hfirst. subst s'.
  rewrite !app_length in Hlen, Hn. cbn [length] in Hlen, Hn.
  replace (pre ++ 58 :: body') with ((pre ++ [58]) ++ body') in Hham by (rewrite <- app_assoc; reflexivity).
  replace (pre ++ 58 :: body) with ((pre ++ [58]) ++ body) in Hham by (rewrite <- app_assoc; reflexivity).
  rewrite hamming_length_firstn in Hham.
  repeat rewrite app_length in Hlen. cbn [length] in Hlen. apply (cashaddr_detects_5_app pre body body' _ Hdec); lia.
Qed.

(* minimum distance 6: two different accepted strings with the same prefix part and length *)
Corollary cashaddr_min_distance_6 : forall pre body body' r r',
  decode_cashaddr (pre ++ 58 :: body) = Ok r -> decode_cashaddr (pre ++ 58 :: body') = Ok r' ->
  length body' = length body -> (length body <= 112)%nat -> body <> body' ->
  (6 <= hamming body body')%nat.
Proof.
  intros pre body body' r r' H H' Hl Hn Hne.
  destruct (Nat.le_gt_cases 6 (hamming body body')) as [|Hlt]; [assumption|exfalso].
  assert (H1 : (1 <= hamming body body')%nat).
  { destruct (hamming body body') eqn:E; [|lia]. exfalso. apply Hne.
    clear - Hl E. revert body' Hl E. induction body as [|x b IH]; intros [|y b'] Hl E; cbn [length hamming] in *; try lia; auto.
    destruct (N.eqb_spec x y); [|lia]. subst. f_equal. apply IH; lia. }
  destruct (cashaddr_detects_5_app pre body body' r H Hl Hn ltac:(lia)) as [e He].
  rewrite He in H'. discriminate.
Qed.

Print Assumptions cashaddr_detects_5.
Print Assumptions cashaddr_min_distance_6.

(* C03 stated over the MACHINE-TRANSLATED Go source (review round 2).
   Gen/Kernels2.v is regenerated from the Go ASTs of address.go / bech32/bech32.go on every run
   (harness/cmd/gotrans); Tie/Kernels2_CashAddrDecode.v and Tie/Kernels2_Bech32.v prove the translated
   DecodeCashAddress / bech32.Decode equal to the hand-written models on every input.  Composed with the
   detection theorems this gives the property about the translation of the code that exists: a change
   of an operator or of the order of two checks in the decoders breaks the tie even when no literal
   and no table changes. *)
From BU Require Import Lib.Bytes Lib.PolyMod Gen.Kernels2 CashAddr.CashAddr Bech32.Bech32
  Checksum.Syndrome Checksum.CashString Checksum.BechString.
From BU Require Import Tie.Kernels2_CashAddrDecode Tie.Kernels2_Bech32.

Theorem cashaddr_src_detects_5 : forall s s' prefix payload,
  Kernels2.DecodeCashAddress s = Ok (prefix, payload) ->
  length s' = length s ->
  firstn (length prefix + 1) s' = firstn (length prefix + 1) s ->
  (length s - (length prefix + 1) <= 112)%nat ->
  (1 <= hamming s s' <= 5)%nat ->
  exists e, Kernels2.DecodeCashAddress s' = Err e.
Proof. intros s s' prefix payload. rewrite !DecodeCashAddress_tie. apply cashaddr_detects_5. Qed.

Theorem bech32_src_detects_4_case : forall hrp data data' r,
  Kernels2.Decode (hrp ++ 49 :: data) = Ok r -> ~ In 49 data ->
  length data' = length data -> ~ In 49 data' ->
  (hamming data data' <= 4)%nat ->
  hrp ++ 49 :: data' <> map to_lower (hrp ++ 49 :: data) ->
  hrp ++ 49 :: data' <> map to_upper (hrp ++ 49 :: data) ->
  exists e, Kernels2.Decode (hrp ++ 49 :: data') = Err e.
Proof. intros hrp data data' r. rewrite !Decode_tie. apply bech32_detects_4_case. Qed.

Print Assumptions cashaddr_src_detects_5.
Print Assumptions bech32_src_detects_4_case.

(* Generic facts about the BCH register step of Lib/PolyMod.v, for any parameter record
   satisfying the boolean well-formedness test [pm_wf] (established for the CashAddr and
   bech32 parameters by vm_compute on the extracted constants, so a changed literal in
   the Go source breaks a named lemma at build time). *)
From BU Require Import Lib.Bytes Lib.PolyMod.
From Coq Require Import ZifyBool ZifyN ZifyNat Btauto.

(* equalities between xor-combinations of the same atoms *)
Ltac xor_ac := apply N.bits_inj; intros ?n; rewrite ?N.lxor_spec, ?N.bits_0; btauto.

(* ---------- small bit-level toolbox ---------- *)
Lemma land_lxor_distr_l a b c : N.land (N.lxor a b) c = N.lxor (N.land a c) (N.land b c).
Proof. apply N.bits_inj; intros n. rewrite ?N.lxor_spec, ?N.land_spec, ?N.lxor_spec. btauto. Qed.

Lemma lt_pow2_shiftr a n : a < 2 ^ n <-> N.shiftr a n = 0.
Proof.
  rewrite N.shiftr_div_pow2. rewrite N.div_small_iff; [reflexivity|].
  apply N.pow_nonzero. lia.
Qed.

Lemma lxor_lt_pow2 a b n : a < 2 ^ n -> b < 2 ^ n -> N.lxor a b < 2 ^ n.
Proof.
  rewrite !lt_pow2_shiftr. intros Ha Hb. rewrite N.shiftr_lxor, Ha, Hb. reflexivity.
Qed.

Lemma land_ones_lt a n : N.land a (N.ones n) < 2 ^ n.
Proof. rewrite N.land_ones. apply N.mod_lt. apply N.pow_nonzero. lia. Qed.

Lemma land_ones_small a n : a < 2 ^ n -> N.land a (N.ones n) = a.
Proof. intros H. rewrite N.land_ones. apply N.mod_small. exact H. Qed.

Lemma shiftl_lt_pow2 a n k : a < 2 ^ n -> N.shiftl a k < 2 ^ (n + k).
Proof.
  intros H. rewrite N.shiftl_mul_pow2, N.pow_add_r.
  apply N.mul_lt_mono_pos_r; [|exact H].
  assert (2 ^ k <> 0) by (apply N.pow_nonzero; lia). lia.
Qed.

Lemma testbit_small x n m : x < 2 ^ n -> n <= m -> N.testbit x m = false.
Proof.
  intros Hx Hm. rewrite <- (N.mod_small x (2 ^ n)) by exact Hx.
  apply N.mod_pow2_bits_high. exact Hm.
Qed.

Lemma add_shifted_lxor a x k : x < 2 ^ k -> a * 2 ^ k + x = N.lxor (N.shiftl a k) x.
Proof.
  intros Hx. rewrite <- N.shiftl_mul_pow2. apply N.add_nocarry_lxor.
  apply N.bits_inj. intros n. rewrite N.land_spec, N.bits_0.
  destruct (N.ltb_spec n k) as [Hlt|Hge].
  - rewrite N.shiftl_spec_low by exact Hlt. reflexivity.
  - rewrite (testbit_small x k n Hx Hge). apply andb_false_r.
Qed.

(* ---------- packbe / unpack ---------- *)
Lemma packbe_acc l a : fold_left (fun a x => a * 32 + x) l a = a * 32 ^ N.of_nat (length l) + packbe l.
Proof.
  unfold packbe. revert a. induction l as [|x l IH]; intros a; cbn [fold_left length].
  - rewrite N.pow_0_r. lia.
  - rewrite IH. rewrite (IH (0 * 32 + x)). rewrite Nat2N.inj_succ, N.pow_succ_r'. lia.
Qed.

Lemma packbe_cons x l : packbe (x :: l) = x * 32 ^ N.of_nat (length l) + packbe l.
Proof. unfold packbe at 1. cbn [fold_left]. rewrite packbe_acc. lia. Qed.

Lemma packbe_snoc l x : packbe (l ++ [x]) = packbe l * 32 + x.
Proof. unfold packbe. rewrite fold_left_app. reflexivity. Qed.

Lemma packbe_bound l : Forall (fun x => x < 32) l -> packbe l < 32 ^ N.of_nat (length l).
Proof.
  induction 1 as [|x l Hx HF IH].
  - cbn. lia.
  - rewrite packbe_cons. cbn [length]. rewrite Nat2N.inj_succ, N.pow_succ_r'. nia.
Qed.

Lemma pow32 n : 32 ^ n = 2 ^ (5 * n).
Proof. change 32 with (2 ^ 5). rewrite <- N.pow_mul_r. reflexivity. Qed.

Lemma unpack_length k v : length (unpack k v) = k.
Proof. induction k; cbn [unpack length]; congruence. Qed.

Lemma unpack_lt32 k v : Forall (fun x => x < 32) (unpack k v).
Proof.
  induction k; cbn [unpack]; constructor; [|assumption].
  change 31 with (N.ones 5). apply (land_ones_lt _ 5).
Qed.

Lemma packbe_unpack k v : packbe (unpack k v) = v mod 2 ^ (5 * N.of_nat k).
Proof.
  induction k as [|j IH].
  - cbn. rewrite N.mod_1_r. reflexivity.
  - cbn [unpack]. rewrite packbe_cons, unpack_length, IH.
    change 31 with (N.ones 5). rewrite N.land_ones, N.shiftr_div_pow2, pow32.
    rewrite Nat2N.inj_succ.
    replace (5 * N.succ (N.of_nat j)) with (5 * N.of_nat j + 5) by lia.
    rewrite N.pow_add_r.
    rewrite (N.mod_mul_r v (2 ^ (5 * N.of_nat j)) (2 ^ 5)).
    + lia.
    + apply N.pow_nonzero; lia.
    + apply N.pow_nonzero; lia.
Qed.

Lemma unpack_mod k v m : 5 * N.of_nat k <= m -> unpack k (v mod 2 ^ m) = unpack k v.
Proof.
  induction k as [|j IH]; intros Hm; cbn [unpack]; [reflexivity|].
  rewrite IH by lia. f_equal.
  apply N.bits_inj. intros n. rewrite !N.land_spec, !N.shiftr_spec'.
  destruct (N.ltb_spec n 5) as [Hlt|Hge].
  - rewrite N.mod_pow2_bits_low by lia. reflexivity.
  - rewrite (testbit_small 31 5 n) by (cbn; lia). rewrite !andb_false_r. reflexivity.
Qed.

Lemma unpack_packbe l : Forall (fun x => x < 32) l -> unpack (length l) (packbe l) = l.
Proof.
  induction 1 as [|x l Hx HF IH]; [reflexivity|].
  cbn [length unpack]. rewrite packbe_cons.
  pose proof (packbe_bound l HF) as Hb.
  assert (Hnz : 32 ^ N.of_nat (length l) <> 0) by (apply N.pow_nonzero; lia).
  f_equal.
  - change 31 with (N.ones 5). rewrite N.land_ones, N.shiftr_div_pow2, <- pow32.
    rewrite N.div_add_l by exact Hnz. rewrite N.div_small by exact Hb.
    rewrite N.add_0_r. apply N.mod_small. exact Hx.
  - rewrite <- (unpack_mod _ _ (5 * N.of_nat (length l))) by lia.
    rewrite <- pow32. rewrite N.add_comm, N.mod_add by exact Hnz.
    rewrite N.mod_small by exact Hb. exact IH.
Qed.

(* ---------- well-formed parameters ---------- *)
Definition pm_width (p : pm_params) : N := pm_shift p + 5.

Definition pm_wf (p : pm_params) : bool :=
  (pm_mask p =? N.ones (pm_shift p)) && (pm_sym p =? 5) &&
  forallb (fun mg => snd mg <? 2 ^ pm_width p) (pm_gens p).

Section Generic.
Variable p : pm_params.
Hypothesis Hwf : pm_wf p = true.

Lemma wf_mask : pm_mask p = N.ones (pm_shift p).
Proof. unfold pm_wf in Hwf. rewrite !andb_true_iff in Hwf. lia. Qed.
Lemma wf_sym : pm_sym p = 5.
Proof. unfold pm_wf in Hwf. rewrite !andb_true_iff in Hwf. lia. Qed.
Lemma wf_gens : Forall (fun mg => snd mg < 2 ^ pm_width p) (pm_gens p).
Proof.
  unfold pm_wf in Hwf. rewrite !andb_true_iff in Hwf. destruct Hwf as [_ H].
  rewrite forallb_forall in H. apply Forall_forall. intros x Hx. specialize (H x Hx). lia.
Qed.

Lemma feedback_xor gens c0 acc : feedback gens c0 acc = N.lxor acc (feedback gens c0 0).
Proof.
  revert acc. induction gens as [|[m g] t IH]; intros acc; cbn [feedback].
  - rewrite N.lxor_0_r. reflexivity.
  - destruct (0 <? N.land c0 m).
    + rewrite IH. rewrite (IH (N.lxor 0 g)). rewrite N.lxor_0_l, N.lxor_assoc. reflexivity.
    + apply IH.
Qed.

Lemma feedback_bound gens c0 acc n :
  Forall (fun mg : N * N => snd mg < 2 ^ n) gens -> acc < 2 ^ n -> feedback gens c0 acc < 2 ^ n.
Proof.
  intros HF. revert acc. induction HF as [|[m g] t Hg HF IH]; intros acc Hacc; cbn [feedback].
  - exact Hacc.
  - destruct (0 <? N.land c0 m); apply IH; [apply lxor_lt_pow2; assumption | assumption].
Qed.

(* the next symbol enters by a plain xor *)
Lemma step_d c d : pm_step p c d = N.lxor (pm_step p c 0) d.
Proof.
  unfold pm_step. rewrite feedback_xor. rewrite (feedback_xor _ _ (N.lxor _ 0)).
  xor_ac.
Qed.

(* the register never leaves [0, 2^width) whatever the previous state was *)
Lemma step_bound c d : d < 2 ^ pm_width p -> pm_step p c d < 2 ^ pm_width p.
Proof.
  intros Hd. unfold pm_step. apply feedback_bound; [apply wf_gens|].
  apply lxor_lt_pow2; [|exact Hd].
  rewrite wf_mask, wf_sym. unfold pm_width. apply shiftl_lt_pow2. apply land_ones_lt.
Qed.

(* xoring something below 2^shift into the state only moves it up by one symbol *)
Lemma step_xor_low c e : e < 2 ^ pm_shift p ->
  pm_step p (N.lxor c e) 0 = N.lxor (pm_step p c 0) (N.shiftl e 5).
Proof.
  intros He. unfold pm_step.
  assert (Hs : N.shiftr (N.lxor c e) (pm_shift p) = N.shiftr c (pm_shift p)).
  { rewrite N.shiftr_lxor. apply lt_pow2_shiftr in He. rewrite He. apply N.lxor_0_r. }
  rewrite Hs. rewrite feedback_xor. rewrite (feedback_xor _ _ (N.lxor _ 0)).
  rewrite !N.lxor_0_r. rewrite wf_mask, wf_sym.
  rewrite land_lxor_distr_l. rewrite (land_ones_small e) by exact He.
  rewrite N.shiftl_lxor. xor_ac.
Qed.

(* ---------- folding k symbols = folding k zeros, xor the packed symbols ---------- *)
Lemma fold_syms xs : forall c,
  Forall (fun x => x < 32) xs -> 5 * N.of_nat (length xs) <= pm_width p ->
  pm_fold p c xs = N.lxor (pm_fold p c (repeat 0 (length xs))) (packbe xs).
Proof.
  induction xs as [|x xs IH] using rev_ind; intros c HF Hlen.
  - cbn. rewrite N.lxor_0_r. reflexivity.
  - apply Forall_app in HF as [HF Hx]. inversion Hx as [|? ? Hx32 _]; subst.
    rewrite app_length in *. cbn [length] in *.
    rewrite repeat_app. cbn [repeat]. unfold pm_fold in *. rewrite !fold_left_app. cbn [fold_left].
    rewrite IH by (auto; lia).
    pose proof (packbe_bound xs HF) as Hb. rewrite pow32 in Hb.
    rewrite step_d. rewrite step_xor_low.
    + rewrite packbe_snoc. change 32 with (2 ^ 5). rewrite (add_shifted_lxor _ x 5) by exact Hx32.
      xor_ac.
    + eapply N.lt_le_trans; [exact Hb|]. apply N.pow_le_mono_r; [lia|]. unfold pm_width in Hlen. lia.
Qed.

Lemma fold_zeros_bound c k : (0 < k)%nat -> pm_fold p c (repeat 0 k) < 2 ^ pm_width p.
Proof.
  intros Hk. destruct k as [|k]; [lia|].
  replace (S k) with (k + 1)%nat by lia. rewrite repeat_app. unfold pm_fold. rewrite fold_left_app.
  cbn [repeat fold_left]. apply step_bound. apply N.neq_0_lt_0. apply N.pow_nonzero. lia.
Qed.

End Generic.

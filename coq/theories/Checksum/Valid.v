(* Created checksums verify, have the right shape, and are the only suffix that verifies
   (CashAddr: 8 symbols, remainder 0 after the final `^ 1`; bech32: 6 symbols, remainder 1).
   Everything is derived from the generic register facts of StepFacts.v; the only
   model-specific inputs are two [vm_compute] checks on the extracted literals. *)
From BU Require Import Lib.Bytes Lib.PolyMod CashAddr.CashAddr Bech32.Bech32 Checksum.StepFacts.
From Coq Require Import ZifyBool ZifyN ZifyNat Btauto.

(* ---------- generic: k checksum symbols filling the whole register ---------- *)
Section GenericChecksum.
Variable p : pm_params.
Hypothesis Hwf : pm_wf p = true.
Variable k : nat.
Hypothesis Hk : 5 * N.of_nat k = pm_width p.
Hypothesis Hk0 : (0 < k)%nat.

(* appending unpack (fold-of-zeros xor t) drives the register to exactly t *)
Lemma gen_valid S t : t < 2 ^ pm_width p ->
  pm_fold p S (unpack k (N.lxor (pm_fold p S (repeat 0 k)) t)) = t.
Proof.
  intros Ht. rewrite (fold_syms p Hwf).
  - rewrite unpack_length, packbe_unpack, Hk. rewrite N.mod_small.
    + xor_ac.
    + apply lxor_lt_pow2; [apply (fold_zeros_bound p Hwf); exact Hk0 | exact Ht].
  - apply unpack_lt32.
  - rewrite unpack_length. lia.
Qed.

(* conversely a k-symbol suffix that drives the register to t is that one *)
Lemma gen_unique S b t : length b = k -> Forall (fun x => x < 32) b ->
  pm_fold p S b = t -> b = unpack k (N.lxor (pm_fold p S (repeat 0 k)) t).
Proof.
  intros Hlen HF Hfold. rewrite (fold_syms p Hwf) in Hfold by (auto; lia).
  rewrite Hlen in Hfold.
  assert (E : N.lxor (pm_fold p S (repeat 0 k)) t = packbe b) by (rewrite <- Hfold; xor_ac).
  rewrite E, <- Hlen. symmetry. apply unpack_packbe. exact HF.
Qed.
End GenericChecksum.

(* ---------- CashAddr ---------- *)
Lemma cash_wf : pm_wf cash_params = true.
Proof. vm_compute. reflexivity. Qed.

Lemma cash_consts : CashAddr.L 0 = 1 /\ CashAddr.L 19 = 1 /\ lit Xbchutil.lits_verifyChecksum 0 = 0 /\ pm_width cash_params = 40.
Proof. vm_compute. repeat split; reflexivity. Qed.

Lemma cash_k : 5 * N.of_nat 8 = pm_width cash_params.
Proof. vm_compute. reflexivity. Qed.
Lemma lt_0_8 : (0 < 8)%nat. Proof. lia. Qed.
Lemma lt_0_6 : (0 < 6)%nat. Proof. lia. Qed.

Lemma cash_polymod_app a b : CashAddr.polymod (a ++ b) = N.lxor (pm_fold cash_params (pm_fold cash_params (CashAddr.L 0) a) b) (CashAddr.L 19).
Proof. unfold CashAddr.polymod, pm_fold. rewrite fold_left_app. reflexivity. Qed.

Lemma cashaddr_create_length prefix payload : length (CashAddr.create_checksum prefix payload) = 8%nat.
Proof. apply unpack_length. Qed.

Lemma cashaddr_create_lt32 prefix payload : Forall (fun x => x < 32) (CashAddr.create_checksum prefix payload).
Proof. apply unpack_lt32. Qed.

(* no hypothesis on the payload symbols or on the prefix characters is needed *)
Theorem cashaddr_checksum_valid_strong : forall prefix payload,
  CashAddr.verify_checksum prefix (payload ++ CashAddr.create_checksum prefix payload) = true.
Proof.
  intros prefix payload. unfold CashAddr.verify_checksum, CashAddr.create_checksum.
  destruct cash_consts as (H0 & H19 & Hv & HW).
  rewrite app_assoc. rewrite (app_assoc _ payload (repeat 0 8)).
  rewrite !cash_polymod_app. rewrite Hv, H19.
  rewrite (gen_valid cash_params cash_wf 8 cash_k lt_0_8).
  - reflexivity.
  - rewrite HW. reflexivity.
Qed.

Theorem cashaddr_checksum_valid : forall prefix payload, Forall (fun x => x < 32) payload ->
  CashAddr.verify_checksum prefix (payload ++ CashAddr.create_checksum prefix payload) = true.
Proof. intros prefix payload _. apply cashaddr_checksum_valid_strong. Qed.

(* uniqueness, split form: the 8 trailing symbols must be < 32 (otherwise [0;32] and [1;0]
   are indistinguishable to the register and the statement is false) *)
Theorem cashaddr_checksum_unique_app : forall prefix a b,
  length b = 8%nat -> Forall (fun x => x < 32) b ->
  CashAddr.verify_checksum prefix (a ++ b) = true -> b = CashAddr.create_checksum prefix a.
Proof.
  intros prefix a b Hlen HF Hv. unfold CashAddr.verify_checksum, CashAddr.create_checksum in *.
  destruct cash_consts as (H0 & H19 & Hvc & HW).
  rewrite app_assoc in Hv. rewrite (app_assoc _ a (repeat 0 8)).
  rewrite !cash_polymod_app in *. rewrite Hvc, H19 in *.
  apply N.eqb_eq in Hv. apply N.lxor_eq in Hv.
  exact (gen_unique cash_params cash_wf 8 cash_k lt_0_8 _ b 1 Hlen HF Hv).
Qed.

Theorem cashaddr_checksum_unique : forall prefix v, (8 <= length v)%nat ->
  Forall (fun x => x < 32) (skipn (length v - 8) v) ->
  CashAddr.verify_checksum prefix v = true ->
  skipn (length v - 8) v = CashAddr.create_checksum prefix (firstn (length v - 8) v).
Proof.
  intros prefix v Hlen HF Hv. apply cashaddr_checksum_unique_app.
  - rewrite skipn_length. lia.
  - exact HF.
  - rewrite firstn_skipn. exact Hv.
Qed.

(* ---------- bech32 ---------- *)
Lemma bech_wf : pm_wf bech_params = true.
Proof. vm_compute. reflexivity. Qed.

Lemma bech_consts : lit Xbech32.lits_bech32Checksum 6 = 1 /\ lit Xbech32.lits_bech32VerifyChecksum 0 = 1 /\ pm_width bech_params = 30.
Proof. vm_compute. repeat split; reflexivity. Qed.

Lemma bech_k : 5 * N.of_nat 6 = pm_width bech_params.
Proof. vm_compute. reflexivity. Qed.

Lemma bech_polymod_app a b : Bech32.polymod (a ++ b) = pm_fold bech_params (Bech32.polymod a) b.
Proof. unfold Bech32.polymod, pm_fold. rewrite fold_left_app. reflexivity. Qed.

Lemma bech32_create_length hrp data : length (Bech32.create_checksum hrp data) = 6%nat.
Proof. apply unpack_length. Qed.

Lemma bech32_create_lt32 hrp data : Forall (fun x => x < 32) (Bech32.create_checksum hrp data).
Proof. apply unpack_lt32. Qed.

Theorem bech32_checksum_valid_strong : forall hrp data,
  Bech32.verify_checksum hrp (data ++ Bech32.create_checksum hrp data) = true.
Proof.
  intros hrp data. unfold Bech32.verify_checksum, Bech32.create_checksum.
  destruct bech_consts as (H6 & Hv & HW).
  rewrite app_assoc. rewrite (app_assoc _ data (repeat 0 6)).
  rewrite !bech_polymod_app. rewrite Hv, H6.
  rewrite (gen_valid bech_params bech_wf 6 bech_k lt_0_6).
  - reflexivity.
  - rewrite HW. reflexivity.
Qed.

Theorem bech32_checksum_valid : forall hrp data, Forall (fun x => x < 32) data ->
  Forall (fun c => c < 256) hrp ->
  Bech32.verify_checksum hrp (data ++ Bech32.create_checksum hrp data) = true.
Proof. intros hrp data _ _. apply bech32_checksum_valid_strong. Qed.

Theorem bech32_checksum_unique_app : forall hrp a b,
  length b = 6%nat -> Forall (fun x => x < 32) b ->
  Bech32.verify_checksum hrp (a ++ b) = true -> b = Bech32.create_checksum hrp a.
Proof.
  intros hrp a b Hlen HF Hv. unfold Bech32.verify_checksum, Bech32.create_checksum in *.
  destruct bech_consts as (H6 & Hvc & HW).
  rewrite app_assoc in Hv. rewrite (app_assoc _ a (repeat 0 6)).
  rewrite !bech_polymod_app in *. rewrite Hvc in Hv. rewrite H6.
  apply N.eqb_eq in Hv.
  exact (gen_unique bech_params bech_wf 6 bech_k lt_0_6 _ b 1 Hlen HF Hv).
Qed.

Theorem bech32_checksum_unique : forall hrp v, (6 <= length v)%nat ->
  Forall (fun x => x < 32) (skipn (length v - 6) v) ->
  Bech32.verify_checksum hrp v = true ->
  skipn (length v - 6) v = Bech32.create_checksum hrp (firstn (length v - 6) v).
Proof.
  intros hrp v Hlen HF Hv. apply bech32_checksum_unique_app.
  - rewrite skipn_length. lia.
  - exact HF.
  - rewrite firstn_skipn. exact Hv.
Qed.

Print Assumptions cashaddr_checksum_valid.
Print Assumptions cashaddr_checksum_unique.
Print Assumptions bech32_checksum_valid.
Print Assumptions bech32_checksum_unique.

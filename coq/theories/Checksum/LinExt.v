(* Linear extension: two GF(2)-linear maps N -> N that agree on 2^j (j < n) agree on
   every v < 2^n.  Turns universally quantified statements about the packed checksum
   register into n kernel evaluations.  Also the closure lemmas used to recognise
   linear maps built from xor / and-with-constant / shifts. *)
From BU Require Import Lib.Bytes Checksum.StepFacts.
From Coq Require Import ZifyBool ZifyN ZifyNat Btauto.

Definition lin (f : N -> N) : Prop :=
  f 0 = 0 /\ forall a b, f (N.lxor a b) = N.lxor (f a) (f b).

Lemma split_top n v : v < 2 ^ N.succ n ->
  v = N.lxor (v mod 2 ^ n) (if N.testbit v n then 2 ^ n else 0).
Proof.
  intros Hv. apply N.bits_inj. intros m. rewrite N.lxor_spec.
  destruct (N.lt_trichotomy m n) as [Hlt|[->|Hgt]].
  - rewrite N.mod_pow2_bits_low by exact Hlt.
    destruct (N.testbit v n).
    + rewrite N.pow2_bits_false by lia. rewrite xorb_false_r. reflexivity.
    + rewrite N.bits_0, xorb_false_r. reflexivity.
  - rewrite N.mod_pow2_bits_high by lia.
    destruct (N.testbit v n) eqn:E.
    + rewrite N.pow2_bits_true. reflexivity.
    + rewrite N.bits_0. reflexivity.
  - rewrite (testbit_small v (N.succ n) m Hv) by lia.
    rewrite N.mod_pow2_bits_high by lia.
    destruct (N.testbit v n).
    + rewrite N.pow2_bits_false by lia. reflexivity.
    + rewrite N.bits_0. reflexivity.
Qed.

Lemma lin_ext f g : lin f -> lin g -> forall n : nat,
  (forall j : nat, (j < n)%nat -> f (2 ^ N.of_nat j) = g (2 ^ N.of_nat j)) ->
  forall v, v < 2 ^ N.of_nat n -> f v = g v.
Proof.
  intros [Hf0 Hf] [Hg0 Hg] n. induction n as [|n IH]; intros Hb v Hv.
  - cbn in Hv. assert (v = 0) by lia. subst. congruence.
  - rewrite Nat2N.inj_succ in Hv. rewrite (split_top _ _ Hv). rewrite Hf, Hg. f_equal.
    + apply IH.
      * intros j Hj. apply Hb. lia.
      * apply N.mod_lt. apply N.pow_nonzero. lia.
    + destruct (N.testbit v (N.of_nat n)).
      * apply Hb. lia.
      * congruence.
Qed.

(* boolean form: the hypothesis as a computation over j = 0 .. n-1 *)
Definition agree_on_basis (f g : N -> N) (n : nat) : bool :=
  forallb (fun j => f (2 ^ N.of_nat j) =? g (2 ^ N.of_nat j)) (seq 0 n).

Lemma lin_ext_b f g n : lin f -> lin g -> agree_on_basis f g n = true ->
  forall v, v < 2 ^ N.of_nat n -> f v = g v.
Proof.
  intros Hf Hg Hb. apply lin_ext; auto. intros j Hj.
  unfold agree_on_basis in Hb. rewrite forallb_forall in Hb.
  apply N.eqb_eq. apply Hb. apply in_seq. lia.
Qed.

(* ---------- closure ---------- *)
Lemma lin_id : lin (fun v => v).
Proof. split; auto. Qed.

Lemma lin_zero : lin (fun _ => 0).
Proof. split; auto. Qed.

Lemma lin_xor f g : lin f -> lin g -> lin (fun v => N.lxor (f v) (g v)).
Proof.
  intros [Hf0 Hf] [Hg0 Hg]. split.
  - rewrite Hf0, Hg0. reflexivity.
  - intros a b. rewrite Hf, Hg. xor_ac.
Qed.

Lemma lin_comp f g : lin f -> lin g -> lin (fun v => f (g v)).
Proof.
  intros [Hf0 Hf] [Hg0 Hg]. split.
  - rewrite Hg0. exact Hf0.
  - intros a b. rewrite Hg, Hf. reflexivity.
Qed.

Lemma lin_land c : lin (fun v => N.land v c).
Proof. split; [apply N.land_0_l|]. intros a b. apply land_lxor_distr_l. Qed.

Lemma lin_shiftl k : lin (fun v => N.shiftl v k).
Proof. split; [apply N.shiftl_0_l|]. intros a b. apply N.shiftl_lxor. Qed.

Lemma lin_shiftr k : lin (fun v => N.shiftr v k).
Proof. split; [apply N.shiftr_0_l|]. intros a b. apply N.shiftr_lxor. Qed.

Lemma lin_if (c : bool) f : lin f -> lin (fun v => if c then f v else 0).
Proof. intros Hf. destruct c; [exact Hf | apply lin_zero]. Qed.

(* `if v & 2^i > 0 then g else 0` *)
Lemma land_pow2 v i : N.land v (2 ^ i) = if N.testbit v i then 2 ^ i else 0.
Proof.
  apply N.bits_inj. intros n. rewrite N.land_spec.
  destruct (N.eq_dec n i) as [->|Hne].
  - rewrite N.pow2_bits_true, andb_true_r. destruct (N.testbit v i).
    + rewrite N.pow2_bits_true. reflexivity.
    + rewrite N.bits_0. reflexivity.
  - rewrite N.pow2_bits_false by lia. rewrite andb_false_r.
    destruct (N.testbit v i).
    + rewrite N.pow2_bits_false by lia. reflexivity.
    + rewrite N.bits_0. reflexivity.
Qed.

Lemma bit_test v i : (0 <? N.land v (2 ^ i)) = N.testbit v i.
Proof.
  rewrite land_pow2. destruct (N.testbit v i).
  - apply N.ltb_lt. apply N.neq_0_lt_0. apply N.pow_nonzero. lia.
  - reflexivity.
Qed.

Lemma lin_bitcond i g : lin (fun v => if 0 <? N.land v (2 ^ i) then g else 0).
Proof.
  split.
  - rewrite N.land_0_l. reflexivity.
  - intros a b. rewrite !bit_test, N.lxor_spec.
    destruct (N.testbit a i), (N.testbit b i); cbn [xorb];
      rewrite ?N.lxor_0_r, ?N.lxor_0_l, ?N.lxor_nilpotent; reflexivity.
Qed.

Lemma lin_testcond i g : lin (fun v => if N.testbit v i then g else 0).
Proof.
  split.
  - rewrite N.bits_0. reflexivity.
  - intros a b. rewrite N.lxor_spec.
    destruct (N.testbit a i), (N.testbit b i); cbn [xorb];
      rewrite ?N.lxor_0_r, ?N.lxor_0_l, ?N.lxor_nilpotent; reflexivity.
Qed.

Lemma lin_0 f : lin f -> f 0 = 0.
Proof. intros [H _]. exact H. Qed.

Lemma lin_add f : lin f -> forall a b, f (N.lxor a b) = N.lxor (f a) (f b).
Proof. intros [_ H]. exact H. Qed.

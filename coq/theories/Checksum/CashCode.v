(* The CashAddr code: constants check, the vectors T^k 1 (k < 112) reduced by the pivot on T^0 1.
   Everything here unfolds to the literals extracted from address.go (Gen/Xbchutil.v). *)
From BU Require Import Lib.Bytes Lib.PolyMod CashAddr.CashAddr Checksum.StepFacts Checksum.LinExt
  Checksum.GF32 Checksum.Quotient Checksum.Syndrome.

Definition G8 : gfp := Eval vm_compute in mk_gfp 8.

(* masks are powers of two and the constants fit the register; GF(32) laws on the 8-lane register;
   the five xor constants are {2^k} * g (T commutes with the scalar action); T^1025 = id *)
Lemma cash_code_ok : code_ok cash_params G8 1025 = true.
Proof. vm_compute. reflexivity. Qed.

Definition cash_T1 : N := Tstep cash_params 1.
Definition cash_rest : list N := iterl cash_params 111 cash_T1.
Definition cash_l : list N := map (elim G8 1 0) cash_rest.

Lemma cash_pivot : pivot G8 1 = Some (1, 0).
Proof. vm_compute. reflexivity. Qed.

Lemma cash_l_length : length cash_l = 111%nat.
Proof. unfold cash_l, cash_rest. rewrite map_length. apply iterl_length. Qed.

(* one-level check: covers error patterns of weight 2 and 3 *)
Lemma cash_chk0 : chk G8 0 cash_l = true.
Proof. vm_compute. reflexivity. Qed.

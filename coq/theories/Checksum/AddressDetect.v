(* C03 at the level of bchutil.DecodeAddress with an explicit prefix (review round 2): the property names
   DecodeAddress as an observation point; the detection theorems of CashString.v are about DecodeCashAddress.
   Model of the dispatch: Address/Address.v (a-c01). *)
From BU Require Import Lib.Bytes Lib.PolyMod Gen.Xbchutil Gen.Nets Base58.Base58 CashAddr.CashAddr
  Address.Bits Address.Address Checksum.Syndrome Checksum.CashString.
From Coq Require Import ZifyBool ZifyN ZifyNat.

(* ':' is neither a base58 digit nor a hex digit *)
Lemma colon_not_b58 : (b58 58 =? 255) = true.
Proof. vm_compute. reflexivity. Qed.

Lemma decode_digits_colon s : In 58 s -> decode_digits s = None.
Proof.
  induction s as [|c t IH]; intros Hin; [destruct Hin|]. cbn [decode_digits].
  destruct Hin as [->|Hin].
  - rewrite colon_not_b58. reflexivity.
  - destruct (b58 c =? 255); [reflexivity|]. rewrite (IH Hin). reflexivity.
Qed.

Lemma check_decode_colon s : In 58 s -> check_decode s = Err 1.
Proof.
  intros Hin. unfold check_decode, Base58.decode. rewrite (decode_digits_colon s Hin). reflexivity.
Qed.

Lemma hex_decode_colon s : In 58 s -> hex_decode s = None.
Proof.
  induction s as [s IH] using (well_founded_induction (Wf_nat.well_founded_ltof _ (@length N))).
  intros Hin. destruct s as [|a [|b t]]; [destruct Hin | reflexivity |].
  cbn [hex_decode].
  destruct Hin as [->|[->|Hin]].
  - reflexivity.
  - destruct (hex_val a); reflexivity.
  - rewrite (IH t); [| unfold ltof; cbn [length]; lia | exact Hin].
    destruct (hex_val a); [|reflexivity]. destruct (hex_val b); reflexivity.
Qed.

Section AddressDetect.
Variable P : Type.
Variable ec_parse : list N -> option P.

Lemma tail_path_colon net rp rs s f : In 58 s -> exists e, tail_path P ec_parse net rp rs s f = Err e.
Proof.
  intros Hin. unfold tail_path.
  destruct ((lenN s =? DA 6) || (lenN s =? DA 7)).
  - rewrite (hex_decode_colon s Hin). eauto.
  - unfold legacy_path. rewrite (check_decode_colon s Hin).
    change (1 =? 2) with false. cbv iota. destruct f; eauto.
Qed.

Lemma equal_fold_length a : forall b, equal_fold a b = true -> length a = length b.
Proof.
  induction a as [|x a IH]; intros [|y b] H; cbn [equal_fold] in H; try discriminate; [reflexivity|].
  apply andb_true_iff in H as [_ H]. cbn [length]. f_equal. apply IH. exact H.
Qed.

Lemma lits_da_slices : DA 2 = 1 /\ DA 3 = 1.
Proof. vm_compute. split; reflexivity. Qed.

(* a string labelled (up to ASCII case) with the CashAddr or the SLP prefix of the network is passed to
   checkDecodeCashAddress unchanged, in both attempts *)
Lemma has_prefix_labelled net lbl body :
  equal_fold (lbl ++ [58]) (cash_prefix net ++ [colon]) = true \/
  equal_fold (lbl ++ [58]) (slp_prefix net ++ [colon]) = true ->
  has_prefix net (lbl ++ 58 :: body) = true.
Proof.
  intros H. unfold has_prefix. destruct lits_da_slices as [-> ->]. change (N.to_nat 1) with 1%nat.
  apply orb_true_iff.
  destruct H as [H|H]; [left|right];
    pose proof (equal_fold_length _ _ H) as Hl; rewrite !app_length in Hl; cbn [length] in Hl;
    replace (lbl ++ 58 :: body) with ((lbl ++ [58]) ++ body) by (rewrite <- app_assoc; reflexivity);
    match goal with |- equal_fold (firstn ?n _) _ = true =>
      replace n with (length (lbl ++ [58])) by (rewrite app_length; cbn [length]; lia) end;
    rewrite firstn_app, Nat.sub_diag, firstn_all, firstn_O, app_nil_r; exact H.
Qed.

(* C03 at the level of DecodeAddress, explicit prefix: a prefix-qualified CashAddr string accepted by the
   CashAddr decoder and labelled with either prefix of the network, with 1..5 characters of its payload
   part substituted, is rejected by DecodeAddress -- by the CashAddr path (checksum / character rules), by the
   retry under the SLP prefix (the same string again), and by the public-key and Base58Check paths
   (a ':' is neither a hex digit nor a base58 digit) *)
Theorem decode_address_detects_5 : forall net rp rs lbl body body' r,
  equal_fold (lbl ++ [58]) (cash_prefix net ++ [colon]) = true \/
  equal_fold (lbl ++ [58]) (slp_prefix net ++ [colon]) = true ->
  decode_cashaddr (lbl ++ 58 :: body) = Ok r ->
  length body' = length body -> (length body <= 112)%nat ->
  (1 <= hamming body body' <= 5)%nat ->
  exists e, decode_address P ec_parse net rp rs (lbl ++ 58 :: body') = Err e.
Proof.
  intros net rp rs lbl body body' r Hlbl Hdec Hlen Hn Hham.
  destruct (cashaddr_detects_5_app lbl body body' r Hdec Hlen Hn Hham) as [e0 He0].
  assert (Hin : In 58 (lbl ++ 58 :: body')) by (apply in_or_app; right; left; reflexivity).
  unfold decode_address.
  destruct (_ || _); [eauto|].
  unfold with_prefix. rewrite (has_prefix_labelled net lbl body' Hlbl).
  unfold check_decode_cash. rewrite He0. cbn [snd].
  destruct ((e0 =? 8) || list_eqb [] (slp_prefix net)); apply tail_path_colon; exact Hin.
Qed.
End AddressDetect.
Print Assumptions decode_address_detects_5.

(* CashAddr, list level: any 1..5 symbol errors in at most 112 symbols change the register,
   hence at most one of two such symbol lists passes verify_checksum (minimum distance 6). *)
From BU Require Import Lib.Bytes Lib.PolyMod CashAddr.CashAddr Checksum.StepFacts Checksum.LinExt
  Checksum.GF32 Checksum.Quotient Checksum.Syndrome Checksum.CashCode Checksum.CashShards.
From Coq Require Import ZifyBool ZifyN ZifyNat.

Lemma cash_laws : laws_ok G8 = true.
Proof. exact (Hlaws cash_params G8 1025 cash_code_ok). Qed.

Lemma cash_rest_valid : Forall (gvalid G8) cash_rest.
Proof.
  unfold cash_rest. apply (iterl_valid cash_params G8 1025 cash_code_ok).
  apply (T_valid cash_params G8 1025 cash_code_ok).
Qed.

(* any 1..5 of the vectors T^k 1, k < 112, are linearly independent over GF(32) *)
Lemma cash_indep5 : forall m, (m <= 112)%nat -> indep G8 5 (iterl cash_params m 1).
Proof.
  apply (indep_shift cash_params G8 1025 cash_code_ok 5 111 1 (valid_1 cash_params G8 1025 cash_code_ok)).
  intros sub cs a0 Hsub Hlen Hw Ha0 Hcs.
  change (Sub sub cash_rest) in Hsub.
  assert (Hw' : (length sub <= 2 + 2)%nat) by lia.
  exact (head_indep G8 cash_laws 1 cash_rest 1 0 2 (le_n 2)
           (valid_1 cash_params G8 1025 cash_code_ok) cash_rest_valid cash_pivot cash_chk0 cash_chk2
           sub cs a0 Hsub Hlen Hw' Ha0 Hcs).
Qed.

Theorem cash_register_detects_5 : forall S v v',
  length v = length v' -> (length v <= 112)%nat ->
  Forall (fun x => x < 32) v -> Forall (fun x => x < 32) v' -> (1 <= hamming v v' <= 5)%nat ->
  pm_fold cash_params S v <> pm_fold cash_params S v'.
Proof.
  apply (detect_diff cash_params G8 1025 cash_code_ok 5 112). apply cash_indep5. lia.
Qed.

(* at the checksum-verification level, for every prefix *)
Theorem cash_verify_detects_5 : forall prefix v v',
  length v = length v' -> (length v <= 112)%nat ->
  Forall (fun x => x < 32) v -> Forall (fun x => x < 32) v' -> (1 <= hamming v v' <= 5)%nat ->
  CashAddr.verify_checksum prefix v = true -> CashAddr.verify_checksum prefix v' = false.
Proof.
  intros prefix v v' Hl Hn Hv Hv' Hh Hok.
  destruct (CashAddr.verify_checksum prefix v') eqn:E; [exfalso|reflexivity].
  unfold CashAddr.verify_checksum, CashAddr.polymod in *.
  apply N.eqb_eq in Hok, E. rewrite <- E in Hok.
  apply (f_equal (fun x => N.lxor x (CashAddr.L 19))) in Hok.
  rewrite !N.lxor_assoc, !N.lxor_nilpotent, !N.lxor_0_r in Hok.
  unfold pm_fold in Hok. rewrite !fold_left_app in Hok.
  revert Hok. apply cash_register_detects_5; assumption.
Qed.

Print Assumptions cash_verify_detects_5.

(* The quotient checker of DESIGN §6/C03 step 3 and its soundness.

   [chk G depth l] : for every choice of [depth] vectors x1..x_depth (in order) from l, pivot on
   each in turn (reducing everything after it), and require that the vectors after the last
   pivot have non-zero, pairwise distinct normal forms.  Soundness: no GF(32)-combination of
   x1..x_depth (arbitrary coefficients) and one or two later vectors (non-zero coefficients) is
   killed by the reduction; in particular it is not zero.  Nothing about how pivots are chosen
   is trusted: that a pivot kills its own vector is proved, not checked. *)
From BU Require Import Lib.Bytes Lib.PolyMod Checksum.StepFacts Checksum.LinExt Checksum.GF32.
From Coq Require Import ZifyBool ZifyN ZifyNat Btauto FMapPositive.

(* ---------- order-preserving sublists ---------- *)
Inductive Sub {A : Type} : list A -> list A -> Prop :=
| Sub_nil l : Sub [] l
| Sub_cons x l1 l2 : Sub l1 l2 -> Sub (x :: l1) (x :: l2)
| Sub_skip x l1 l2 : Sub l1 l2 -> Sub l1 (x :: l2).

Lemma Sub_refl {A} (l : list A) : Sub l l.
Proof. induction l; constructor; auto. Qed.

Lemma Sub_in {A} (s l : list A) x : Sub s l -> In x s -> In x l.
Proof.
  induction 1 as [|y l1 l2 H IH|y l1 l2 H IH]; intros Hin; cbn in *.
  - contradiction.
  - destruct Hin; auto.
  - right; auto.
Qed.

Lemma Sub_trans {A} (a b c : list A) : Sub a b -> Sub b c -> Sub a c.
Proof.
  intros Hab Hbc. revert a Hab. induction Hbc as [l|x l1 l2 H IH|x l1 l2 H IH]; intros a Hab.
  - inversion Hab; subst. constructor.
  - inversion Hab; subst; constructor; auto.
  - constructor. auto.
Qed.

Lemma Sub_app_r {A} (a l pre : list A) : Sub a l -> Sub a (pre ++ l).
Proof. intros H. induction pre; cbn; [exact H | constructor; exact IHpre]. Qed.

Lemma Sub_cons_inv {A} (x : A) s l : Sub (x :: s) l -> exists pre post, l = pre ++ x :: post /\ Sub s post.
Proof.
  remember (x :: s) as xs eqn:E. induction 1 as [l|y l1 l2 H IH|y l1 l2 H IH].
  - discriminate.
  - inversion E; subst. exists [], l2. auto.
  - destruct (IH E) as (pre & post & -> & Hs). exists (y :: pre), post. auto.
Qed.

Lemma Sub_map_inv {A B} (f : A -> B) s l : Sub s (map f l) -> exists s0, s = map f s0 /\ Sub s0 l.
Proof.
  remember (map f l) as fl eqn:E. intros H. revert l E.
  induction H as [l'|y l1 l2 H IH|y l1 l2 H IH]; intros l E.
  - exists []. split; [reflexivity | constructor].
  - destruct l as [|a l]; [discriminate|]. inversion E; subst.
    destruct (IH l eq_refl) as (s0 & -> & Hs). exists (a :: s0). split; [reflexivity | constructor; auto].
  - destruct l as [|a l]; [discriminate|]. inversion E; subst.
    destruct (IH l eq_refl) as (s0 & -> & Hs). exists s0. split; [reflexivity | constructor; auto].
Qed.

Lemma Sub_Forall {A} (P : A -> Prop) s l : Sub s l -> Forall P l -> Forall P s.
Proof.
  intros Hs HF. rewrite Forall_forall in *. intros x Hx. apply HF. eapply Sub_in; eauto.
Qed.

Lemma Sub_app_inv_r {A} (xs ys l : list A) : Sub (xs ++ ys) l -> Sub ys l.
Proof.
  revert l. induction xs as [|x xs IH]; intros l H; [exact H|].
  cbn in H. apply Sub_cons_inv in H as (pre & post & -> & Hs).
  apply Sub_app_r. constructor. apply IH. exact Hs.
Qed.

Lemma NoDup_map_sub2 {A B} (f : A -> B) l y1 y2 : NoDup (map f l) -> Sub [y1; y2] l -> f y1 <> f y2.
Proof.
  intros Hnd Hs. apply Sub_cons_inv in Hs as (pre & post & -> & Hs).
  rewrite map_app in Hnd. apply NoDup_remove_2 in Hnd. cbn [map] in Hnd.
  intros E. apply Hnd. apply in_or_app. right.
  rewrite E. apply in_map. eapply Sub_in; [exact Hs | left; reflexivity].
Qed.

(* ---------- duplicate-free, zero-free test with a positive-keyed trie ---------- *)
Fixpoint nodup_nz_aux (l : list N) (seen : PositiveMap.t unit) : bool :=
  match l with
  | [] => true
  | 0 :: _ => false
  | Npos p :: t => if PositiveMap.mem p seen then false else nodup_nz_aux t (PositiveMap.add p tt seen)
  end.
Definition nodup_nz (l : list N) : bool := nodup_nz_aux l (PositiveMap.empty unit).

Lemma nodup_nz_aux_sound l : forall seen, nodup_nz_aux l seen = true ->
  NoDup l /\ ~ In 0 l /\ forall p, In (Npos p) l -> PositiveMap.find p seen = None.
Proof.
  induction l as [|x t IH]; intros seen H.
  - split; [constructor|]. split; [tauto|]. intros p [].
  - cbn [nodup_nz_aux] in H. destruct x as [|p]; [discriminate|].
    rewrite PositiveMap.mem_find in H.
    destruct (PositiveMap.find p seen) eqn:Ef; [discriminate|].
    apply IH in H as (Hnd & H0 & Hseen). split; [|split].
    + constructor; [|exact Hnd]. intros Hin. apply Hseen in Hin. rewrite PositiveMap.gss in Hin. discriminate.
    + intros [E|Hin]; [discriminate | tauto].
    + intros q [E|Hin].
      * inversion E; subst. exact Ef.
      * specialize (Hseen q Hin). destruct (Pos.eq_dec q p) as [->|Hne]; [exact Ef|].
        rewrite PositiveMap.gso in Hseen by exact Hne. exact Hseen.
Qed.

Lemma nodup_nz_sound l : nodup_nz l = true -> NoDup l /\ ~ In 0 l.
Proof. intros H. apply nodup_nz_aux_sound in H. tauto. Qed.

(* ---------- the checker ---------- *)
Definition pivot (G : gfp) (x : N) : option (N * N) :=
  match toplane (g_nl G) x with
  | None => None
  | Some p => Some (smul G (ginv (lane x p)) x, p)
  end.

Definition step_with (G : gfp) (rec : list N -> bool) (x : N) (post : list N) : bool :=
  match pivot G x with
  | None => false
  | Some (w, p) => rec (map (elim G w p) post)
  end.

Fixpoint suffixes_all (f : N -> list N -> bool) (l : list N) : bool :=
  match l with
  | [] => true
  | x :: post => f x post && suffixes_all f post
  end.

Fixpoint chk (G : gfp) (depth : nat) (l : list N) : bool :=
  match depth with
  | O => nodup_nz (map (norm G) l)
  | S m => suffixes_all (step_with G (chk G m)) l
  end.

(* one outer iteration, addressed by index: what a shard file evaluates *)
Definition step_at (G : gfp) (m : nat) (l : list N) (i : nat) : bool :=
  match skipn i l with
  | [] => true
  | x :: post => step_with G (chk G m) x post
  end.
Definition step_range (G : gfp) (m : nat) (l : list N) (lo n : nat) : bool :=
  forallb (step_at G m l) (seq lo n).

Lemma suffixes_all_at f l : suffixes_all f l = true ->
  forall pre x post, l = pre ++ x :: post -> f x post = true.
Proof.
  intros H pre. revert l H. induction pre as [|y pre IH]; intros l H x post ->; cbn in H;
    apply andb_true_iff in H as [H1 H2]; [exact H1 | eapply IH; eauto].
Qed.

Lemma suffixes_all_range f l : forall lo,
  forallb (fun i => match skipn (i - lo) l with [] => true | x :: post => f x post end) (seq lo (length l)) = true ->
  suffixes_all f l = true.
Proof.
  induction l as [|x post IH]; intros lo H; [reflexivity|].
  cbn [length seq forallb] in H. apply andb_true_iff in H as [H1 H2].
  rewrite Nat.sub_diag in H1. cbn [skipn] in H1. cbn [suffixes_all]. rewrite H1. cbn [andb].
  apply (IH (S lo)). rewrite forallb_forall in *. intros i Hi. specialize (H2 i Hi).
  apply in_seq in Hi. replace (i - lo)%nat with (S (i - S lo)) in H2 by lia. exact H2.
Qed.

Lemma chk_of_range G m l : step_range G m l 0 (length l) = true -> chk G (S m) l = true.
Proof.
  intros H. cbn [chk]. apply (suffixes_all_range _ l 0%nat).
  unfold step_range, step_at in H. rewrite forallb_forall in *. intros i Hi. specialize (H i Hi).
  rewrite Nat.sub_0_r. exact H.
Qed.

Lemma step_range_app G m l lo a b : step_range G m l lo (a + b) = step_range G m l lo a && step_range G m l (lo + a) b.
Proof. unfold step_range. rewrite seq_app, forallb_app. reflexivity. Qed.

(* ---------- linear combinations ---------- *)
Fixpoint lincomb (G : gfp) (cs vs : list N) : N :=
  match cs, vs with
  | c :: cs', v :: vs' => N.lxor (smul G c v) (lincomb G cs' vs')
  | _, _ => 0
  end.

Section Sound.
Variable G : gfp.
Hypothesis Hlaws : laws_ok G = true.

Notation valid := (gvalid G).
Notation sm := (smul G).

Definition scal (c : N) : Prop := c < 32.
Definition nzscal (c : N) : Prop := c < 32 /\ c <> 0.

Definition glin (red : N -> N) : Prop :=
  (forall x y, red (N.lxor x y) = N.lxor (red x) (red y)) /\
  (forall a x, a < 32 -> valid x -> red (sm a x) = sm a (red x)) /\
  (forall x, valid x -> valid (red x)).

Lemma glin_0 red : glin red -> red 0 = 0.
Proof. intros (Ha & _). specialize (Ha 0 0). rewrite !N.lxor_nilpotent in Ha. exact Ha. Qed.

Lemma lincomb_valid cs vs : Forall scal cs -> Forall valid vs -> valid (lincomb G cs vs).
Proof.
  intros Hc. revert vs. induction Hc as [|c cs Hc1 Hc IH]; intros vs Hv; cbn [lincomb].
  - apply (gvalid_0 G Hlaws).
  - destruct Hv as [|v vs Hv1 Hv]; [apply (gvalid_0 G Hlaws)|].
    apply gvalid_xor; [apply (smul_valid G Hlaws); auto | apply IH; auto].
Qed.

Lemma lincomb_map red cs vs : glin red -> Forall scal cs -> Forall valid vs ->
  red (lincomb G cs vs) = lincomb G cs (map red vs).
Proof.
  intros Hg Hc. revert vs. induction Hc as [|c cs Hc1 Hc IH]; intros vs Hv; cbn [lincomb map].
  - apply glin_0; auto.
  - destruct Hv as [|v vs Hv1 Hv]; cbn [map]; [apply glin_0; auto|].
    destruct Hg as (Ha & Hh & Hvl). rewrite Ha, Hh by auto. f_equal. apply IH. exact Hv.
Qed.

Lemma lincomb_app cs1 cs2 vs1 vs2 : length cs1 = length vs1 ->
  lincomb G (cs1 ++ cs2) (vs1 ++ vs2) = N.lxor (lincomb G cs1 vs1) (lincomb G cs2 vs2).
Proof.
  revert vs1. induction cs1 as [|c cs1 IH]; intros [|v vs1] Hl; cbn [length] in Hl; try (exfalso; lia); cbn [app lincomb].
  - rewrite N.lxor_0_l. reflexivity.
  - rewrite IH by (cbn in Hl; lia). rewrite N.lxor_assoc. reflexivity.
Qed.

(* elimination steps are GF(32)-linear *)
Lemma elim_glin w p : valid w -> (N.to_nat p < g_nl G)%nat -> glin (elim G w p).
Proof.
  intros Hw Hp. split; [|split].
  - intros x y. unfold elim. rewrite lane_xor, smul_xor_l. xor_ac.
  - intros a x Ha Hx. unfold elim.
    rewrite (lane_smul G Hlaws) by auto.
    rewrite <- (smul_mul G Hlaws) by (auto using lane_lt32).
    rewrite <- smul_xor_r. reflexivity.
  - intros x Hx. unfold elim. apply gvalid_xor; [exact Hx|]. apply (smul_valid G Hlaws); [apply lane_lt32 | exact Hw].
Qed.

Lemma glin_comp f g : glin f -> glin g -> glin (fun v => f (g v)).
Proof.
  intros (Fa & Fh & Fv) (Ga & Gh & Gv). split; [|split].
  - intros x y. rewrite Ga, Fa. reflexivity.
  - intros a x Ha Hx. rewrite Gh, Fh by auto. reflexivity.
  - intros x Hx. auto.
Qed.

Lemma glin_id : glin (fun v => v).
Proof. split; [|split]; auto. Qed.

(* a pivot built from x kills x *)
Lemma pivot_kills x w p : valid x -> pivot G x = Some (w, p) ->
  valid w /\ (N.to_nat p < g_nl G)%nat /\ elim G w p x = 0.
Proof.
  intros Hx Hp. unfold pivot in Hp. destruct (toplane (g_nl G) x) as [q|] eqn:E; [|discriminate].
  inversion Hp; subst q w. clear Hp. apply toplane_some in E as [Hl Hq].
  pose proof (lane_lt32 x p) as Hl32.
  pose proof (ginv_lt32 G Hlaws _ Hl32 Hl) as Hi.
  split; [apply (smul_valid G Hlaws); auto|]. split; [exact Hq|].
  unfold elim. rewrite (smul_mul G Hlaws) by auto. rewrite (ginv_r G Hlaws) by auto.
  rewrite smul_1_l. apply N.lxor_nilpotent.
Qed.

(* leaf: two proportional vectors have equal normal forms *)
Lemma comb2_norm c1 c2 r1 r2 : nzscal c1 -> nzscal c2 -> valid r1 -> valid r2 ->
  N.lxor (sm c1 r1) (sm c2 r2) = 0 -> norm G r1 = norm G r2.
Proof.
  intros [Hc1 Hn1] [Hc2 Hn2] Hr1 Hr2 E.
  pose proof (ginv_lt32 G Hlaws _ Hc1 Hn1) as Hi.
  apply (f_equal (sm (ginv c1))) in E.
  rewrite smul_xor_r, smul_0_r in E.
  rewrite !(smul_mul G Hlaws) in E by auto.
  rewrite (ginv_l G Hlaws) in E by auto. rewrite smul_1_l in E.
  apply N.lxor_eq in E. rewrite E. apply (norm_smul G Hlaws).
  - apply (gmul_lt32 G Hlaws); auto.
  - apply (gmul_nz G Hlaws); auto. apply (ginv_nz G Hlaws); auto.
  - exact Hr2.
Qed.

Definition short (ys : list N) : Prop := (1 <= length ys <= 2)%nat.

Lemma chk_sound depth : forall red rest, glin red -> Forall valid rest ->
  chk G depth (map red rest) = true ->
  forall xs ys cx cy, Sub (xs ++ ys) rest -> length xs = depth -> length cx = depth ->
    short ys -> length cy = length ys -> Forall scal cx -> Forall nzscal cy ->
    red (N.lxor (lincomb G cx xs) (lincomb G cy ys)) <> 0.
Proof.
  induction depth as [|m IH]; intros red rest Hg Hrest Hchk xs ys cx cy Hsub Hlx Hlc Hshort Hlcy Hcx Hcy.
  - (* leaf *)
    destruct xs; [|discriminate]. destruct cx; [|discriminate]. cbn [app lincomb] in *.
    rewrite N.lxor_0_l. cbn [chk] in Hchk. apply nodup_nz_sound in Hchk as [Hnd Hnz].
    rewrite map_map in Hnd, Hnz.
    assert (Hys : Forall valid ys) by (eapply Sub_Forall; eauto).
    assert (Hcy' : Forall scal cy) by (eapply Forall_impl; [|exact Hcy]; intros a [Ha _]; exact Ha).
    rewrite lincomb_map by auto.
    destruct Hg as (Ga & Gh & Gv).
    unfold short in Hshort.
    destruct ys as [|y1 [|y2 [|? ?]]]; cbn [length] in *; try lia.
    + destruct cy as [|c1 [|? ?]]; try (exfalso; cbn [length] in Hlcy; lia). cbn [map lincomb]. rewrite N.lxor_0_r.
      inversion Hcy as [|? ? [Hc1 Hc1n] _]; subst. inversion Hys as [|? ? Hy1 _]; subst.
      intros E. apply (smul_eq_0 G Hlaws) in E; auto.
      apply Hnz. apply in_map_iff. exists y1. split.
      * rewrite E. apply (norm_0 G).
      * eapply Sub_in; [exact Hsub | left; reflexivity].
    + destruct cy as [|c1 [|c2 [|? ?]]]; try (exfalso; cbn [length] in Hlcy; lia). cbn [map lincomb]. rewrite N.lxor_0_r.
      inversion Hcy as [|? ? Hc1 Hcy2]; subst. inversion Hcy2 as [|? ? Hc2 _]; subst.
      inversion Hys as [|? ? Hy1 Hys2]; subst. inversion Hys2 as [|? ? Hy2 _]; subst.
      intros E. apply comb2_norm in E; auto.
      revert E. apply (NoDup_map_sub2 (fun x => norm G (red x)) rest y1 y2 Hnd Hsub).
  - (* pivot on the first chosen vector *)
    destruct xs as [|x xs]; [discriminate|]. destruct cx as [|a cx]; [discriminate|].
    cbn [app] in Hsub. apply Sub_cons_inv in Hsub as (pre & post & -> & Hsub).
    cbn [chk] in Hchk. rewrite map_app in Hchk. cbn [map] in Hchk.
    pose proof (suffixes_all_at _ _ Hchk _ _ _ eq_refl) as Hstep. unfold step_with in Hstep.
    destruct (pivot G (red x)) as [[w p]|] eqn:Epiv; [|discriminate].
    apply Forall_app in Hrest as [_ Hrest]. inversion Hrest as [|? ? Hx Hpost]; subst.
    destruct (pivot_kills (red x) w p) as (Hw & Hp & Hkill); [apply Hg; exact Hx | exact Epiv|].
    pose proof (elim_glin w p Hw Hp) as Hel.
    rewrite map_map in Hstep.
    inversion Hcx as [|? ? Ha Hcx']; subst.
    assert (HH := IH (fun v => elim G w p (red v)) post (glin_comp _ _ Hel Hg) Hpost Hstep
                     xs ys cx cy Hsub ltac:(cbn in Hlx; lia) ltac:(cbn in Hlc; lia) Hshort Hlcy Hcx' Hcy).
    intros E. apply HH. cbv beta.
    cbn [lincomb] in E. rewrite N.lxor_assoc in E.
    destruct Hg as (Ga & Gh & Gv). rewrite Ga, Gh in E by auto.
    apply (f_equal (elim G w p)) in E.
    destruct Hel as (Ea & Eh & Ev). rewrite Ea, Eh in E by auto.
    rewrite Hkill, smul_0_r, N.lxor_0_l in E. rewrite E.
    unfold elim. rewrite lane_0, smul_0_l. reflexivity.
Qed.

(* ---------- packaged: combinations that start at a fixed first vector ---------- *)
Lemma split_len {A} (l : list A) d : (d <= length l)%nat -> exists xs ys, l = xs ++ ys /\ length xs = d.
Proof. intros H. exists (firstn d l), (skipn d l). split; [symmetry; apply firstn_skipn | apply firstn_length_le; exact H]. Qed.

Lemma head_indep x0 rest w0 p0 d : (d <= 2)%nat ->
  valid x0 -> Forall valid rest -> pivot G x0 = Some (w0, p0) ->
  chk G 0 (map (elim G w0 p0) rest) = true ->
  chk G d (map (elim G w0 p0) rest) = true ->
  forall sub cs a0, Sub sub rest -> length cs = length sub -> (length sub <= d + 2)%nat ->
    nzscal a0 -> Forall nzscal cs -> N.lxor (sm a0 x0) (lincomb G cs sub) <> 0.
Proof.
  intros Hd3 Hx0 Hrest Hpiv H0 Hd sub cs a0 Hsub Hlen Hw Ha0 Hcs.
  destruct (pivot_kills x0 w0 p0 Hx0 Hpiv) as (Hw0 & Hp0 & Hkill).
  pose proof (elim_glin w0 p0 Hw0 Hp0) as Hel.
  assert (Hcs' : Forall scal cs) by (eapply Forall_impl; [|exact Hcs]; intros a [Ha _]; exact Ha).
  destruct sub as [|y1 sub1].
  - (* weight 1 *)
    destruct cs; [|cbn [length] in Hlen; lia]. cbn [lincomb]. rewrite N.lxor_0_r.
    intros E. apply (smul_eq_0 G Hlaws) in E; [|apply Ha0|apply Ha0|exact Hx0].
    subst x0. unfold pivot in Hpiv. rewrite toplane_0 in Hpiv. discriminate.
  - intros E. apply (f_equal (elim G w0 p0)) in E.
    destruct Hel as (Ea & Eh & Ev). rewrite Ea, Eh in E by (auto; apply Ha0).
    rewrite Hkill, smul_0_r, N.lxor_0_l in E.
    assert (E0 : elim G w0 p0 0 = 0) by (unfold elim; rewrite lane_0, smul_0_l; reflexivity).
    rewrite E0 in E. revert E.
    destruct (Nat.le_gt_cases (length (y1 :: sub1)) 2) as [Hle|Hgt].
    + (* one or two further vectors: the depth-0 check *)
      assert (Hsh : short (y1 :: sub1)) by (unfold short; cbn [length] in *; lia).
      pose proof (chk_sound 0 (elim G w0 p0) rest (conj Ea (conj Eh Ev)) Hrest H0
                    [] (y1 :: sub1) [] cs Hsub eq_refl eq_refl Hsh Hlen (Forall_nil _) Hcs) as HH.
      cbn [lincomb] in HH. rewrite N.lxor_0_l in HH. exact HH.
    + (* d+1 or d+2 further vectors *)
      assert (Hdl : (d <= length (y1 :: sub1))%nat).
      { lia. }
      destruct (split_len (y1 :: sub1) d Hdl) as (xs & ys & Exy & Hlx).
      assert (Hlc : (d <= length cs)%nat) by lia.
      destruct (split_len cs d Hlc) as (cx & cy & Ecxy & Hlcx).
      rewrite Exy in *. rewrite Ecxy in *. rewrite !app_length in *.
      rewrite lincomb_app by lia.
      apply Forall_app in Hcs as [_ Hcy]. apply Forall_app in Hcs' as [Hcx _].
      apply (chk_sound d (elim G w0 p0) rest (conj Ea (conj Eh Ev)) Hrest Hd xs ys cx cy Hsub Hlx Hlcx); auto.
      * unfold short. lia.
      * lia.
Qed.

End Sound.

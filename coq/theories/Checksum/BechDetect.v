(* bech32, list level: any 1..4 symbol errors in at most 89 symbols change the register
   (minimum distance 5).  One pivot level below the first vector suffices; no shards. *)
From BU Require Import Lib.Bytes Lib.PolyMod Bech32.Bech32 Checksum.StepFacts Checksum.LinExt
  Checksum.GF32 Checksum.Quotient Checksum.Syndrome.
From Coq Require Import ZifyBool ZifyN ZifyNat.

Definition G6 : gfp := Eval vm_compute in mk_gfp 6.

(* shape of the masks/constants; GF(32) laws on the 6-lane register; gen[k] = {2^k} * gen[0]
   (T commutes with the scalar action); T^1023 = id *)
Lemma bech_code_ok : code_ok bech_params G6 1023 = true.
Proof. vm_compute. reflexivity. Qed.

Definition bech_T1 : N := Tstep bech_params 1.
Definition bech_rest : list N := iterl bech_params 88 bech_T1.
Definition bech_l : list N := map (elim G6 1 0) bech_rest.

Lemma bech_pivot : pivot G6 1 = Some (1, 0).
Proof. vm_compute. reflexivity. Qed.

Lemma bech_chk0 : chk G6 0 bech_l = true.
Proof. vm_compute. reflexivity. Qed.

Lemma bech_chk1 : chk G6 1 bech_l = true.
Proof. vm_compute. reflexivity. Qed.

Lemma bech_laws : laws_ok G6 = true.
Proof. exact (Hlaws bech_params G6 1023 bech_code_ok). Qed.

Lemma bech_rest_valid : Forall (gvalid G6) bech_rest.
Proof.
  unfold bech_rest. apply (iterl_valid bech_params G6 1023 bech_code_ok).
  apply (T_valid bech_params G6 1023 bech_code_ok).
Qed.

Lemma bech_indep4 : forall m, (m <= 89)%nat -> indep G6 4 (iterl bech_params m 1).
Proof.
  apply (indep_shift bech_params G6 1023 bech_code_ok 4 88 1 (valid_1 bech_params G6 1023 bech_code_ok)).
  intros sub cs a0 Hsub Hlen Hw Ha0 Hcs.
  change (Sub sub bech_rest) in Hsub.
  assert (Hw' : (length sub <= 1 + 2)%nat) by lia.
  exact (head_indep G6 bech_laws 1 bech_rest 1 0 1 (le_S 1 1 (le_n 1))
           (valid_1 bech_params G6 1023 bech_code_ok) bech_rest_valid bech_pivot bech_chk0 bech_chk1
           sub cs a0 Hsub Hlen Hw' Ha0 Hcs).
Qed.

Theorem bech_register_detects_4 : forall S v v',
  length v = length v' -> (length v <= 89)%nat ->
  Forall (fun x => x < 32) v -> Forall (fun x => x < 32) v' -> (1 <= hamming v v' <= 4)%nat ->
  pm_fold bech_params S v <> pm_fold bech_params S v'.
Proof.
  apply (detect_diff bech_params G6 1023 bech_code_ok 4 89). apply bech_indep4. lia.
Qed.

Theorem bech_verify_detects_4 : forall hrp v v',
  length v = length v' -> (length v <= 89)%nat ->
  Forall (fun x => x < 32) v -> Forall (fun x => x < 32) v' -> (1 <= hamming v v' <= 4)%nat ->
  Bech32.verify_checksum hrp v = true -> Bech32.verify_checksum hrp v' = false.
Proof.
  intros hrp v v' Hl Hn Hv Hv' Hh Hok.
  destruct (Bech32.verify_checksum hrp v') eqn:E; [exfalso|reflexivity].
  unfold Bech32.verify_checksum, Bech32.polymod in *.
  apply N.eqb_eq in Hok, E. rewrite <- E in Hok.
  unfold pm_fold in Hok. rewrite !fold_left_app in Hok.
  revert Hok. apply bech_register_detects_4; assumption.
Qed.

Print Assumptions bech_verify_detects_4.

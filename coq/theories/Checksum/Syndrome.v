(* From the register to linear algebra over GF(32):
   - the step is GF(2)-linear in (state, symbol) jointly, so polymod is affine at list level:
       pm_fold (c xor c') (v xor e) = pm_fold c v xor pm_fold c' e;
   - T = step with symbol 0 commutes with the scalar action of GF(32) (i.e. the xor constants
     really are {2^k} * G), preserves the register width and is injective (T^ord = id);
   - hence the syndrome of an error list is  sum_i e_i * T^(n-1-i) 1, and minimum-distance
     statements reduce to independence of short sublists of [1; T 1; T^2 1; ...], which in turn
     reduce (shift by T) to sublists that start at the first vector: what Quotient.chk tests. *)
From BU Require Import Lib.Bytes Lib.PolyMod Checksum.StepFacts Checksum.LinExt Checksum.GF32 Checksum.Quotient.
From Coq Require Import ZifyBool ZifyN ZifyNat Btauto.

Fixpoint iter (n : nat) (f : N -> N) (x : N) : N :=
  match n with O => x | S k => iter k f (f x) end.

Definition Tstep (p : pm_params) (v : N) : N := pm_step p v 0.

Fixpoint iterl (p : pm_params) (n : nat) (x : N) : list N :=
  match n with O => [] | S k => x :: iterl p k (Tstep p x) end.

Definition pm_bits (p : pm_params) : bool :=
  forallb (fun mg : N * N => fst mg =? 2 ^ N.log2 (fst mg)) (pm_gens p).

(* everything the algebra needs from the constants, as one computation *)
Definition code_ok (p : pm_params) (G : gfp) (ord : nat) : bool :=
  let n := (5 * g_nl G)%nat in
  pm_wf p && pm_bits p && laws_ok G && (pm_width p =? g_width G) && (1 <? 2 ^ g_width G) &&
  all32 (fun a => agree_on_basis (fun v => Tstep p (smul G a v)) (fun v => smul G a (Tstep p v)) n) &&
  (0 <? ord)%nat && agree_on_basis (iter ord (Tstep p)) (fun v => v) n.

Fixpoint xorl (a b : list N) : list N :=
  match a, b with
  | x :: a', y :: b' => N.lxor x y :: xorl a' b'
  | _, _ => []
  end.

Fixpoint hamming (a b : list N) : nat :=
  match a, b with
  | x :: a', y :: b' => ((if N.eqb x y then 0 else 1) + hamming a' b')%nat
  | _, _ => 0%nat
  end.

Definition weight (e : list N) : nat := length (filter (fun x => negb (x =? 0)) e).

Lemma xorl_length a : forall b, length a = length b -> length (xorl a b) = length a.
Proof. induction a as [|x a IH]; intros [|y b] H; cbn in *; try lia. rewrite IH; lia. Qed.

Lemma xorl_cancel a : forall b, length a = length b -> xorl a (xorl a b) = b.
Proof.
  induction a as [|x a IH]; intros [|y b] H; cbn [length] in H; try (exfalso; lia); cbn [xorl].
  - reflexivity.
  - rewrite IH by lia. f_equal. rewrite <- N.lxor_assoc, N.lxor_nilpotent. apply N.lxor_0_l.
Qed.

Lemma xorl_lt32 a : forall b, Forall (fun x => x < 32) a -> Forall (fun x => x < 32) b ->
  Forall (fun x => x < 32) (xorl a b).
Proof.
  induction a as [|x a IH]; intros [|y b] Ha Hb; cbn [xorl]; try constructor.
  - inversion Ha; inversion Hb; subst. apply (lxor_lt_pow2 x y 5); assumption.
  - inversion Ha; inversion Hb; subst. apply IH; assumption.
Qed.

Lemma weight_xorl a : forall b, length a = length b -> weight (xorl a b) = hamming a b.
Proof.
  unfold weight. induction a as [|x a IH]; intros [|y b] H; cbn [length] in H; try (exfalso; lia); cbn [xorl hamming filter].
  - reflexivity.
  - rewrite <- IH by lia. destruct (N.eqb_spec x y) as [->|Hne].
    + rewrite N.lxor_nilpotent. reflexivity.
    + destruct (N.eqb_spec (N.lxor x y) 0) as [E|E]; [apply N.lxor_eq in E; contradiction | reflexivity].
Qed.

(* ---------- GF(2)-linearity of the step (needs only the shape of the masks) ---------- *)
Section Lin2.
Variable p : pm_params.
Hypothesis Hwf : pm_wf p = true.
Hypothesis Hbits : pm_bits p = true.

Lemma lin_pointwise f g : (forall v, f v = g v) -> lin g -> lin f.
Proof. intros E [G0 Ga]. split; [rewrite E; exact G0 | intros a b; rewrite !E; apply Ga]. Qed.

Lemma lin_feedback gens f : forallb (fun mg : N * N => fst mg =? 2 ^ N.log2 (fst mg)) gens = true ->
  lin f -> lin (fun v => feedback gens (f v) 0).
Proof.
  intros Hg Hf. induction gens as [|[m g] t IH]; cbn [feedback].
  - apply lin_zero.
  - cbn [forallb fst] in Hg. apply andb_true_iff in Hg as [Hm Ht]. apply N.eqb_eq in Hm.
    apply (lin_pointwise _ (fun v => N.lxor (if 0 <? N.land (f v) (2 ^ N.log2 m) then g else 0) (feedback t (f v) 0))).
    + intros v. rewrite <- Hm. rewrite feedback_xor. destruct (0 <? N.land (f v) m); rewrite ?N.lxor_0_l; reflexivity.
    + apply lin_xor; [|apply IH; exact Ht].
      apply (lin_comp _ _ (lin_bitcond (N.log2 m) g) Hf).
Qed.

Lemma lin_T : lin (Tstep p).
Proof.
  assert (E : forall v, Tstep p v =
     N.lxor (N.shiftl (N.land v (pm_mask p)) (pm_sym p))
            (feedback (pm_gens p) (N.land (N.shiftr v (pm_shift p)) 255) 0)).
  { intros v. unfold Tstep, pm_step. rewrite feedback_xor, N.lxor_0_r.
    change 256 with (2 ^ 8). rewrite <- N.land_ones. reflexivity. }
  assert (L : lin (fun v => N.lxor (N.shiftl (N.land v (pm_mask p)) (pm_sym p))
            (feedback (pm_gens p) (N.land (N.shiftr v (pm_shift p)) 255) 0))).
  { apply lin_xor.
    - apply (lin_comp (fun v => N.shiftl v (pm_sym p)) (fun v => N.land v (pm_mask p))); [apply lin_shiftl | apply lin_land].
    - apply (lin_feedback (pm_gens p) (fun v => N.land (N.shiftr v (pm_shift p)) 255) Hbits).
      apply (lin_comp (fun v => N.land v 255) (fun v => N.shiftr v (pm_shift p))); [apply lin_land | apply lin_shiftr]. }
  destruct L as [L0 La]. split.
  - rewrite E. exact L0.
  - intros a b. rewrite !E. apply La.
Qed.

Lemma step_lin c c' d d' :
  pm_step p (N.lxor c c') (N.lxor d d') = N.lxor (pm_step p c d) (pm_step p c' d').
Proof.
  rewrite (step_d p c d), (step_d p c' d'), (step_d p (N.lxor c c')).
  change (pm_step p (N.lxor c c') 0) with (Tstep p (N.lxor c c')).
  rewrite (lin_add _ lin_T). unfold Tstep. xor_ac.
Qed.

(* list-level affine linearity of the register fold *)
Lemma fold_lin v : forall e c c', length v = length e ->
  pm_fold p (N.lxor c c') (xorl v e) = N.lxor (pm_fold p c v) (pm_fold p c' e).
Proof.
  induction v as [|x v IH]; intros [|y e] c c' Hl; cbn [length] in Hl; try (exfalso; lia).
  - reflexivity.
  - cbn [xorl pm_fold fold_left]. rewrite step_lin. apply IH. lia.
Qed.

(* two inputs of equal length differ in the register exactly by the syndrome of their difference *)
Lemma fold_diff S v v' : length v = length v' ->
  pm_fold p S v' = N.lxor (pm_fold p S v) (pm_fold p 0 (xorl v v')).
Proof.
  intros Hl. rewrite <- fold_lin by (rewrite xorl_length; auto).
  rewrite N.lxor_0_r, xorl_cancel by exact Hl. reflexivity.
Qed.

End Lin2.

(* ---------- GF(32) structure ---------- *)
Section Code.
Variable p : pm_params.
Variable G : gfp.
Variable ord : nat.
Hypothesis Hok : code_ok p G ord = true.

Notation T := (Tstep p).
Notation valid := (gvalid G).

Lemma ok_split :
  pm_wf p = true /\ pm_bits p = true /\ laws_ok G = true /\ pm_width p = g_width G /\ valid 1 /\
  (forall a, a < 32 -> agree_on_basis (fun v => T (smul G a v)) (fun v => smul G a (T v)) (5 * g_nl G) = true) /\
  (0 < ord)%nat /\ agree_on_basis (iter ord T) (fun v => v) (5 * g_nl G) = true.
Proof.
  unfold code_ok in Hok. cbv zeta in Hok. rewrite !andb_true_iff in Hok.
  destruct Hok as (((((((H1 & H2) & H3) & H4) & H5) & H6) & H7) & H8).
  repeat split; auto.
  - apply N.eqb_eq. exact H4.
  - unfold gvalid. apply N.ltb_lt. exact H5.
  - intros a Ha. apply (all32_spec _ H6 a Ha).
  - apply Nat.ltb_lt. exact H7.
Qed.

Lemma Hwf : pm_wf p = true. Proof. destruct ok_split as (H & _). exact H. Qed.
Lemma Hbits : pm_bits p = true. Proof. destruct ok_split as (_ & H & _). exact H. Qed.
Lemma Hlaws : laws_ok G = true. Proof. destruct ok_split as (_ & _ & H & _). exact H. Qed.
Lemma Hwidth : pm_width p = g_width G. Proof. destruct ok_split as (_ & _ & _ & H & _). exact H. Qed.
Lemma valid_1 : valid 1. Proof. destruct ok_split as (_ & _ & _ & _ & H & _). exact H. Qed.

Lemma T_valid v : valid (T v).
Proof.
  unfold gvalid, Tstep. rewrite <- Hwidth. apply (step_bound p Hwf).
  apply N.neq_0_lt_0. apply N.pow_nonzero. lia.
Qed.

Lemma T_smul a v : a < 32 -> valid v -> T (smul G a v) = smul G a (T v).
Proof.
  intros Ha Hv. destruct ok_split as (_ & _ & _ & _ & _ & H & _).
  apply (lin_ext_b (fun v => T (smul G a v)) (fun v => smul G a (T v)) (5 * g_nl G)).
  - apply (lin_comp _ _ (lin_T p Hbits) (lin_smul G a)).
  - apply (lin_comp _ _ (lin_smul G a) (lin_T p Hbits)).
  - apply H. exact Ha.
  - rewrite <- (width_nat G Hlaws). exact Hv.
Qed.

Lemma T_glin : glin G T.
Proof.
  split; [|split].
  - apply (lin_add _ (lin_T p Hbits)).
  - intros a x Ha Hx. apply T_smul; assumption.
  - intros x _. apply T_valid.
Qed.

Lemma lin_iter n f : lin f -> lin (iter n f).
Proof.
  intros Hf. induction n as [|n IH]; cbn [iter].
  - apply lin_id.
  - apply (lin_comp _ _ IH Hf).
Qed.

Lemma T_ord v : valid v -> iter ord T v = v.
Proof.
  intros Hv. destruct ok_split as (_ & _ & _ & _ & _ & _ & _ & H).
  apply (lin_ext_b (iter ord T) (fun v => v) (5 * g_nl G)).
  - apply lin_iter. apply (lin_T p Hbits).
  - apply lin_id.
  - exact H.
  - rewrite <- (width_nat G Hlaws). exact Hv.
Qed.

Lemma T_inj0 v : valid v -> T v = 0 -> v = 0.
Proof.
  intros Hv E. pose proof (T_ord v Hv) as Hord. pose proof (lin_T p Hbits) as HT.
  destruct ok_split as (_ & _ & _ & _ & _ & _ & Ho & _).
  revert Hord Ho. generalize ord. intros [|k] Hord Ho; [lia|].
  cbn [iter] in Hord. rewrite E in Hord. rewrite <- Hord.
  apply (lin_0 _ (lin_iter k T HT)).
Qed.

(* ---------- the vectors 1, T 1, T^2 1, ... ---------- *)
Lemma iterl_map n x : iterl p n (T x) = map T (iterl p n x).
Proof. revert x. induction n as [|n IH]; intros x; cbn [iterl map]; [reflexivity|]. rewrite IH. reflexivity. Qed.

Lemma iterl_valid n x : valid x -> Forall valid (iterl p n x).
Proof.
  revert x. induction n as [|n IH]; intros x Hx; cbn [iterl]; constructor; [exact Hx|].
  apply IH. apply T_valid.
Qed.

Lemma iterl_length n x : length (iterl p n x) = n.
Proof. revert x. induction n; intros x; cbn [iterl length]; auto. Qed.

Lemma iterl_prefix m n x : (m <= n)%nat -> Sub (iterl p m x) (iterl p n x).
Proof.
  revert n x. induction m as [|m IH]; intros n x H; cbn [iterl]; [constructor|].
  destruct n as [|n]; [lia|]. cbn [iterl]. constructor. apply IH. lia.
Qed.

(* syndrome of an error list as a combination of the T^i 1, last symbol first *)
Lemma syndrome_lincomb e : Forall (fun x => x < 32) e ->
  pm_fold p 0 e = lincomb G (rev e) (iterl p (length e) 1).
Proof.
  induction e as [|x e IH] using rev_ind; intros HF; [reflexivity|].
  apply Forall_app in HF as [HF Hx]. inversion Hx as [|? ? Hx32 _]; subst.
  unfold pm_fold in *. rewrite fold_left_app. cbn [fold_left]. rewrite IH by exact HF.
  rewrite (step_d p). change (pm_step p ?c 0) with (T c).
  rewrite rev_app_distr, app_length, Nat.add_comm. cbn [rev app length Nat.add iterl lincomb].
  rewrite (smul_embed G Hlaws) by exact Hx32.
  rewrite iterl_map.
  rewrite (lincomb_map G T) by
    (auto using T_glin, iterl_valid, valid_1; apply Forall_rev; exact HF).
  apply N.lxor_comm.
Qed.

(* dropping the zero coefficients leaves an order-preserving sublist *)
Fixpoint sparse (cs vs : list N) : list (N * N) :=
  match cs, vs with
  | c :: cs', v :: vs' => if c =? 0 then sparse cs' vs' else (c, v) :: sparse cs' vs'
  | _, _ => []
  end.

Lemma sparse_lincomb cs : forall vs,
  lincomb G cs vs = lincomb G (map fst (sparse cs vs)) (map snd (sparse cs vs)).
Proof.
  induction cs as [|c cs IH]; intros [|v vs]; cbn [sparse lincomb map]; try reflexivity.
  destruct (N.eqb_spec c 0) as [->|Hne].
  - rewrite smul_0_l, N.lxor_0_l. apply IH.
  - cbn [map fst snd lincomb]. rewrite <- IH. reflexivity.
Qed.

Lemma sparse_sub cs : forall vs, Sub (map snd (sparse cs vs)) vs.
Proof.
  induction cs as [|c cs IH]; intros vs; [constructor|].
  destruct vs as [|v vs]; [constructor|]. cbn [sparse].
  destruct (c =? 0); cbn [map snd]; constructor; apply IH.
Qed.

Lemma sparse_coefs cs : forall vs, Forall (fun x => x < 32) cs -> Forall (nzscal) (map fst (sparse cs vs)).
Proof.
  induction cs as [|c cs IH]; intros vs HF; [constructor|].
  destruct vs as [|v vs]; [constructor|]. cbn [sparse].
  inversion HF; subst. destruct (N.eqb_spec c 0); cbn [map fst]; [apply IH; auto|].
  constructor; [split; auto | apply IH; auto].
Qed.

Lemma sparse_length cs : forall vs, length cs = length vs ->
  length (sparse cs vs) = length (filter (fun x => negb (x =? 0)) cs).
Proof.
  induction cs as [|c cs IH]; intros [|v vs] H; cbn [length] in H; try (exfalso; lia); cbn [sparse filter]; [reflexivity|].
  destruct (c =? 0); cbn [negb length]; rewrite IH by lia; reflexivity.
Qed.

Lemma weight_rev e : weight (rev e) = weight e.
Proof.
  unfold weight. induction e as [|x e IH]; [reflexivity|].
  cbn [rev filter]. rewrite filter_app, app_length, IH. cbn [filter].
  destruct (negb (x =? 0)); cbn [length]; lia.
Qed.

(* ---------- independence of short sublists ---------- *)
Definition indep (w : nat) (l : list N) : Prop :=
  forall sub cs, Sub sub l -> length cs = length sub -> (1 <= length sub <= w)%nat ->
    Forall nzscal cs -> lincomb G cs sub <> 0.

(* it suffices to look at sublists that contain the first vector *)
Lemma indep_shift w n x : valid x ->
  (forall sub cs a0, Sub sub (iterl p n (T x)) -> length cs = length sub -> (length sub + 1 <= w)%nat ->
     nzscal a0 -> Forall nzscal cs -> N.lxor (smul G a0 x) (lincomb G cs sub) <> 0) ->
  forall m, (m <= S n)%nat -> indep w (iterl p m x).
Proof.
  intros Hx Hhead m. induction m as [|m IH]; intros Hm sub cs Hsub Hlen Hw Hcs.
  - cbn [iterl] in Hsub. inversion Hsub; subst. cbn [length] in Hw. lia.
  - cbn [iterl] in Hsub. inversion Hsub as [l|y l1 l2 Hs|y l1 l2 Hs]; subst.
    + cbn [length] in Hw. lia.
    + destruct cs as [|a0 cs]; [cbn [length] in Hlen; lia|]. cbn [lincomb].
      inversion Hcs; subst. apply Hhead; auto.
      * eapply Sub_trans; [exact Hs|]. apply iterl_prefix. lia.
      * cbn [length] in *. lia.
    + rewrite iterl_map in Hs. apply Sub_map_inv in Hs as (s0 & -> & Hs0).
      rewrite map_length in *.
      assert (Hv0 : Forall valid s0) by (eapply Sub_Forall; [exact Hs0 | apply iterl_valid; exact Hx]).
      assert (Hcs' : Forall (fun c => c < 32) cs) by (eapply Forall_impl; [|exact Hcs]; intros a [Ha _]; exact Ha).
      rewrite <- (lincomb_map G T) by (auto using T_glin).
      intros E. apply T_inj0 in E; [|apply (lincomb_valid G Hlaws); auto].
      revert E. apply IH; auto. lia.
Qed.

(* list-level minimum-distance statement from independence *)
Lemma detect_errors w n : indep w (iterl p n 1) ->
  forall e, (length e <= n)%nat -> Forall (fun x => x < 32) e -> (1 <= weight e <= w)%nat ->
    pm_fold p 0 e <> 0.
Proof.
  intros Hind e Hlen HF Hw. rewrite syndrome_lincomb by exact HF.
  rewrite sparse_lincomb. apply Hind.
  - eapply Sub_trans; [apply sparse_sub|]. apply iterl_prefix. exact Hlen.
  - rewrite !map_length. reflexivity.
  - rewrite map_length, sparse_length by (rewrite rev_length, iterl_length; reflexivity).
    fold (weight (rev e)). rewrite weight_rev. exact Hw.
  - apply sparse_coefs. apply Forall_rev. exact HF.
Qed.

Theorem detect_diff w n : indep w (iterl p n 1) ->
  forall S v v', length v = length v' -> (length v <= n)%nat ->
    Forall (fun x => x < 32) v -> Forall (fun x => x < 32) v' -> (1 <= hamming v v' <= w)%nat ->
    pm_fold p S v <> pm_fold p S v'.
Proof.
  intros Hind S v v' Hl Hn Hv Hv' Hh E.
  rewrite (fold_diff p Hwf Hbits S v v' Hl) in E.
  apply (f_equal (N.lxor (pm_fold p S v))) in E.
  rewrite <- N.lxor_assoc, N.lxor_nilpotent, N.lxor_0_l in E. symmetry in E. revert E.
  apply (detect_errors w n Hind).
  - rewrite (xorl_length v v' Hl). exact Hn.
  - apply xorl_lt32; assumption.
  - rewrite weight_xorl by exact Hl. exact Hh.
Qed.

End Code.

(* GF(32) = GF(2)[a]/(a^5 + a^3 + 1) on 5-bit N (the field both checksum generators live
   over), and its scalar action on packed registers of [g_nl] lanes of 5 bits.
   All non-structural laws are established from one boolean test [laws_ok] that is
   evaluated by vm_compute for the 8-lane (CashAddr) and 6-lane (bech32) registers:
   exhaustive over the 32 (32 x 32) scalars and, through linear extension, over the 40 (30)
   basis vectors of the register. *)
From BU Require Import Lib.Bytes Lib.PolyMod Checksum.StepFacts Checksum.LinExt.
From Coq Require Import ZifyBool ZifyN ZifyNat Btauto.

Record gfp := { g_nl : nat; g_m1 : N; g_m15 : N }.   (* lanes; 00001 and 01111 in every lane *)

Definition rep (nl : nat) (x : N) : N := packbe (repeat x nl).
Definition mk_gfp (nl : nat) : gfp := {| g_nl := nl; g_m1 := rep nl 1; g_m15 := rep nl 15 |}.

Definition g_width (G : gfp) : N := 5 * N.of_nat (g_nl G).

(* multiply every lane by a *)
Definition xtime (G : gfp) (v : N) : N :=
  let h := N.land (N.shiftr v 4) (g_m1 G) in
  N.lxor (N.shiftl (N.land v (g_m15 G)) 1) (N.lxor h (N.shiftl h 3)).

Definition cond (b : bool) (v : N) : N := if b then v else 0.

(* multiply every lane by the field element a (bits 0..4 of a) *)
Definition smul (G : gfp) (a v : N) : N :=
  let v1 := xtime G v in let v2 := xtime G v1 in let v3 := xtime G v2 in let v4 := xtime G v3 in
  N.lxor (cond (N.testbit a 0) v) (N.lxor (cond (N.testbit a 1) v1) (N.lxor (cond (N.testbit a 2) v2)
    (N.lxor (cond (N.testbit a 3) v3) (cond (N.testbit a 4) v4)))).

Definition G1 : gfp := {| g_nl := 1; g_m1 := 1; g_m15 := 15 |}.
Definition gmul (a b : N) : N := smul G1 a b.

Definition below32 : list N := Eval vm_compute in map N.of_nat (seq 0 32).
Definition nz32 : list N := Eval vm_compute in map N.of_nat (seq 1 31).

Definition ginv_slow (a : N) : N :=
  match find (fun b => gmul a b =? 1) nz32 with Some b => b | None => 0 end.
Definition ginv_tab : list N := Eval vm_compute in map ginv_slow below32.
Definition ginv (a : N) : N := nth (N.to_nat a) ginv_tab 0.

Definition lane (v p : N) : N := N.land (N.shiftr v (5 * p)) 31.

Fixpoint toplane (k : nat) (v : N) : option N :=
  match k with
  | O => None
  | S j => if lane v (N.of_nat j) =? 0 then toplane j v else Some (N.of_nat j)
  end.

(* canonical representative of the line GF(32)* . v : top non-zero lane scaled to 1 *)
Definition norm (G : gfp) (v : N) : N :=
  match toplane (g_nl G) v with
  | None => 0
  | Some p => smul G (ginv (lane v p)) v
  end.

(* v xor (lane p of v) * w : clears lane p of v when lane p of w is 1 *)
Definition elim (G : gfp) (w p v : N) : N := N.lxor v (smul G (lane v p) w).

(* ---------- the finite test ---------- *)
Definition all32 (P : N -> bool) : bool := forallb P below32.
Definition allnz (P : N -> bool) : bool := forallb P nz32.

Definition field_ok : bool :=
  all32 (fun a => all32 (fun b => (gmul a b <? 32) && ((negb (gmul a b =? 0)) || (a =? 0) || (b =? 0)))) &&
  allnz (fun a => (ginv a <? 32) && (gmul (ginv a) a =? 1) && (gmul a (ginv a) =? 1)) &&
  allnz (fun c => allnz (fun l => gmul (ginv (gmul c l)) c =? ginv l)).

Definition laws_ok (G : gfp) : bool :=
  let n := (5 * g_nl G)%nat in
  field_ok &&
  all32 (fun a => all32 (fun b =>
    agree_on_basis (fun v => smul G a (smul G b v)) (fun v => smul G (gmul a b) v) n)) &&
  all32 (fun a => agree_on_basis (fun v => smul G a v) (fun v => N.land (smul G a v) (N.ones (g_width G))) n) &&
  all32 (fun a => forallb (fun p =>
    agree_on_basis (fun v => lane (smul G a v) (N.of_nat p)) (fun v => gmul a (lane v (N.of_nat p))) n) (seq 0 (g_nl G))) &&
  all32 (fun a => smul G a 1 =? a).

(* ---------- structural facts (any G) ---------- *)
Lemma all32_spec P : all32 P = true -> forall a, a < 32 -> P a = true.
Proof.
  unfold all32. rewrite forallb_forall. intros H a Ha. apply H.
  replace a with (N.of_nat (N.to_nat a)) by lia.
  assert (Hn : (N.to_nat a < 32)%nat) by lia. revert Hn. generalize (N.to_nat a). intros n Hn.
  do 32 (destruct n as [|n]; [cbn; tauto|]). lia.
Qed.

Lemma allnz_spec P : allnz P = true -> forall a, a < 32 -> a <> 0 -> P a = true.
Proof.
  unfold allnz. rewrite forallb_forall. intros H a Ha Hnz. apply H.
  replace a with (N.of_nat (N.to_nat a)) by lia.
  assert (Hn : (N.to_nat a < 32)%nat) by lia. assert (Hn0 : (N.to_nat a <> 0)%nat) by lia.
  revert Hn Hn0. generalize (N.to_nat a). intros n Hn Hn0.
  destruct n as [|n]; [lia|].
  do 31 (destruct n as [|n]; [cbn; tauto|]). lia.
Qed.

Lemma lin_xtime G : lin (xtime G).
Proof.
  unfold xtime. apply lin_xor.
  - apply (lin_comp (fun v => N.shiftl v 1) (fun v => N.land v (g_m15 G))); [apply lin_shiftl | apply lin_land].
  - assert (Hh : lin (fun v => N.land (N.shiftr v 4) (g_m1 G))).
    { apply (lin_comp (fun v => N.land v (g_m1 G)) (fun v => N.shiftr v 4)); [apply lin_land | apply lin_shiftr]. }
    apply lin_xor; [exact Hh|].
    apply (lin_comp (fun v => N.shiftl v 3) _ (lin_shiftl 3) Hh).
Qed.

Lemma lin_cond b f : lin f -> lin (fun v => cond b (f v)).
Proof. intros Hf. destruct b; cbn [cond]; [exact Hf | apply lin_zero]. Qed.

Lemma lin_smul G a : lin (smul G a).
Proof.
  pose proof (lin_xtime G) as H1.
  pose proof (lin_comp _ _ H1 H1) as H2. pose proof (lin_comp _ _ H1 H2) as H3.
  pose proof (lin_comp _ _ H1 H3) as H4. cbv beta in *.
  unfold smul. cbv zeta.
  repeat apply lin_xor; apply lin_cond; auto using lin_id.
Qed.

Lemma smul_xor_r G a x y : smul G a (N.lxor x y) = N.lxor (smul G a x) (smul G a y).
Proof. apply (lin_add _ (lin_smul G a)). Qed.

Lemma smul_0_r G a : smul G a 0 = 0.
Proof. apply (lin_0 _ (lin_smul G a)). Qed.

Lemma cond_xorb b c v : cond (xorb b c) v = N.lxor (cond b v) (cond c v).
Proof. destruct b, c; cbn; rewrite ?N.lxor_0_r, ?N.lxor_0_l, ?N.lxor_nilpotent; reflexivity. Qed.

Lemma smul_xor_l G a b x : smul G (N.lxor a b) x = N.lxor (smul G a x) (smul G b x).
Proof. unfold smul. cbv zeta. rewrite !N.lxor_spec, !cond_xorb. xor_ac. Qed.

Lemma smul_0_l G x : smul G 0 x = 0.
Proof. unfold smul. cbv zeta. rewrite !N.bits_0. reflexivity. Qed.

Lemma smul_1_l G x : smul G 1 x = x.
Proof. unfold smul. cbv zeta. cbn [N.testbit Pos.testbit cond]. rewrite !N.lxor_0_r. reflexivity. Qed.

Lemma lin_lane p : lin (fun v => lane v p).
Proof.
  unfold lane. apply (lin_comp (fun v => N.land v 31) (fun v => N.shiftr v (5 * p))); [apply lin_land | apply lin_shiftr].
Qed.

Lemma lane_xor x y p : lane (N.lxor x y) p = N.lxor (lane x p) (lane y p).
Proof. apply (lin_add _ (lin_lane p)). Qed.

Lemma lane_0 p : lane 0 p = 0.
Proof. apply (lin_0 _ (lin_lane p)). Qed.

Lemma lane_lt32 v p : lane v p < 32.
Proof. unfold lane. change 31 with (N.ones 5). apply (land_ones_lt _ 5). Qed.

Lemma toplane_0 k : toplane k 0 = None.
Proof. induction k; cbn [toplane]; [reflexivity|]. rewrite lane_0. exact IHk. Qed.

Lemma toplane_some k v p : toplane k v = Some p -> lane v p <> 0 /\ (N.to_nat p < k)%nat.
Proof.
  induction k; cbn [toplane]; [discriminate|].
  destruct (N.eqb_spec (lane v (N.of_nat k)) 0) as [E|E].
  - intros H. apply IHk in H. split; [tauto|lia].
  - intros H. inversion H; subst. split; [exact E|lia].
Qed.

(* ---------- laws that come from the finite test ---------- *)
Section Laws.
Variable G : gfp.
Hypothesis Hlaws : laws_ok G = true.

Definition gvalid (v : N) : Prop := v < 2 ^ g_width G.

Lemma laws_split :
  field_ok = true /\
  (forall a b, a < 32 -> b < 32 -> agree_on_basis (fun v => smul G a (smul G b v)) (fun v => smul G (gmul a b) v) (5 * g_nl G) = true) /\
  (forall a, a < 32 -> agree_on_basis (fun v => smul G a v) (fun v => N.land (smul G a v) (N.ones (g_width G))) (5 * g_nl G) = true) /\
  (forall a p, a < 32 -> (p < g_nl G)%nat ->
     agree_on_basis (fun v => lane (smul G a v) (N.of_nat p)) (fun v => gmul a (lane v (N.of_nat p))) (5 * g_nl G) = true) /\
  (forall a, a < 32 -> smul G a 1 = a).
Proof.
  unfold laws_ok in Hlaws. cbv zeta in Hlaws. rewrite !andb_true_iff in Hlaws.
  destruct Hlaws as ((((Hf & Hm) & Hv) & Hl) & He).
  split; [exact Hf|]. split; [|split; [|split]].
  - intros a b Ha Hb. apply (all32_spec _ (all32_spec _ Hm a Ha) b Hb).
  - intros a Ha. apply (all32_spec _ Hv a Ha).
  - intros a p Ha Hp. pose proof (all32_spec _ Hl a Ha) as H. cbv beta in H.
    rewrite forallb_forall in H. apply H. apply in_seq. lia.
  - intros a Ha. apply N.eqb_eq. apply (all32_spec _ He a Ha).
Qed.

Lemma width_nat : g_width G = N.of_nat (5 * g_nl G).
Proof. unfold g_width. lia. Qed.

Lemma smul_mul a b v : a < 32 -> b < 32 -> gvalid v -> smul G a (smul G b v) = smul G (gmul a b) v.
Proof.
  intros Ha Hb Hv. destruct laws_split as (_ & H & _).
  apply (lin_ext_b (fun v => smul G a (smul G b v)) (fun v => smul G (gmul a b) v) (5 * g_nl G)).
  - apply (lin_comp _ _ (lin_smul G a) (lin_smul G b)).
  - apply lin_smul.
  - apply H; assumption.
  - rewrite <- width_nat. exact Hv.
Qed.

Lemma smul_valid a v : a < 32 -> gvalid v -> gvalid (smul G a v).
Proof.
  intros Ha Hv. destruct laws_split as (_ & _ & H & _).
  unfold gvalid.
  rewrite (lin_ext_b (fun v => smul G a v) (fun v => N.land (smul G a v) (N.ones (g_width G))) (5 * g_nl G)).
  - apply land_ones_lt.
  - apply lin_smul.
  - apply (lin_comp (fun v => N.land v (N.ones (g_width G))) _ (lin_land _) (lin_smul G a)).
  - apply H; assumption.
  - rewrite <- width_nat. exact Hv.
Qed.

Lemma lin_gmul a : lin (gmul a).
Proof. apply lin_smul. Qed.

Lemma lane_smul a v p : a < 32 -> (N.to_nat p < g_nl G)%nat -> gvalid v ->
  lane (smul G a v) p = gmul a (lane v p).
Proof.
  intros Ha Hp Hv. destruct laws_split as (_ & _ & _ & H & _).
  specialize (H a (N.to_nat p) Ha Hp). rewrite N2Nat.id in H.
  apply (lin_ext_b (fun v => lane (smul G a v) p) (fun v => gmul a (lane v p)) (5 * g_nl G)).
  - apply (lin_comp (fun v => lane v p) _ (lin_lane p) (lin_smul G a)).
  - apply (lin_comp _ (fun v => lane v p) (lin_gmul a) (lin_lane p)).
  - exact H.
  - rewrite <- width_nat. exact Hv.
Qed.

Lemma smul_embed a : a < 32 -> smul G a 1 = a.
Proof. destruct laws_split as (_ & _ & _ & _ & H). exact (H a). Qed.

(* field facts *)
Lemma field_split :
  (forall a b, a < 32 -> b < 32 -> gmul a b < 32 /\ (gmul a b = 0 -> a = 0 \/ b = 0)) /\
  (forall a, a < 32 -> a <> 0 -> ginv a < 32 /\ gmul (ginv a) a = 1 /\ gmul a (ginv a) = 1) /\
  (forall c l, c < 32 -> c <> 0 -> l < 32 -> l <> 0 -> gmul (ginv (gmul c l)) c = ginv l).
Proof.
  destruct laws_split as (Hf & _). unfold field_ok in Hf. rewrite !andb_true_iff in Hf.
  destruct Hf as ((H1 & H2) & H3). split; [|split].
  - intros a b Ha Hb. pose proof (all32_spec _ (all32_spec _ H1 a Ha) b Hb) as H. cbv beta in H. lia.
  - intros a Ha Hnz. pose proof (allnz_spec _ H2 a Ha Hnz) as H. cbv beta in H. lia.
  - intros c l Hc Hc0 Hl Hl0. pose proof (allnz_spec _ (allnz_spec _ H3 c Hc Hc0) l Hl Hl0) as H. cbv beta in H. lia.
Qed.

Lemma gmul_lt32 a b : a < 32 -> b < 32 -> gmul a b < 32.
Proof. intros Ha Hb. apply field_split; assumption. Qed.

Lemma gmul_nz a b : a < 32 -> b < 32 -> a <> 0 -> b <> 0 -> gmul a b <> 0.
Proof. intros Ha Hb Ha0 Hb0 E. destruct field_split as (H & _). destruct (H a b Ha Hb) as [_ H']. destruct (H' E); contradiction. Qed.

Lemma ginv_lt32 a : a < 32 -> a <> 0 -> ginv a < 32.
Proof. intros Ha H0. apply field_split; assumption. Qed.

Lemma ginv_l a : a < 32 -> a <> 0 -> gmul (ginv a) a = 1.
Proof. intros Ha H0. apply field_split; assumption. Qed.

Lemma ginv_r a : a < 32 -> a <> 0 -> gmul a (ginv a) = 1.
Proof. intros Ha H0. apply field_split; assumption. Qed.

Lemma ginv_nz a : a < 32 -> a <> 0 -> ginv a <> 0.
Proof.
  intros Ha H0 E. pose proof (ginv_l a Ha H0) as H. rewrite E in H.
  unfold gmul in H. rewrite smul_0_l in H. discriminate.
Qed.

Lemma gvalid_0 : gvalid 0.
Proof. unfold gvalid. apply N.neq_0_lt_0. apply N.pow_nonzero. lia. Qed.

Lemma gvalid_xor x y : gvalid x -> gvalid y -> gvalid (N.lxor x y).
Proof. apply lxor_lt_pow2. Qed.

(* no zero divisors in the module *)
Lemma smul_eq_0 a v : a < 32 -> a <> 0 -> gvalid v -> smul G a v = 0 -> v = 0.
Proof.
  intros Ha H0 Hv E.
  rewrite <- (smul_1_l G v). rewrite <- (ginv_l a Ha H0).
  rewrite <- smul_mul by (auto using ginv_lt32). rewrite E. apply smul_0_r.
Qed.

Lemma toplane_smul c v k : c < 32 -> c <> 0 -> gvalid v -> (k <= g_nl G)%nat ->
  toplane k (smul G c v) = toplane k v.
Proof.
  intros Hc Hc0 Hv. induction k as [|k IH]; intros Hk; cbn [toplane]; [reflexivity|].
  rewrite lane_smul by (auto; lia).
  destruct (N.eqb_spec (lane v (N.of_nat k)) 0) as [E|E].
  - rewrite E. unfold gmul. rewrite smul_0_r. cbn [N.eqb]. apply IH. lia.
  - destruct (N.eqb_spec (gmul c (lane v (N.of_nat k))) 0) as [E'|E']; [|reflexivity].
    exfalso. revert E'. apply gmul_nz; auto using lane_lt32.
Qed.

Lemma norm_0 : norm G 0 = 0.
Proof. unfold norm. rewrite toplane_0. reflexivity. Qed.

(* proportional vectors have the same normal form *)
Lemma norm_smul c v : c < 32 -> c <> 0 -> gvalid v -> norm G (smul G c v) = norm G v.
Proof.
  intros Hc Hc0 Hv. unfold norm. rewrite toplane_smul by (auto; lia).
  destruct (toplane (g_nl G) v) as [p|] eqn:E; [|reflexivity].
  apply toplane_some in E as [Hl Hp].
  rewrite lane_smul by auto.
  pose proof (lane_lt32 v p) as Hl32.
  rewrite smul_mul; auto.
  - destruct field_split as (_ & _ & H). rewrite H by auto. reflexivity.
  - apply ginv_lt32; [apply gmul_lt32; auto | apply gmul_nz; auto].
Qed.

End Laws.

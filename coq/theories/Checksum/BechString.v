(* bech32, string level.  A string that differs from an accepted string in at most 4 characters
   after the separator -- at least one of them more than a change of case, none of them a new
   separator '1' -- is rejected by Bech32.decode.
   Both side conditions are necessary for bech32 as specified (BIP173), not only for this
   implementation: see bech32_case_variant_accepted / bech32_separator_substitution_accepted. *)
From BU Require Import Lib.Bytes Lib.PolyMod Bech32.Bech32 Checksum.StepFacts Checksum.Syndrome
  Checksum.BechDetect.
From Coq Require Import ZifyBool ZifyN ZifyNat.

(* the model with its extracted literals evaluated *)
Lemma decode_eq bech :
  Bech32.decode bech =
    let n := length bech in
    if (N.of_nat n <? 8) || (90 <? N.of_nat n) then Err 1 else
    if negb (forallb (fun c => negb ((c <? 33) || (126 <? c))) bech) then Err 2 else
    let lower := map to_lower bech in
    let upper := map to_upper bech in
    if negb (list_eqb bech lower) && negb (list_eqb bech upper) then Err 3 else
    match last_index 49 lower 0 None with
    | None => Err 4
    | Some one =>
        if (one <? 1)%nat || (n <? one + 7)%nat then Err 4 else
        match to_bytes (skipn (one + 1) lower) with
        | None => Err 5
        | Some decoded =>
            if verify_checksum (firstn one lower) decoded
            then Ok (firstn one lower, firstn (length decoded - 6) decoded)
            else Err 6
        end
    end.
Proof. reflexivity. Qed.

(* ---------- the separator is the last '1' ---------- *)
Lemma last_index_none c b : ~ In c b -> forall i best, last_index c b i best = best.
Proof.
  induction b as [|x b IH]; intros Hn i best; [reflexivity|]. cbn [last_index].
  destruct (N.eqb_spec x c) as [->|_]; [exfalso; apply Hn; left; reflexivity|].
  apply IH. intros H. apply Hn. right. exact H.
Qed.

Lemma last_index_app c a b : ~ In c b -> forall i best,
  last_index c (a ++ c :: b) i best = Some (i + length a)%nat.
Proof.
  intros Hn. induction a as [|x a IH]; intros i best; cbn [app last_index length].
  - rewrite N.eqb_refl. rewrite last_index_none by exact Hn. f_equal. lia.
  - rewrite IH. f_equal. lia.
Qed.

Lemma to_lower_49 c : to_lower c = 49 <-> c = 49.
Proof. unfold to_lower. destruct ((65 <=? c) && (c <=? 90)) eqn:E; lia. Qed.

Lemma lower_no_sep d : ~ In 49 d -> ~ In 49 (map to_lower d).
Proof. intros H Hin. apply in_map_iff in Hin as (c & Ec & Hc). destruct (to_lower_49 c) as [Hf _]. apply Hf in Ec. subst c. exact (H Hc). Qed.

Lemma firstn_app_len {A} (l r : list A) : firstn (0 + length l) (l ++ r) = l.
Proof. change (0 + length l)%nat with (length l). induction l; cbn; congruence. Qed.

Lemma skipn_app_len {A} (l r : list A) x : skipn (0 + length l + 1) (l ++ x :: r) = r.
Proof. change (0 + length l)%nat with (length l). induction l; cbn; auto. Qed.

(* ---------- to_bytes ---------- *)
Definition idx (c : N) : N := match index_of c charset 0 with Some i => i | None => 0 end.
Definition inset (c : N) : Prop := index_of c charset 0 <> None.

Lemma index_of_nth c l : forall i j, index_of c l i = Some j ->
  i <= j /\ (N.to_nat (j - i) < length l)%nat /\ nth (N.to_nat (j - i)) l 0 = c.
Proof.
  induction l as [|x l IH]; intros i j H; [discriminate|]. cbn [index_of] in H.
  destruct (N.eqb_spec x c) as [->|Hne].
  - inversion H; subst. rewrite N.sub_diag. cbn. split; [lia|]. split; [lia | reflexivity].
  - apply IH in H as (H1 & H2 & H3). split; [lia|].
    replace (N.to_nat (j - i)) with (S (N.to_nat (j - (i + 1)))) by lia. cbn [length nth]. split; [lia | exact H3].
Qed.

Lemma charset_length : length charset = 32%nat.
Proof. vm_compute. reflexivity. Qed.

Lemma idx_lt32 c : inset c -> idx c < 32.
Proof.
  unfold inset, idx. destruct (index_of c charset 0) as [j|] eqn:E; [|contradiction]. intros _.
  apply index_of_nth in E as (_ & H & _). rewrite charset_length in H. lia.
Qed.

Lemma idx_inj c c' : inset c -> inset c' -> idx c = idx c' -> c = c'.
Proof.
  unfold inset, idx. destruct (index_of c charset 0) as [j|] eqn:E; [|contradiction].
  destruct (index_of c' charset 0) as [j'|] eqn:E'; [|contradiction]. intros _ _ ->.
  apply index_of_nth in E as (_ & _ & <-). apply index_of_nth in E' as (_ & _ & <-). reflexivity.
Qed.

Lemma to_bytes_spec l : forall vs, to_bytes l = Some vs -> vs = map idx l /\ Forall inset l.
Proof.
  induction l as [|c t IH]; intros vs H; cbn [to_bytes] in H.
  - inversion H. split; [reflexivity | constructor].
  - destruct (index_of c charset 0) as [i|] eqn:Ei; [|discriminate].
    destruct (to_bytes t) as [r|]; [|discriminate]. inversion H; subst.
    destruct (IH r eq_refl) as [-> HF]. split.
    + cbn [map]. f_equal. unfold idx. rewrite Ei. reflexivity.
    + constructor; [unfold inset; rewrite Ei; discriminate | exact HF].
Qed.

Lemma hamming_map_inj (f : N -> N) a : forall b,
  (forall x y, In x a -> In y b -> f x = f y -> x = y) ->
  hamming (map f a) (map f b) = hamming a b.
Proof.
  induction a as [|x a IH]; intros [|y b] Hinj; cbn [map hamming]; try reflexivity.
  rewrite IH by (intros; apply Hinj; [right | right |]; assumption). f_equal.
  destruct (N.eqb_spec x y) as [->|Hne]; [rewrite N.eqb_refl; reflexivity|].
  destruct (N.eqb_spec (f x) (f y)) as [E|E]; [|reflexivity].
  exfalso. apply Hne. apply Hinj; [left; reflexivity | left; reflexivity | exact E].
Qed.

Lemma hamming_map_le (f : N -> N) a : forall b, (hamming (map f a) (map f b) <= hamming a b)%nat.
Proof.
  induction a as [|x a IH]; intros [|y b]; cbn [map hamming]; try lia.
  specialize (IH b). destruct (N.eqb_spec x y) as [->|Hne].
  - rewrite N.eqb_refl. lia.
  - destruct (f x =? f y); lia.
Qed.

(* ---------- what acceptance of  hrp ++ '1' :: data  (no '1' in data) means ---------- *)
Lemma decode_ok_inv hrp data r : ~ In 49 data -> Bech32.decode (hrp ++ 49 :: data) = Ok r ->
  (length data <= 88)%nat /\
  exists decoded, to_bytes (map to_lower data) = Some decoded /\
                  verify_checksum (map to_lower hrp) decoded = true.
Proof.
  intros Hsep H. rewrite decode_eq in H. cbv zeta in H.
  destruct ((N.of_nat (length (hrp ++ 49 :: data)) <? 8) || (90 <? N.of_nat (length (hrp ++ 49 :: data)))) eqn:Elen; [discriminate|].
  destruct (negb (forallb _ (hrp ++ 49 :: data))); [discriminate|].
  destruct (negb (list_eqb _ _) && negb (list_eqb _ _)); [discriminate|].
  rewrite map_app in H. cbn [map] in H. change (to_lower 49) with 49 in H.
  rewrite (last_index_app 49 (map to_lower hrp) (map to_lower data) (lower_no_sep data Hsep)) in H.
  rewrite map_length in H.
  match type of H with context [if ?b then Err 4 else _] => destruct b eqn:Eone; [discriminate|] end.
  rewrite <- (map_length to_lower hrp) in H. rewrite skipn_app_len, firstn_app_len in H.
  destruct (to_bytes (map to_lower data)) as [decoded|]; [|discriminate].
  destruct (verify_checksum (map to_lower hrp) decoded) eqn:Ev; [|discriminate].
  split.
  - rewrite app_length in Elen, Eone. cbn [length] in Elen, Eone.
    apply orb_false_iff in Elen as [_ E90]. apply orb_false_iff in Eone as [E1 _]. lia.
  - exists decoded. auto.
Qed.

Lemma decode_no_panic s k : Bech32.decode s <> Panic k.
Proof.
  rewrite decode_eq. cbv zeta.
  destruct (_ || _); [discriminate|]. destruct (negb _); [discriminate|]. destruct (_ && _); [discriminate|].
  destruct (last_index _ _ _ _); [|discriminate]. destruct (_ || _); [discriminate|].
  destruct (to_bytes _); [|discriminate]. destruct (verify_checksum _ _); discriminate.
Qed.

(* ---------- the theorem ---------- *)
Theorem bech32_detects_4 : forall hrp data data' r,
  Bech32.decode (hrp ++ 49 :: data) = Ok r -> ~ In 49 data ->
  length data' = length data -> ~ In 49 data' ->
  (hamming data data' <= 4)%nat ->
  (1 <= hamming (map to_lower data) (map to_lower data'))%nat ->
  exists e, Bech32.decode (hrp ++ 49 :: data') = Err e.
Proof.
  intros hrp data data' r Hdec Hsep Hlen Hsep' Hh4 Hh1.
  destruct (Bech32.decode (hrp ++ 49 :: data')) as [r'|e|k] eqn:E'.
  - exfalso.
    apply decode_ok_inv in Hdec as (Hn & dec & Hb & Hv); [|exact Hsep].
    apply decode_ok_inv in E' as (_ & dec' & Hb' & Hv'); [|exact Hsep'].
    apply to_bytes_spec in Hb as [-> HF]. apply to_bytes_spec in Hb' as [-> HF'].
    assert (Hfalse : verify_checksum (map to_lower hrp) (map idx (map to_lower data')) = false).
    { apply (bech_verify_detects_4 (map to_lower hrp) (map idx (map to_lower data)) (map idx (map to_lower data'))).
      - rewrite !map_length. lia.
      - rewrite !map_length. lia.
      - apply Forall_map. eapply Forall_impl; [|exact HF]. intros c Hc. apply idx_lt32. exact Hc.
      - apply Forall_map. eapply Forall_impl; [|exact HF']. intros c Hc. apply idx_lt32. exact Hc.
      - rewrite hamming_map_inj.
        + pose proof (hamming_map_le to_lower data data'). lia.
        + rewrite Forall_forall in HF, HF'. intros x y Hx Hy. apply idx_inj; auto.
      - exact Hv. }
    rewrite Hfalse in Hv'. discriminate.
  - exists e. reflexivity.
  - exfalso. exact (decode_no_panic _ _ E').
Qed.

(* minimum distance 5 between accepted strings with the same hrp and length (case-folded) *)
Corollary bech32_min_distance_5 : forall hrp data data' r r',
  Bech32.decode (hrp ++ 49 :: data) = Ok r -> Bech32.decode (hrp ++ 49 :: data') = Ok r' ->
  ~ In 49 data -> ~ In 49 data' -> length data' = length data ->
  map to_lower data <> map to_lower data' ->
  (5 <= hamming data data')%nat.
Proof.
  intros hrp data data' r r' H H' Hs Hs' Hl Hne.
  destruct (Nat.le_gt_cases 5 (hamming data data')) as [|Hlt]; [assumption|exfalso].
  assert (H1 : (1 <= hamming (map to_lower data) (map to_lower data'))%nat).
  { destruct (hamming (map to_lower data) (map to_lower data')) eqn:E; [|lia]. exfalso. apply Hne.
    assert (Hl2 : length (map to_lower data) = length (map to_lower data')) by (rewrite !map_length; lia).
    revert Hl2 E. generalize (map to_lower data') as b. generalize (map to_lower data) as a. clear.
    induction a as [|x a IH]; intros [|y b] Hl E; cbn [length hamming] in *; try lia; auto.
    destruct (N.eqb_spec x y); [|lia]. subst. f_equal. apply IH; lia. }
  destruct (bech32_detects_4 hrp data data' r H Hs Hl Hs' ltac:(lia) H1) as [e He].
  rewrite He in H'. discriminate.
Qed.

(* ---------- case-only changes (review round 2) ---------- *)
(* bech32_detects_4 excludes every substitution pattern that only changes the case of letters.  That
   exclusion is wider than necessary: the decoder rejects every MIXED-case string, so the only case
   variants of an accepted string that are accepted are its all-lower-case and all-upper-case forms. *)
(* an accepted string is written in one case: it is its own lower-case or its own upper-case form *)
Lemma decode_ok_pure_case s r : Bech32.decode s = Ok r -> s = map to_lower s \/ s = map to_upper s.
Proof.
  intros H. rewrite decode_eq in H. cbv zeta in H.
  destruct (_ || _); [discriminate|]. destruct (negb (forallb _ _)); [discriminate|].
  destruct (list_eqb s (map to_lower s)) eqn:El.
  - left. apply list_eqb_eq. exact El.
  - destruct (list_eqb s (map to_upper s)) eqn:Eu.
    + right. apply list_eqb_eq. exact Eu.
    + discriminate.
Qed.

Lemma to_upper_lower c : to_upper (to_lower c) = to_upper c.
Proof.
  unfold to_lower, to_upper.
  destruct ((65 <=? c) && (c <=? 90)) eqn:E1.
  - destruct ((97 <=? c + 32) && (c + 32 <=? 122)) eqn:E2; destruct ((97 <=? c) && (c <=? 122)) eqn:E3; lia.
  - reflexivity.
Qed.

Lemma hamming_zero_eq a : forall b, length a = length b -> hamming a b = 0%nat -> a = b.
Proof.
  induction a as [|x a IH]; intros [|y b] Hl E; cbn [length hamming] in *; try lia; auto.
  destruct (N.eqb_spec x y); [|lia]. subst. f_equal. apply IH; lia.
Qed.

Lemma upper_of_lower_eq s s' : map to_lower s' = map to_lower s -> map to_upper s' = map to_upper s.
Proof.
  intros Hl.
  rewrite <- (map_ext _ _ to_upper_lower s'), <- (map_ext _ _ to_upper_lower s).
  rewrite <- !(map_map to_lower to_upper). rewrite Hl. reflexivity.
Qed.

(* every case variant of an accepted string other than its two pure forms is rejected *)
Theorem bech32_mixed_case_rejected : forall s s' r,
  Bech32.decode s = Ok r -> map to_lower s' = map to_lower s ->
  s' <> map to_lower s -> s' <> map to_upper s ->
  exists e, Bech32.decode s' = Err e.
Proof.
  intros s s' r H Hl Hnl Hnu.
  pose proof (upper_of_lower_eq s s' Hl) as Hu.
  destruct (Bech32.decode s') as [r'|e|k] eqn:E'.
  - exfalso. apply decode_ok_pure_case in E' as [E'|E'].
    + apply Hnl. rewrite <- Hl. exact E'.
    + apply Hnu. rewrite <- Hu. exact E'.
  - exists e. reflexivity.
  - exfalso. exact (decode_no_panic _ _ E').
Qed.

(* the detection theorem with the case exclusion narrowed to exactly what is accepted: the corrupted
   string is rejected unless it is the all-lower-case or the all-upper-case form of the original *)
Theorem bech32_detects_4_case : forall hrp data data' r,
  Bech32.decode (hrp ++ 49 :: data) = Ok r -> ~ In 49 data ->
  length data' = length data -> ~ In 49 data' ->
  (hamming data data' <= 4)%nat ->
  hrp ++ 49 :: data' <> map to_lower (hrp ++ 49 :: data) ->
  hrp ++ 49 :: data' <> map to_upper (hrp ++ 49 :: data) ->
  exists e, Bech32.decode (hrp ++ 49 :: data') = Err e.
Proof.
  intros hrp data data' r Hdec Hsep Hlen Hsep' Hh4 Hnl Hnu.
  destruct (hamming (map to_lower data) (map to_lower data')) as [|k] eqn:Eh.
  - (* only the case of some letters changed *)
    assert (Hld : map to_lower data = map to_lower data').
    { apply hamming_zero_eq; [rewrite !map_length; lia | exact Eh]. }
    apply (bech32_mixed_case_rejected (hrp ++ 49 :: data) (hrp ++ 49 :: data') r Hdec); auto.
    rewrite !map_app. cbn [map]. rewrite Hld. reflexivity.
  - apply (bech32_detects_4 hrp data data' r); auto. lia.
Qed.

(* ---------- why the side conditions are there ---------- *)
(* (a) upper-casing every letter gives the same address: "21q223gu6y" / "21Q223GU6Y" (hrp "2" has no
   letter, the data part has four): 4 substitutions, accepted, same decoded value.  CashAddr does
   not have this case because its prefix must contain a letter. *)
Lemma bech32_case_variant_accepted : exists s s' r,
  length s' = length s /\ hamming s s' = 4%nat /\
  Bech32.decode s = Ok r /\ Bech32.decode s' = Ok r.
Proof.
  exists [50;49;113;50;50;51;103;117;54;121], [50;49;81;50;50;51;71;85;54;89]. eexists.
  split; [reflexivity|]. split; [reflexivity|]. split; vm_compute; reflexivity.
Qed.

(* (b) substituting a data character by the separator '1' moves the boundary between the
   human-readable part and the data, so the result is checked as a different codeword of a
   different code: "a1ma9rt0dntpfqpf" (hrp "a") and "a1ma9rt0d1tpfqpf" (hrp "a1ma9rt0d", empty data)
   are both accepted and differ in ONE character.  This is a property of bech32 as specified
   (BIP173), reproduced by any conforming decoder; it is not a defect of bchutil.  Found by a
   state-collision search (2^24 trials), see design/notes_C03.md. *)
Lemma bech32_separator_substitution_accepted : exists s s' r r',
  length s' = length s /\ hamming s s' = 1%nat /\
  Bech32.decode s = Ok r /\ Bech32.decode s' = Ok r'.
Proof.
  exists [97;49;109;97;57;114;116;48;100;110;116;112;102;113;112;102],
         [97;49;109;97;57;114;116;48;100;49;116;112;102;113;112;102]. do 2 eexists.
  split; [reflexivity|]. split; [reflexivity|]. split; vm_compute; reflexivity.
Qed.

Print Assumptions bech32_detects_4.
Print Assumptions bech32_min_distance_5.
Print Assumptions bech32_detects_4_case.

(* C20 — a bloom filter may be used from many goroutines at once; GCS filters are immutable.
   Only statements; every proof is `exact <lemma proved elsewhere>`.

   Partial by nature: what is proved is (1) in an interleaving semantics of k threads, one mutex and one shared
   cell, programs whose method bodies are Lock; accesses; Unlock are linearizable in lock-acquisition order
   (generic), (2) every path of every exported method of bloom.Filter, as extracted from THIS source by
   harness/cmd/lockir, has that shape and the workers never touch the mutex, (3) with C09: no lost insertion,
   read-your-completed-insert, (4) the GCS methods only read the receiver.  That Go's sync.Mutex is a mutex, that
   sequentially consistent interleaving is the right semantics for race-free Go programs (Go memory model, DRF-SC)
   and that the compiled code is race free are runtime facts: harness/cmd/c20 observes them under -race. *)
From Coq Require Import String.
From BU Require Import Lib.Bytes Bloom.Murmur3 Bloom.Bloom Bloom.BloomProofs.
From BU Require Import Conc.LockEvents Conc.Conc Conc.ConcProofs Conc.BloomConc Conc.LockProofs Gen.LockIR.

(* generic: every interleaved execution of well-locked programs that ends with the mutex free equals, state for
   state, the serial execution of the method bodies in the order in which the mutex was acquired *)
Theorem C20_well_locked_linearizable : forall (S L : Type) (st0 : state S L) tr st,
  well_locked_state S L st0 -> exec S L st0 tr st -> owner S L st = None ->
  exists order, acq_order S L st0 tr st order /\ st = serial S L st0 order.
Proof. exact well_locked_linearizable. Qed.
Print Assumptions C20_well_locked_linearizable.

Theorem C20_only_holder_moves : forall (S L : Type) (st0 : state S L) tr st t i st',
  well_locked_state S L st0 -> exec S L st0 tr st -> owner S L st = Some t -> step S L st i st' -> i = t.
Proof. exact only_holder_moves. Qed.
Print Assumptions C20_only_holder_moves.

Theorem C20_finished_quiescent : forall (S L : Type) (st0 : state S L) tr st,
  well_locked_state S L st0 -> exec S L st0 tr st -> finished S L st -> owner S L st = None.
Proof. exact finished_quiescent. Qed.
Print Assumptions C20_finished_quiescent.

(* the statement about THIS source: every syntactic path of every method of bloom.Filter *)
Theorem C20_bloom_methods_well_locked : forallb (well_locked_in bloom_methods) bloom_methods = true.
Proof. exact bloom_methods_well_locked. Qed.
Print Assumptions C20_bloom_methods_well_locked.

Theorem C20_bloom_documented_safe_present : forallb (has_exported bloom_methods) bloom_documented_safe = true.
Proof. exact bloom_documented_safe_present. Qed.
Print Assumptions C20_bloom_documented_safe_present.

(* review round 2: what the per-method check silently relied on.  The type has exactly ONE mutex field (Lock events
   carry no name); nothing outside the methods of bloom.Filter names one of its fields (so "every exported method is
   well locked" really covers every path to the shared message inside the package); no method of either type mentions
   a package-level variable (no state shared between different filters behind the back of the per-filter mutex). *)
Theorem C20_bloom_single_mutex : single_mutex bloom_mutex_fields = true.
Proof. exact bloom_single_mutex. Qed.
Print Assumptions C20_bloom_single_mutex.

Theorem C20_bloom_fields_private : bloom_outside_accesses = nil.
Proof. exact bloom_fields_private. Qed.
Print Assumptions C20_bloom_fields_private.

Theorem C20_no_package_level_state : no_globals (bloom_methods ++ gcs_methods) = true.
Proof. exact no_package_level_state. Qed.
Print Assumptions C20_no_package_level_state.

(* GCS immutability, constructor side: no constructor of gcs.Filter stores (an alias of) a reference-typed parameter in
   the filter, so the filter cannot change when the caller reuses the buffer it was built from (assignment-based taint
   computed by the translator; the dynamic half mutates every constructor's input after construction) *)
Theorem C20_gcs_constructors_copy :
  no_aliasing_inits gcs_field_inits = true /\
  has_init gcs_field_inits "FromBytes"%string = true /\ has_init gcs_field_inits "BuildGCSFilter"%string = true.
Proof. exact gcs_constructors_copy. Qed.
Print Assumptions C20_gcs_constructors_copy.

Theorem C20_nothing_unsupported :
  forallb (fun m => forallb (fun p => negb (existsb is_unsupported p)) (m_paths m)) (bloom_methods ++ gcs_methods) = true.
Proof. exact nothing_unsupported. Qed.
Print Assumptions C20_nothing_unsupported.

(* an accepted IR path denotes a well-locked body of the semantics, whatever its accesses mean *)
Theorem C20_accepted_path_is_well_locked : forall (S L : Type) (sem : event -> L -> S -> L * S) tbl p,
  exported_path_ok tbl p = true -> p <> [Return] -> well_locked_body S L (compile S L sem p).
Proof. exact accepted_path_is_well_locked. Qed.
Print Assumptions C20_accepted_path_is_well_locked.

(* the two halves joined for THIS source: every path of every exported method of bloom.Filter (all ten documented-safe
   operations, MatchTxAndUpdate and MsgFilterLoad included) that touches anything is a well-locked body of the
   semantics, whatever its accesses and worker calls mean -- so C20_well_locked_linearizable applies to every program
   made of calls of these methods, not only to the operations of the C09 instance below *)
Theorem C20_bloom_source_bodies_well_locked : forall (S L : Type) (sem : event -> L -> S -> L * S) m p,
  In m bloom_methods -> m_exported m = true -> In p (m_paths m) -> p <> [Return] ->
  well_locked_body S L (compile S L sem p).
Proof. exact bloom_source_bodies_well_locked. Qed.
Print Assumptions C20_bloom_source_bodies_well_locked.

(* with the C09 model as the meaning of the operations: a complete concurrent run of any programs over
   Add/AddHash/AddOutPoint/Matches/MatchesOutPoint/Reload/Unload/IsLoaded leaves the filter the model computes
   for some interleaving (the lock-acquisition order) that contains every operation of every goroutine *)
Theorem C20_bloom_linearizable : forall f0 progs tr st,
  exec filter results (init f0 progs) tr st -> finished filter results st ->
  exists order ops,
    acq_order filter results (init f0 progs) tr st order /\
    sh filter results st = final f0 ops /\
    (forall t p o, nth_error progs t = Some p -> In o p -> In o ops) /\
    (forall o, In o ops -> exists t p, nth_error progs t = Some p /\ In o p).
Proof. exact bloom_linearizable. Qed.
Print Assumptions C20_bloom_linearizable.

(* no lost insertion *)
Theorem C20_no_lost_insertion : forall f0 progs tr st t p o x,
  len_ok f0 -> is_loaded f0 = true -> Forall no_reset progs ->
  exec filter results (init f0 progs) tr st -> finished filter results st ->
  nth_error progs t = Some p -> In o p -> item_of o = Some x ->
  matches (sh filter results st) x = true.
Proof. exact no_lost_insertion. Qed.
Print Assumptions C20_no_lost_insertion.

(* read your completed insert: in the serial (= lock-acquisition) order, a Matches(x) placed after an insertion of x
   with no Reload/Unload in between answers true.  A Matches call that begins after the Add call returned acquires
   the mutex later, hence is placed later. *)
Theorem C20_read_your_insert : forall f pre oa mid x,
  len_ok f -> reloads_ok pre -> is_loaded (final f pre) = true -> item_of oa = Some x -> no_reset mid ->
  snd (Bloom.step (final f (pre ++ oa :: mid)) (OMatches x)) = true.
Proof. exact read_your_insert. Qed.
Print Assumptions C20_read_your_insert.

(* GCS: no method writes a field, passes the receiver on or escapes the translator; the byte array is only
   handed to bytes.Buffer.Write and copy's source; every query works on the copy made by Bytes() *)
Theorem C20_gcs_queries_private :
  forallb (gcs_method_private gcs_methods) gcs_methods = true /\
  forallb (gcs_query_on_copy gcs_methods) gcs_queries = true.
Proof. exact gcs_queries_private. Qed.
Print Assumptions C20_gcs_queries_private.

(* hypotheses are satisfiable, and the discipline is needed: two goroutines adding concurrently *)
Example C20_example :
  well_locked_state filter results (init (Some (MkMsg [0;0;0] 5 0 1)) [[OAdd [1]; OMatches [1]]; [OAdd [2]]]) /\
  exported_path_ok bloom_methods [Lock; CallWorker "add"%string; Unlock; Return] = true /\
  exported_path_ok bloom_methods [CallWorker "add"%string; Return] = false /\
  exported_path_ok bloom_methods [Lock; CallWorker "add"%string; Unlock; ReadField "msgFilterLoad"%string; Return] = false /\
  (* shared (RWMutex) sections: never accepted as exclusive; and even a reader/writer discipline only admits them
     around read-only workers: matches reads, matchTxAndUpdate writes through maybeAddOutpoint -> addOutPoint -> add *)
  exported_path_ok bloom_methods [RLock; CallWorker "matches"%string; RUnlock; Return] = false /\
  rw_path_ok bloom_methods [RLock; CallWorker "matches"%string; RUnlock; Return] = true /\
  rw_path_ok bloom_methods [RLock; CallWorker "matchTxAndUpdate"%string; RUnlock; Return] = false /\
  rw_path_ok bloom_methods [RLock; WriteField "msgFilterLoad"%string; RUnlock; Return] = false /\
  (* a second mutex, and a package-level scratch buffer used inside a correctly locked section, are rejected *)
  single_mutex ["mtx"%string; "rmtx"%string] = false /\
  exported_path_ok bloom_methods [Lock; Global "opBuf"%string; CallWorker "add"%string; Unlock; Return] = false /\
  no_globals [Method "addOutPoint"%string false [[Global "opBuf"%string; CallWorker "add"%string; Return]]] = false.
Proof. split; [apply conc_well_locked|vm_compute; repeat split]. Qed.

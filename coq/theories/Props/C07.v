(* C07 — Base58, Base58Check and bech32 are exact, strict, side-effect-free inverses.
   Only statements; every proof is `exact <lemma proved elsewhere>`. *)
From BU Require Import Lib.Bytes Base58.Base58 Base58.Base58Proofs.

(* Decode after Encode is the identity on every byte string *)
Theorem C07_base58_decode_encode : forall b, Bytes b -> Base58.decode (Base58.encode b) = b.
Proof. exact decode_encode. Qed.
Print Assumptions C07_base58_decode_encode.

(* Encode after Decode is the identity on every string over the alphabet *)
Theorem C07_base58_encode_decode : forall s, Forall (fun c => In c alphabet) s -> Base58.encode (Base58.decode s) = s.
Proof. exact encode_decode. Qed.
Print Assumptions C07_base58_encode_decode.

(* any foreign character yields the empty result *)
Theorem C07_base58_foreign_char_empty : forall s, (exists c, In c s /\ ~ In c alphabet) -> Base58.decode s = [].
Proof. exact foreign_char_empty. Qed.
Print Assumptions C07_base58_foreign_char_empty.

(* Encode only produces alphabet characters; Decode only produces bytes *)
Theorem C07_base58_ranges : forall x, Forall (fun c => In c alphabet) (Base58.encode x) /\ Bytes (Base58.decode x).
Proof. intro x. split; [exact (encode_alphabet x) | exact (decode_bytes x)]. Qed.
Print Assumptions C07_base58_ranges.

Theorem C07_check_roundtrip : forall input version,
  Bytes input -> version < 256 -> check_decode (check_encode input version) = Ok (input, version).
Proof. exact check_roundtrip. Qed.
Print Assumptions C07_check_roundtrip.

Theorem C07_check_accept_iff : forall s payload version,
  check_decode s = Ok (payload, version) <->
  exists ck, Base58.decode s = (version :: payload) ++ ck /\ length ck = 4%nat /\ ck = checksum (version :: payload).
Proof. exact check_accept_iff. Qed.
Print Assumptions C07_check_accept_iff.

(* C07 — Base58, Base58Check and bech32 are exact, strict, side-effect-free inverses.
   Only statements; every proof is `exact <lemma proved elsewhere>`. *)
From BU Require Import Lib.Bytes Lib.Slice Base58.Base58 Base58.Base58Proofs Base58.Base58Lits Gen.Xbase58 Bech32.Bech32 Bech32.Bech32Proofs Bech32.Bip173Spec Bech32.Bip173Proofs Bech32.PurityModel Bech32.Purity Bech32.ConvertBitsProofs Gen.AppendSites Gen.Kernels Tie.KernelsTie.

(* Decode after Encode is the identity on every byte string *)
Theorem C07_base58_decode_encode : forall b, Bytes b -> Base58.decode (Base58.encode b) = b.
Proof. exact decode_encode. Qed.
Print Assumptions C07_base58_decode_encode.

(* Encode after Decode is the identity on every string over the alphabet *)
Theorem C07_base58_encode_decode : forall s, Forall (fun c => In c alphabet) s -> Base58.encode (Base58.decode s) = s.
Proof. exact encode_decode. Qed.
Print Assumptions C07_base58_encode_decode.

(* any foreign character yields the empty result *)
Theorem C07_base58_foreign_char_empty : forall s, (exists c, In c s /\ ~ In c alphabet) -> Base58.decode s = [].
Proof. exact foreign_char_empty. Qed.
Print Assumptions C07_base58_foreign_char_empty.

(* Encode only produces alphabet characters; Decode only produces bytes *)
Theorem C07_base58_ranges : forall x, Forall (fun c => In c alphabet) (Base58.encode x) /\ Bytes (Base58.decode x).
Proof. intro x. split; [exact (encode_alphabet x) | exact (decode_bytes x)]. Qed.
Print Assumptions C07_base58_ranges.

(* leading zero bytes correspond to leading '1' characters (idx0 = '1'), in both directions *)
Theorem C07_base58_leading_zeros : forall b s, Bytes b -> Forall (fun c => In c alphabet) s ->
  count_leading idx0 (Base58.encode b) = count_leading 0 b /\
  count_leading 0 (Base58.decode s) = count_leading idx0 s.
Proof. exact leading_zeros. Qed.
Print Assumptions C07_base58_leading_zeros.

Theorem C07_check_roundtrip : forall input version,
  Bytes input -> version < 256 -> check_decode (check_encode input version) = Ok (input, version).
Proof. exact check_roundtrip. Qed.
Print Assumptions C07_check_roundtrip.

Theorem C07_check_accept_iff : forall s payload version,
  check_decode s = Ok (payload, version) <->
  exists ck, Base58.decode s = (version :: payload) ++ ck /\ length ck = 4%nat /\ ck = checksum (version :: payload).
Proof. exact check_accept_iff. Qed.
Print Assumptions C07_check_accept_iff.

(* the integer literals of base58.Decode / checksum / CheckEncode / CheckDecode are the ones the model writes out *)
Theorem C07_base58_literals_as_modelled :
  lits_Decode = [0;1;1;0;255;0]%Z /\ lits_checksum = [4]%Z /\
  lits_CheckEncode = [0;1;4]%Z /\ lits_CheckDecode = [5;0;0;4;4;4;0;1;4]%Z.
Proof. exact tie_lits_base58. Qed.
Print Assumptions C07_base58_literals_as_modelled.

(* ---------------- bech32 ---------------- *)
(* Decode(Encode(hrp, data)) = (hrp, data) for every lower-case printable hrp and 5-bit data within the 90-character limit *)
Theorem C07_bech32_roundtrip : forall hrp data,
  hrp_ok hrp -> Forall (fun x => x < 32) data -> (length hrp + 1 + length data + 6 <= 90)%nat ->
  exists s, Bech32.encode hrp data = Ok s /\ length s = (length hrp + 1 + length data + 6)%nat /\
            Bech32.decode s = Ok (hrp, data).
Proof. exact bech32_roundtrip. Qed.
Print Assumptions C07_bech32_roundtrip.

(* everything Decode accepts satisfies the BIP173 conditions and is exactly the (case-folded) encoding of what
   it returns: so mixed case, foreign characters, a misplaced separator, wrong length, a character outside the
   charset and a wrong checksum are all rejected, and decoding is injective up to case *)
Theorem C07_bech32_decode_canonical : forall s hrp data,
  Bech32.decode s = Ok (hrp, data) ->
  (8 <= length s <= 90)%nat /\
  Forall (fun c => 33 <= c /\ c <= 126) s /\
  (s = map to_lower s \/ s = map to_upper s) /\
  hrp_ok hrp /\ Forall (fun x => x < 32) data /\
  Bech32.encode hrp data = Ok (map to_lower s).
Proof. exact bech32_decode_canonical. Qed.
Print Assumptions C07_bech32_decode_canonical.

Theorem C07_bech32_rejects_mixed_case : forall s,
  s <> map to_lower s -> s <> map to_upper s -> forall r, Bech32.decode s <> Ok r.
Proof. exact bech32_rejects_mixed_case. Qed.
Print Assumptions C07_bech32_rejects_mixed_case.

Theorem C07_bech32_rejects_length : forall s, (length s < 8 \/ 90 < length s)%nat -> forall r, Bech32.decode s <> Ok r.
Proof. exact bech32_rejects_length. Qed.
Print Assumptions C07_bech32_rejects_length.

Theorem C07_bech32_rejects_foreign_char : forall s c,
  In c s -> (c < 33 \/ 126 < c) -> forall r, Bech32.decode s <> Ok r.
Proof. exact bech32_rejects_foreign_char. Qed.
Print Assumptions C07_bech32_rejects_foreign_char.

(* agreement with BIP173 (Bech32/Bip173Spec.v is written from the BIP text with its own literals: generator
   words, charset, 25/5/31 shifts and masks): Encode produces the BIP's string for every hrp and 5-bit data *)
Theorem C07_bech32_encode_is_bip173 : forall hrp data, Forall (fun x => x < 32) data ->
  Bech32.encode hrp data = Ok (bip_encode hrp data).
Proof. exact encode_is_bip173. Qed.
Print Assumptions C07_bech32_encode_is_bip173.

(* ... and Decode accepts exactly the strings BIP173 calls valid (length, character range, single case, non-empty
   hrp, separator, 5-bit symbols, verifying checksum), returning the (hrp, data) they stand for *)
Theorem C07_bech32_decode_iff_bip173 : forall s hrp data,
  Bech32.decode s = Ok (hrp, data) <-> bip_valid s hrp data.
Proof. exact decode_iff_bip173. Qed.
Print Assumptions C07_bech32_decode_iff_bip173.

(* misplaced separator: no '1', nothing before the last '1', or fewer than six characters after it *)
Theorem C07_bech32_rejects_misplaced_separator : forall s,
  (forall h t, map to_lower s = h ++ 49 :: t -> ~ In 49 t -> h = [] \/ (length t < 6)%nat) ->
  forall r, Bech32.decode s <> Ok r.
Proof. exact rejects_misplaced_separator. Qed.
Print Assumptions C07_bech32_rejects_misplaced_separator.

(* a character outside the charset after the last separator *)
Theorem C07_bech32_rejects_data_char_outside_charset : forall s h t c,
  map to_lower s = h ++ 49 :: t -> ~ In 49 t -> In c t -> ~ In c Bech32.charset ->
  forall r, Bech32.decode s <> Ok r.
Proof. exact rejects_data_char_outside_charset. Qed.
Print Assumptions C07_bech32_rejects_data_char_outside_charset.

(* any six symbols other than the checksum *)
Theorem C07_bech32_rejects_bad_checksum : forall hrp data ck,
  Forall (fun x => x < 32) data -> Forall (fun x => x < 32) ck -> length ck = 6%nat ->
  ck <> Bech32.create_checksum hrp data ->
  forall s, map to_lower s = hrp ++ 49 :: map chr (data ++ ck) -> forall r, Bech32.decode s <> Ok r.
Proof. exact rejects_bad_checksum. Qed.
Print Assumptions C07_bech32_rejects_bad_checksum.

(* hypotheses satisfiable / the BIP's own vectors: "a12uel5l" and "abcdef1qpzry9x8gf2tvdw0s3jn54khce6mua7lmqqqxw" *)
Example C07_bip173_vectors :
  bip_encode [97] [] = [97;49;50;117;101;108;53;108] /\
  bip_encode [97;98;99;100;101;102] [0;1;2;3;4;5;6;7;8;9;10;11;12;13;14;15;16;17;18;19;20;21;22;23;24;25;26;27;28;29;30;31] =
    [97;98;99;100;101;102;49;113;112;122;114;121;57;120;56;103;102;50;116;118;100;119;48;115;51;106;110;53;52;107;104;99;101;54;109;117;97;55;108;109;113;113;113;120;119].
Proof. split; vm_compute; reflexivity. Qed.

(* ---------------- ConvertBits ---------------- *)
(* ConvertBits is exactly bit-list regrouping (flatten to fromBits-bit groups MSB first, re-chunk by toBits; a
   trailing incomplete group is padded, or — without padding — must be at most 4 zero bits), for every group size *)
Theorem C07_convert_bits_is_spec : forall data fromBits toBits pad,
  Bytes data -> convert_bits data fromBits toBits pad = regroup_spec data fromBits toBits pad.
Proof. exact convert_bits_is_spec. Qed.
Print Assumptions C07_convert_bits_is_spec.

(* 8 -> 5 (padded) and 5 -> 8 (strict) are mutual inverses *)
Theorem C07_convert_8_5_inverse : forall d, Bytes d ->
  exists five, convert_bits d 8 5 true = Ok five /\ Forall (fun v => v < 32) five /\ convert_bits five 5 8 false = Ok d.
Proof. exact convert_8_5_inverse. Qed.
Print Assumptions C07_convert_8_5_inverse.

Theorem C07_convert_5_8_canonical : forall five d, Forall (fun v => v < 32) five ->
  convert_bits five 5 8 false = Ok d -> convert_bits d 8 5 true = Ok five.
Proof. exact convert_5_8_canonical. Qed.
Print Assumptions C07_convert_5_8_canonical.

Theorem C07_convert_bits_rejects_range : forall data fromBits toBits pad,
  fromBits < 1 \/ 8 < fromBits \/ toBits < 1 \/ 8 < toBits -> convert_bits data fromBits toBits pad = Err 8.
Proof. exact convert_bits_rejects_range. Qed.
Print Assumptions C07_convert_bits_rejects_range.

(* ---------------- purity ---------------- *)
(* bech32.Encode leaves every array that existed before the call unchanged, whatever the capacity of `data` *)
Theorem C07_bech32_encode_pure : forall h data checksum id,
  slice_ok h data -> (id < length h)%nat -> arr (fst (encode_mem h data checksum)) id = arr h id.
Proof. exact encode_pure. Qed.
Print Assumptions C07_bech32_encode_pure.

(* the finding that was repaired: append(data, checksum...) wrote into the caller's spare capacity *)
Theorem C07_bech32_encode_old_impure_refuted :
  exists h data checksum id, slice_ok h data /\ (id < length h)%nat /\
    arr (fst (encode_mem_old h data checksum)) id <> arr h id.
Proof. exact encode_old_impure_refuted. Qed.
Print Assumptions C07_bech32_encode_old_impure_refuted.

(* static obligation recomputed from the Go source on every run *)
Theorem C07_no_exported_append_sites : append_sites_exported = [].
Proof. exact no_exported_append_sites. Qed.
Print Assumptions C07_no_exported_append_sites.

(* ---------------- translator tie ---------------- *)
(* the checksum register of the model IS the Go function bech32Polymod: Gen.Kernels.bech32Polymod is regenerated
   from the function's AST on every run (harness/cmd/gotrans) and proved equal to the model for all inputs *)
Theorem C07_bech32_polymod_is_translated_source : forall values,
  Forall (fun x => x < 2 ^ 30) values -> Kernels.bech32Polymod values = Bech32.polymod values.
Proof. exact bech32Polymod_tie. Qed.
Print Assumptions C07_bech32_polymod_is_translated_source.

(* C16 — block and transaction wrappers always agree with the wire message they wrap.
   Only statements; every proof is `exact <lemma proved elsewhere>`.
   W : wire bundles what package wire / chainhash provide (serialisers, deserialisers, hashes,
   DeserializeTxLoc).  Hypotheses about wire (dependency, never about bchutil's own code):
   - wire_size_canonical: if what Deserialize consumed has the SIZE of the parsed message's serialisation
     then it IS that serialisation.  (Round 1 assumed wire_canonical - every accepted input is canonical -
     which is false of bchd v0.20.0: script 0xef + 32 zero bytes + CashToken body.  That was a genuine defect
     of NewBlockFromBytes, repaired by /repo 6ccc2c9; the weaker hypothesis is all the repaired code needs.)
   - wire_roundtrip: Deserialize inverts Serialize and leaves trailing data.  Also false of bchd on messages
     holding such a script (known finding, key prefix C16:wire-noncanonical:reparse); only C16_reparse_equiv uses it.
   - wire_txloc: DeserializeTxLoc returns offset and length of every transaction's serialisation. *)
From BU Require Import Lib.Bytes Block.Block Block.BlockProofs Block.BlockDistinct Block.BlockWire.

(* For every constructor (NewBlock, NewBlockFromReader, NewBlockFromBytes, and NewBlockFromBlockAndBytes
   under its precondition: the bytes are empty or the message's serialisation) and every history of
   accessor calls, the observations are those of the stateless reference [ref_run]: values are functions
   of the message alone; there is ONE object per transaction index (wid), per transaction hash (thid) and
   for the block hash (bhid) across the whole history; wrapped transactions carry their index; the height
   is the last one set (initially BlockHeightUnknown). *)
Theorem C16_wrapper_refines_message : forall (txc hdr H : Type) (W : wire txc hdr H),
  wire_size_canonical txc hdr H W ->
  forall w m, constructed txc hdr H W w m ->
  forall ops, exists ids, run txc hdr H W w ops = ref_run txc hdr H W ids m (-1)%Z ops.
Proof. exact wrapper_refines_message. Qed.
Print Assumptions C16_wrapper_refines_message.

(* what the reference says about indices: out of range (negative or >= len) is OutOfRangeError for Tx and
   TxHash, in range it is the message's transaction i, index i, and the hash of that transaction *)
Theorem C16_reference_range : forall (txc hdr H : Type) (W : wire txc hdr H) ids (m : msg_block txc hdr) h i,
  let n := Z.of_nat (length (mb_txs txc hdr m)) in
  ((i < 0 \/ n <= i)%Z ->
     ref_obs txc hdr H W ids m h (OpTx i) = OErr H E_RANGE /\ ref_obs txc hdr H W ids m h (OpTxHash i) = OErr H E_RANGE) /\
  ((0 <= i < n)%Z -> exists mt, nth_error (mb_txs txc hdr m) (Z.to_nat i) = Some mt /\
     ref_obs txc hdr H W ids m h (OpTx i) = OTxV H (wid ids (Z.to_nat i), mt_ptr txc mt, i) /\
     ref_obs txc hdr H W ids m h (OpTxHash i) = OHashV H (thid ids (Z.to_nat i)) (tx_hash txc hdr H W (mt_val txc mt))).
Proof. exact ref_range. Qed.
Print Assumptions C16_reference_range.

(* the reference (hence, by refinement, every accessor in every history) never panics *)
Theorem C16_reference_never_panics : forall (txc hdr H : Type) (W : wire txc hdr H) ids m h o k,
  ref_obs txc hdr H W ids m h o <> OPanic H k.
Proof. exact ref_no_panic. Qed.
Print Assumptions C16_reference_never_panics.

(* after any history, TxLoc() delimits exactly each transaction's serialisation inside Bytes() *)
Theorem C16_txloc_delimits : forall (txc hdr H : Type) (W : wire txc hdr H),
  wire_size_canonical txc hdr H W -> wire_txloc txc hdr H W ->
  forall w m, constructed txc hdr H W w m ->
  forall ops, exists locs,
    last (run txc hdr H W w (ops ++ [OpTxLoc; OpBytes])) (OUnit H) = OBytesV H (ser_block txc hdr H W m) /\
    nth (length ops) (run txc hdr H W w (ops ++ [OpTxLoc; OpBytes])) (OUnit H) = OLocsV H locs /\
    length locs = length (mb_txs txc hdr m) /\
    forall i s l, nth_error locs i = Some (s, l) ->
      exists mt, nth_error (mb_txs txc hdr m) i = Some mt /\
                 firstn l (skipn s (ser_block txc hdr H W m)) = ser_tx txc hdr H W (mt_val txc mt).
Proof. exact txloc_delimits. Qed.
Print Assumptions C16_txloc_delimits.

(* a block re-parsed from its bytes has the same header and transaction contents, caches exactly those
   bytes, and is observationally equal to the original up to object identities, under every history *)
Theorem C16_reparse_equiv : forall (txc hdr H : Type) (W : wire txc hdr H),
  wire_size_canonical txc hdr H W -> wire_roundtrip txc hdr H W ->
  forall w m, constructed txc hdr H W w m ->
  forall next, exists w2,
    new_block_from_bytes txc hdr H W next (ser_block txc hdr H W m) = Ok w2 /\
    mb_hdr txc hdr (b_msg txc hdr H (w_blk txc hdr H w2)) = mb_hdr txc hdr m /\
    map (mt_val txc) (mb_txs txc hdr (b_msg txc hdr H (w_blk txc hdr H w2))) = map (mt_val txc) (mb_txs txc hdr m) /\
    b_ser txc hdr H (w_blk txc hdr H w2) = ser_block txc hdr H W m /\
    forall ops, map (erase H) (run txc hdr H W w2 ops) = map (erase H) (run txc hdr H W w ops).
Proof. exact reparse_equiv. Qed.
Print Assumptions C16_reparse_equiv.

(* different indices, different objects: in every reachable state the cached *Tx of two different indices
   are distinct, and so are the objects Transactions() returns after any history *)
Theorem C16_wrapper_objects_distinct : forall (txc hdr H : Type) (W : wire txc hdr H) w m,
  constructed txc hdr H W w m ->
  (forall ops k1 k2 t1 t2,
     nth_error (b_txs txc hdr H (w_blk txc hdr H (run_world txc hdr H W w ops))) k1 = Some (Some t1) ->
     nth_error (b_txs txc hdr H (w_blk txc hdr H (run_world txc hdr H W w ops))) k2 = Some (Some t2) ->
     k1 <> k2 -> w_ptr txc H t1 <> w_ptr txc H t2) /\
  (forall ops l, last (run txc hdr H W w (ops ++ [OpTransactions])) (OUnit H) = OTxsV H l ->
     NoDup (flat_map (fun v : option (N * N * Z) => match v with Some (p, _, _) => [p] | None => [] end) l)).
Proof. exact (fun txc hdr H W w m Hc => conj (wrappers_distinct txc hdr H W w m Hc) (transactions_objects_distinct txc hdr H W w m Hc)). Qed.
Print Assumptions C16_wrapper_objects_distinct.

(* NewBlockFromBlockAndBytes trusts its caller: non-empty bytes are returned by Bytes() whatever they are
   (this is why [constructed] carries a precondition for it) *)
Theorem C16_block_and_bytes_trusts_caller : forall (txc hdr H : Type) (W : wire txc hdr H) next m bytes,
  bytes <> [] ->
  run txc hdr H W (new_block_from_block_and_bytes txc hdr H next m bytes) [OpBytes] = [OBytesV H bytes].
Proof. exact block_and_bytes_trusts_caller. Qed.
Print Assumptions C16_block_and_bytes_trusts_caller.

(* stand-alone Tx wrappers (NewTx, NewTxFromBytes/NewTxFromReader): Hash() is the message's hash and one
   object, Index() is the last SetIndex (initially TxIndexUnknown), MsgTx() is the wrapped message *)
Theorem C16_tx_wrapper_refines : forall (txc hdr H : Type) (W : wire txc hdr H),
  (forall next m ops, exists hid,
     trun txc hdr H W (new_tx txc H next m) ops = tref_run txc hdr H W hid m (-1)%Z ops) /\
  (forall next bytes s rest ops, new_tx_from_reader txc hdr H W next bytes = Ok (s, rest) ->
     exists c hid, deser_tx txc hdr H W bytes = Some (c, rest) /\ mt_val txc (w_msg txc H (snd s)) = c /\
                   trun txc hdr H W s ops = tref_run txc hdr H W hid (w_msg txc H (snd s)) (-1)%Z ops).
Proof. exact tx_wrapper_refines. Qed.
Print Assumptions C16_tx_wrapper_refines.

(* ---- review round 2: the refinement without a global hypothesis about package wire ----
   [constructed_pw] asks, for NewBlockFromBytes only, that the bytes it kept for THIS input (if it kept any)
   are the serialisation of the parsed message; NewBlock, NewBlockFromReader and NewBlockFromBlockAndBytes
   need nothing from wire.  (The harness evaluates the same per-input condition by calling wire alone.) *)
Theorem C16_wrapper_refines_message_pointwise : forall (txc hdr H : Type) (W : wire txc hdr H),
  forall w m, constructed_pw txc hdr H W w m ->
  forall ops, exists ids, run txc hdr H W w ops = ref_run txc hdr H W ids m (-1)%Z ops.
Proof. exact wrapper_refines_message_pw. Qed.
Print Assumptions C16_wrapper_refines_message_pointwise.

(* the weaker hypothesis follows from round 1's, and makes every constructed block pointwise-constructed *)
Theorem C16_hypotheses_ordered : forall (txc hdr H : Type) (W : wire txc hdr H),
  (wire_canonical txc hdr H W -> wire_size_canonical txc hdr H W) /\
  (wire_size_canonical txc hdr H W -> forall w m, constructed txc hdr H W w m -> constructed_pw txc hdr H W w m).
Proof. exact (fun txc hdr H W => conj (canonical_size_canonical txc hdr H W) (fun Hc w m => constructed_pw_of_canonical txc hdr H W w m Hc)). Qed.
Print Assumptions C16_hypotheses_ordered.

(* ... and the per-input condition is necessary: if NewBlockFromBytes kept bytes, Bytes() returns them,
   so it is a fresh serialisation of the message exactly when they are one *)
Theorem C16_from_bytes_fresh_iff : forall (txc hdr H : Type) (W : wire txc hdr H) next bytes w,
  new_block_from_bytes txc hdr H W next bytes = Ok w ->
  b_ser txc hdr H (w_blk txc hdr H w) <> [] ->
  run txc hdr H W w [OpBytes] = [OBytesV H (b_ser txc hdr H (w_blk txc hdr H w))] /\
  (run txc hdr H W w [OpBytes] = [OBytesV H (ser_block txc hdr H W (b_msg txc hdr H (w_blk txc hdr H w)))]
   <-> b_ser txc hdr H (w_blk txc hdr H w) = ser_block txc hdr H W (b_msg txc hdr H (w_blk txc hdr H w))).
Proof. exact from_bytes_fresh_iff. Qed.
Print Assumptions C16_from_bytes_fresh_iff.

(* a wire that reads two encodings OF EQUAL LENGTH of one transaction content: the size test of 6ccc2c9
   passes, NewBlockFromBytes(bytes).Bytes() = bytes although the message serialises to something else.
   So wire_size_canonical cannot be dropped (no such input is known for bchd; the harness looks on every run) *)
Theorem C16_bytes_needs_size_canonical_wire_refuted :
  exists (W : wire N N N) bytes w,
    new_block_from_bytes N N N W 0 bytes = Ok w /\
    run N N N W w [OpBytes] = [OBytesV N bytes] /\
    ser_block N N N W (b_msg N N N (w_blk N N N w)) <> bytes /\
    ~ wire_size_canonical N N N W.
Proof. exact bytes_needs_size_canonical_wire. Qed.
Print Assumptions C16_bytes_needs_size_canonical_wire_refuted.

(* a wire that, like bchd, reads an encoding it writes back shorter (a skipped 0 byte before a transaction):
   NewBlockFromBytes keeps nothing; Bytes(), TxLoc() and TxHash() are those of the message *)
Example C16_noncanonical_input_example :
  exists w, new_block_from_bytes N N N dropW 0 [7; 2; 0; 11; 12; 99] = Ok w /\
    b_ser N N N (w_blk N N N w) = [] /\
    run N N N dropW w [OpTxLoc; OpBytes; OpTxHash 0] = [OLocsV N [(2, 1); (3, 1)]%nat; OBytesV N [7; 2; 11; 12]; OHashV N 3 111].
Proof. exact drop_example. Qed.

(* TxLoc() returns exactly the positions (offset of transaction i = header + count + transactions before it),
   not merely slices with the right contents *)
Theorem C16_txloc_positions : forall (txc hdr H : Type) (W : wire txc hdr H),
  wire_txloc txc hdr H W ->
  forall w m, constructed_pw txc hdr H W w m ->
  forall ops, nth (length ops) (run txc hdr H W w (ops ++ [OpTxLoc])) (OUnit H) = OLocsV H (locs_of txc hdr H W m).
Proof. exact txloc_positions. Qed.
Print Assumptions C16_txloc_positions.

(* the hypotheses about wire hold TOGETHER for a wire with real deserialisers (one byte per header,
   count and transaction), and the from-bytes constructor is exercised with trailing data *)
Theorem C16_wire_hypotheses_satisfiable :
  wire_canonical N N N toyW /\ wire_size_canonical N N N toyW /\ wire_roundtrip N N N toyW /\ wire_txloc N N N toyW /\
  exists w, new_block_from_bytes N N N toyW 0 [7; 2; 11; 12; 99] = Ok w /\
    run N N N toyW w [OpBytes; OpTxLoc; OpTx 1; OpTxHash 0; OpTx 2] =
      [OBytesV N [7; 2; 11; 12]; OLocsV N [(2, 1); (3, 1)]%nat; OTxV N (2, 1, 1%Z); OHashV N 4 111; OErr N E_RANGE].
Proof. exact (conj toy_canonical (conj toy_size_canonical (conj toy_roundtrip (conj toy_txloc_ok toy_from_bytes)))). Qed.
Print Assumptions C16_wire_hypotheses_satisfiable.

(* the hypotheses are satisfiable and the statements non-vacuous: a toy wire (one byte per field) *)
Example C16_example :
  let W := mk_wire N N N (fun h => [h]) (fun n => [N.of_nat n]) (fun t => [t; t]) (fun t => t + 100) (fun h => h + 200)
             (fun _ => None) (fun _ => None) (fun _ => Some [(2, 2); (4, 2)]%nat) in
  let m := mk_mblk N N 7 [mk_mtx N 0 1; mk_mtx N 1 2] in
  run N N N W (new_block N N N 2 m) [OpTx 1; OpTransactions; OpTxHash 1; OpTxHash 1; OpTx 2; OpTx (-1); OpBytes; OpHash; OpHeight]
  = [OTxV N (2, 1, 1%Z); OTxsV N [Some (3, 0, 0%Z); Some (2, 1, 1%Z)]; OHashV N 4 102; OHashV N 4 102;
     OErr N E_RANGE; OErr N E_RANGE; OBytesV N [7; 2; 1; 1; 2; 2]; OHashV N 5 207; OIntV N (-1)%Z].
Proof. vm_compute. reflexivity. Qed.

(* C04 — HD key derivation conforms to BIP32 on every seed and path.
   Only statements; every proof is `exact <lemma proved elsewhere>`. *)
From BU Require Import Lib.Bytes Gen.Nets HD.HD HD.HDGuards.

Theorem C04_guard_depth : forall point hmac512 point_of_scalar padd pzero ser_point parse_point hash160 k i,
  xk_depth k = 255 ->
  child point hmac512 point_of_scalar padd pzero ser_point parse_point hash160 k i = Err E_depth.
Proof. exact guard_depth. Qed.
Print Assumptions C04_guard_depth.

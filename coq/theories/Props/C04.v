(* C04 — HD key derivation conforms to BIP32 on every seed and path.
   Only statements; every proof is `exact <lemma proved elsewhere>` (HD/HDProofs.v, HD/HDGuards.v).

   Model: HD/HD.v (hdkeychain/extendedkey.go).  Specification: HD/Bip32Spec.v (the BIP's text over Z).
   The dependencies are the Section variables below; each theorem carries only the hypotheses its proof
   uses (see the `Check`-able statements after the Section closes).

   The BIP marks a child invalid when parse256(IL) >= n or k_i = 0 (K_i = infinity).  The code tests
   parse256(IL) >= n or parse256(IL) = 0 instead.  The per-step and per-path theorems therefore carry the
   premises "IL <> 0" and "k_i <> 0 (K_i <> infinity)"; C04_child_zero_gap / C04_child_ilzero_gap exhibit
   both differences with an artificial HMAC.  A real input needs an HMAC-SHA512 output with a prescribed
   256-bit half. *)
From BU Require Import Lib.Bytes Gen.Nets HD.HD HD.HDRun HD.HDGuards HD.Bip32Spec HD.HDProofs HD.HDExamples HD.HDConsistent.

Section C04.
Variable point : Type.
Variable hmac512 : list N -> list N -> list N.      (* HMAC-SHA512 key data *)
Variable point_of_scalar : Z -> point.              (* k * G *)
Variable padd : point -> point -> point.
Variable pzero : point -> bool.                     (* Go's "x = 0 or y = 0", i.e. the representation of infinity *)
Variable ser_point : point -> list N.               (* SerializeCompressed *)
Variable parse_point : list N -> res point.         (* bchec.ParsePubKey *)
Variable hash160 : list N -> list N.
Variable dsha : list N -> list N.

Hypothesis H_hmac_len : forall k d, length (hmac512 k d) = 64%nat.
Hypothesis H_hmac_bytes : forall k d, Bytes (hmac512 k d).
Hypothesis H_h160_len : forall m, length (hash160 m) = 20%nat.
Hypothesis H_ser_len : forall P, length (ser_point P) = 33%nat.
Hypothesis H_parse_ser : forall P, pzero P = false -> parse_point (ser_point P) = Ok P.
Hypothesis H_mul_nonzero : forall a, (0 < a < Bip32Spec.n)%Z -> pzero (point_of_scalar a) = false.
Hypothesis H_hom : forall a b, (0 <= a < Bip32Spec.n)%Z -> (0 <= b < Bip32Spec.n)%Z ->
  point_of_scalar ((a + b) mod Bip32Spec.n) = padd (point_of_scalar a) (point_of_scalar b).

Local Notation child := (HD.child point hmac512 point_of_scalar padd pzero ser_point parse_point hash160).
Local Notation neuter := (HD.neuter point point_of_scalar ser_point).
Local Notation derive := (HD.derive point hmac512 point_of_scalar padd pzero ser_point parse_point hash160).
Local Notation derive_from_seed := (HD.derive_from_seed point hmac512 point_of_scalar padd pzero ser_point parse_point hash160).
Local Notation to_string := (HD.to_string point point_of_scalar ser_point dsha).
Local Notation address := (HD.address point point_of_scalar ser_point hash160).
Local Notation embed_pub := (embed_pub point ser_point).
Local Notation embed_pub_res := (embed_pub_res point ser_point).
Local Notation I_priv := (I_priv point hmac512 point_of_scalar ser_point).
Local Notation I_pub := (I_pub point hmac512 ser_point).
Local Notation child_priv_node := (child_priv_node point hmac512 point_of_scalar ser_point hash160).
Local Notation child_pub_node := (child_pub_node point hmac512 point_of_scalar padd pzero ser_point hash160).
Local Notation derive_priv := (derive_priv point hmac512 point_of_scalar ser_point hash160).
Local Notation derive_pub := (derive_pub point hmac512 point_of_scalar padd pzero ser_point hash160).
Local Notation nogap_priv := (nogap_priv point hmac512 point_of_scalar ser_point hash160).
Local Notation nogap_pub := (nogap_pub point hmac512 point_of_scalar padd pzero ser_point hash160).
Local Notation reachable := (reachable point hmac512 point_of_scalar padd pzero ser_point parse_point hash160).

(* one private step: Child on the Go form of a specification node IS the Go form of CKDpriv's result
   (all seven fields: version, key bytes = ser256(k_i), chain code, fingerprint, depth, child number, flag) *)
Theorem C04_child_priv_conforms : forall ver nd i,
  (0 < s_k nd < Bip32Spec.n)%Z -> (0 <= s_depth nd < 255)%Z -> (0 <= i < 2 ^ 32)%Z ->
  let il := parse256 (IL (I_priv (s_k nd) (s_c nd) i)) in
  il <> 0%Z ->
  ((il < Bip32Spec.n)%Z -> ((il + s_k nd) mod Bip32Spec.n <> 0)%Z) ->
  child (embed_priv ver nd) (Z.to_N i) = embed_res (embed_priv ver) (child_priv_node nd i).
Proof. exact (child_priv_conforms point hmac512 point_of_scalar padd pzero ser_point parse_point hash160 H_hmac_len H_ser_len). Qed.

(* one public step *)
Theorem C04_child_pub_conforms : forall ver nd i,
  pzero (p_K nd) = false -> (0 <= p_depth nd < 255)%Z -> (0 <= i < 2 ^ 31)%Z ->
  let il := parse256 (IL (I_pub (p_K nd) (p_c nd) i)) in
  il <> 0%Z ->
  ((il < Bip32Spec.n)%Z -> pzero (padd (point_of_scalar il) (p_K nd)) = false) ->
  child (embed_pub ver nd) (Z.to_N i) = embed_pub_res ver (child_pub_node nd i).
Proof. exact (child_pub_conforms point hmac512 point_of_scalar padd pzero ser_point parse_point hash160 H_hmac_len H_ser_len H_parse_ser H_mul_nonzero). Qed.

(* NewMaster on a seed of legal length *)
Theorem C04_master_conforms : forall seed nt,
  seed_length_ok seed ->
  HD.new_master hmac512 seed nt =
    match master_node hmac512 seed with Some nd => Ok (embed_priv (hd_priv_id nt) nd) | None => Err E_unusable end.
Proof. exact (master_conforms hmac512 H_hmac_len H_hmac_bytes). Qed.

(* any path from any legal seed (fold of Child after NewMaster) *)
Theorem C04_path_conforms : forall seed nt path,
  seed_length_ok seed -> (length path <= 255)%nat -> Forall index_ok path ->
  match master_node hmac512 seed with Some m => nogap_priv m path | None => True end ->
  derive_from_seed seed nt (map Z.to_N path) =
    match master_node hmac512 seed with
    | Some m => embed_res (embed_priv (hd_priv_id nt)) (derive_priv m path)
    | None => Err E_unusable
    end.
Proof. exact (seed_path_conforms point hmac512 point_of_scalar padd pzero ser_point parse_point hash160 H_hmac_len H_hmac_bytes H_ser_len). Qed.

(* any non-hardened path from any public node *)
Theorem C04_path_conforms_pub : forall ver path nd,
  pzero (p_K nd) = false -> (0 <= p_depth nd)%Z -> (p_depth nd + Z.of_nat (length path) <= 255)%Z ->
  Forall normal_index path -> nogap_pub nd path ->
  derive (embed_pub ver nd) (map Z.to_N path) = embed_pub_res ver (derive_pub nd path).
Proof. exact (path_conforms_pub point hmac512 point_of_scalar padd pzero ser_point parse_point hash160 H_hmac_len H_ser_len H_parse_ser H_mul_nonzero). Qed.

(* what the Go form of a specification node prints: the BIP's serialisation, identifier, and N() *)
Theorem C04_observables_priv : forall ver pubver nd,
  (0 <= s_k nd < Bip32Spec.n)%Z -> priv_to_pub_id ver = Ok pubver ->
  to_string (embed_priv ver nd) = string_priv dsha ver nd /\
  address (embed_priv ver nd) = Ok (identifier point ser_point hash160 (point_of_scalar (s_k nd))) /\
  neuter (embed_priv ver nd) = Ok (embed_pub pubver (neuter_node point point_of_scalar nd)).
Proof.
  intros ver pubver nd Hk Hv.
  exact (conj (string_priv_conforms point point_of_scalar ser_point dsha ver nd)
        (conj (address_priv_conforms point point_of_scalar ser_point hash160 H_h160_len ver nd Hk)
              (neuter_conforms point point_of_scalar ser_point ver pubver nd Hk Hv))).
Qed.

Theorem C04_observables_pub : forall ver nd,
  to_string (embed_pub ver nd) = string_pub point ser_point dsha ver nd /\
  address (embed_pub ver nd) = Ok (identifier point ser_point hash160 (p_K nd)).
Proof.
  intros ver nd.
  exact (conj (string_pub_conforms point point_of_scalar ser_point dsha H_ser_len ver nd)
              (address_pub_conforms point point_of_scalar ser_point hash160 H_h160_len ver nd)).
Qed.

(* every network's private version is registered with its public version, so Neuter cannot fail on them *)
Theorem C04_registered_ids : forall nt, In nt all_nets -> priv_to_pub_id (hd_priv_id nt) = Ok (hd_pub_id nt).
Proof. exact priv_to_pub_id_net. Qed.

(* |key| = 32 (private) / 33 (public) on everything reachable by NewMaster, Child, Neuter *)
Theorem C04_key_length_invariant : forall k,
  reachable k -> length (xk_key k) = if xk_priv k then 32%nat else 33%nat.
Proof. exact (key_length_invariant point hmac512 point_of_scalar padd pzero ser_point parse_point hash160 H_hmac_len H_ser_len). Qed.

(* Child (Neuter k) i = Neuter (Child k i) for i < 2^31 (both sides in the error monad) *)
Theorem C04_neuter_commutes : forall k i v,
  xk_priv k = true -> length (xk_key k) = 32%nat -> 0 < set_bytes (xk_key k) < secp_nN ->
  i < 2 ^ 31 -> priv_to_pub_id (xk_version k) = Ok v ->
  (do kn <- neuter k ;; child kn i) = (do c <- child k i ;; neuter c).
Proof. exact (neuter_commutes point hmac512 point_of_scalar padd pzero ser_point parse_point hash160 H_hmac_len H_ser_len H_parse_ser H_mul_nonzero H_hom). Qed.

(* guards *)
Theorem C04_guard_depth : forall k i, xk_depth k = 255 -> child k i = Err E_depth.
Proof. exact (guard_depth point hmac512 point_of_scalar padd pzero ser_point parse_point hash160). Qed.

Theorem C04_guard_hardened_from_public : forall k i,
  xk_depth k <> 255 -> xk_priv k = false -> 2 ^ 31 <= i -> child k i = Err E_hardpub.
Proof. exact (guard_hardened_from_public point hmac512 point_of_scalar padd pzero ser_point parse_point hash160). Qed.

Theorem C04_guard_seed_length : forall seed nt,
  (length seed < 16 \/ 64 < length seed)%nat -> HD.new_master hmac512 seed nt = Err E_seedlen.
Proof. exact (guard_seed_length hmac512). Qed.

End C04.

Print Assumptions C04_child_priv_conforms.
Print Assumptions C04_child_pub_conforms.
Print Assumptions C04_master_conforms.
Print Assumptions C04_path_conforms.
Print Assumptions C04_path_conforms_pub.
Print Assumptions C04_observables_priv.
Print Assumptions C04_observables_pub.
Print Assumptions C04_registered_ids.
Print Assumptions C04_key_length_invariant.
Print Assumptions C04_neuter_commutes.
Print Assumptions C04_guard_depth.
Print Assumptions C04_guard_hardened_from_public.
Print Assumptions C04_guard_seed_length.

(* the k_i = 0 gap (code returns the all-zero key; BIP: invalid) and the IL = 0 gap (code: ErrInvalidChild; BIP: valid) *)
Theorem C04_child_zero_gap :
  exists hmac : list N -> list N -> list N,
    HD.child Z hmac gap_point_of gap_padd gap_pzero gap_ser gap_parse gap_h160 (embed_priv [4;136;173;228] gap_node) 0
      = Ok (mk_xkey [4;136;173;228] (repeat 0 32) (repeat 9 32) (repeat 0 4) 1 0 true) /\
    child_priv_node Z hmac gap_point_of gap_ser gap_h160 gap_node 0 = None.
Proof. exact child_zero_gap. Qed.
Print Assumptions C04_child_zero_gap.

Theorem C04_child_ilzero_gap :
  exists hmac : list N -> list N -> list N,
    HD.child Z hmac gap_point_of gap_padd gap_pzero gap_ser gap_parse gap_h160 (embed_priv [4;136;173;228] gap_node) 0
      = Err E_invalid_child /\
    child_priv_node Z hmac gap_point_of gap_ser gap_h160 gap_node 0 <> None.
Proof. exact child_ilzero_gap. Qed.
Print Assumptions C04_child_ilzero_gap.

(* Examples: BIP32 test vector 1 through the model (tabulated dependencies), and the theorems' premises on it *)
Example C04_vector1_m_0H_1 :
  match tv1_derive [2 ^ 31; 1] with
  | Ok k => r_to_string tv1_oracle k = xprv_m_0H_1 /\
            (match r_neuter tv1_oracle k with Ok nk => r_to_string tv1_oracle nk = xpub_m_0H_1 | _ => False end) /\
            r_address tv1_oracle k = Ok h160_m_0H_1
  | _ => False
  end.
Proof. exact tv1_m_0H_1. Qed.

Example C04_vector1_premises :
  match tv1_master with
  | Some m =>
      (0 < s_k m < Bip32Spec.n)%Z /\
      HDProofs.nogap_priv pt (r_hmac tv1_oracle) (r_mul tv1_oracle) r_ser (r_h160 tv1_oracle) m [(2 ^ 31)%Z; 1%Z]
  | None => False
  end.
Proof. exact tv1_premises. Qed.

(* the Section hypotheses about the dependencies are jointly satisfiable (the group Z_n, constant HMAC/HASH160,
   the real SHA-256d): the theorems above are not vacuous *)
Example C04_hypotheses_consistent : hypotheses_statement.
Proof. exact hypotheses_consistent. Qed.

(* C12 — merkle proof extraction (merkleblock.NewMerkleBlockFromMsg + PartialBlock.ExtractMatches)
   is sound against malformed or malicious messages.  Only statements; every proof is
   `exact <lemma proved in Merkle/*.v>`.

   [node_hash] stands for blockchain.HashMerkleBranches (double SHA-256 of the concatenation): an
   arbitrary function, nothing is assumed about it.  [maxtx] is the package variable MaxTxnCount
   (2098360 in this tree; the theorems hold for any value below 2^31, where the uint32 arithmetic of
   calcTreeWidth cannot wrap).  [msg_in_domain m]: len(Flags)*8 < 2^32 and len(Hashes) < 2^32 - beyond that
   the uint32 conversions of the lengths in NewMerkleBlockFromMsg / ExtractMatches wrap (2^29 flag bytes:
   no bit is decoded) and the model, which does not wrap there, is no longer the code; the theorems whose
   truth about the CODE depends on it carry the hypothesis (the machine-translated tie
   Tie/Kernels3_MerkleExtract.v is proved under the same one).  Error classes of the model: 1 zero transactions, 2 too many, 3 more
   hashes than transactions, 4 fewer bits than hashes, 5 `bad` latch, 6 unused flag byte, 7 unused hash. *)
From BU Require Import Lib.Bytes Merkle.Merkle Merkle.PmtSpec Merkle.MerkleArith Merkle.ExtractProofs
  Merkle.PmtProofs Merkle.ExtractTop Merkle.MerkleExamples.

Local Open Scope N_scope.

(* Whatever is accepted is the evaluation of a partial merkle tree [t] of the BIP37 shape for the
   declared transaction count, parsed from exactly all hashes and all flag bits but fewer than 8
   padding bits, without equal children; root and matches are the independent recursive evaluations
   of [t] (PmtSpec.v), and every reported (position, hash) has a merkle path (ordinary SPV
   verification) to the returned root at that position. *)
Theorem C12_extract_sound : forall node_hash maxtx m root ms,
  maxtx < 2 ^ 31 -> msg_in_domain m ->
  extract node_hash maxtx m = Ok (root, ms) ->
  1 <= m_transactions m <= maxtx /\
  (length (m_hashes m) <= N.to_nat (m_transactions m))%nat /\
  exists H t pad,
    accepted_as node_hash m H t pad root ms /\
    Forall (fun ph => has_merkle_path node_hash (m_transactions m) H root (fst ph) (snd ph)) ms.
Proof. exact extract_sound_dom. Qed.
Print Assumptions C12_extract_sound.

(* the reported matches come in block order: strictly increasing positions, no position twice *)
Theorem C12_matches_in_block_order : forall node_hash maxtx m root ms,
  maxtx < 2 ^ 31 -> msg_in_domain m ->
  extract node_hash maxtx m = Ok (root, ms) -> Sorted.StronglySorted pos_lt ms.
Proof. exact extract_matches_increasing_dom. Qed.
Print Assumptions C12_matches_in_block_order.

(* the tree of [C12_extract_sound] is unique: the serialisation of well-shaped trees is prefix-free *)
Theorem C12_parse_unique : forall n h pos t t' (r1 r2 : list N) (q1 q2 : list hash),
  shape n h pos t -> shape n h pos t' ->
  map b2n (pmt_flags t) ++ r1 = map b2n (pmt_flags t') ++ r2 ->
  pmt_hashes t ++ q1 = pmt_hashes t' ++ q2 ->
  t = t' /\ r1 = r2 /\ q1 = q2.
Proof. exact parse_unique. Qed.
Print Assumptions C12_parse_unique.

(* conversely every message of that form is accepted: acceptance is characterised exactly *)
Theorem C12_extract_complete : forall node_hash maxtx m H t pad,
  maxtx < 2 ^ 31 ->
  1 <= m_transactions m <= maxtx ->
  N.of_nat (length (m_flags m)) * 8 < 2 ^ 32 ->
  accepted_as node_hash m H t pad (pmt_root node_hash t) (pmt_matches 0 t) ->
  extract node_hash maxtx m = Ok (pmt_root node_hash t, pmt_matches 0 t).
Proof. exact extract_complete. Qed.
Print Assumptions C12_extract_complete.

(* ---------------- the rejection rules ---------------- *)
Theorem C12_extract_rejects_zero_transactions : forall node_hash maxtx m,
  m_transactions m = 0 -> extract node_hash maxtx m = Err 1.
Proof. exact extract_rejects_zero_transactions. Qed.
Print Assumptions C12_extract_rejects_zero_transactions.

Theorem C12_extract_rejects_too_many_transactions : forall node_hash maxtx m,
  maxtx < m_transactions m -> extract node_hash maxtx m = Err 2.
Proof. exact extract_rejects_too_many_transactions. Qed.
Print Assumptions C12_extract_rejects_too_many_transactions.

Theorem C12_extract_rejects_more_hashes_than_transactions : forall node_hash maxtx, maxtx < 2 ^ 31 -> forall m, msg_in_domain m ->
  (N.to_nat (m_transactions m) < length (m_hashes m))%nat -> forall r, extract node_hash maxtx m <> Ok r.
Proof. exact extract_rejects_more_hashes_than_transactions_dom. Qed.
Print Assumptions C12_extract_rejects_more_hashes_than_transactions.

Theorem C12_extract_rejects_fewer_bits_than_hashes : forall node_hash maxtx, maxtx < 2 ^ 31 -> forall m, msg_in_domain m ->
  (8 * length (m_flags m) < length (m_hashes m))%nat -> forall r, extract node_hash maxtx m <> Ok r.
Proof. exact extract_rejects_fewer_bits_than_hashes_dom. Qed.
Print Assumptions C12_extract_rejects_fewer_bits_than_hashes.

(* The traversal rules.  [t] is any tree of the right shape (height [H] of the declared count) whose
   serialisation the message starts with, or is cut short of. *)
Theorem C12_extract_rejects_bits_exhausted : forall node_hash maxtx, maxtx < 2 ^ 31 -> forall m, msg_in_domain m -> forall H,
  is_height (m_transactions m) H -> forall t, shape (m_transactions m) H 0 t ->
  forall more, map b2n (pmt_flags t) = bits_of_flags (m_flags m) ++ more -> more <> [] ->
  forall r, extract node_hash maxtx m <> Ok r.
Proof. exact extract_rejects_bits_exhausted_dom. Qed.
Print Assumptions C12_extract_rejects_bits_exhausted.

Theorem C12_extract_rejects_hashes_exhausted : forall node_hash maxtx, maxtx < 2 ^ 31 -> forall m, msg_in_domain m -> forall H,
  is_height (m_transactions m) H -> forall t, shape (m_transactions m) H 0 t ->
  forall rest, bits_of_flags (m_flags m) = map b2n (pmt_flags t) ++ rest ->
  (length (m_hashes m) < length (pmt_hashes t))%nat ->
  forall r, extract node_hash maxtx m <> Ok r.
Proof. exact extract_rejects_hashes_exhausted_dom. Qed.
Print Assumptions C12_extract_rejects_hashes_exhausted.

Theorem C12_extract_rejects_unused_hash : forall node_hash maxtx, maxtx < 2 ^ 31 -> forall m, msg_in_domain m -> forall H,
  is_height (m_transactions m) H -> forall t, shape (m_transactions m) H 0 t ->
  forall rest, bits_of_flags (m_flags m) = map b2n (pmt_flags t) ++ rest ->
  (length (pmt_hashes t) < length (m_hashes m))%nat ->
  forall r, extract node_hash maxtx m <> Ok r.
Proof. exact extract_rejects_unused_hash_dom. Qed.
Print Assumptions C12_extract_rejects_unused_hash.

Theorem C12_extract_rejects_unused_flag_byte : forall node_hash maxtx, maxtx < 2 ^ 31 -> forall m, msg_in_domain m -> forall H,
  is_height (m_transactions m) H -> forall t, shape (m_transactions m) H 0 t ->
  forall rest, bits_of_flags (m_flags m) = map b2n (pmt_flags t) ++ rest ->
  (8 <= length rest)%nat ->
  forall r, extract node_hash maxtx m <> Ok r.
Proof. exact extract_rejects_unused_flag_byte_dom. Qed.
Print Assumptions C12_extract_rejects_unused_flag_byte.

(* CVE-2012-2459 *)
Theorem C12_extract_rejects_equal_children : forall node_hash maxtx, maxtx < 2 ^ 31 -> forall m, msg_in_domain m -> forall H,
  is_height (m_transactions m) H -> forall t, shape (m_transactions m) H 0 t ->
  forall restb resth,
  bits_of_flags (m_flags m) = map b2n (pmt_flags t) ++ restb ->
  m_hashes m = pmt_hashes t ++ resth ->
  ~ no_equal_children node_hash t ->
  forall r, extract node_hash maxtx m <> Ok r.
Proof. exact extract_rejects_equal_children_dom. Qed.
Print Assumptions C12_extract_rejects_equal_children.

(* ---------------- cost (referenced by C08 as merkle_cost) ---------------- *)
(* traverseAndExtract is entered at most 2*|bits|+1 <= 3*|bits|+1 times whatever the message says (every
   call that finds a flag bit consumes it; a call made after the bits ran out returns at once, and each
   consuming call makes at most two calls); the recursion is structural on `height`, so its depth is the
   tree height + 1, and the height is at most k when MaxTxnCount <= 2^k (21 for 2098360). *)
Theorem C12_extract_cost : forall node_hash maxtx m, msg_in_domain m ->
  (extract_calls node_hash maxtx m <= 2 * (8 * length (m_flags m)) + 1)%nat /\
  (forall n k, maxtx < 2 ^ 31 -> n <= maxtx -> maxtx <= 2 ^ N.of_nat k ->
     exists H : nat, height_loop (pb_tree_width n) 1 height_fuel 0 = Ok (N.of_nat H) /\ (H <= k)%nat).
Proof. exact extract_cost_depth_dom. Qed.
Print Assumptions C12_extract_cost.

(* ExtractMatches does not panic on any message (used by C08) *)
Theorem C12_extract_no_panic : forall node_hash maxtx m, msg_in_domain m -> is_panic (extract node_hash maxtx m) = false.
Proof. exact extract_no_panic_dom. Qed.
Print Assumptions C12_extract_no_panic.

(* the hypotheses are satisfiable: a 7-transaction proof revealing transactions 2 and 6 is accepted;
   a CVE-2012-2459-shaped message is rejected by the latch *)
Theorem C12_example_accepted :
  extract toy_hash 2098360 msg7 = Ok (merkle_root toy_hash leaves7, [(2, [3]); (6, [7])]).
Proof. exact msg7_extracts. Qed.
Print Assumptions C12_example_accepted.

Theorem C12_example_cve_2012_2459 :
  extract toy_hash 2098360 (mkMsg [] 4 [[1]; [2]; [1]; [2]] [127]) = Err 5.
Proof. exact cve_2012_2459_rejected. Qed.
Print Assumptions C12_example_cve_2012_2459.

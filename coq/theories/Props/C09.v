(* C09 — bloom filters have no false negatives and are bit-exact BIP37.
   Only statements; every proof is `exact <lemma proved elsewhere>`. *)
From BU Require Import Lib.Bytes Bloom.Murmur3 Bloom.Bloom Bloom.Bip37Spec Bloom.BloomProofs Bloom.Bip37Proofs.
From BU Require Import Bloom.SizingProofs Bloom.Bip37History.
From BU Require Import Gen.Kernels Tie.KernelsTieMurmur.

(* the hand-written MurmurHash3 model equals the Gallina term that harness/cmd/gotrans translates from the AST of
   bloom/murmurhash3.go on every run: a structural change of MurmurHash3 breaks this obligation *)
Theorem C09_murmur3_is_translated_source : forall seed data,
  seed < 2 ^ 32 -> Bytes data -> N.of_nat (length data) < 2 ^ 32 ->
  Kernels.MurmurHash3 seed data = murmur3 seed data.
Proof. exact MurmurHash3_tie. Qed.
Print Assumptions C09_murmur3_is_translated_source.

(* an item just added to a loaded filter matches (len_ok: uint32(len)<<3 does not wrap, implied by the wire limit) *)
Theorem C09_add_matches : forall f x, len_ok f -> is_loaded f = true -> matches (add f x) x = true.
Proof. exact add_matches. Qed.
Print Assumptions C09_add_matches.

(* later insertions never un-match an item: bytes only gain bits *)
Theorem C09_add_monotone : forall f x y, matches f x = true -> matches (add f y) x = true.
Proof. exact add_monotone. Qed.
Print Assumptions C09_add_monotone.

Theorem C09_add_bits_monotone : forall f x m m' k,
  f = Some m -> add f x = Some m' -> get_bit (m_bytes m) k = true -> get_bit (m_bytes m') k = true.
Proof. exact add_bits_monotone. Qed.
Print Assumptions C09_add_bits_monotone.

(* after ANY sequence of Add/AddHash/AddOutPoint/Matches/MatchesOutPoint/Reload/Unload/IsLoaded from any
   starting filter, every item added since the last Reload/Unload matches if the filter is still loaded *)
Theorem C09_history_no_false_negative : forall f ops x,
  len_ok f -> reloads_ok ops ->
  In x (live_items [] ops) -> is_loaded (final f ops) = true -> matches (final f ops) x = true.
Proof. exact history_no_false_negative. Qed.
Print Assumptions C09_history_no_false_negative.

(* the shifts/masks/two-step wrap of the source = BIP37's "bit number = MurmurHash3(nHashNum*0xFBA4C795+nTweak)
   mod bit length", membership = all selected bits set, insertion = exactly those bits additionally set; the
   resulting byte string is the only one with that property (bit-exactness) *)
Theorem C09_model_is_bip37 : forall m item,
  bip37_wf m ->
  (forall i, i < m_nhash m -> bit_index m i item = spec_bit_number (length (m_bytes m)) (m_tweak m) i item) /\
  (matches (Some m) item = true <-> spec_contains (m_nhash m) (m_tweak m) item (m_bytes m)) /\
  (exists v', add (Some m) item = Some (MkMsg v' (m_nhash m) (m_tweak m) (m_flags m)) /\
              spec_insert (m_nhash m) (m_tweak m) item (m_bytes m) v' /\
              forall v'', spec_insert (m_nhash m) (m_tweak m) item (m_bytes m) v'' -> v'' = v').
Proof. exact model_is_bip37. Qed.
Print Assumptions C09_model_is_bip37.

(* bit-exactness of whole histories (review round 2).  From the moment a well-formed message m was loaded
   (LoadFilter(m) is the case pre = []; f and pre are arbitrary), after ANY sequence of insertions and queries
   without a further Reload/Unload: the filter is still loaded with m's parameters, its bit array v is the one
   BIP37 defines -- m's bits plus exactly the bits "MurmurHash3(i*0xFBA4C795+tweak, item) mod bit length",
   i < nHashFuncs, of every inserted byte string / hash / serialised outpoint, and nothing else -- v is the
   only byte string with that property, and every membership answer (byte strings and outpoints) is BIP37's
   answer on v. *)
Theorem C09_history_is_bip37 : forall f pre m ops,
  bip37_wf m -> no_reset ops ->
  exists v, final f (pre ++ OReload (Some m) :: ops) = Some (MkMsg v (m_nhash m) (m_tweak m) (m_flags m)) /\
    spec_after (m_nhash m) (m_tweak m) (live_items [] ops) (m_bytes m) v /\
    (forall v', spec_after (m_nhash m) (m_tweak m) (live_items [] ops) (m_bytes m) v' -> v' = v) /\
    (forall d, matches (final f (pre ++ OReload (Some m) :: ops)) d = true <-> spec_contains (m_nhash m) (m_tweak m) d v) /\
    (forall txid index, index < 2^32 ->
       (matches_outpoint (final f (pre ++ OReload (Some m) :: ops)) txid index = true <->
        spec_contains (m_nhash m) (m_tweak m) (spec_outpoint txid index) v)).
Proof. exact history_is_bip37. Qed.
Print Assumptions C09_history_is_bip37.

Theorem C09_outpoint_is_bip37 : forall txid index, index < 2^32 -> outpoint_bytes txid index = spec_outpoint txid index.
Proof. exact outpoint_is_bip37. Qed.
Print Assumptions C09_outpoint_is_bip37.

(* the serialisation used by MatchesOutPoint (a second copy of the code in the source) is the same one *)
Theorem C09_outpoint_query_is_bip37 : forall f txid index, index < 2^32 ->
  matches_outpoint f txid index = matches f (spec_outpoint txid index).
Proof. exact (fun f txid index H => eq_trans (matches_outpoint_eq f txid index) (f_equal (matches f) (outpoint_is_bip37 txid index H))). Qed.
Print Assumptions C09_outpoint_query_is_bip37.

Theorem C09_wire_limits_are_bip37 : max_filter_size = spec_max_size /\ max_hash_funcs = spec_max_hash_funcs.
Proof. exact limits_are_bip37. Qed.
Print Assumptions C09_wire_limits_are_bip37.

(* an unloaded filter matches nothing, ignores insertions and stays unloaded until a Reload *)
Theorem C09_unloaded_inert : forall ops,
  no_reload ops ->
  final None ops = None /\ Forall2 (fun o r => r = negb (is_query o)) ops (snd (run None ops)).
Proof. exact unloaded_inert. Qed.
Print Assumptions C09_unloaded_inert.

(* NewFilter: whatever the two float->uint32 conversions yield (huge, zero, negative, NaN arguments included),
   the array has at most 36000 bytes and at most 50 hash functions are used *)
Theorem C09_sizing_within_limits : forall conv_len conv_hash,
  fst (sizing conv_len conv_hash) <= max_filter_size /\ snd (sizing conv_len conv_hash) <= max_hash_funcs.
Proof. exact sizing_within_limits. Qed.
Print Assumptions C09_sizing_within_limits.

Theorem C09_new_filter_within_limits : forall conv_len conv_hash tweak flags,
  exists m, new_filter conv_len conv_hash tweak flags = Some m /\ within_wire_limits m /\ len_ok_msg m /\
            Forall (fun b => b = 0) (m_bytes m) /\ m_tweak m < 2^32.
Proof. exact new_filter_within_limits. Qed.
Print Assumptions C09_new_filter_within_limits.

(* the massaging of fprate (IEEE comparisons; lo = the float64 1e-9): every non-NaN argument — negative, zero,
   huge, infinite — ends in [lo, 1]; NaN passes through (and is then absorbed by the clamps above) *)
Theorem C09_fprate_clamp : forall lo : QArith_base.Q,
  QArith_base.Qlt (QArith_base.Qmake 0%Z 1%positive) lo -> QArith_base.Qle lo (QArith_base.Qmake 1%Z 1%positive) ->
  SizingProofs.clamp_fprate lo SizingProofs.FNaN = SizingProofs.FNaN /\ forall p, p <> SizingProofs.FNaN ->
    exists q, SizingProofs.clamp_fprate lo p = SizingProofs.FFin q /\ QArith_base.Qle lo q /\ QArith_base.Qle q (QArith_base.Qmake 1%Z 1%positive).
Proof. intros lo H1 H2. split; [exact (SizingProofs.clamp_nan lo)|exact (SizingProofs.clamp_range lo H2)]. Qed.
Print Assumptions C09_fprate_clamp.

(* the empty array behaves as in Bitcoin Core since CVE-2013-5700: matches everything, insertion is a no-op
   (so "no false negatives" holds there too, and nothing divides by zero) *)
Theorem C09_empty_array : forall m x, m_bytes m = [] -> matches (Some m) x = true /\ add (Some m) x = Some m.
Proof. exact empty_array. Qed.
Print Assumptions C09_empty_array.

(* every index the model computes lies inside the array: the default branches of nth/upd are unreachable *)
Theorem C09_bit_index_in_range : forall m i d,
  len_ok_msg m -> m_bytes m <> [] -> bit_index m i d / 8 < N.of_nat (length (m_bytes m)).
Proof. exact bit_index_in_range. Qed.
Print Assumptions C09_bit_index_in_range.

(* hypotheses are satisfiable: Bitcoin Core's vector (3 bytes, 5 hash functions, tweak 2^31+1 wraps the seed) *)
Example C09_example :
  bip37_wf (MkMsg [0;0;0] 5 2147483649 1) /\
  option_map m_bytes (core_run 2147483649) = Some [0xce;0x42;0x99] /\
  seed_of 4 2147483649 = 1855135317 /\ 4 * 0xFBA4C795 + 2147483649 >= 2^32.
Proof.
  split; [|vm_compute; repeat split; discriminate].
  unfold bip37_wf, len_ok_msg. cbn [m_bytes m_nhash m_tweak length]. repeat split; try lia; try discriminate.
  repeat constructor; lia.
Qed.

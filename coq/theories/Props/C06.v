(* C06 — WIF private-key strings round-trip, are canonical and checksum-guarded.
   Only statements; every proof is `exact <lemma proved in Wif/WifProofs.v>`. *)
From BU Require Import Lib.Bytes Lib.Sha256 Base58.Base58 Gen.Nets Wif.Wif Wif.WifProofs Wif.WifHist Wif.WifHistProofs.

(* every 32-byte key x compression flag x network id: the WIF string decodes back to the same
   scalar, flag and network id; the decoded key serialises (PrivKey.Serialize) to the same 32 bytes,
   however many leading zero bytes it has *)
Theorem C06_decode_encode : forall key net flag,
  Bytes key -> length key = 32%nat -> net < 256 ->
  decode_wif (wif_string (new_wif key net flag)) = Ok (new_wif key net flag) /\
  priv_serialize (new_wif key net flag) = key /\
  is_for_net (new_wif key net flag) net = true.
Proof. exact decode_encode. Qed.
Print Assumptions C06_decode_encode.

(* canonicity: every accepted string re-encodes to itself *)
Theorem C06_encode_decode : forall s w, decode_wif s = Ok w -> wif_string w = s.
Proof. exact encode_decode. Qed.
Print Assumptions C06_encode_decode.

(* accepted <=> Base58-decodes to 37 bytes, or 38 bytes with byte 33 = 0x01, whose last four bytes
   are the double-SHA256 prefix of the rest; the fields are the net byte, the 32 key bytes, the flag *)
Theorem C06_accept_iff : forall s w,
  decode_wif s = Ok w <->
  let d := Base58.decode s in
  ((length d = 37%nat /\ w_compress w = false) \/ (length d = 38%nat /\ nth 33 d 0 = 1 /\ w_compress w = true)) /\
  skipn (length d - 4) d = firstn 4 (sha256d (firstn (length d - 4) d)) /\
  w_net w = hd 0 d /\ w_d w = set_bytes (firstn 32 (skipn 1 d)).
Proof. exact accept_iff. Qed.
Print Assumptions C06_accept_iff.

(* DecodeWIF never panics; it fails only as ErrMalformedPrivateKey (1) or ErrChecksumMismatch (2) *)
Theorem C06_decode_total : forall s,
  (exists w, decode_wif s = Ok w) \/ decode_wif s = Err 1 \/ decode_wif s = Err 2.
Proof. exact decode_total. Qed.
Print Assumptions C06_decode_total.

(* the public key is serialised in 33 bytes (compressed) or 65 bytes (uncompressed) by the flag, for
   any scalar-multiplication function whose coordinates are field elements (< 2^256) *)
Theorem C06_pubkey_len : forall (base_mult : N -> N * N),
  (forall d, fst (base_mult d) < 256 ^ 32 /\ snd (base_mult d) < 256 ^ 32) ->
  forall w, length (serialize_pubkey base_mult w) = if w_compress w then 33%nat else 65%nat.
Proof. exact pubkey_len. Qed.
Print Assumptions C06_pubkey_len.

(* ... and it is the SEC1 encoding of that point: 02/03 by parity of y then x, or 04 then x then y *)
Theorem C06_pubkey_format : forall (base_mult : N -> N * N),
  (forall d, fst (base_mult d) < 256 ^ 32 /\ snd (base_mult d) < 256 ^ 32) ->
  forall w, let p := base_mult (w_d w) in
  exists xb yb, length xb = 32%nat /\ length yb = 32%nat /\ set_bytes xb = fst p /\ set_bytes yb = snd p /\
    serialize_pubkey base_mult w =
      if w_compress w then (if N.odd (snd p) then 3 else 2) :: xb else 4 :: xb ++ yb.
Proof. exact pubkey_format. Qed.
Print Assumptions C06_pubkey_format.

(* the hypotheses are satisfiable: a key with 31 leading zero bytes on every network of chaincfg,
   both flags (the padding path of WIF.String) *)
Example C06_example_padded :
  forallb (fun nt => forallb (fun flag =>
    let key := repeat 0 31 ++ [1] in
    match decode_wif (wif_string (new_wif key (wif_id nt) flag)) with
    | Ok w => list_eqb (priv_serialize w) key && Bool.eqb (w_compress w) flag && (w_net w =? wif_id nt)
    | _ => false end) [true; false]) all_nets = true.
Proof. vm_compute. reflexivity. Qed.

(* the well-known mainnet uncompressed WIF of the scalar 1 *)
Example C06_example_known :
  wif_string (new_wif (repeat 0 31 ++ [1]) 128 false) =
  [53;72;112;72;97;103;84;54;53;84;90;122;71;49;80;72;51;67;83;117;54;51;107;56;68;98;112;118;68;56;115;53;105;112;52;110;69;66;51;107;69;115;114;101;65;110;99;104;117;68;102].
Proof. vm_compute. reflexivity. Qed.

(* ---------- histories on ONE WIF value (round 4) ----------
   CompressPubKey is an exported field and String / SerializePubKey can be called in any order, any number of
   times.  For EVERY history of flag assignments and calls, every answer is the answer of a fresh value built
   from the original key, the original network and the flag in force at that call (nothing is remembered
   between calls) ... *)
Theorem C06_history : forall (base_mult : N -> N * N) key net ops flag,
  wrun base_mult (new_wif key net flag) ops = wspec base_mult key net flag ops.
Proof. exact history_spec. Qed.
Print Assumptions C06_history.

(* ... and after every history the value still is (key, net, flag in force): its string decodes back to
   the same key bytes, that flag and that network *)
Theorem C06_history_then_decode : forall (base_mult : N -> N * N) key net ops flag,
  Bytes key -> length key = 32%nat -> net < 256 ->
  let w := wfinal base_mult (new_wif key net flag) ops in
  decode_wif (wif_string w) = Ok (new_wif key net (flag_after flag ops)) /\
  priv_serialize w = key /\ w_compress w = flag_after flag ops /\ is_for_net w net = true.
Proof. exact history_then_decode. Qed.
Print Assumptions C06_history_then_decode.

(* a concrete history: the two serialisations alternate with the flag (33 / 65 bytes), the strings too (52 / 51 characters) *)
Example C06_example_history :
  map (@length N) (wrun (fun _ => (1, 2)) (new_wif (repeat 0 31 ++ [1]) 128 false)
                        [Ser; Str; SetFlag true; Ser; Str; SetFlag false; Ser]) =
  [65; 51; 0; 33; 52; 0; 65]%nat.
Proof. vm_compute. reflexivity. Qed.

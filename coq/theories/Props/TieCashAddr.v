(* Translator tie (coordinator-owned): the CashAddr layer of address.go, regenerated from the Go ASTs on every
   run (harness/cmd/gotrans -> Gen/Kernels.v, Gen/Kernels2.v), IS the hand-written model the C01/C02/C03/C08
   theorems are about.  Only statements; proofs are `exact` of lemmas in Tie/. *)
From BU Require Import Lib.Bytes Gen.Kernels Gen.Kernels2 CashAddr.CashAddr Tie.KernelsTie Tie.Kernels2_CashAddr Tie.Kernels2_CashAddrDecode.

Theorem Tie_polyMod : forall v, Bytes v -> Kernels.polyMod v = CashAddr.polymod v.
Proof. exact polyMod_tie. Qed.
Print Assumptions Tie_polyMod.

Theorem Tie_expandPrefix : forall prefix, Kernels2.expandPrefix prefix = Ok (CashAddr.expand_prefix prefix).
Proof. exact expandPrefix_tie. Qed.
Print Assumptions Tie_expandPrefix.

Theorem Tie_lowerCase : forall c, Kernels2.lowerCase c = CashAddr.lower_case c.
Proof. exact lowerCase_tie. Qed.
Print Assumptions Tie_lowerCase.

Theorem Tie_verifyChecksum : forall prefix payload, Bytes payload ->
  Kernels2.verifyChecksum prefix payload = Ok (CashAddr.verify_checksum prefix payload).
Proof. exact verifyChecksum_tie. Qed.
Print Assumptions Tie_verifyChecksum.

Theorem Tie_createChecksum : forall prefix payload, Bytes payload ->
  Kernels2.createChecksum prefix payload = Ok (CashAddr.create_checksum prefix payload).
Proof. exact createChecksum_tie. Qed.
Print Assumptions Tie_createChecksum.

(* the whole decoder, for every input list, error classes included *)
Theorem Tie_DecodeCashAddress : forall str, Kernels2.DecodeCashAddress str = CashAddr.decode_cashaddr str.
Proof. exact DecodeCashAddress_tie. Qed.
Print Assumptions Tie_DecodeCashAddress.

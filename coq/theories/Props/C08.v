(* C08 — no parser panics, hangs or over-allocates on untrusted input: the part that is PROVED.
   Only statements; every proof is `exact <lemma proved elsewhere>`.

   For each modelled entry point there are up to three statements:
     ..._no_panic          the res-typed model never returns Panic, for every input;
     ..._bounds            the same function written with CHECKED Go slicing/indexing (Panic 2 / Panic 1
                           when a bound is violated, bounds from the literals of the source) equals the
                           model on every input: no slice or index expression of the current code can be
                           out of range;
     ..._old_refuted       the function as it was before the repair panics on the recorded input.
   The entry points whose models belong to other properties (address, WIF, extended keys, bloom,
   block scan, merkle extraction, GCS) are appended below as those models land.
   NOT proved here, observed dynamically by harness/cmd/c08 (see checks.d/C08.json): the wire
   block/transaction deserialisers, encoding/json, the protobuf libraries, math/big, and all running
   time / allocation behaviour of the implementation. *)
From BU Require Import Lib.Bytes CashAddr.CashAddr Base58.Base58 Bech32.Bech32 JsonPb.JsonPb.
From BU Require Import NoPanic.Slices NoPanic.CashAddrNP NoPanic.Base58NP NoPanic.Bech32NP JsonPb.JsonPbProofs.
From BU Require Import Gen.Nets Address.Address Wif.Wif HD.HD NoPanic.AddressNP NoPanic.WifNP NoPanic.HDNP.

(* ---------------- CashAddr: DecodeCashAddress, encode ---------------- *)
Theorem C08_DecodeCashAddress_no_panic : forall str, is_panic (decode_cashaddr str) = false.
Proof. exact CashAddrNP.decode_cashaddr_no_panic. Qed.
Print Assumptions C08_DecodeCashAddress_no_panic.

Theorem C08_DecodeCashAddress_bounds : forall str, CashAddrNP.decode_checked true str = decode_cashaddr str.
Proof. exact CashAddrNP.decode_checked_eq. Qed.
Print Assumptions C08_DecodeCashAddress_bounds.

(* "af:v47zk5g": valid checksum over seven symbols; values[:len(values)-8] with len(values) = 7 *)
Theorem C08_DecodeCashAddress_old_refuted : exists str, CashAddrNP.decode_checked false str = Panic 2.
Proof. exists CashAddrNP.af_v47zk5g. exact CashAddrNP.decode_old_refuted. Qed.
Print Assumptions C08_DecodeCashAddress_old_refuted.

(* encode is internal and only receives 5-bit symbols; on those it cannot index past Charset *)
Theorem C08_cashaddr_encode_no_panic : forall prefix payload,
  Forall (fun c => c < 32) payload -> is_panic (CashAddr.encode prefix payload) = false.
Proof. exact CashAddrNP.encode_no_panic. Qed.
Print Assumptions C08_cashaddr_encode_no_panic.

(* ---------------- Base58Check ---------------- *)
Theorem C08_CheckDecode_no_panic : forall s, is_panic (check_decode s) = false.
Proof. exact Base58NP.check_decode_no_panic. Qed.
Print Assumptions C08_CheckDecode_no_panic.

Theorem C08_CheckDecode_bounds : forall s, Base58NP.check_decode_checked s = check_decode s.
Proof. exact Base58NP.check_decode_checked_eq. Qed.
Print Assumptions C08_CheckDecode_bounds.

(* ---------------- bech32 ---------------- *)
Theorem C08_bech32_Decode_no_panic : forall bech, is_panic (Bech32.decode bech) = false.
Proof. exact Bech32NP.decode_no_panic. Qed.
Print Assumptions C08_bech32_Decode_no_panic.

Theorem C08_bech32_Decode_bounds : forall bech, Bech32NP.decode_checked bech = Bech32.decode bech.
Proof. exact Bech32NP.decode_checked_eq. Qed.
Print Assumptions C08_bech32_Decode_bounds.

Theorem C08_bech32_Encode_no_panic : forall hrp data, is_panic (Bech32.encode hrp data) = false.
Proof. exact Bech32NP.encode_no_panic. Qed.
Print Assumptions C08_bech32_Encode_no_panic.

Theorem C08_bech32_Encode_bounds : forall hrp data, Bech32NP.encode_checked hrp data = Bech32.encode hrp data.
Proof. exact Bech32NP.encode_checked_eq. Qed.
Print Assumptions C08_bech32_Encode_bounds.

Theorem C08_bech32_ConvertBits_no_panic : forall data fromBits toBits pad,
  is_panic (convert_bits data fromBits toBits pad) = false.
Proof. exact Bech32NP.convert_bits_no_panic. Qed.
Print Assumptions C08_bech32_ConvertBits_no_panic.

(* ---------------- jsonpb: the two JSON tree rewriters ---------------- *)
(* for every JSON tree, and whatever base64 / hex / chainhash return, both rewriters return *)
Theorem C08_jsonpb_convert_no_panic :
  forall b64_decode b64_encode hex_decode hex_encode hash_from_str hash_string (j : json),
    is_panic (convert_base64 b64_decode hex_encode hash_string j) = false /\
    is_panic (convert_hex b64_encode hex_decode hash_from_str j) = false.
Proof. exact JsonPbProofs.jsonpb_convert_no_panic. Qed.
Print Assumptions C08_jsonpb_convert_no_panic.

(* the array loop as it was (unchecked s.(string)) panics on ["ab", 1] *)
Theorem C08_jsonpb_old_refuted :
  forall b64_decode b64_encode hex_decode hex_encode hash_from_str hash_string,
    convert_base64_old b64_decode hex_encode hash_string (JArr [JStr [97; 98]; JNum [49]]) = Panic 4 /\
    convert_hex_old b64_encode hex_decode hash_from_str (JArr [JStr [97; 98]; JNum [49]]) = Panic 4.
Proof. exact JsonPbProofs.jsonpb_old_refuted. Qed.
Print Assumptions C08_jsonpb_old_refuted.

(* ---------------- DecodeAddress (model: Address/Address.v, engineer a-c01) ---------------- *)
(* every string, every network record, every set of registered legacy ids, whatever ParsePubKey accepts *)
Theorem C08_DecodeAddress_no_panic :
  forall (P : Type) (ec_parse : list N -> option P) (net : Nets.net) (reg_pkh reg_sh s : list N),
    is_panic (decode_address P ec_parse net reg_pkh reg_sh s) = false.
Proof. exact AddressNP.decode_address_no_panic. Qed.
Print Assumptions C08_DecodeAddress_no_panic.

(* ---------------- DecodeWIF (model: Wif/Wif.v with checked indices and slices, engineer a-c15) ---------------- *)
Theorem C08_DecodeWIF_no_panic : forall s, is_panic (decode_wif s) = false.
Proof. exact WifNP.decode_wif_no_panic. Qed.
Print Assumptions C08_DecodeWIF_no_panic.

(* ---------------- hdkeychain.NewKeyFromString (model: HD/HD.v, engineer a-c04) ---------------- *)
(* bchec.ParsePubKey is a dependency: assumed not to panic (observed dynamically) *)
Theorem C08_NewKeyFromString_no_panic :
  forall (point : Type) (parse_point : list N -> res point) (dsha : list N -> list N),
    (forall b, is_panic (parse_point b) = false) ->
    forall s, is_panic (HD.parse point parse_point dsha s) = false.
Proof. exact HDNP.parse_no_panic. Qed.
Print Assumptions C08_NewKeyFromString_no_panic.

(* every slice and index of NewKeyFromString is in range (DoubleHashB returns at least 4 bytes) *)
Theorem C08_NewKeyFromString_bounds :
  forall (point : Type) (parse_point : list N -> res point) (dsha : list N -> list N),
    (forall b, (4 <= length (dsha b))%nat) ->
    forall s, HDNP.parse_checked point parse_point dsha s = HD.parse point parse_point dsha s.
Proof. exact HDNP.parse_checked_eq. Qed.
Print Assumptions C08_NewKeyFromString_bounds.

(* the statements are not vacuous: a 5-bit payload encodes, and the resulting string decodes back
   (so the no-panic theorems cover the accepting path as well as the rejecting ones) *)
Example C08_example_roundtrip :
  exists s, CashAddr.encode [97; 102] [1; 2; 3; 31; 0] = Ok s /\
            decode_cashaddr ([97; 102; 58] ++ s) = Ok ([97; 102], [1; 2; 3; 31; 0]).
Proof. eexists. split; vm_compute; reflexivity. Qed.

(* C08 — no parser panics, hangs or over-allocates on untrusted input: the part that is PROVED.
   Only statements; every proof is `exact <lemma proved elsewhere>`.

   For each modelled entry point there are up to three statements:
     ..._no_panic          the res-typed model never returns Panic, for every input;
     ..._bounds            the same function written with CHECKED Go slicing/indexing (Panic 2 / Panic 1
                           when a bound is violated, bounds from the literals of the source) equals the
                           model on every input: no slice or index expression of the current code can be
                           out of range;
     ..._old_refuted       the function as it was before the repair panics on the recorded input.
   The entry points whose models belong to other properties (address, WIF, extended keys, bloom,
   block scan, merkle extraction, GCS) are appended below as those models land.
   NOT proved here, observed dynamically by harness/cmd/c08 (see checks.d/C08.json): the wire
   block/transaction deserialisers, encoding/json, the protobuf libraries, math/big, and all running
   time / allocation behaviour of the implementation. *)
From BU Require Import Lib.Bytes CashAddr.CashAddr Base58.Base58 Bech32.Bech32 JsonPb.JsonPb.
From BU Require Import NoPanic.Slices NoPanic.CashAddrNP NoPanic.Base58NP NoPanic.Bech32NP JsonPb.JsonPbProofs.
From BU Require Import Gen.Nets Address.Address Wif.Wif HD.HD NoPanic.AddressNP NoPanic.WifNP NoPanic.HDNP.
From BU Require Import Merkle.Merkle Merkle.ExtractTop NoPanic.MerkleNP Bloom.Bloom NoPanic.BloomNP NoPanic.BloomHistNP.
From BU Require Import Gcs.Gcs NoPanic.GcsNP.
From BU Require Import Bloom.BloomTx Bloom.BloomTxSpec Bloom.BloomTxInst Props.C10.
From BU Require Import Gen.Kernels2 NoPanic.SourceNP NoPanic.AddressBoundsNP.

(* ---------------- CashAddr: DecodeCashAddress, encode ---------------- *)
Theorem C08_DecodeCashAddress_no_panic : forall str, is_panic (decode_cashaddr str) = false.
Proof. exact CashAddrNP.decode_cashaddr_no_panic. Qed.
Print Assumptions C08_DecodeCashAddress_no_panic.

Theorem C08_DecodeCashAddress_bounds : forall str, CashAddrNP.decode_checked true str = decode_cashaddr str.
Proof. exact CashAddrNP.decode_checked_eq. Qed.
Print Assumptions C08_DecodeCashAddress_bounds.

(* "af:v47zk5g": valid checksum over seven symbols; values[:len(values)-8] with len(values) = 7 *)
Theorem C08_DecodeCashAddress_old_refuted : exists str, CashAddrNP.decode_checked false str = Panic 2.
Proof. exists CashAddrNP.af_v47zk5g. exact CashAddrNP.decode_old_refuted. Qed.
Print Assumptions C08_DecodeCashAddress_old_refuted.

(* encode is internal and only receives 5-bit symbols; on those it cannot index past Charset *)
Theorem C08_cashaddr_encode_no_panic : forall prefix payload,
  Forall (fun c => c < 32) payload -> is_panic (CashAddr.encode prefix payload) = false.
Proof. exact CashAddrNP.encode_no_panic. Qed.
Print Assumptions C08_cashaddr_encode_no_panic.

(* ---------------- Base58Check ---------------- *)
Theorem C08_CheckDecode_no_panic : forall s, is_panic (check_decode s) = false.
Proof. exact Base58NP.check_decode_no_panic. Qed.
Print Assumptions C08_CheckDecode_no_panic.

Theorem C08_CheckDecode_bounds : forall s, Base58NP.check_decode_checked s = check_decode s.
Proof. exact Base58NP.check_decode_checked_eq. Qed.
Print Assumptions C08_CheckDecode_bounds.

(* ---------------- bech32 ---------------- *)
Theorem C08_bech32_Decode_no_panic : forall bech, is_panic (Bech32.decode bech) = false.
Proof. exact Bech32NP.decode_no_panic. Qed.
Print Assumptions C08_bech32_Decode_no_panic.

Theorem C08_bech32_Decode_bounds : forall bech, Bech32NP.decode_checked bech = Bech32.decode bech.
Proof. exact Bech32NP.decode_checked_eq. Qed.
Print Assumptions C08_bech32_Decode_bounds.

Theorem C08_bech32_Encode_no_panic : forall hrp data, is_panic (Bech32.encode hrp data) = false.
Proof. exact Bech32NP.encode_no_panic. Qed.
Print Assumptions C08_bech32_Encode_no_panic.

Theorem C08_bech32_Encode_bounds : forall hrp data, Bech32NP.encode_checked hrp data = Bech32.encode hrp data.
Proof. exact Bech32NP.encode_checked_eq. Qed.
Print Assumptions C08_bech32_Encode_bounds.

Theorem C08_bech32_ConvertBits_no_panic : forall data fromBits toBits pad,
  is_panic (convert_bits data fromBits toBits pad) = false.
Proof. exact Bech32NP.convert_bits_no_panic. Qed.
Print Assumptions C08_bech32_ConvertBits_no_panic.

(* ---------------- jsonpb: the two JSON tree rewriters ---------------- *)
(* for every JSON tree, and whatever base64 / hex / chainhash return, both rewriters return *)
Theorem C08_jsonpb_convert_no_panic :
  forall b64_decode b64_encode hex_decode hex_encode hash_from_str hash_string (j : json),
    is_panic (convert_base64 b64_decode hex_encode hash_string j) = false /\
    is_panic (convert_hex b64_encode hex_decode hash_from_str j) = false.
Proof. exact JsonPbProofs.jsonpb_convert_no_panic. Qed.
Print Assumptions C08_jsonpb_convert_no_panic.

(* the array loop as it was (unchecked s.(string)) panics on ["ab", 1] *)
Theorem C08_jsonpb_old_refuted :
  forall b64_decode b64_encode hex_decode hex_encode hash_from_str hash_string,
    convert_base64_old b64_decode hex_encode hash_string (JArr [JStr [97; 98]; JNum [49]]) = Panic 4 /\
    convert_hex_old b64_encode hex_decode hash_from_str (JArr [JStr [97; 98]; JNum [49]]) = Panic 4.
Proof. exact JsonPbProofs.jsonpb_old_refuted. Qed.
Print Assumptions C08_jsonpb_old_refuted.

(* ---------------- DecodeAddress (model: Address/Address.v, engineer a-c01) ---------------- *)
(* every string, every network record, every set of registered legacy ids, whatever ParsePubKey accepts *)
Theorem C08_DecodeAddress_no_panic :
  forall (P : Type) (ec_parse : list N -> option P) (net : Nets.net) (reg_pkh reg_sh s : list N),
    is_panic (decode_address P ec_parse net reg_pkh reg_sh s) = false.
Proof. exact AddressNP.decode_address_no_panic. Qed.
Print Assumptions C08_DecodeAddress_no_panic.

(* review round 2: the four prefix slices addr[:len(bchPrefix)+1], addr[:len(slpPrefix)+1] (the model writes them
   with the total firstn, so the theorem above is silent about them) are in range, for every network record *)
Theorem C08_DecodeAddress_bounds :
  forall (P : Type) (ec_parse : list N -> option P) (net : Nets.net) (reg_pkh reg_sh s : list N),
    AddressBoundsNP.decode_address_checked P ec_parse true net reg_pkh reg_sh s
    = decode_address P ec_parse net reg_pkh reg_sh s.
Proof. exact AddressBoundsNP.decode_address_checked_eq. Qed.
Print Assumptions C08_DecodeAddress_bounds.

(* without the SLP clause of the length pre-check a record whose SLP prefix is longer than its CashAddr prefix
   by two characters makes the second slice fault on "q:q" (none of the six registered records is like that) *)
Theorem C08_DecodeAddress_slp_guard_needed :
  forall (P : Type) (ec_parse : list N -> option P) reg_pkh reg_sh,
    AddressBoundsNP.decode_address_checked P ec_parse false AddressBoundsNP.net_long_slp reg_pkh reg_sh [113; 58; 113] = Panic 2 /\
    AddressBoundsNP.decode_address_checked P ec_parse true AddressBoundsNP.net_long_slp reg_pkh reg_sh [113; 58; 113] = Err 1.
Proof. exact AddressBoundsNP.decode_address_slp_guard_needed. Qed.
Print Assumptions C08_DecodeAddress_slp_guard_needed.

(* ---------------- DecodeWIF (model: Wif/Wif.v with checked indices and slices, engineer a-c15) ---------------- *)
Theorem C08_DecodeWIF_no_panic : forall s, is_panic (decode_wif s) = false.
Proof. exact WifNP.decode_wif_no_panic. Qed.
Print Assumptions C08_DecodeWIF_no_panic.

(* ---------------- hdkeychain.NewKeyFromString (model: HD/HD.v, engineer a-c04) ---------------- *)
(* bchec.ParsePubKey is a dependency: assumed not to panic (observed dynamically) *)
Theorem C08_NewKeyFromString_no_panic :
  forall (point : Type) (parse_point : list N -> res point) (dsha : list N -> list N),
    (forall b, is_panic (parse_point b) = false) ->
    forall s, is_panic (HD.parse point parse_point dsha s) = false.
Proof. exact HDNP.parse_no_panic. Qed.
Print Assumptions C08_NewKeyFromString_no_panic.

(* every slice and index of NewKeyFromString is in range (DoubleHashB returns at least 4 bytes) *)
Theorem C08_NewKeyFromString_bounds :
  forall (point : Type) (parse_point : list N -> res point) (dsha : list N -> list N),
    (forall b, (4 <= length (dsha b))%nat) ->
    forall s, HDNP.parse_checked point parse_point dsha s = HD.parse point parse_point dsha s.
Proof. exact HDNP.parse_checked_eq. Qed.
Print Assumptions C08_NewKeyFromString_bounds.

(* ---------------- bloom filter queries on any filter-load within the wire limits (model: Bloom/Bloom.v, a-c09) ------- *)
(* Filter.matches / Filter.add with checked `%` (Panic 3) and checked indexing (Panic 1) equal the
   model for every array shorter than 2^29 bytes, the EMPTY array included *)
Theorem C08_bloom_matches_bounds : forall f data, len_ok f -> BloomNP.matches_checked true f data = Ok (matches f data).
Proof. exact BloomNP.matches_checked_eq. Qed.
Print Assumptions C08_bloom_matches_bounds.

Theorem C08_bloom_add_bounds : forall f data, len_ok f -> BloomNP.add_checked true f data = Ok (add f data).
Proof. exact BloomNP.add_checked_eq. Qed.
Print Assumptions C08_bloom_add_bounds.

Theorem C08_bloom_no_panic : forall m data, within_wire_limits m ->
  is_panic (BloomNP.matches_checked true (Some m) data) = false /\
  is_panic (BloomNP.add_checked true (Some m) data) = false.
Proof. exact BloomNP.bloom_no_panic. Qed.
Print Assumptions C08_bloom_no_panic.

(* ... and so does no step of any HISTORY on one filter object (round 4): whatever filter-load messages within the
   wire limits (or nil) are loaded one after the other -- larger, smaller, empty -- with Add / AddHash /
   AddOutPoint / Matches / MatchesOutPoint / Unload / IsLoaded between them, the history written with checked
   division and checked indexing equals the total model: nothing derived from an earlier message survives Reload *)
Theorem C08_bloom_history_no_panic : forall (start : option msg) ops,
  match start with Some m => within_wire_limits m | None => True end ->
  BloomHistNP.reloads_within_limits ops ->
  BloomHistNP.run_checked (load_filter start) ops = Ok (run (load_filter start) ops).
Proof. exact BloomHistNP.history_no_panic. Qed.
Print Assumptions C08_bloom_history_no_panic.

(* before commit 9cfd8f5: Filter = {}, HashFuncs = 1 divides by zero, for every data item *)
Theorem C08_bloom_old_refuted : forall data,
  BloomNP.matches_checked false (Some BloomNP.empty_load) data = Panic 3 /\
  BloomNP.add_checked false (Some BloomNP.empty_load) data = Panic 3.
Proof. exact BloomNP.bloom_old_refuted. Qed.
Print Assumptions C08_bloom_old_refuted.

(* ---------------- merkle extraction on any message (model: Merkle/Merkle.v, a-c11) ---------------- *)
Theorem C08_ExtractMatches_no_panic : forall node_hash maxtx (m : Merkle.msg),
  maxtx < 2 ^ 31 -> is_panic (extract node_hash maxtx m) = false.
Proof. exact MerkleNP.extract_no_panic. Qed.
Print Assumptions C08_ExtractMatches_no_panic.

(* merkle_cost: traverseAndExtract is entered at most 2*|bits|+1 times, whatever the message claims *)
Theorem C08_merkle_cost : forall node_hash maxtx (m : Merkle.msg),
  (extract_calls node_hash maxtx m <= 2 * (8 * length (Merkle.m_flags m)) + 1)%nat.
Proof. exact ExtractTop.extract_cost. Qed.
Print Assumptions C08_merkle_cost.

(* ---------------- GCS filters: parsing and queries on any (N, P, M, bytes) (model: Gcs/Gcs.v, a-c13) ---------------- *)
(* siphash and sort.Slice are dependencies: arbitrary functions *)
Theorem C08_gcs_parse_no_panic : forall n P M d,
  is_panic (from_bytes n P M d) = false /\ is_panic (from_nbytes P M d) = false.
Proof. intros n P M d. split; [exact (GcsNP.from_bytes_no_panic n P M d) | exact (GcsNP.from_nbytes_no_panic P M d)]. Qed.
Print Assumptions C08_gcs_parse_no_panic.

(* the decoding loops never run out of their fuel 8*|bytes|+1 (every read consumes a bit): the four
   query forms return on every filter, whatever element count it claims *)
Theorem C08_gcs_queries_no_panic : forall hash sort f key d data,
  is_panic (gmatch hash f key d) = false /\
  is_panic (zip_match_any hash sort f key data) = false /\
  is_panic (hash_match_any hash f key data) = false /\
  is_panic (match_any hash sort f key data) = false.
Proof.
  intros hash sort f key d data.
  exact (conj (GcsNP.match_no_panic hash f key d)
        (conj (GcsNP.zip_match_any_no_panic hash sort f key data)
        (conj (GcsNP.hash_match_any_no_panic hash f key data)
              (GcsNP.match_any_no_panic hash sort f key data)))).
Qed.
Print Assumptions C08_gcs_queries_no_panic.

(* gcs_alloc: the capacity HashMatchAny pre-sizes its table with is at most 8*|bytes|/(P+1), and the
   table receives at most 8*|bytes| values; neither depends on the claimed N *)
Theorem C08_gcs_alloc_bound : forall f,
  size_hint f <= 8 * N.of_nat (length (f_data f)) / (f_p f + 1) /\
  exists vs, decode_all (fuel_of f) (f_p f) (bits_of_bytes (f_data f)) 0 = Ok vs /\
             (length vs <= 8 * length (f_data f))%nat.
Proof. intro f. split; [exact (GcsNP.size_hint_bound f) | exact (GcsNP.decoded_values_bound f)]. Qed.
Print Assumptions C08_gcs_alloc_bound.

Theorem C08_gcs_alloc_old_refuted :
  exists f d, from_nbytes 19 784931 d = Ok f /\ length d = 7%nat /\
              8 * N.of_nat (length (f_data f)) / (f_p f + 1) < 1000 * 1000 * 1000 < GcsNP.size_hint_old f.
Proof. exact GcsNP.size_hint_old_refuted. Qed.
Print Assumptions C08_gcs_alloc_old_refuted.

(* ---------------- block scan (GetMatchedIndices / NewMerkleBlock; model and proofs: Bloom/BloomTx*.v, a-c10) -------- *)
(* the scan never runs out of its fuel (recursion depth <= number of transactions): termination *)
Theorem C08_scan_terminates :
  forall (F item txid : Type) (contains : F -> item -> bool) (insert : F -> item -> F)
         (txid_eqb : txid -> txid -> bool) (id_item : txid -> item) (op_item : txid -> N -> item),
    filter_laws contains insert -> (forall a b, txid_eqb a b = true <-> a = b) ->
    forall fl f0 (txs : list (tx item txid)),
      exists st, scan contains insert txid_eqb id_item op_item fl f0 txs = Some st.
Proof. exact C10_scan_terminates. Qed.
Print Assumptions C08_scan_terminates.

(* scan_cost: at most n + (number of inputs) filter matches, in any transaction order *)
Theorem C08_scan_cost :
  forall (F item txid : Type) (contains : F -> item -> bool) (insert : F -> item -> F)
         (txid_eqb : txid -> txid -> bool) (id_item : txid -> item) (op_item : txid -> N -> item),
    filter_laws contains insert -> (forall a b, txid_eqb a b = true <-> a = b) ->
    forall fl f0 (txs : list (tx item txid)) st,
      NoDup (map t_id txs) ->
      scan contains insert txid_eqb id_item op_item fl f0 txs = Some st ->
      (s_calls st <= length txs + total_inputs txs)%nat.
Proof. exact C10_scan_cost. Qed.
Print Assumptions C08_scan_cost.

(* the scan as it was before commit 1a7bb05 (re-matched transactions re-recurse) breaks the bound *)
Theorem C08_scan_cost_old_refuted :
  exists (txs : list (tx N N)) (f0 : list N) (fuel : nat) (st : sstate (list N)),
    NoDup (map t_id txs) /\
    scan_old (set_contains N N.eqb) (set_insert N) N.eqb xid xop fuel UpdAll f0 txs = Some st /\
    (s_calls st > length txs + total_inputs txs)%nat.
Proof. exact C10_scan_cost_old_refuted. Qed.
Print Assumptions C08_scan_cost_old_refuted.

(* ---------------- review round 2: no panic of the MACHINE-TRANSLATED source ---------------- *)
(* Gen/Kernels2.v = the Go functions translated from their ASTs on every run, every indexing, slicing,
   make and integer division a checked primitive (Panic when Go would panic); Tie/Kernels2_*.v prove them
   equal to the models.  Unlike the `_bounds` statements above (which see only the integer literals of the
   source) these break when an operator, a bound expression or the order of two statements changes *)
Theorem C08_DecodeCashAddress_source_no_panic : forall str, is_panic (Kernels2.DecodeCashAddress str) = false.
Proof. exact SourceNP.DecodeCashAddress_src_no_panic. Qed.
Print Assumptions C08_DecodeCashAddress_source_no_panic.

Theorem C08_bech32_Decode_source_no_panic : forall bech, is_panic (Kernels2.Decode bech) = false.
Proof. exact SourceNP.bech32_Decode_src_no_panic. Qed.
Print Assumptions C08_bech32_Decode_source_no_panic.

Theorem C08_bech32_Encode_source_no_panic : forall hrp data,
  Bytes hrp -> Bytes data -> is_panic (Kernels2.Encode hrp data) = false.
Proof. exact SourceNP.bech32_Encode_src_no_panic. Qed.
Print Assumptions C08_bech32_Encode_source_no_panic.

(* the inner `for remFromBits > 0` loop is a while loop in the translation: 8 iterations of fuel always
   suffice (running out of fuel would be Panic 9), i.e. ConvertBits terminates for EVERY fromBits/toBits *)
Theorem C08_bech32_ConvertBits_source_no_panic : forall fuel data fromBits toBits pad,
  (8 <= fuel)%nat -> is_panic (Kernels2.ConvertBits fuel data fromBits toBits pad) = false.
Proof. exact SourceNP.bech32_ConvertBits_src_no_panic. Qed.
Print Assumptions C08_bech32_ConvertBits_source_no_panic.

(* Filter.matches / Filter.add of the translated source on every filter-load within the wire limits *)
Theorem C08_bloom_source_no_panic : forall m data,
  Bytes data -> N.of_nat (length data) < 2 ^ 32 -> within_wire_limits m ->
  is_panic (Kernels2.Filter_matches false (m_bytes m) (m_nhash m) (m_tweak m) data) = false /\
  is_panic (Kernels2.Filter_add false (m_bytes m) (m_nhash m) (m_tweak m) data) = false.
Proof. exact SourceNP.bloom_src_no_panic. Qed.
Print Assumptions C08_bloom_source_no_panic.

(* the statements are not vacuous: a 5-bit payload encodes, and the resulting string decodes back
   (so the no-panic theorems cover the accepting path as well as the rejecting ones) *)
Example C08_example_roundtrip :
  exists s, CashAddr.encode [97; 102] [1; 2; 3; 31; 0] = Ok s /\
            decode_cashaddr ([97; 102; 58] ++ s) = Ok ([97; 102], [1; 2; 3; 31; 0]).
Proof. eexists. split; vm_compute; reflexivity. Qed.

(* State-shape obligation (coordinator-owned).  The models read the functions of package gcs/builder as functions of their
   arguments and of the modelled struct fields only.  That reading is valid as long as the package declares no
   further package-level variable and no further struct field (a cache, memo, counter, fast-path flag …).
   Gen.Shape is regenerated from the Go source on every run; Shape.Baseline is what the models were written against. *)
From BU Require Import Gen.Shape Shape.Baseline.

Theorem Shape_gcs_builder_unchanged : shape_gcs_builder = base_gcs_builder.
Proof. exact eq_refl. Qed.
Print Assumptions Shape_gcs_builder_unchanged.

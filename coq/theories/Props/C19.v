(* C19 — coin selection returns only valid selections and coin-set totals never drift.
   Only statements; every proof is `exact <lemma proved elsewhere>`.

   Arithmetic.  The coin-set theorems hold for Go's wrapping int64 arithmetic (w64).  The selector
   theorems are stated for exact integers (wx); C19_selectors_no_overflow proves that inside the
   bounds [inb] (values and confirmations >= 0, sum of values <= 2^62 around the target,
   |minChange| <= 2^61, sum of value-ages <= 2^61, -2^61 <= MinAvg and MinAvg*(len+1) <= 2^61)
   the int64 model (w64, the instance compared with the Go code on every run) computes exactly the
   same results for all four selectors, so no int64 operation wraps and the theorems apply to it
   (C19_minprio_valid_int64 spells this out for the priority selector).
   sort.Sort is a dependency: any function meeting [sort_spec] (a permutation of its input,
   sorted whenever Less is a strict weak order); it need not be stable. *)
From BU Require Import Lib.Bytes CoinSet.CoinSet CoinSet.CoinSetProofs CoinSet.SelectorProofs CoinSet.TieProofs CoinSet.MinPrioProofs CoinSet.WrapProofs.
From Coq Require Import Permutation Sorted.
Open Scope Z_scope.

(* after NewCoinSet(init) and any sequence of PushCoin / PopCoin / ShiftCoin the contents are
   those of a double-ended queue, Num is their count, and both cached totals are the int64 sums
   over the current contents *)
Theorem C19_coinset_totals : forall init ops,
  let s := run_ops w64 ops (new_coinset w64 init) in
  cs_list s = fold_left deque_step ops init
  /\ cs_num s = Z.of_nat (length (cs_list s))
  /\ cs_tv s = w64 (sumv (cs_list s))
  /\ cs_tva s = w64 (sumva w64 (cs_list s)).
Proof. exact (coinset_totals_w w64 w64_ok). Qed.
Print Assumptions C19_coinset_totals.

(* PopCoin / ShiftCoin on an empty set return nil and change nothing *)
Theorem C19_coinset_empty_noop : forall s, cs_list s = [] -> pop w64 s = (None, s) /\ shift w64 s = (None, s).
Proof. exact (pop_shift_empty w64). Qed.
Print Assumptions C19_coinset_empty_noop.

(* PopCoin / ShiftCoin return nil exactly on the empty set, otherwise the last / the first coin,
   and leave the others in order *)
Theorem C19_pop_shift_return : forall s,
  match fst (pop w64 s) with
  | None => cs_list s = []
  | Some c => cs_list s = cs_list (snd (pop w64 s)) ++ [c]
  end
  /\ match fst (shift w64 s) with
     | None => cs_list s = []
     | Some c => cs_list s = c :: cs_list (snd (shift w64 s))
     end.
Proof. exact (pop_shift_return w64). Qed.
Print Assumptions C19_pop_shift_return.

Theorem C19_tx_spends_exactly : forall version s,
  let t := tx_of_coins version s in
  map ti_outpoint (tx_in t) = map cid (cs_list s)
  /\ Forall (fun i => ti_script i = [] /\ ti_sequence i = max_sequence) (tx_in t)
  /\ tx_version t = version /\ tx_nout t = 0%nat /\ tx_locktime t = 0.
Proof. exact tx_spends_exactly_model. Qed.
Print Assumptions C19_tx_spends_exactly.

(* the two clauses joined: the transaction built from the set that NewCoinSet(init) and any
   push / pop / shift history lead to has one input per coin of the current contents and spends
   exactly their outpoints, in order *)
Theorem C19_tx_after_history : forall version init ops,
  let t := tx_of_coins version (run_ops w64 ops (new_coinset w64 init)) in
  map ti_outpoint (tx_in t) = map cid (fold_left deque_step ops init)
  /\ length (tx_in t) = length (fold_left deque_step ops init).
Proof. exact (tx_after_history w64). Qed.
Print Assumptions C19_tx_after_history.

(* MinIndex: the shortest non-empty qualifying prefix of the offered list; error exactly when no
   prefix of at most MaxInputs coins qualifies; never a panic *)
Theorem C19_select_shortest_prefix_min_index : forall maxin mc target coins,
  prefix_sel maxin mc target coins (min_index wx maxin mc target coins).
Proof. exact min_index_shortest_prefix. Qed.
Print Assumptions C19_select_shortest_prefix_min_index.

(* MinNumber / MaxValueAge: the same for SOME descending-sorted permutation of the offered coins,
   whatever sort.Sort does with ties *)
Theorem C19_select_shortest_prefix_min_number : forall sort_by, sort_spec sort_by -> forall maxin mc target coins,
  exists p, Permutation p coins /\ desc_by cval p
            /\ prefix_sel maxin mc target p (min_number wx sort_by maxin mc target coins).
Proof. exact min_number_shortest_prefix. Qed.
Print Assumptions C19_select_shortest_prefix_min_number.

Theorem C19_select_shortest_prefix_max_value_age : forall sort_by, sort_spec sort_by -> forall maxin mc target coins,
  exists p, Permutation p coins /\ desc_by (va wx) p
            /\ prefix_sel maxin mc target p (max_value_age wx sort_by maxin mc target coins).
Proof. exact max_value_age_shortest_prefix. Qed.
Print Assumptions C19_select_shortest_prefix_max_value_age.

(* whenever one of the three simple selectors succeeds the selection is a sub-multiset of the
   offered coins (so distinct when the offered coins are), of 1..MaxInputs coins, whose total is the
   target or exceeds it by at least the minimum change; its cached totals are exact *)
Theorem C19_select_valid : forall sort_by, sort_spec sort_by -> forall maxin mc target coins s,
  (min_index wx maxin mc target coins = Ok s
   \/ min_number wx sort_by maxin mc target coins = Ok s
   \/ max_value_age wx sort_by maxin mc target coins = Ok s) ->
  valid_selection maxin mc target coins s.
Proof. exact select_valid_all. Qed.
Print Assumptions C19_select_valid.

Theorem C19_select_distinct : forall sel offered,
  sub_multiset sel offered -> NoDup (map cid offered) -> NoDup (map cid sel) /\ incl sel offered.
Proof. exact sub_multiset_nodup. Qed.
Print Assumptions C19_select_distinct.

(* MinPriority (the repaired code): every successful return, whichever branch produced it, is a
   valid selection (sub-multiset of the offered coins, 1..MaxInputs coins, target predicate, exact
   cached totals) and meets the required average value-age per input -- in the multiplied form
   MinAvg * count <= total value-age AND in the form the code itself tests, total / count >= MinAvg
   with Go's truncating division (the two agree because value-ages are >= 0; with negative
   value-ages only the second would hold in the extension branch).
   Hypotheses: sort_spec; every offered coin has value-age >= 0; exact arithmetic. *)
Theorem C19_minprio_valid : forall sort_by, sort_spec sort_by -> forall maxin mc minavg target coins br s,
  Forall (fun c => 0 <= va wx c) coins ->
  min_priority_sel wx sort_by maxin mc minavg target coins = (br, Ok s) ->
  valid_selection maxin mc target coins s
  /\ minavg * cs_num s <= sumva wx (cs_list s)
  /\ minavg <= Z.quot (sumva wx (cs_list s)) (cs_num s).
Proof. exact minprio_valid. Qed.
Print Assumptions C19_minprio_valid.

(* the recursion on the low-priority part terminates within the fuel min_priority_sel provides
   (len + 1), and no return is a panic: not out-of-fuel, and not the integer division by numLow = 0,
   which the model turns into Panic 8 (numLow starts at the source literal 1 and only grows; the
   other division, by Num() of a set that was just pushed to, cannot be by zero) *)
Theorem C19_minprio_fuel_no_panic : forall sort_by, sort_spec sort_by -> forall maxin mc minavg target coins,
  no_panic (min_priority_sel wx sort_by maxin mc minavg target coins).
Proof. exact minprio_no_panic. Qed.
Print Assumptions C19_minprio_fuel_no_panic.

(* the model's top-up loop carries an iteration bound k (structural recursion); the bound the
   selector passes (cutoffIndex, with numLow starting at 1) is never what ends the loop: any
   larger bound gives the same result, so the loop runs exactly while Go's condition holds *)
Theorem C19_topup_bound_exact : forall w rec maxin mc minavg target cutoff low hi k k' numlow,
  cutoff < numlow + Z.of_nat k -> (k <= k')%nat ->
  topup w rec maxin mc minavg target cutoff low hi k numlow = topup w rec maxin mc minavg target cutoff low hi k' numlow.
Proof. exact topup_bound_exact. Qed.
Print Assumptions C19_topup_bound_exact.

(* The algorithm as it was before the three repairs (min_priority_old, kept verbatim in the model)
   violates each clause: concrete witnesses of DESIGN section 7, rows 15a, 15b, 15c. *)
Theorem C19_minprio_maxinputs_old_refuted :
  exists maxin mc minavg target coins br s,
    good_input coins /\ min_priority_old wx isort maxin mc minavg target coins = (br, Ok s) /\ cs_num s > maxin.
Proof. exact minprio_maxinputs_old_refuted. Qed.
Print Assumptions C19_minprio_maxinputs_old_refuted.

Theorem C19_minprio_target_old_refuted :
  exists maxin mc minavg target coins br s,
    good_input coins /\ min_priority_old wx isort maxin mc minavg target coins = (br, Ok s)
    /\ satisfies wx target mc (sumv (cs_list s)) = false.
Proof. exact minprio_target_old_refuted. Qed.
Print Assumptions C19_minprio_target_old_refuted.

Theorem C19_minprio_average_old_refuted :
  exists maxin mc minavg target coins br s,
    good_input coins /\ min_priority_old wx isort maxin mc minavg target coins = (br, Ok s)
    /\ minavg * cs_num s > sumva wx (cs_list s) /\ Z.quot (sumva wx (cs_list s)) (cs_num s) < minavg.
Proof. exact minprio_average_old_refuted. Qed.
Print Assumptions C19_minprio_average_old_refuted.

(* each repair is needed on its own (= the three seeded reverts), and with all three applied the
   flagged old-code model is the current model *)
Theorem C19_minprio_each_repair_needed :
  (exists maxin mc minavg target coins br s, good_input coins
     /\ min_priority_fx wx isort (mkFixes false true true) (S (length coins)) maxin mc minavg target coins = (br, Ok s)
     /\ cs_num s > maxin)
  /\ (exists maxin mc minavg target coins br s, good_input coins
     /\ min_priority_fx wx isort (mkFixes true false true) (S (length coins)) maxin mc minavg target coins = (br, Ok s)
     /\ satisfies wx target mc (sumv (cs_list s)) = false)
  /\ (exists maxin mc minavg target coins br s, good_input coins
     /\ min_priority_fx wx isort (mkFixes true true false) (S (length coins)) maxin mc minavg target coins = (br, Ok s)
     /\ minavg * cs_num s > sumva wx (cs_list s)).
Proof. exact (conj minprio_revert_bound_refuted (conj minprio_revert_target_refuted minprio_revert_round_refuted)). Qed.
Print Assumptions C19_minprio_each_repair_needed.

Theorem C19_minprio_fx_all_is_current : forall sort_by fuel mx mc ma tg coins,
  min_priority_fx wx sort_by (mkFixes true true true) fuel mx mc ma tg coins = min_priority wx sort_by fuel mx mc ma tg coins.
Proof. exact min_priority_fx_all. Qed.
Print Assumptions C19_minprio_fx_all_is_current.

(* the hypotheses of C19_minprio_valid are met by a concrete non-trivial instance: the top-up
   branch on the coins of row 15c returns value-ages 12, 15, 0 for a required average of 5 *)
Example C19_minprio_example :
  exists s, min_priority_sel wx isort 4 1 5 11 w15c = (BrTopUp BrExtend, Ok s)
            /\ map cid (cs_list s) = [3; 2; 0]%N /\ Forall (fun c => 0 <= va wx c) w15c.
Proof. eexists. split; [vm_compute; reflexivity|]. split; [reflexivity|]. repeat constructor; vm_compute; discriminate. Qed.
Print Assumptions C19_minprio_example.

(* tie-breaking of the unstable sort cannot change what MinNumber achieves (value sequence, total,
   count, success); for MaxValueAge it can, which is why the theorems quantify over the permutation *)
Theorem C19_min_number_tie_independent : forall sa sb, sort_spec sa -> sort_spec sb -> forall maxin mc target coins,
  same_outcome (min_number wx sa maxin mc target coins) (min_number wx sb maxin mc target coins).
Proof. exact min_number_tie_independent. Qed.
Print Assumptions C19_min_number_tie_independent.

(* inside the bounds no int64 operation of any selector wraps: the int64 model and the exact model
   agree ([sort_local]: the sort looks at its elements only through Less) *)
Theorem C19_selectors_no_overflow : forall sort_by, sort_spec sort_by -> sort_local sort_by ->
  forall maxin mc minavg target coins, inb mc minavg target coins ->
    min_index w64 maxin mc target coins = min_index wx maxin mc target coins
    /\ min_number w64 sort_by maxin mc target coins = min_number wx sort_by maxin mc target coins
    /\ max_value_age w64 sort_by maxin mc target coins = max_value_age wx sort_by maxin mc target coins
    /\ min_priority_sel w64 sort_by maxin mc minavg target coins = min_priority_sel wx sort_by maxin mc minavg target coins.
Proof. exact selectors_agree. Qed.
Print Assumptions C19_selectors_no_overflow.

(* the same transfer for the three simple selectors: about the int64 code, inside the bounds
   (required average irrelevant: 0), shortest qualifying prefix and valid selections *)
Theorem C19_simple_selectors_int64 : forall sort_by, sort_spec sort_by -> sort_local sort_by ->
  forall maxin mc target coins, inb mc 0 target coins ->
    prefix_sel maxin mc target coins (min_index w64 maxin mc target coins)
    /\ (exists p, Permutation p coins /\ desc_by cval p
                  /\ prefix_sel maxin mc target p (min_number w64 sort_by maxin mc target coins))
    /\ (exists p, Permutation p coins /\ desc_by (va wx) p
                  /\ prefix_sel maxin mc target p (max_value_age w64 sort_by maxin mc target coins))
    /\ forall s, (min_index w64 maxin mc target coins = Ok s
                  \/ min_number w64 sort_by maxin mc target coins = Ok s
                  \/ max_value_age w64 sort_by maxin mc target coins = Ok s) ->
                 valid_selection maxin mc target coins s.
Proof. exact simple_selectors_w64. Qed.
Print Assumptions C19_simple_selectors_int64.

Theorem C19_minprio_valid_int64 : forall sort_by, sort_spec sort_by -> sort_local sort_by ->
  forall maxin mc minavg target coins br s,
  inb mc minavg target coins ->
  min_priority_sel w64 sort_by maxin mc minavg target coins = (br, Ok s) ->
  valid_selection maxin mc target coins s
  /\ minavg * cs_num s <= sumva wx (cs_list s)
  /\ minavg <= Z.quot (sumva wx (cs_list s)) (cs_num s).
Proof. exact minprio_valid_w64. Qed.
Print Assumptions C19_minprio_valid_int64.

Example C19_bounds_inhabited :
  sort_local isort
  /\ inb 1000 100000000 35000000
      [mkCoin 0 100000000 1; mkCoin 1 10000000 0; mkCoin 2 50000000 0; mkCoin 3 25000000 3; mkCoin 4 5000000 7].
Proof. exact (conj isort_local inb_example). Qed.
Print Assumptions C19_bounds_inhabited.

(* TIE: the integer literals of coins.go the theorems above depend on, as extracted into
   Gen/Xcoinset.v on every run (numLow := 1; the "+1" of the top-up bound numLow+(i-cutoffIndex)+1 <=
   MaxInputs, i.e. repair ca4f52a; needValueAge > 0 and needValueAge%numLow != 0 of the round-up, repair
   8d94bfc; ValueAge() == 0 of the extension loop; n := 0 of MinIndex).  The model reads them from the
   extraction; changing one in the source breaks this theorem and every proof that uses them. *)
Theorem C19_source_literals :
  lit_numlow_start = 1 /\ lit_topup_slack = 1 /\ lit_need_pos = 0 /\ lit_rem_zero = 0
  /\ lit_skip_va = 0 /\ lit_mi_start = 0
  /\ length Gen.Xcoinset.lits_MinPriorityCoinSelector_CoinSelect = 13%nat.
Proof. exact (conj lit_numlow_start_eq (conj lit_topup_slack_eq (conj lit_need_pos_eq (conj lit_rem_zero_eq (conj lit_skip_va_eq (conj lit_mi_start_eq eq_refl)))))). Qed.
Print Assumptions C19_source_literals.

(* the hypotheses are satisfiable: the insertion sort used by the run driver meets sort_spec *)
Example C19_sort_spec_inhabited : sort_spec isort.
Proof. exact isort_spec. Qed.
Print Assumptions C19_sort_spec_inhabited.

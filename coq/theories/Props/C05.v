(* C05 — extended-key strings round-trip and are strictly validated.
   Only statements; every proof is `exact <lemma proved elsewhere>` (HD/XKeyProofs.v, HD/XKeyReach.v),
   instantiated at the real double SHA-256 (Lib/Sha256.v) and built on the Base58 inverse laws of C07.

   Model: HD/HD.v (`parse` = NewKeyFromString, `to_string` = String).  secp256k1 enters through
   ser_point / parse_point / pzero with the hypotheses listed in the Section. *)
From BU Require Import Lib.Bytes Lib.Sha256 Base58.Base58 Gen.Nets HD.HD HD.HDRun HD.XKeyProofs HD.XKeyReach HD.XKeyAccept HD.HDExamples HD.HDConsistent.

Section C05.
Variable point : Type.
Variable hmac512 : list N -> list N -> list N.
Variable point_of_scalar : Z -> point.
Variable padd : point -> point -> point.
Variable pzero : point -> bool.
Variable ser_point : point -> list N.
Variable parse_point : list N -> res point.
Variable hash160 : list N -> list N.

Hypothesis H_hmac_len : forall k d, length (hmac512 k d) = 64%nat.
Hypothesis H_hmac_bytes : forall k d, Bytes (hmac512 k d).
Hypothesis H_h160_len : forall m, length (hash160 m) = 20%nat.
Hypothesis H_h160_bytes : forall m, Bytes (hash160 m).
Hypothesis H_ser_len : forall P, length (ser_point P) = 33%nat.
Hypothesis H_ser_bytes : forall P, Bytes (ser_point P).
Hypothesis H_ser_head : forall P, nth 0 (ser_point P) 0 <> 0.                    (* 0x02 / 0x03 *)
Hypothesis H_parse_ser : forall P, pzero P = false -> parse_point (ser_point P) = Ok P.
Hypothesis H_ser_parse : forall b P, length b = 33%nat -> parse_point b = Ok P -> b = ser_point P /\ pzero P = false.
  (* only for 33-byte inputs: bchec.ParsePubKey also accepts 65-byte uncompressed / hybrid encodings *)
Hypothesis H_mul_nonzero : forall a, (0 < a < Bip32Spec.n)%Z -> pzero (point_of_scalar a) = false.

Local Notation parse := (HD.parse point parse_point sha256d).
Local Notation to_string := (HD.to_string point point_of_scalar ser_point sha256d).
Local Notation wf := (XKeyProofs.wf point pzero ser_point).
Local Notation produced := (XKeyReach.produced point hmac512 point_of_scalar padd pzero ser_point parse_point hash160 sha256d).
Local Notation cks4 := (HD.cks4 sha256d).

(* round trip: every well-formed key parses back from its string to the identical key (all seven fields) *)
Theorem C05_parse_string : forall k, wf k -> parse (to_string k) = Ok k.
Proof.
  exact (parse_string point point_of_scalar pzero ser_point parse_point sha256d
           (fun m => sha256_length_32 (sha256 m)) (fun m => sha256_bytes (sha256 m))
           H_ser_len H_ser_bytes H_ser_head H_parse_ser).
Qed.

(* the invariant holds on everything NewMaster / Child / Neuter / NewKeyFromString produce
   (Child under the premise that the C04 gap k_i = 0 / K_i = infinity was not hit) *)
Theorem C05_produced_wf : forall k, produced k -> wf k.
Proof.
  exact (produced_wf point hmac512 point_of_scalar padd pzero ser_point parse_point hash160 sha256d
           H_hmac_len H_hmac_bytes H_h160_len H_h160_bytes H_ser_len H_mul_nonzero H_ser_parse).
Qed.

(* canonicity and strictness of acceptance: an accepted string is the string of the returned key; it decodes to
   exactly 82 = 78 + 4 bytes; the last four are the double-SHA256 prefix of the first 78; the key material is usable *)
Theorem C05_string_parse : forall s k, parse s = Ok k ->
  to_string k = s /\
  length (Base58.decode s) = 82%nat /\
  skipn 78 (Base58.decode s) = cks4 (firstn 78 (Base58.decode s)) /\
  (if xk_priv k then length (xk_key k) = 32%nat /\ 0 < set_bytes (xk_key k) < secp_nN
   else length (xk_key k) = 33%nat /\ exists P, parse_point (xk_key k) = Ok P).
Proof. exact (string_parse point point_of_scalar ser_point parse_point sha256d). Qed.

(* each failure class is rejected, with its own error *)
Theorem C05_parse_rejects_length : forall s, length (Base58.decode s) <> 82%nat -> parse s = Err E_keylen.
Proof. exact (parse_rejects_length point parse_point sha256d). Qed.

Theorem C05_parse_rejects_foreign : forall s, (exists c, In c s /\ ~ In c alphabet) -> parse s = Err E_keylen.
Proof. exact (parse_rejects_foreign point parse_point sha256d). Qed.

Theorem C05_parse_rejects_checksum : forall s,
  length (Base58.decode s) = 82%nat ->
  skipn 78 (Base58.decode s) <> cks4 (firstn 78 (Base58.decode s)) -> parse s = Err E_checksum.
Proof. exact (parse_rejects_checksum point parse_point sha256d). Qed.

Theorem C05_parse_rejects_scalar : forall s,
  let d := Base58.decode s in
  length d = 82%nat -> skipn 78 d = cks4 (firstn 78 d) -> nth 45 d 0 = 0 ->
  (set_bytes (slice 46 78 d) = 0 \/ secp_nN <= set_bytes (slice 46 78 d)) ->
  parse s = Err E_unusable.
Proof. exact (parse_rejects_scalar point parse_point sha256d). Qed.

Theorem C05_parse_rejects_pubkey : forall s e,
  let d := Base58.decode s in
  length d = 82%nat -> skipn 78 d = cks4 (firstn 78 d) -> nth 45 d 0 <> 0 ->
  parse_point (slice 45 78 d) = Err e -> parse s = Err e.
Proof. exact (parse_rejects_pubkey point parse_point sha256d). Qed.

(* (review round 2) the failure classes above are exhaustive: one equivalence for acceptance, one for rejection.
   acceptable d := |d| = 82 /\ d[78:] = SHA-256d(d[:78])[:4] /\
                   (d[45] = 0 /\ 0 < d[46:78] < n  \/  d[45] <> 0 /\ ParsePubKey accepts d[45:78]) *)
Theorem C05_accept_iff : forall s,
  (exists k, parse s = Ok k) <->
  let d := Base58.decode s in
  length d = 82%nat /\ skipn 78 d = cks4 (firstn 78 d) /\
  ((nth 45 d 0 = 0 /\ 0 < set_bytes (slice 46 78 d) < secp_nN) \/
   (nth 45 d 0 <> 0 /\ exists P, parse_point (slice 45 78 d) = Ok P)).
Proof. exact (parse_accept_iff point parse_point sha256d). Qed.

(* "every other string is rejected": with an error (never a key, never a panic), given that ParsePubKey does not panic *)
Theorem C05_reject_iff : forall s, (forall b p, parse_point b <> Panic p) ->
  ((exists e, parse s = Err e) <-> ~ acceptable point parse_point sha256d (Base58.decode s)).
Proof. exact (parse_reject_iff point parse_point sha256d). Qed.

Theorem C05_parse_no_panic : forall s, (forall b k, parse_point b <> Panic k) -> forall k, parse s <> Panic k.
Proof. exact (parse_no_panic point parse_point sha256d). Qed.

End C05.

Print Assumptions C05_parse_string.
Print Assumptions C05_produced_wf.
Print Assumptions C05_string_parse.
Print Assumptions C05_parse_rejects_length.
Print Assumptions C05_parse_rejects_foreign.
Print Assumptions C05_parse_rejects_checksum.
Print Assumptions C05_parse_rejects_scalar.
Print Assumptions C05_parse_rejects_pubkey.
Print Assumptions C05_accept_iff.
Print Assumptions C05_reject_iff.
Print Assumptions C05_parse_no_panic.

(* Example: the xprv of BIP32 test vector 1, chain m/0H/1, is accepted by the model (SHA-256d computed in Coq),
   the returned key prints the same string, and it is the key the derivation produced *)
Example C05_vector1_roundtrip :
  match r_parse_key no_oracle xprv_m_0H_1, tv1_derive [2 ^ 31; 1] with
  | Ok k, Ok k' => r_to_string no_oracle k = xprv_m_0H_1 /\ xkey_eqb k k' = true
  | _, _ => False
  end.
Proof. exact tv1_parse_roundtrip. Qed.

(* the Section hypotheses about the dependencies are jointly satisfiable (the group Z_n, constant HMAC/HASH160,
   the real SHA-256d): the theorems above are not vacuous *)
Example C05_hypotheses_consistent : hypotheses_statement.
Proof. exact hypotheses_consistent. Qed.

(* C02 - decoding is strict, canonical and network-separating.  Only statements; proofs in Address/*.v.
   [spells s q p ck]: up to ASCII case, s is the symbols p ++ ck written with the charset, bare or
   behind "q:".  The rejection rules are stated over strings whose checksum is VALID for the
   arbitrary 5-bit payload p, so the rule under test does the rejecting.  [not_cash]: not decoded
   to a cash-format address (see Address/RejectProofs.v for why not "rejected outright"). *)
From BU Require Import Lib.Bytes Lib.PolyMod Lib.Sha256 Gen.Xbchutil Gen.Nets
  Base58.Base58 CashAddr.CashAddr Address.Bits Address.BitsProofs Address.Address Address.CashProofs
  Address.AddressProofs Address.DecodeProofs Address.LegacyProofs Address.RejectProofs Address.Spec Address.Final.
From BU Require Import Gen.Kernels Tie.KernelsTie.

(* accepted => the string is, up to the documented normalisations, the address's own string *)
Theorem C02_decode_canonical : forall (D : Deps) (net : Nets.net) (s : list N) (a : Addr D),
  wf_net net = true -> EC_canonical D -> dec D net s = Ok a ->
  exists text, str D a = Ok text /\ canonical_of D a s text.
Proof. exact Final.decode_canonical. Qed.
Print Assumptions C02_decode_canonical.

(* hence two strings decoding to the same address have the same normal form *)
Theorem C02_decode_injective : forall (D : Deps) (net : Nets.net) (s1 s2 : list N) (a : Addr D),
  wf_net net = true -> EC_canonical D -> dec D net s1 = Ok a -> dec D net s2 = Ok a ->
  exists text, canonical_of D a s1 text /\ canonical_of D a s2 text.
Proof. exact Final.decode_injective. Qed.
Print Assumptions C02_decode_injective.

(* strictness core: whatever strict 5->8 accepts is the padded 8->5 image of its result *)
Theorem C02_regroup_canonical : forall p d, Forall (fun x => x < 32) p -> convert_bits p 5 8 false = Ok d ->
  Bytes d /\ convert_bits d 8 5 true = Ok p.
Proof. exact pack_unpack. Qed.
Print Assumptions C02_regroup_canonical.

(* unknown version byte (all others incl. reserved bit), size/length disagreement *)
Theorem C02_unknown_version_rejected : forall (D : Deps) (net : Nets.net) (s q d p : list N), wf_net net = true ->
  Bytes d -> convert_bits d 8 5 true = Ok p ->
  (forall v h, d = v :: h -> ~ shape_ok v (length h)) ->
  ~ In 58 q -> spells s q p (create_checksum q p) -> not_cash D (dec D net s).
Proof. exact Final.unknown_version_rejected. Qed.
Print Assumptions C02_unknown_version_rejected.

(* payload of any length other than 21 / 33 bytes *)
Theorem C02_wrong_length_rejected : forall (D : Deps) (net : Nets.net) (s q d p : list N), wf_net net = true ->
  Bytes d -> convert_bits d 8 5 true = Ok p -> length d <> 21%nat -> length d <> 33%nat ->
  ~ In 58 q -> spells s q p (create_checksum q p) -> not_cash D (dec D net s).
Proof. exact Final.wrong_length_rejected. Qed.
Print Assumptions C02_wrong_length_rejected.

(* non-zero padding bits or a surplus symbol *)
Theorem C02_nonzero_padding_rejected : forall (D : Deps) (net : Nets.net) (s q p : list N), wf_net net = true ->
  Forall (fun x => x < 32) p ->
  (5 <= (5 * lenN p) mod 8 \/ (val 5 p) mod 2 ^ ((5 * lenN p) mod 8) <> 0) ->
  ~ In 58 q -> spells s q p (create_checksum q p) -> not_cash D (dec D net s).
Proof. exact Final.nonzero_padding_rejected. Qed.
Print Assumptions C02_nonzero_padding_rejected.

(* any 8 symbols other than the checksum under the net's cash or SLP prefix *)
Theorem C02_bad_checksum_rejected : forall (D : Deps) (net : Nets.net) (s q p ck : list N), wf_net net = true ->
  Forall (fun x => x < 32) p -> Forall (fun x => x < 32) ck -> length ck = 8%nat -> ~ In 58 q ->
  spells s q p ck ->
  ck <> create_checksum (cash_prefix net) p -> ck <> create_checksum (slp_prefix net) p ->
  not_cash D (dec D net s).
Proof. exact Final.bad_checksum_rejected. Qed.
Print Assumptions C02_bad_checksum_rejected.

(* a prefix that is neither of the network's two (in any ASCII case) is not an address at all *)
Theorem C02_foreign_prefix_rejected : forall (D : Deps) (net : Nets.net) (q rest : list N), wf_net net = true ->
  ~ In 58 q -> ascii_lower q <> cash_prefix net -> ascii_lower q <> slp_prefix net ->
  forall a, dec D net (q ++ 58 :: rest) <> Ok a.
Proof. exact Final.foreign_prefix_rejected. Qed.
Print Assumptions C02_foreign_prefix_rejected.

(* the four CashAddr rules above conclude [not_cash]; for every prefix-qualified rendering (a string
   containing ':', which neither hex nor Base58 can contain) that is outright rejection *)
Theorem C02_prefixed_not_cash_rejected : forall (D : Deps) (net : Nets.net) (s : list N), wf_net net = true ->
  In 58 s -> not_cash D (dec D net s) -> forall a, dec D net s <> Ok a.
Proof. exact Final.prefixed_not_cash_rejected. Qed.
Print Assumptions C02_prefixed_not_cash_rejected.

(* six nets: an SLP checksum never verifies under the cash prefix and conversely *)
Theorem C02_slp_cash_separated :
  Forall (fun n => has_slp n = true -> forall p, Forall (fun x => x < 32) p ->
            verify_checksum (cash_prefix n) (p ++ create_checksum (slp_prefix n) p) = false /\
            verify_checksum (slp_prefix n) (p ++ create_checksum (cash_prefix n) p) = false) all_nets.
Proof. exact Final.slp_cash_separated. Qed.
Print Assumptions C02_slp_cash_separated.

(* public key format byte strict: 02 03 04 06 07 only, and the format recorded is the byte's *)
Theorem C02_pubkey_format_strict : forall (D : Deps) (net : Nets.net) (s : list N) fmt pt id,
  dec D net s = Ok (PubKey fmt pt id) ->
  exists b0 t, hex_decode s = Some (b0 :: t) /\ d_parse D (b0 :: t) = Some pt /\
    ((b0 = 2 \/ b0 = 3) /\ fmt = PKFCompressed \/ (b0 = 6 \/ b0 = 7) /\ fmt = PKFHybrid \/ b0 = 4 /\ fmt = PKFUncompressed).
Proof. exact Final.pubkey_format_strict. Qed.
Print Assumptions C02_pubkey_format_strict.

(* an accepted cash-format address carries the asked net's cash or SLP prefix; non-SLP ones are for the net *)
Theorem C02_cash_is_for_net : forall (D : Deps) (net : Nets.net) (s : list N) (a : Addr D), wf_net net = true ->
  dec D net s = Ok a -> is_cash (d_P D) a = true ->
  (addr_prefix (d_P D) a = cash_prefix net \/ addr_prefix (d_P D) a = slp_prefix net) /\
  (addr_prefix (d_P D) a <> slp_prefix net -> for_net D a net = true) /\
  (forall n', for_net D a n' = true <-> cash_prefix n' = addr_prefix (d_P D) a).
Proof. exact Final.cash_is_for_net. Qed.
Print Assumptions C02_cash_is_for_net.

(* an accepted legacy address belongs to exactly the nets whose version byte it carries *)
Theorem C02_legacy_nets_exact : forall (D : Deps) (net : Nets.net) (s : list N) (a : Addr D),
  dec D net s = Ok a -> is_cash (d_P D) a = false -> (forall f pt id, a <> PubKey f pt id) ->
  exists id h, length h = 20%nat /\ s = check_encode h id /\
    ((a = LegPKH id h /\ mem id registered_pkh_ids = true /\ forall n', for_net D a n' = true <-> pkh_id n' = id) \/
     (a = LegSH id h /\ mem id registered_sh_ids = true /\ forall n', for_net D a n' = true <-> sh_id n' = id)).
Proof. exact Final.legacy_nets_exact. Qed.
Print Assumptions C02_legacy_nets_exact.

(* hypotheses are satisfiable: a valid-checksum string with the reserved bit set is refused *)
Example C02_example :
  let d := 128 :: spec_example_hash in
  exists p, convert_bits d 8 5 true = Ok p /\ (forall v h, d = v :: h -> ~ shape_ok v (length h)) /\
    is_ok (Final.dec Final.D0 mainnet (map chr (p ++ create_checksum (cash_prefix mainnet) p))) = false.
Proof. exact Final.reserved_bit_witness. Qed.

(* the checksum register the theorems above speak about is the translation of the Go source of
   polyMod (harness/cmd/gotrans -> Gen/Kernels.v): a structural change of polyMod breaks this *)
Theorem C02_polymod_is_translated_source : forall v, Bytes v -> Kernels.polyMod v = CashAddr.polymod v.
Proof. exact polyMod_tie. Qed.
Print Assumptions C02_polymod_is_translated_source.

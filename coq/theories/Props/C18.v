(* C18 — BIP69 sorting is a correct, non-destructive, idempotent permutation.
   Only statements; every proof is `exact <lemma proved elsewhere>`.
   `gosort` stands for Go's sort.Sort, bound only by [sort_contract]: given a comparator that is a
   strict weak order on the slice's elements it returns a permutation that sort.IsSorted accepts
   (nothing about stability).  wf_tx: every previous-outpoint hash is 32 bytes. *)
From BU Require Import Lib.Bytes Gen.Kernels2 TxSort.TxSort TxSort.SortLib TxSort.TxSortProofs TxSort.TxSortTie.
From Coq Require Import Permutation Sorted.

(* the input comparator is: transaction id read as a big-endian number, then output index *)
Theorem C18_in_less_is_spec : forall a b, wf_in a -> wf_in b ->
  (in_less a b = true <-> id_num a < id_num b \/ (id_num a = id_num b /\ in_index a < in_index b)).
Proof. exact in_less_is_spec. Qed.
Print Assumptions C18_in_less_is_spec.

(* id_num is the byte-reversed (displayed) id read big-endian *)
Theorem C18_id_num_big_endian : forall a, id_num a = be_value (rev (in_hash a)) 0.
Proof. exact (fun a => le_value_rev_be (in_hash a)). Qed.
Print Assumptions C18_id_num_big_endian.

(* the output comparator is: amount as a signed integer, then script bytes lexicographically *)
Theorem C18_out_less_is_spec : forall a b,
  out_less a b = true <->
  (out_value a < out_value b)%Z \/ (out_value a = out_value b /\ lex_lt (out_script a) (out_script b)).
Proof. exact out_less_is_spec. Qed.
Print Assumptions C18_out_less_is_spec.

(* lexicographic: a proper prefix first, otherwise the first differing byte decides *)
Theorem C18_lex_lt_char : forall a b,
  lex_lt a b <->
  (exists s, s <> [] /\ b = a ++ s) \/
  (exists p x s y t, a = p ++ x :: s /\ b = p ++ y :: t /\ x < y).
Proof. exact lex_lt_char. Qed.
Print Assumptions C18_lex_lt_char.

(* the same two statements for the machine transliterations of the two Less bodies (Gen/Kernels2.v,
   regenerated from the Go AST on every run); the input one also says that the transliterated body ends
   normally - no index of the reversal loop leaves the 32-byte arrays.  i, j are the slice positions *)
Theorem C18_translated_in_less_is_spec : forall a b i j, wf_in a -> wf_in b ->
  exists r, Kernels2.sortableInputSlice_Less (in_hash a) (in_hash b) (in_index a) (in_index b) i j = Ok r /\
            (r = true <-> id_num a < id_num b \/ (id_num a = id_num b /\ in_index a < in_index b)).
Proof. exact translated_in_less_is_spec. Qed.
Print Assumptions C18_translated_in_less_is_spec.

Theorem C18_translated_out_less_is_spec : forall a b i j,
  Kernels2.sortableOutputSlice_Less (out_value a) (out_value b) (out_script a) (out_script b) i j = true <->
  (out_value a < out_value b)%Z \/ (out_value a = out_value b /\ lex_lt (out_script a) (out_script b)).
Proof. exact translated_out_less_is_spec. Qed.
Print Assumptions C18_translated_out_less_is_spec.

(* both comparators are strict weak orders: what sort.Sort requires *)
Theorem C18_less_strict_weak_orders :
  (forall l, Forall wf_in l -> swo_on l in_less) /\ (forall l, swo_on l out_less).
Proof. exact (conj in_less_swo out_less_swo). Qed.
Print Assumptions C18_less_strict_weak_orders.

(* Sort: same elements, other fields identical, BIP69 order *)
Theorem C18_sort_perm_sorted : forall gosort, sort_contract gosort -> forall next tx, wf_tx tx ->
  let s := sort_tx gosort next tx in
  tx_other s = tx_other tx /\
  Permutation (map snd (tx_in tx)) (map snd (tx_in s)) /\
  Permutation (map snd (tx_out tx)) (map snd (tx_out s)) /\
  bip69_ordered s.
Proof. exact sort_perm_sorted. Qed.
Print Assumptions C18_sort_perm_sorted.

(* IsSorted is true exactly for transactions already in BIP69 order *)
Theorem C18_is_sorted_iff : forall tx, wf_tx tx -> (is_sorted tx = true <-> bip69_ordered tx).
Proof. exact is_sorted_iff. Qed.
Print Assumptions C18_is_sorted_iff.

(* ... and exactly for the transactions whose order Sort keeps *)
Theorem C18_is_sorted_iff_sort_fixes : forall g1, sort_contract g1 -> forall next tx, wf_tx tx ->
  (is_sorted tx = true <-> keyseq (sort_tx g1 next tx) = keyseq tx).
Proof. exact sorted_iff_fixed. Qed.
Print Assumptions C18_is_sorted_iff_sort_fixes.

(* idempotence: the result is sorted; sorting again (with any conforming sorter) or sorting a sorted
   transaction leaves the key sequence as it is *)
Theorem C18_sort_idempotent : forall g1 g2, sort_contract g1 -> sort_contract g2 -> forall next next' tx, wf_tx tx ->
  is_sorted (sort_tx g1 next tx) = true /\
  keyseq (sort_tx g2 next' (sort_tx g1 next tx)) = keyseq (sort_tx g1 next tx) /\
  (is_sorted tx = true -> keyseq (sort_tx g1 next tx) = keyseq tx).
Proof. exact sort_idempotent. Qed.
Print Assumptions C18_sort_idempotent.

(* idempotence on the elements themselves (not only their keys) whenever equal keys mean equal elements;
   without that premise sort.Sort, which is not stable, may order elements of equal key differently on
   a second pass, and only the key sequence is fixed *)
Theorem C18_sort_idempotent_elements : forall g1 g2, sort_contract g1 -> sort_contract g2 -> forall next next' tx, wf_tx tx ->
  ((forall a b, In a (map snd (tx_in tx)) -> In b (map snd (tx_in tx)) -> in_key a = in_key b -> a = b) ->
   map snd (tx_in (sort_tx g2 next' (sort_tx g1 next tx))) = map snd (tx_in (sort_tx g1 next tx)) /\
   (is_sorted tx = true -> map snd (tx_in (sort_tx g1 next tx)) = map snd (tx_in tx))) /\
  ((forall a b, In a (map snd (tx_out tx)) -> In b (map snd (tx_out tx)) -> out_key a = out_key b -> a = b) ->
   map snd (tx_out (sort_tx g2 next' (sort_tx g1 next tx))) = map snd (tx_out (sort_tx g1 next tx)) /\
   (is_sorted tx = true -> map snd (tx_out (sort_tx g1 next tx)) = map snd (tx_out tx))).
Proof. exact sort_idempotent_elems. Qed.
Print Assumptions C18_sort_idempotent_elements.

(* Sort only allocates: every object of the result is new (id >= allocation counter, pairwise distinct),
   so none is an object of the argument; the argument itself is a value the function only reads *)
Theorem C18_sort_non_destructive : forall g1, sort_contract g1 -> forall next tx, wf_tx tx ->
  let s := sort_tx g1 next tx in
  NoDup (ids s) /\ Forall (fun i => next <= i) (ids s) /\
  (Forall (fun i => i < next) (ids tx) -> forall i, In i (ids tx) -> ~ In i (ids s)).
Proof. exact sort_non_destructive. Qed.
Print Assumptions C18_sort_non_destructive.

(* InPlaceSort permutes the argument's own objects into the same key order as Sort; the sorted
   arrangement is unique up to elements with equal keys (so it is THE same order whenever equal keys
   mean equal elements) *)
Theorem C18_inplace_same_order : forall g1 g2, sort_contract g1 -> sort_contract g2 -> forall next tx, wf_tx tx ->
  keyseq (inplace_sort g1 tx) = keyseq (sort_tx g2 next tx) /\
  Permutation (ids tx) (ids (inplace_sort g1 tx)) /\
  ((forall a b, In a (map snd (tx_in tx)) -> In b (map snd (tx_in tx)) -> in_key a = in_key b -> a = b) ->
   map snd (tx_in (inplace_sort g1 tx)) = map snd (tx_in (sort_tx g2 next tx))) /\
  ((forall a b, In a (map snd (tx_out tx)) -> In b (map snd (tx_out tx)) -> out_key a = out_key b -> a = b) ->
   map snd (tx_out (inplace_sort g1 tx)) = map snd (tx_out (sort_tx g2 next tx))).
Proof. exact inplace_same_order. Qed.
Print Assumptions C18_inplace_same_order.

(* InPlaceSort itself: other fields identical; the argument's own (object, pointee) pairs permuted, inputs
   among the inputs and outputs among the outputs; BIP69 order; accepted by IsSorted *)
Theorem C18_inplace_perm_sorted : forall g1, sort_contract g1 -> forall tx, wf_tx tx ->
  let s := inplace_sort g1 tx in
  tx_other s = tx_other tx /\
  Permutation (tx_in tx) (tx_in s) /\ Permutation (tx_out tx) (tx_out s) /\
  bip69_ordered s /\ is_sorted s = true.
Proof. exact inplace_perm_sorted'. Qed.
Print Assumptions C18_inplace_perm_sorted.

(* the hypotheses are satisfiable: insertion sort meets the contract, and a concrete transaction *)
Example C18_contract_satisfiable : sort_contract isort.
Proof. exact isort_contract. Qed.
Print Assumptions C18_contract_satisfiable.

Example C18_example :
  let h k := k :: repeat 0 31 in
  let tx := mk_tx 1 [(0, mk_in (h 2) 1 7); (1, mk_in (h 1) 5 8); (2, mk_in (h 2) 0 9)]
                    [(3, mk_out 5%Z [1;2] 0); (4, mk_out (-1)%Z [9] 0); (5, mk_out 5%Z [1] 0)] in
  wf_tx tx /\ is_sorted tx = false /\
  map fst (tx_in (sort_tx isort 6 tx)) = [7;8;6] /\
  map snd (tx_in (sort_tx isort 6 tx)) = [mk_in (h 1) 5 8; mk_in (h 2) 0 9; mk_in (h 2) 1 7] /\
  map snd (tx_out (sort_tx isort 6 tx)) = [mk_out (-1)%Z [9] 0; mk_out 5%Z [1] 0; mk_out 5%Z [1;2] 0] /\
  is_sorted (sort_tx isort 6 tx) = true.
Proof.
  cbv zeta. split.
  - repeat constructor.
  - vm_compute. repeat split; reflexivity.
Qed.

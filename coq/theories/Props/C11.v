(* C11 — built merkle-block proofs verify and reveal exactly the chosen transactions; the two
   builders agree.  Only statements; every proof is `exact <lemma proved in Merkle/*.v>`.

   Models (Merkle/Merkle.v): [mb_new_with_txnset], [mb_new_with_filter] = merkleblock.NewMerkleBlockWithTxnSet /
   NewMerkleBlockWithFilter; [bl_new] = bloom.NewMerkleBlock; [extract] = NewMerkleBlockFromMsg +
   ExtractMatches.  [leaves] are the transaction ids of the block in order; [mm i] is
   bloom.GetMatchedIndices(block, filter)[i] (C10's subject, an arbitrary function here); [node_hash]
   is blockchain.HashMerkleBranches.  Specification (Merkle/PmtSpec.v): [spec_msg] is the message of the
   canonical BIP37 partial merkle tree [spec_tree], [merkle_root] the textbook level-by-level root,
   [chosen leaves sel] the chosen (position, id) pairs in block order. *)
From BU Require Import Lib.Bytes Merkle.Merkle Merkle.PmtSpec Merkle.MerkleArith Merkle.BuildProofs
  Merkle.BuildTop Merkle.MerkleExamples.

Local Open Scope N_scope.

(* build_is_spec: for every block with 1 <= n <= add_tx_hash_cap (= 12800001 = wire's maxTxPerBlock():
   beyond it AddTxHash refuses hashes and calcBlock discards that error, which the models do not
   reproduce - see Merkle.v "the domain on which this file is the code"; the cap is below 2^31, so the
   uint32 arithmetic of calcTreeWidth cannot wrap either) and every selection, each builder returns the
   canonical message and the positions of the chosen transactions *)
Theorem C11_build_is_spec_txnset : forall node_hash header leaves,
  0 < N.of_nat (length leaves) -> N.of_nat (length leaves) <= add_tx_hash_cap -> forall txnset,
  let sel := map (fun h => tx_in_set h txnset) leaves in
  exists H, is_height (N.of_nat (length leaves)) H /\
    mb_new_with_txnset node_hash header leaves txnset =
    Ok (spec_msg node_hash header leaves sel H, map fst (chosen leaves sel)).
Proof. exact build_is_spec_txnset_cap. Qed.
Print Assumptions C11_build_is_spec_txnset.

Theorem C11_build_is_spec_filter : forall node_hash header leaves,
  0 < N.of_nat (length leaves) -> N.of_nat (length leaves) <= add_tx_hash_cap -> forall mm : nat -> bool,
  let sel := map mm (seq 0 (length leaves)) in
  exists H, is_height (N.of_nat (length leaves)) H /\
    mb_new_with_filter node_hash header leaves mm =
    Ok (spec_msg node_hash header leaves sel H, map fst (chosen leaves sel)).
Proof. exact build_is_spec_filter_cap. Qed.
Print Assumptions C11_build_is_spec_filter.

Theorem C11_build_is_spec_bloom : forall node_hash header leaves,
  0 < N.of_nat (length leaves) -> N.of_nat (length leaves) <= add_tx_hash_cap -> forall mm : nat -> bool,
  let sel := map mm (seq 0 (length leaves)) in
  exists H, is_height (N.of_nat (length leaves)) H /\
    bl_new node_hash header leaves mm =
    Ok (spec_msg node_hash header leaves sel H, map fst (chosen leaves sel)).
Proof. exact build_is_spec_bloom_cap. Qed.
Print Assumptions C11_build_is_spec_bloom.

(* membership in the transaction set is membership *)
Theorem C11_tx_in_set_iff : forall h set, tx_in_set h set = true <-> In h set.
Proof. exact tx_in_set_In. Qed.
Print Assumptions C11_tx_in_set_iff.

(* the two builders return the same message and the same index list, for every block (any size,
   including the wrap-around region and the empty block) and every filter result *)
Theorem C11_builders_agree : forall node_hash header leaves (mm : nat -> bool),
  bl_new node_hash header leaves mm = mb_new_with_filter node_hash header leaves mm.
Proof. exact builders_agree. Qed.
Print Assumptions C11_builders_agree.

(* the canonical message: BIP37 shape, descends exactly towards chosen transactions, its root is the
   block's merkle root and its matches are the chosen transactions *)
Theorem C11_spec_msg_wellformed : forall node_hash leaves,
  0 < N.of_nat (length leaves) -> N.of_nat (length leaves) < 2 ^ 31 ->
  forall sel H, length sel = length leaves -> is_height (N.of_nat (length leaves)) H -> (H <= 31)%nat ->
  let t := spec_tree node_hash leaves sel H 0 in
  shape (N.of_nat (length leaves)) H 0 t /\ canonical t /\
  pmt_root node_hash t = merkle_root node_hash leaves /\
  pmt_matches 0 t = chosen leaves sel.
Proof. exact spec_msg_wellformed. Qed.
Print Assumptions C11_spec_msg_wellformed.

(* what [chosen] lists: (i + k, leaf k) for exactly the chosen k *)
Theorem C11_chosen_spec : forall ls ss i p x,
  length ss = length ls ->
  (In (p, x) (chosen_from i ls ss) <->
   exists k, p = i + N.of_nat k /\ nth_error ls k = Some x /\ nth_error ss k = Some true).
Proof. exact chosen_from_spec. Qed.
Print Assumptions C11_chosen_spec.

(* ... and lists them in block order (strictly increasing positions, so no transaction twice) *)
Theorem C11_chosen_in_block_order : forall ls ss i,
  Sorted.StronglySorted pos_lt (chosen_from i ls ss).
Proof. exact chosen_from_sorted. Qed.
Print Assumptions C11_chosen_in_block_order.

(* extract_build: extraction of the canonical message gives the merkle root and exactly the chosen
   transactions in block order.  Needs: no two nodes of a level of the block's merkle tree are equal —
   otherwise an inner node has equal children and the CVE-2012-2459 rule (C12) rejects, see
   [C11_extract_build_duplicates_refuted]. *)
Theorem C11_extract_build_levels : forall node_hash header leaves,
  0 < N.of_nat (length leaves) -> N.of_nat (length leaves) < 2 ^ 31 ->
  forall maxtx sel H,
  length sel = length leaves -> is_height (N.of_nat (length leaves)) H ->
  N.of_nat (length leaves) <= maxtx -> maxtx <= 2 ^ 30 ->
  (forall h, NoDup (levels node_hash h leaves)) ->
  extract node_hash maxtx (spec_msg node_hash header leaves sel H) =
  Ok (merkle_root node_hash leaves, chosen leaves sel).
Proof. exact extract_build_levels. Qed.
Print Assumptions C11_extract_build_levels.

(* ... which follows from distinct transaction ids and injective node hashing (the standard
   collision-free idealisation of double SHA-256) *)
Theorem C11_extract_build : forall node_hash,
  (forall a b c d, node_hash a b = node_hash c d -> a = c /\ b = d) ->
  forall header leaves sel maxtx H,
  leaves <> [] -> NoDup leaves -> length sel = length leaves ->
  is_height (N.of_nat (length leaves)) H ->
  N.of_nat (length leaves) <= maxtx -> maxtx <= 2 ^ 30 ->
  extract node_hash maxtx (spec_msg node_hash header leaves sel H) =
  Ok (merkle_root node_hash leaves, chosen leaves sel).
Proof. exact extract_build. Qed.
Print Assumptions C11_extract_build.

(* end to end for the two ways of choosing; the built message lies in the domain on which the model of
   extraction is the code ([msg_in_domain]: fewer than 2^32 flag bits and hashes) *)
Theorem C11_build_then_extract_txnset : forall node_hash,
  (forall a b c d, node_hash a b = node_hash c d -> a = c /\ b = d) ->
  forall header leaves txnset maxtx,
  leaves <> [] -> NoDup leaves ->
  N.of_nat (length leaves) <= add_tx_hash_cap ->
  N.of_nat (length leaves) <= maxtx -> maxtx <= 2 ^ 30 ->
  let sel := map (fun h => tx_in_set h txnset) leaves in
  exists m, mb_new_with_txnset node_hash header leaves txnset = Ok (m, map fst (chosen leaves sel)) /\
            msg_in_domain m /\
            extract node_hash maxtx m = Ok (merkle_root node_hash leaves, chosen leaves sel).
Proof. exact build_then_extract_txnset_cap. Qed.
Print Assumptions C11_build_then_extract_txnset.

Theorem C11_build_then_extract_filter : forall node_hash,
  (forall a b c d, node_hash a b = node_hash c d -> a = c /\ b = d) ->
  forall header leaves (mm : nat -> bool) maxtx,
  leaves <> [] -> NoDup leaves ->
  N.of_nat (length leaves) <= add_tx_hash_cap ->
  N.of_nat (length leaves) <= maxtx -> maxtx <= 2 ^ 30 ->
  let sel := map mm (seq 0 (length leaves)) in
  exists m, mb_new_with_filter node_hash header leaves mm = Ok (m, map fst (chosen leaves sel)) /\
            bl_new node_hash header leaves mm = Ok (m, map fst (chosen leaves sel)) /\
            msg_in_domain m /\
            extract node_hash maxtx m = Ok (merkle_root node_hash leaves, chosen leaves sel).
Proof. exact build_then_extract_filter_cap. Qed.
Print Assumptions C11_build_then_extract_filter.

(* without distinct transaction ids the round trip fails (and must: C12's equal-children rule) *)
Theorem C11_extract_build_duplicates_refuted :
  exists leaves txnset m idx,
    leaves <> [] /\
    mb_new_with_txnset toy_hash [] leaves txnset = Ok (m, idx) /\
    extract toy_hash 2098360 m = Err 5.
Proof. exact duplicate_leaves_rejected. Qed.
Print Assumptions C11_extract_build_duplicates_refuted.

(* the hypotheses are satisfiable: an injective node hash, a 7-transaction block, the subset {2, 6} *)
Theorem C11_example_hypotheses :
  (forall a b c d, toy_hash a b = toy_hash c d -> a = c /\ b = d) /\ NoDup leaves7 /\ is_height 7 3 /\
  mb_new_with_txnset toy_hash [] leaves7 txnset7 =
    Ok (mkMsg [] 7 [[1; 1; 2]; [3]; [4]; [1; 5; 6]; [7]] [91; 3], [2; 6]) /\
  extract toy_hash 2098360 msg7 = Ok (merkle_root toy_hash leaves7, [(2, [3]); (6, [7])]).
Proof. exact (conj toy_hash_inj (conj leaves7_nodup (conj msg7_is_height (conj msg7_value msg7_extracts)))). Qed.
Print Assumptions C11_example_hypotheses.

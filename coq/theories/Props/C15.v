(* C15 — extended keys are independent values and zeroing really erases them.
   Only statements; every proof is `exact <lemma proved in HDHeap/*.v>`.

   Model: HDHeap/HDHeap.v — a heap of byte buffers, slices (buffer, offset, length), a pool of key
   records holding slices; each operation of hdkeychain/extendedkey.go allocates / shares / carves
   exactly as the code does.  `run` is the heap machine; `trace` is the pure reference in which each
   pool slot holds the derivation term of its key and `eval` computes its value from that term alone. *)
From BU Require Import Lib.Bytes Gen.Xhdkeychain HDHeap.HDHeap HDHeap.HeapLemmas HDHeap.HDHeapProofs HDHeap.HDToy HDHeap.HDFinding HDHeap.HDAlloc.

(* For every finite sequence of {NewMaster, NewKeyFromString, NewExtendedKey (fresh buffers), Child i,
   Neuter, SetNet, Zero, String, ECPubKey, ECPrivKey, Address} over a pool, with arbitrary functions for
   HMAC-SHA512 / secp256k1 / HASH160 / checksum (D), subject only to "an empty public key does not parse":
   - every operation returns what the pure reference returns (for Child/ECPubKey applied to a zeroed
     key the reference only says "an error");
   - every key that has not itself been zeroed reads, through the heap, as the pure value of its own
     derivation (version, key, chain code, fingerprint, depth, child number, privacy), whatever was
     done to the other keys;
   - the slices Zero writes through (key, pubKey, chainCode, parentFP) of distinct keys are disjoint, and
     none overlaps any key's version slice (the only sharing: version, and Neuter of a public key
     returning the same handle, outcome OSame). *)
Theorem C15_keys_independent : forall (D : deps),
  (forall il, exists e, d_pub_add D il [] = Err e) -> (exists e, d_parse_pub D [] = Err e) ->
  forall ops,
  let s := fst (run D init ops) in let ds := fst (trace D [] ops) in
  length (st_keys s) = length ds /\
  Forall2 agree_out (snd (run D init ops)) (snd (trace D [] ops)) /\
  (forall j d, nth_error ds j = Some (Some d) ->
     exists k, nth_error (st_keys s) j = Some k /\ eval D d = Ok (view (st_heap s) k)) /\
  (forall j j' k k' a b, j <> j' -> nth_error (st_keys s) j = Some k -> nth_error (st_keys s) j' = Some k' ->
     In a (owned k') -> In b (owned k) -> disj a b) /\
  (forall k k' a v, In k (st_keys s) -> In k' (st_keys s) -> In a (owned k') -> In v (vers k) -> disj a v).
Proof. exact keys_independent. Qed.
Print Assumptions C15_keys_independent.

(* In ANY state (even one with aliasing), Zero on key k: every slice k referenced for key material,
   cached public key, chain code and fingerprint reads all-zero afterwards (same length), the key
   reports "zeroed extended key", ECPrivKey fails, key and version are nil, scalars are reset. *)
Theorem C15_zero_erases : forall (D : deps) s k xk,
  nth_error (st_keys s) k = Some xk ->
  let s' := fst (step D s (Zero k)) in
  snd (step D s (Zero k)) = ODone /\
  (forall a, In a (owned xk) -> allz (rd (st_heap s') a) /\ length (rd (st_heap s') a) = length (rd (st_heap s) a)) /\
  snd (step D s' (StringOf k)) = OZeroed /\
  snd (step D s' (ECPrivKey k)) = OErr 1 /\
  (exists xk', nth_error (st_keys s') k = Some xk' /\ x_key xk' = None /\ x_ver xk' = None /\ x_priv xk' = false /\
               x_depth xk' = 0 /\ x_num xk' = 0).
Proof. exact zero_erases. Qed.
Print Assumptions C15_zero_erases.

(* (review round 2) The allocation reading of the Zero clause.  In every REACHABLE state, Zero on a key that has not
   been zeroed leaves all-zero not only the slices but the whole ALLOCATIONS (heap buffers) in which the cached public
   key, the key material and the chain code live -- NewMaster's key and chain code tile one 64-byte HMAC output, Child
   (since /repo 593a81b), Neuter and NewExtendedKey give each an allocation of its own -- with ONE exception, stated
   as the first disjunct: a key obtained from NewKeyFromString, whose key / chain code (and fingerprint, version) are
   the ranges [45|46,78) and [13,45) of the one 82-byte decoded payload; there the field ranges are zero by
   C15_zero_erases and the depth byte, child number, 0x00 key prefix and checksum (public data) remain.
   The parent fingerprint is covered as a slice only (C15_zero_erases): for a derived key it is the first four bytes
   of a fresh 20-byte HASH160 of the parent's PUBLIC key; the other 16 bytes remain. *)
Theorem C15_zero_erases_allocations : forall (D : deps) ops k xk,
  let s := fst (run D init ops) in
  nth_error (st_keys s) k = Some xk -> x_key xk <> None ->
  let h' := st_heap (fst (step D s (Zero k))) in
  (forall a, x_pub xk = Some a -> allz (nth (s_id a) h' [])) /\
  (lay_parsed xk \/
   ((forall a, x_key xk = Some a -> allz (nth (s_id a) h' [])) /\ (forall a, x_cc xk = Some a -> allz (nth (s_id a) h' [])))).
Proof. exact zero_erases_allocations. Qed.
Print Assumptions C15_zero_erases_allocations.

(* With Child as it was before 593a81b (chain code = ilr[32:], a slice of the 64-byte HMAC output) the history
   NewMaster; Child 0 2^31; Zero 1 leaves Il in the allocation that holds the child's chain code: the slice reads
   all-zero, the allocation does not, and its first 32 bytes are Il = HMAC(c_par, 0x00 || k_par || ser32(2^31))[:32]. *)
Theorem C15_zero_allocation_refuted_old :
  exists xk a, nth_error (st_keys (fst (child_old toy (fst (new_master toy init seed16 0)) 0 2147483648))) 1 = Some xk /\
    x_cc xk = Some a /\
    allz (rd (st_heap old_child_state) a) /\
    ~ allz (nth (s_id a) (st_heap old_child_state) []) /\
    firstn 32 (nth (s_id a) (st_heap old_child_state) []) =
      firstn 32 (toy_hmac (skipn 32 (toy_hmac c_masterKey seed16)) (child_data true (firstn 32 (toy_hmac c_masterKey seed16)) 2147483648)).
Proof. exact zero_allocation_refuted_old. Qed.
Print Assumptions C15_zero_allocation_refuted_old.

(* The finding (repaired in /repo by 4c97b03): against a verbatim model of the OLD Neuter the history
   NewMaster; Neuter 0; String 1; Zero 0; String 1 yields an observation (index 4) that differs from
   the pure value of key 1, which no operation touched. *)
Theorem C15_keys_independent_refuted_old :
  exists ops n o po,
    nth_error (snd (run_gen toy true init ops)) n = Some o /\
    nth_error (snd (trace toy [] ops)) n = Some (Some po) /\
    o <> po.
Proof. exact keys_independent_refuted_old. Qed.
Print Assumptions C15_keys_independent_refuted_old.

(* hypotheses of C15_keys_independent are satisfiable, and a 29-step history over 7 keys touching every
   operation agrees with the pure reference by evaluation *)
Example C15_hypotheses_satisfiable :
  (forall il, exists e, d_pub_add toy il [] = Err e) /\ (exists e, d_parse_pub toy [] = Err e) /\
  agree_all (snd (run toy init tour)) (snd (trace toy [] tour)) = true.
Proof. exact (conj toy_pub_add_nil (conj toy_parse_pub_nil tour_fine)). Qed.

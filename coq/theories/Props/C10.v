(* C10 — transaction filtering finds every relevant transaction, in any block order.
   Only statements; every proof is `exact <lemma proved in Bloom/BloomTx*Proofs.v>`.

   The filter is abstract: any state type with contains/insert satisfying [filter_laws]
   (inserted items are contained; containment is monotone under insertion).  Script
   parsing (txscript.PushedData / GetScriptClass) is data carried by the transactions.
   Model: Bloom/BloomTx.v; vocabulary (matches_spec, filter_before, Rel, ...): Bloom/BloomTxSpec.v. *)
From BU Require Import Lib.Bytes Bloom.BloomTx Bloom.BloomTxSpec Bloom.BloomTxProofs Bloom.BloomTxScanProofs Bloom.BloomTxInst.
From BU Require Import Bloom.Murmur3 Bloom.Bloom Bloom.BloomTxBloom.
From Coq Require Import Permutation.

Section C10.
  Variables (F item txid : Type).
  Variable contains : F -> item -> bool.
  Variable insert : F -> item -> F.
  Variable txid_eqb : txid -> txid -> bool.
  Variable id_item : txid -> item.
  Variable op_item : txid -> N -> item.
  Hypothesis laws : filter_laws contains insert.
  Hypothesis txid_eqb_spec : forall a b, txid_eqb a b = true <-> a = b.

  (* matchTxAndUpdate returns true exactly when the filter contains the transaction id, or a
     data push of an output script (each output tested against the filter as already updated
     by the earlier outputs of the same transaction: the code's evaluation order), or an
     outpoint the transaction spends, or a data push of an input script.  The filter
     afterwards is the initial one updated output by output; every output that hit has its
     outpoint contained afterwards when the update flag allows its script class (All: always,
     P2PubkeyOnly: pay-to-pubkey and multisig, anything else: never); when no output hits the
     filter is unchanged. *)
  Theorem C10_match_iff : forall fl f (t : tx item txid),
    let r := match_tx_update contains insert id_item op_item fl f t in
    let before := filter_before contains insert op_item fl f t in
    (fst r = true <->
       contains f (id_item (t_id t)) = true
       \/ (exists k o, nth_error (t_outs t) k = Some o /\ out_hit contains (before k) o = true)
       \/ (exists inp, In inp (t_ins t) /\ contains f (op_item (i_hash inp) (i_index inp)) = true)
       \/ (exists inp ps p, In inp (t_ins t) /\ i_pushes inp = Some ps /\ In p ps /\ contains f p = true))
    /\ snd r = before (length (t_outs t))
    /\ (forall k o, nth_error (t_outs t) k = Some o -> out_hit contains (before k) o = true ->
          flag_allows fl (o_class o) = true -> contains (snd r) (op_item (t_id t) (N.of_nat k)) = true)
    /\ ((forall k o, nth_error (t_outs t) k = Some o -> out_hit contains (before k) o = false) -> snd r = f).
  Proof. exact (match_iff _ _ _ contains insert id_item op_item laws). Qed.

  (* the same, squeezed between the plain four-way disjunction against the initial filter
     (sufficient) and against the final filter (necessary); the filter only grows *)
  Theorem C10_match_bounds : forall fl f (t : tx item txid),
    let r := match_tx_update contains insert id_item op_item fl f t in
    (matches_spec contains id_item op_item f t -> fst r = true)
    /\ (fst r = true -> matches_spec contains id_item op_item (snd r) t)
    /\ le_f contains f (snd r).
  Proof.
    exact (fun fl f t =>
      conj (match_complete _ _ _ contains insert id_item op_item laws fl f f t (fun x H => H))
     (conj (match_sound _ _ _ contains insert id_item op_item laws fl f t)
           (match_le _ _ _ contains insert id_item op_item laws fl f t))).
  Qed.

  (* the scan never runs out of fuel: recursion depth <= n < n + inputs + 1 (termination) *)
  Theorem C10_scan_terminates : forall fl f0 (txs : list (tx item txid)),
    exists st, scan contains insert txid_eqb id_item op_item fl f0 txs = Some st.
  Proof. exact (fun fl f0 txs => scan_fuel_enough _ _ _ contains insert txid_eqb id_item op_item laws txid_eqb_spec fl txs f0). Qed.

  (* every reported index is reported once, denotes a transaction of the block, and that
     transaction matches the FINAL filter, which contains whatever the initial one did *)
  Theorem C10_scan_sound : forall fl f0 (txs : list (tx item txid)) st,
    scan contains insert txid_eqb id_item op_item fl f0 txs = Some st ->
    le_f contains f0 (s_f st) /\ NoDup (s_matched st) /\
    forall i, In i (s_matched st) ->
      exists t, nth_error txs i = Some t /\ matches_spec contains id_item op_item (s_f st) t.
  Proof. exact (fun fl f0 txs => scan_sound _ _ _ contains insert txid_eqb id_item op_item laws txid_eqb_spec fl txs f0). Qed.

  (* every relevant transaction is reported, whatever the order of the block: Rel is defined
     on the block txs as a set; the scan runs on an arbitrary permutation txs'.
     No acyclicity hypothesis is needed for the repaired algorithm (the "already matched"
     test cuts cycles); the old algorithm needed it to terminate at all. *)
  Theorem C10_scan_complete : forall fl f0 (txs txs' : list (tx item txid)) st',
    Permutation txs txs' ->
    scan contains insert txid_eqb id_item op_item fl f0 txs' = Some st' ->
    forall t, Rel contains id_item op_item fl f0 txs t ->
    forall k, nth_error txs' k = Some t -> In k (s_matched st').
  Proof. exact (scan_complete _ _ _ contains insert txid_eqb id_item op_item laws txid_eqb_spec). Qed.

  (* General form of completeness.  [Hot t k] may be ANY set of outputs with the property
     "after a matching call of matchTxAndUpdate on t, against any filter above f0, the
     outpoint (t, k) is contained"; RelH closes the f0-matching transactions under "spends a
     hot outpoint of a member".  C10_scan_complete is the instance Hot = hot0 (output k hits
     f0 and the flag allows its class).  Other instances cover outputs that only hit the
     GROWN filter, e.g. an output pushing the serialisation of an outpoint the transaction
     itself spends when the transaction can match in no other way (harness family alias-chain). *)
  Theorem C10_scan_complete_hot : forall fl (Hot : tx item txid -> nat -> Prop) f0 (txs txs' : list (tx item txid)) st',
    (forall f t k, le_f contains f0 f -> In t txs ->
       fst (match_tx_update contains insert id_item op_item fl f t) = true -> Hot t k ->
       contains (snd (match_tx_update contains insert id_item op_item fl f t)) (op_item (t_id t) (N.of_nat k)) = true) ->
    Permutation txs txs' ->
    scan contains insert txid_eqb id_item op_item fl f0 txs' = Some st' ->
    forall t, RelH contains id_item op_item Hot f0 txs t ->
    forall k, nth_error txs' k = Some t -> In k (s_matched st').
  Proof. exact (scan_complete_hot _ _ _ contains insert txid_eqb id_item op_item laws txid_eqb_spec). Qed.

  (* the scan performs at most n + (number of inputs) filter matches (distinct txids) *)
  Theorem C10_scan_cost : forall fl f0 (txs : list (tx item txid)) st,
    NoDup (map t_id txs) ->
    scan contains insert txid_eqb id_item op_item fl f0 txs = Some st ->
    (s_calls st <= length txs + total_inputs txs)%nat.
  Proof. exact (fun fl f0 txs => scan_cost_here _ _ _ contains insert txid_eqb id_item op_item laws txid_eqb_spec fl txs f0). Qed.

  (* The gap between C10_scan_sound and C10_scan_complete is exactly false positives: for a
     filter in which an insertion makes nothing else contained (an exact set), with an
     injective outpoint serialisation and no data push / txid equal to an outpoint
     serialisation of the block, the report is exactly Rel and the final filter contains
     exactly f0's items plus the outpoints of relevant transactions' f0-matching outputs. *)
  Theorem C10_scan_exact_without_false_positives : forall fl f0 (txs : list (tx item txid)) st,
    exact_insert contains insert -> op_injective op_item -> no_alias id_item op_item txs ->
    scan contains insert txid_eqb id_item op_item fl f0 txs = Some st ->
    (forall i, In i (s_matched st) -> exists t, nth_error txs i = Some t /\ Rel contains id_item op_item fl f0 txs t)
    /\ (forall x, contains (s_f st) x = true ->
          contains f0 x = true \/
          exists p k o, Rel contains id_item op_item fl f0 txs p /\ nth_error (t_outs p) k = Some o /\
                        out_hit contains f0 o = true /\ flag_allows fl (o_class o) = true /\
                        x = op_item (t_id p) (N.of_nat k)).
  Proof. exact (fun fl f0 txs st ex oi na => scan_exact _ _ _ contains insert txid_eqb id_item op_item laws txid_eqb_spec fl txs f0 ex oi na st). Qed.

  (* a filter that contains nothing (unloaded) matches nothing and is left unchanged *)
  Theorem C10_match_unloaded : forall fl f (t : tx item txid),
    (forall x, contains f x = false) -> match_tx_update contains insert id_item op_item fl f t = (false, f).
  Proof. exact (match_nothing _ _ _ contains insert id_item op_item). Qed.
End C10.
Print Assumptions C10_match_iff.
Print Assumptions C10_match_bounds.
Print Assumptions C10_scan_terminates.
Print Assumptions C10_scan_sound.
Print Assumptions C10_scan_complete.
Print Assumptions C10_scan_complete_hot.
Print Assumptions C10_scan_cost.
Print Assumptions C10_scan_exact_without_false_positives.
Print Assumptions C10_match_unloaded.

(* ---- review round 2: the theorems above for bloom/filter.go's OWN filter (the C09 model Bloom/Bloom.v), not only
   for "any filter satisfying the laws".  State = a loaded filter whose array is shorter than 2^29 bytes (implied by
   the wire limit; closed under add); contains = Bloom.matches, insert = Bloom.add, ids = the 32 bytes as stored,
   outpoints = Bloom.outpoint_bytes (txid ++ LE32 index), update flag = the loaded message's flag byte. *)
Theorem C10_bloom_model_satisfies_laws : filter_laws lf_contains lf_insert.
Proof. exact bloom_filter_laws. Qed.
Print Assumptions C10_bloom_model_satisfies_laws.

Theorem C10_bloom_insert_is_add : forall s x,
  lf_filter (lf_insert s x) = add (lf_filter s) x /\ m_flags (lf_msg (lf_insert s x)) = m_flags (lf_msg s).
Proof. exact (fun s x => conj (lf_insert_is_add s x) (lf_insert_flags s x)). Qed.
Print Assumptions C10_bloom_insert_is_add.

Theorem C10_bloom_scan_terminates : forall s txs, exists st, bloom_scan s txs = Some st.
Proof. exact bloom_scan_terminates. Qed.
Print Assumptions C10_bloom_scan_terminates.

Theorem C10_bloom_scan_sound : forall s txs st,
  bloom_scan s txs = Some st ->
  le_f lf_contains s (s_f st) /\ NoDup (s_matched st) /\
  forall i, In i (s_matched st) ->
    exists t, nth_error txs i = Some t /\ matches_spec lf_contains b_id_item b_op_item (s_f st) t.
Proof. exact bloom_scan_sound. Qed.
Print Assumptions C10_bloom_scan_sound.

Theorem C10_bloom_scan_complete : forall s txs txs' st',
  Permutation txs txs' -> bloom_scan s txs' = Some st' ->
  forall t, Rel lf_contains b_id_item b_op_item (uflag_of (m_flags (lf_msg s))) s txs t ->
  forall k, nth_error txs' k = Some t -> In k (s_matched st').
Proof. exact bloom_scan_complete. Qed.
Print Assumptions C10_bloom_scan_complete.

(* the unloaded filter (msgFilterLoad == nil) over the C09 operations themselves *)
Theorem C10_bloom_match_unloaded : forall fl (t : tx (list N) (list N)),
  match_tx_update matches add b_id_item b_op_item fl None t = (false, None).
Proof. exact bloom_match_unloaded. Qed.
Print Assumptions C10_bloom_match_unloaded.

(* a worked block on the real hashing: D spends P:0 and precedes P; both reported; P:0 ends up in the filter *)
Example C10_bloom_example :
  option_map (fun st => (s_matched st, lf_contains (s_f st) (outpoint_bytes ex_pid 0), lf_contains ex_filter (outpoint_bytes ex_pid 0)))
             (bloom_scan ex_filter [ex_D; ex_P]) = Some ([0; 1]%nat, true, false).
Proof. exact bloom_scan_example. Qed.

(* The algorithm as it was before the repair (verbatim copy: no "already matched" test)
   violates the cost bound: a six-transaction chain in reverse order needs 120 matches. *)
Theorem C10_scan_cost_old_refuted :
  exists (txs : list (tx N N)) (f0 : list N) (fuel : nat) (st : sstate (list N)),
    NoDup (map t_id txs) /\
    scan_old (set_contains N N.eqb) (set_insert N) N.eqb xid xop fuel UpdAll f0 txs = Some st /\
    (s_calls st > length txs + total_inputs txs)%nat.
Proof. exact scan_cost_old_refuted. Qed.
Print Assumptions C10_scan_cost_old_refuted.

(* ... and the distinct-ids hypothesis of C10_scan_cost cannot be dropped (current algorithm,
   a block containing the same parent twice: 7 matches > 3 + 2) *)
Theorem C10_scan_cost_needs_distinct_ids :
  exists (txs : list (tx N N)) (f0 : list N) (st : sstate (list N)),
    scan (set_contains N N.eqb) (set_insert N) N.eqb xid xop UpdAll f0 txs = Some st /\
    (s_calls st > length txs + total_inputs txs)%nat.
Proof. exact scan_cost_needs_distinct_ids. Qed.
Print Assumptions C10_scan_cost_needs_distinct_ids.

(* the hypotheses are satisfiable: an exact set and the bloom filter's bit-set semantics both
   satisfy the laws; the former also satisfies exact_insert *)
Example C10_laws_satisfiable :
  filter_laws (set_contains N N.eqb) (set_insert N) /\ exact_insert (set_contains N N.eqb) (set_insert N)
  /\ forall bits : N -> N, filter_laws (mask_contains N bits) (mask_insert N bits).
Proof. exact (conj (set_laws N N.eqb N_eqb_spec) (conj (set_exact N N.eqb N_eqb_spec) (mask_laws N))). Qed.
Print Assumptions C10_laws_satisfiable.

(* C10 — transaction filtering finds every relevant transaction, in any block order.
   Only statements; every proof is `exact <lemma proved in Bloom/BloomTx*Proofs.v>`.
   The filter is abstract: any state type with contains/insert satisfying [filter_laws]
   (inserted items are contained; containment is monotone under insertion). *)
From BU Require Import Lib.Bytes Bloom.BloomTx Bloom.BloomTxSpec Bloom.BloomTxProofs.

Section C10.
  Variables (F item txid : Type).
  Variable contains : F -> item -> bool.
  Variable insert : F -> item -> F.
  Variable txid_eqb : txid -> txid -> bool.
  Variable id_item : txid -> item.
  Variable op_item : txid -> N -> item.
  Hypothesis laws : filter_laws contains insert.

  Theorem C10_match_iff : forall fl f (t : tx item txid),
    let r := match_tx_update contains insert id_item op_item fl f t in
    let before := filter_before contains insert op_item fl f t in
    (fst r = true <->
       contains f (id_item (t_id t)) = true
       \/ (exists k o, nth_error (t_outs t) k = Some o /\ out_hit contains (before k) o = true)
       \/ (exists inp, In inp (t_ins t) /\ contains f (op_item (i_hash inp) (i_index inp)) = true)
       \/ (exists inp ps p, In inp (t_ins t) /\ i_pushes inp = Some ps /\ In p ps /\ contains f p = true))
    /\ snd r = before (length (t_outs t))
    /\ (forall k o, nth_error (t_outs t) k = Some o -> out_hit contains (before k) o = true ->
          flag_allows fl (o_class o) = true -> contains (snd r) (op_item (t_id t) (N.of_nat k)) = true)
    /\ ((forall k o, nth_error (t_outs t) k = Some o -> out_hit contains (before k) o = false) -> snd r = f).
  Proof. exact (match_iff _ _ _ contains insert id_item op_item laws). Qed.
End C10.
Print Assumptions C10_match_iff.

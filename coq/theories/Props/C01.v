(* C01 - every constructible address survives encode -> decode; the string is the specification's;
   script constructors hash correctly.  Only statements; proofs are in Address/*.v.
   Dependencies (RIPEMD-160, secp256k1 parse/serialise) are the fields of [Deps]; what is assumed
   of them appears as a premise ([EC_roundtrip], lengths of RIPEMD-160 output).  SHA-256 is Lib/Sha256.v.
   [shape v n te td] ranges over (version byte, hash length, encoder type, decoder type) =
   (0,20,0,0) P2PKH, (8,20,1,1) P2SH, (11,32,1,2) P2SH32; [cash_addr D td] builds PKH/SH/SH32. *)
From BU Require Import Lib.Bytes Lib.PolyMod Lib.Sha256 Gen.Xbchutil Gen.Nets
  Base58.Base58 CashAddr.CashAddr Address.Bits Address.BitsProofs Address.Address Address.CashProofs
  Address.AddressProofs Address.DecodeProofs Address.LegacyProofs Address.RejectProofs Address.Spec Address.Final.
From BU Require Import Gen.Kernels Tie.KernelsTie.

(* (a) the three cash kinds x {cash, SLP} x four renderings decode back to the same address, which re-encodes to the same string; cash-prefixed ones are for the net *)
Theorem C01_decode_encode_cash : forall (D : Deps) (net : net), wf_net net = true ->
  forall slp : bool, (slp = true -> has_slp net = true /\ slp_sep net = true) ->
  forall v n te td h, shape v n te td -> length h = n -> Bytes h ->
  let prefix := net_prefix net slp in
  let a := cash_addr D td prefix h in
  exists s, enc D a = Ok s /\ str D a = Ok s /\
    dec D net s = Ok a /\ dec D net (ascii_upper s) = Ok a /\
    dec D net (prefix ++ 58 :: s) = Ok a /\ dec D net (ascii_upper (prefix ++ 58 :: s)) = Ok a /\
    (slp = false -> for_net D a net = true).
Proof. exact Final.decode_encode_cash. Qed.
Print Assumptions C01_decode_encode_cash.

(* (b) legacy Base58Check P2PKH / P2SH *)
Theorem C01_decode_encode_legacy : forall (D : Deps) (net : Nets.net), wf_net net = true ->
  forall (id : N) (h : list N) (sh : bool), Bytes h -> length h = 20%nat -> id < 256 ->
  mem id registered_pkh_ids = negb sh -> mem id registered_sh_ids = sh ->
  let a : Addr D := if sh then LegSH id h else LegPKH id h in
  exists s, enc D a = Ok s /\ str D a = Ok s /\ s = check_encode h id /\ dec D net s = Ok a.
Proof. exact Final.decode_encode_legacy. Qed.
Print Assumptions C01_decode_encode_legacy.

(* (c) public keys in the three serialisations, lower and upper case hex *)
Theorem C01_decode_string_pubkey : forall (D : Deps) (net : Nets.net), wf_net net = true -> EC_roundtrip D ->
  forall fmt pt, fmt = PKFUncompressed \/ fmt = PKFCompressed \/ fmt = PKFHybrid ->
  let a : Addr D := PubKey fmt pt (pkh_id net) in
  exists s, str D a = Ok s /\ s = hex_encode (d_ser D fmt pt) /\
    dec D net s = Ok a /\ dec D net (ascii_upper s) = Ok a /\ for_net D a net = true.
Proof. exact Final.decode_string_pubkey. Qed.
Print Assumptions C01_decode_string_pubkey.

(* (d) the string is exactly the CashAddr specification's / Base58Check of version || hash || sha256d[:4] *)
Theorem C01_encode_is_spec : forall (D : Deps),
  (forall v n te td prefix h, shape v n te td -> length h = n -> Bytes h ->
     exists s, enc D (cash_addr D td prefix h) = Ok s /\ spec_cashaddr prefix te h = Some s) /\
  (forall id h, length h = 20%nat ->
     let s := Base58.encode ((id :: h) ++ firstn 4 (sha256 (sha256 (id :: h)))) in
     enc D (LegPKH id h) = Ok s /\ enc D (LegSH id h) = Ok s) /\
  (forall fmt pt id, length (d_ripemd160 D (sha256 (serialize (d_P D) (d_ser D) fmt pt))) = 20%nat ->
     let h := d_ripemd160 D (sha256 (serialize (d_P D) (d_ser D) fmt pt)) in
     enc D (PubKey fmt pt id) = Ok (Base58.encode ((id :: h) ++ firstn 4 (sha256 (sha256 (id :: h)))))).
Proof. exact Final.encode_is_spec. Qed.
Print Assumptions C01_encode_is_spec.

(* (e) script-taking constructors: HASH160 for 20-byte kinds, SHA256d for P2SH32 *)
Theorem C01_script_constructors_hash : forall (D : Deps) (net : Nets.net) (script : list N),
  (forall x, length (d_ripemd160 D x) = 20%nat) ->
  new_sh_script (d_ripemd160 D) (d_P D) net script = Ok (SH (cash_prefix net) (d_ripemd160 D (sha256 script))) /\
  new_sh32_script (d_P D) net script = Ok (SH32 (cash_prefix net) (sha256 (sha256 script))) /\
  new_leg_sh_script (d_ripemd160 D) (d_P D) net script = Ok (LegSH (sh_id net) (d_ripemd160 D (sha256 script))).
Proof. exact Final.script_constructors_hash. Qed.
Print Assumptions C01_script_constructors_hash.

(* the exported constructors (NewAddressPubKeyHash, NewSlp..., NewLegacy..., NewAddressScriptHash32FromHash,
   NewAddressPubKey) build exactly the values (a)-(c) quantify over, with ScriptAddress() = what was handed in *)
Theorem C01_constructors_build : forall (D : Deps) (net : Nets.net) (slp : bool) (h : list N),
  (length h = 20%nat ->
     new_pkh (d_P D) net slp h = Ok (PKH (net_prefix net slp) h) /\
     new_sh (d_P D) net slp h = Ok (SH (net_prefix net slp) h) /\
     new_leg_pkh (d_P D) (pkh_id net) h = Ok (LegPKH (pkh_id net) h) /\
     new_leg_sh (d_P D) (sh_id net) h = Ok (LegSH (sh_id net) h)) /\
  (length h = 32%nat -> new_sh32 (d_P D) net slp h = Ok (SH32 (net_prefix net slp) h)) /\
  (forall p id, script_address (d_P D) (d_ser D) (PKH p h) = h /\ script_address (d_P D) (d_ser D) (SH p h) = h /\
                script_address (d_P D) (d_ser D) (SH32 p h) = h /\ script_address (d_P D) (d_ser D) (LegPKH id h) = h /\
                script_address (d_P D) (d_ser D) (LegSH id h) = h) /\
  (EC_roundtrip D -> forall fmt pt, fmt = PKFUncompressed \/ fmt = PKFCompressed \/ fmt = PKFHybrid ->
     new_pubkey (d_P D) (d_parse D) net (d_ser D fmt pt) = Ok (PubKey fmt pt (pkh_id net)) /\
     script_address (d_P D) (d_ser D) (PubKey fmt pt (pkh_id net)) = d_ser D fmt pt).
Proof. exact Final.constructors_build. Qed.
Print Assumptions C01_constructors_build.

(* the six networks of chaincfg satisfy the premises used above (well-formed, SLP separated, ids registered for one kind) *)
Theorem C01_six_nets_ok :
  Forall (fun n => wf_net n = true /\ (has_slp n = true -> slp_sep n = true) /\
                   mem (pkh_id n) registered_pkh_ids = true /\ mem (pkh_id n) registered_sh_ids = false /\
                   mem (sh_id n) registered_sh_ids = true /\ mem (sh_id n) registered_pkh_ids = false /\
                   pkh_id n < 256 /\ sh_id n < 256) all_nets.
Proof. exact Final.six_nets_ok. Qed.
Print Assumptions C01_six_nets_ok.

(* regrouping core *)
Theorem C01_regroup_inverse : forall d, Bytes d ->
  exists p, convert_bits d 8 5 true = Ok p /\ Forall (fun x => x < 32) p /\
            5 * lenN p < 8 * lenN d + 5 /\ 8 * lenN d <= 5 * lenN p /\
            convert_bits p 5 8 false = Ok d.
Proof. exact unpack_pack. Qed.
Print Assumptions C01_regroup_inverse.

(* hypotheses are satisfiable: the specification's own vector decodes on mainnet *)
Example C01_example : Final.dec Final.D0 mainnet
  [113;112;109;50;113;115;122;110;104;107;115;50;51;122;55;54;50;57;109;109;115;54;115;52;99;119;101;102;55;52;118;99;119;118;121;50;50;103;100;120;54;97]
  = Ok (PKH (cash_prefix mainnet) spec_example_hash).
Proof. exact Final.mainnet_p2pkh_vector. Qed.

(* the checksum register the theorems above speak about is the translation of the Go source of
   polyMod (harness/cmd/gotrans -> Gen/Kernels.v): a structural change of polyMod breaks this *)
Theorem C01_polymod_is_translated_source : forall v, Bytes v -> Kernels.polyMod v = CashAddr.polymod v.
Proof. exact polyMod_tie. Qed.
Print Assumptions C01_polymod_is_translated_source.

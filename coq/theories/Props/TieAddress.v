(* Translator tie (coordinator-owned): convertBits and packAddressData of address.go, regenerated from the Go
   ASTs on every run, are the models the C01/C02 theorems are about. *)
From BU Require Import Lib.Bytes Gen.Kernels2 Address.Bits Address.Address Tie.Kernels2_Address.

Theorem Tie_convertBits : forall fuel data fromb tob pad,
  fromb + tob <= 64 -> (63 <= fuel)%nat ->
  Kernels2.convertBits fuel data fromb tob pad = Bits.convert_bits data fromb tob pad.
Proof. exact convertBits_tie. Qed.
Print Assumptions Tie_convertBits.

Theorem Tie_packAddressData : forall fuel t h, (63 <= fuel)%nat ->
  Kernels2.packAddressData fuel (Z.of_N t) h = Address.pack_address_data t h.
Proof. exact packAddressData_tie. Qed.
Print Assumptions Tie_packAddressData.

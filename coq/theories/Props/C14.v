(* C14 — GCS filters are bit-exact Golomb-Rice encodings and serialise losslessly; block-filter
   builder content; filter hash and header.
   Only statements; every proof is `exact <lemma proved elsewhere>`.

   [hash] stands for siphash.Sum64 (any function below 2^64), [sort] for sort.Slice (any function
   returning a sorted permutation); Bip158Spec.v is the arithmetic (machine-word-free) reading. *)
From BU Require Import Lib.Bytes Lib.Sha256 Gcs.SipHash Gcs.Sort Gcs.Gcs Gcs.GcsProofs Gcs.GcsBitsProofs
  Gcs.GcsMatchProofs Gcs.GcsTheorems Gcs.GcsSortProofs Gcs.Bip158Spec Gcs.GcsSerProofs
  Gcs.GcsBuilder Gcs.GcsBuilderProofs.
From BU Require Import Gen.Kernels Tie.KernelsTie.
From Coq Require Import Sorting.Sorted Sorting.Permutation.

(* the portable 64x64 -> high 64 multiply is exact: floor(v*n / 2^64) for all 64-bit v, n *)
Theorem C14_fast_reduction_spec : forall v n, v < two64 -> n < two64 ->
  fast_reduction v (N.shiftr n 32) (lo32 n) = v * n / two64.
Proof. exact fast_reduction_spec. Qed.
Print Assumptions C14_fast_reduction_spec.

(* the model's fast_reduction IS the source: Gen/Kernels.v is regenerated from the Go AST of
   fastReduction on every run (harness/cmd/gotrans) and is the same function as the hand-written model
   for ALL arguments; a structural change of the Go function breaks this obligation at make time *)
Theorem C14_fast_reduction_is_translated_source : forall v nHi nLo,
  Kernels.fastReduction v nHi nLo = Gcs.fast_reduction v nHi nLo.
Proof. exact fastReduction_tie. Qed.
Print Assumptions C14_fast_reduction_is_translated_source.

Theorem C14_translated_fast_reduction_spec : forall v nHi nLo,
  v < 2 ^ 64 -> nHi < 2 ^ 32 -> nLo < 2 ^ 32 ->
  Kernels.fastReduction v nHi nLo = (v * (nHi * 2 ^ 32 + nLo)) / 2 ^ 64.
Proof. exact fastReduction_spec. Qed.
Print Assumptions C14_translated_fast_reduction_spec.

(* filter bytes = pack (Golomb-Rice codes of the deltas of the sorted values floor(H(key,item)*N*M/2^64)),
   N() = number of items, P() = P, whenever N*M fits 64 bits *)
Theorem C14_build_is_bip158 : forall hash sort, hash_ok hash -> sort_ok sort ->
  forall P M key data,
    P <= 32 -> N.of_nat (length data) < two32 -> N.of_nat (length data) * M < two64 ->
    exists f, build hash sort P M key data = Ok f /\
              f_n f = N.of_nat (length data) /\ f_p f = P /\
              f_data f = spec_filter_bytes hash sort P M key data.
Proof. exact build_is_bip158. Qed.
Print Assumptions C14_build_is_bip158.

(* the hypothesis N*M < 2^64 above cannot be dropped: BuildGCSFilter computes uint64(N)*M, which wraps;
   beyond it the bytes are NOT the BIP158 encoding.  Witness N = 2, M = 2^63, P = 32 (modulus 0 in the
   code, 2^64 in the specification); only reachable through the raw BuildGCSFilter API (the builder
   rejects M > MaxUint32, so N*M < 2^64 always holds there), and the specified encoding would need
   unary runs of about M/2^P >= 2^31 bits *)
Theorem C14_build_is_bip158_unbounded_refuted :
  exists hash sort P M key data f,
    hash_ok hash /\ sort_ok sort /\ P <= 32 /\ N.of_nat (length data) < two32 /\
    two64 <= N.of_nat (length data) * M /\
    build hash sort P M key data = Ok f /\
    f_data f <> spec_filter_bytes hash sort P M key data.
Proof. exact bip158_unbounded_refuted. Qed.
Print Assumptions C14_build_is_bip158_unbounded_refuted.

(* the filter does not depend on the order in which the items are supplied (Go map iteration order
   in GCSBuilder.Build is immaterial) *)
Theorem C14_build_order_independent : forall hash sort, sort_ok sort ->
  forall P M key data data', Permutation data data' ->
    build hash sort P M key data = build hash sort P M key data'.
Proof. exact build_perm. Qed.
Print Assumptions C14_build_order_independent.

(* Bytes / NBytes / PBytes / NPBytes are the stated concatenations (CompactSize N, one byte P, bytes) *)
Theorem C14_serialisations : forall f,
  filter_bytes f = f_data f /\
  filter_nbytes f = compact_size (f_n f) ++ f_data f /\
  filter_pbytes f = [f_p f] ++ f_data f /\
  filter_npbytes f = compact_size (f_n f) ++ [f_p f] ++ f_data f.
Proof. exact serialisations. Qed.
Print Assumptions C14_serialisations.

Theorem C14_compactsize_roundtrip : forall n rest, n < two64 -> read_varint (write_varint n ++ rest) = Ok (n, rest).
Proof. exact read_write_varint. Qed.
Print Assumptions C14_compactsize_roundtrip.

(* a filter rebuilt from Bytes()+N()+P() or from NBytes()+P() is the same filter (same N, P, modulus,
   bytes), hence answers every query identically; holds for every filter with N < 2^32, P <= 32 whose
   modulus is N*M, in particular for every built filter *)
Theorem C14_deserialise_roundtrip : forall f M,
  f_n f < two32 -> f_p f <= 32 -> f_mod f = w64 (f_n f * M) ->
  from_bytes (f_n f) (f_p f) M (filter_bytes f) = Ok f /\
  from_nbytes (f_p f) M (filter_nbytes f) = Ok f.
Proof. exact deserialise_roundtrip. Qed.
Print Assumptions C14_deserialise_roundtrip.

(* the same for the P- and NP-prefixed forms.  This version of the library has no FromPBytes /
   FromNPBytes: "rebuilt from them" means strip P (resp. parse CompactSize N, strip P) and call FromBytes.
   The NP-prefixed string parses uniquely into (N, P, bytes). *)
Theorem C14_deserialise_roundtrip_prefixed : forall f M,
  f_n f < two32 -> f_p f <= 32 -> f_mod f = w64 (f_n f * M) ->
  (exists rest, filter_pbytes f = f_p f :: rest /\ from_bytes (f_n f) (f_p f) M rest = Ok f) /\
  (exists rest, read_varint (filter_npbytes f) = Ok (f_n f, f_p f :: rest) /\
                from_bytes (f_n f) (f_p f) M rest = Ok f).
Proof. exact deserialise_roundtrip_prefixed. Qed.
Print Assumptions C14_deserialise_roundtrip_prefixed.

(* ... and the hypotheses of the two theorems above hold for EVERY built filter (any hash, any sort, any
   M, wrap of N*M included): a built filter round-trips through all four serialisations; the rebuilt
   filter is the same record (N, P, modulus, bytes), so every query - a function of the record, the key
   and the items - answers identically *)
Theorem C14_built_filter_roundtrip : forall hash sort P M key data f,
  build hash sort P M key data = Ok f ->
  from_bytes (f_n f) (f_p f) M (filter_bytes f) = Ok f /\
  from_nbytes (f_p f) M (filter_nbytes f) = Ok f /\
  (exists rest, filter_pbytes f = f_p f :: rest /\ from_bytes (f_n f) (f_p f) M rest = Ok f) /\
  (exists rest, read_varint (filter_npbytes f) = Ok (f_n f, f_p f :: rest) /\
                from_bytes (f_n f) (f_p f) M rest = Ok f).
Proof. exact built_roundtrip. Qed.
Print Assumptions C14_built_filter_roundtrip.

(* FromNBytes accepts exactly: canonical CompactSize N below 2^32, P <= 32; the rest is the filter *)
Theorem C14_from_nbytes_accepts : forall P M d f,
  from_nbytes P M d = Ok f <->
  exists n rest, read_varint d = Ok (n, rest) /\ n < two32 /\ P <= 32 /\ f = mkFilter n P (w64 (n * M)) rest.
Proof. exact from_nbytes_accepts. Qed.
Print Assumptions C14_from_nbytes_accepts.

(* BuildBasicFilter / BuildMempoolFilter: P = 19, M = 784931 (from the Go source), key = first 16 bytes
   of the key hash, entries = the de-duplicated list below *)
Theorem C14_builder_content : forall hash sort txs keyhash,
  basic_filter_with_key hash sort txs keyhash =
    build hash sort default_p default_m (firstn 16 (keyhash ++ repeat 0 16)) (add_all [] (block_entries 0 txs)).
Proof. exact builder_content. Qed.
Print Assumptions C14_builder_content.

(* BuildBasicFilter: the key hash is the block hash (SHA256d of the 80-byte header); BuildMempoolFilter:
   zero key, and - an empty transaction standing in for the coinbase - the inputs of ALL given
   transactions are included *)
Theorem C14_block_filter_keys : forall hash sort header txs,
  build_basic_filter hash sort header txs =
    build hash sort default_p default_m (firstn 16 (sha256d header ++ repeat 0 16)) (add_all [] (block_entries 0 txs)) /\
  build_mempool_filter hash sort txs =
    build hash sort default_p default_m (repeat 0 16) (add_all [] (block_entries 1 txs)).
Proof. exact block_filter_keys. Qed.
Print Assumptions C14_block_filter_keys.

Theorem C14_mempool_entries : forall txs,
  let es := add_all [] (block_entries 1 txs) in
  NoDup es /\
  forall e, In e es <->
    (exists t o, In t txs /\ In o (tx_ins t) /\ e = ser_outpoint o) \/
    (exists t, In t txs /\ In e (tx_outs t) /\ e <> []).
Proof. exact mempool_entries_spec. Qed.
Print Assumptions C14_mempool_entries.

Theorem C14_builder_params : default_p = 19 /\ default_m = 784931.
Proof. exact default_params. Qed.
Print Assumptions C14_builder_params.

(* ... where the entries are exactly: the serialised outpoints spent by the inputs of every transaction
   but the first, and every non-empty output script, without duplicates *)
Theorem C14_builder_entries : forall txs,
  let es := add_all [] (block_entries 0 txs) in
  NoDup es /\
  forall e, In e es <->
    (exists k t o, nth_error txs (S k) = Some t /\ In o (tx_ins t) /\ e = ser_outpoint o) \/
    (exists t, In t txs /\ In e (tx_outs t) /\ e <> []).
Proof. exact basic_entries_spec. Qed.
Print Assumptions C14_builder_entries.

(* once an error is latched every further call is a no-op and Key()/Build() return that error *)
Theorem C14_builder_latch : forall hash sort b e, b_err b = Some e ->
  (forall k, set_key b k = b) /\ (forall h, set_key_from_hash b h = b) /\
  (forall p, set_p b p = b) /\ (forall m, set_m b m = b) /\ (forall n, preallocate b n = b) /\
  (forall x, add_entry b x = Ok b) /\ (forall xs, add_entries b xs = Ok b) /\ (forall h, add_hash b h = Ok b) /\
  b_key_get b = Err e /\ b_build hash sort b = Err e.
Proof. exact builder_latch. Qed.
Print Assumptions C14_builder_latch.

(* Build() on a live builder: "p value is not set" (class 5) when p = 0, else "m value is not set"
   (class 6) when m = 0, else BuildGCSFilter of the entry set (0, 0, 16 and 32 are read from the source) *)
Theorem C14_builder_build : forall hash sort b, b_err b = None ->
  b_build hash sort b =
    if b_p b =? 0 then Err 5 else if b_m b =? 0 then Err 6
    else build hash sort (b_p b) (b_m b) (b_key b) (entries_of b).
Proof. exact builder_build_live. Qed.
Print Assumptions C14_builder_build.

Theorem C14_builder_param_checks : forall b, b_err b = None ->
  (forall p, 32 < p -> b_err (set_p b p) = Some 2) /\
  (forall p, p <= 32 -> set_p b p = mkBuilder p (b_m b) (b_key b) (b_data b) None) /\
  (forall m, 4294967295 < m -> b_err (set_m b m) = Some 2) /\
  (forall m, m <= 4294967295 -> set_m b m = mkBuilder (b_p b) m (b_key b) (b_data b) None).
Proof. exact builder_param_checks. Qed.
Print Assumptions C14_builder_param_checks.

(* filter hash = SHA256d(CompactSize(N) || bytes); header = SHA256d(hash || previous header) *)
Theorem C14_hash_header : forall f prev,
  filter_hash f = sha256d (compact_size (f_n f) ++ f_data f) /\
  filter_header f prev = sha256d (sha256d (compact_size (f_n f) ++ f_data f) ++ prev).
Proof. exact hash_header. Qed.
Print Assumptions C14_hash_header.

(* BIP158 test vector: the basic filter of the testnet genesis block is 019dfca8
   (one entry, the coinbase output script; key = first 16 bytes of the block hash) *)
Definition sip64 (k d : list N) : N := w64 (siphash k d).
Example C14_bip158_testnet_genesis :
  let blockhash := [67;73;127;215;248;38;149;113;8;244;163;15;217;206;195;174;186;121;151;32;132;233;14;173;1;234;51;9;0;0;0;0] in
  let script := [65;4;103;138;253;176;254;85;72;39;25;103;241;166;113;48;183;16;92;214;168;40;224;57;9;166;121;98;224;234;31;97;222;182;73;246;188;63;76;239;56;196;243;85;4;229;30;193;18;222;92;56;77;247;186;11;141;87;138;76;112;43;107;241;29;95;172] in
  exists f, basic_filter_with_key sip64 isort [mkTx [mkOutpoint (repeat 0 32) 4294967295] [script]] blockhash = Ok f /\
            filter_nbytes f = [1; 157; 252; 168].
Proof. cbv zeta. eexists. split; [vm_compute; reflexivity | reflexivity]. Qed.

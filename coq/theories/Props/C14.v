(* C14 — GCS filters are bit-exact Golomb-Rice encodings and serialise losslessly.
   Only statements; every proof is `exact <lemma proved elsewhere>`. *)
From BU Require Import Lib.Bytes Gcs.SipHash Gcs.Gcs Gcs.GcsProofs.

(* the portable 64x64 -> high 64 multiply is exact: floor(v*n / 2^64) for all 64-bit v, n *)
Theorem C14_fast_reduction_spec : forall v n, v < two64 -> n < two64 ->
  fast_reduction v (N.shiftr n 32) (lo32 n) = v * n / two64.
Proof. exact fast_reduction_spec. Qed.
Print Assumptions C14_fast_reduction_spec.

(* State-shape obligation (coordinator-owned).  The models read the functions of package base58 as functions of their
   arguments and of the modelled struct fields only.  That reading is valid as long as the package declares no
   further package-level variable and no further struct field (a cache, memo, counter, fast-path flag …).
   Gen.Shape is regenerated from the Go source on every run; Shape.Baseline is what the models were written against. *)
From BU Require Import Gen.Shape Shape.Baseline.

Theorem Shape_base58_unchanged : shape_base58 = base_base58.
Proof. exact eq_refl. Qed.
Print Assumptions Shape_base58_unchanged.

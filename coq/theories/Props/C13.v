(* C13 — Golomb-coded set filters never miss a member and all query strategies agree.
   Only statements; every proof is `exact <lemma proved elsewhere>`. *)
From BU Require Import Lib.Bytes Gcs.SipHash Gcs.Gcs Gcs.GcsProofs.

(* an empty query matches nothing, whatever the filter (built or deserialised) *)
Theorem C13_empty_query_none : forall hash sort f key,
  zip_match_any hash sort f key [] = Ok false /\
  hash_match_any hash f key [] = Ok false /\
  match_any hash sort f key [] = Ok false.
Proof. exact empty_query_none. Qed.
Print Assumptions C13_empty_query_none.

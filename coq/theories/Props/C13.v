(* C13 — Golomb-coded set filters never miss a member and all query strategies agree.
   Only statements; every proof is `exact <lemma proved elsewhere>`.

   [hash] stands for siphash.Sum64 (any function below 2^64), [sort] for sort.Slice (any function
   returning a sorted permutation); the run driver instantiates them with Gcs/SipHash.v and the
   insertion sort of Gcs/Sort.v (proved to be one in Gcs/GcsSortProofs.v). *)
From BU Require Import Lib.Bytes Gcs.SipHash Gcs.Sort Gcs.Gcs Gcs.GcsProofs Gcs.GcsBitsProofs
  Gcs.GcsMatchProofs Gcs.GcsTheorems Gcs.GcsCostProofs Gcs.GcsSortProofs Gcs.BStream Gcs.BStreamProofs Gcs.SipHashVectors.
From BU Require Import Gen.Kernels Tie.KernelsTie.
From Coq Require Import Sorting.Sorted Sorting.Permutation.

(* reading N values from the encoding of an ascending list returns its deltas (and leaves the rest) *)
Theorem C13_decode_encode : forall P last vals rest,
  P <= 32 -> chain last vals ->
  read_values (length vals) P (encode P last vals ++ rest) = Some (deltas last vals, rest).
Proof. exact decode_encode. Qed.
Print Assumptions C13_decode_encode.

(* bytes written by the bit-stream writer read back as the same bits followed by fewer than 8 zero bits *)
Theorem C13_pack_bits : forall bs, exists k, (k < 8)%nat /\ bits_of_bytes (pack bs) = bs ++ repeat false k.
Proof. exact pack_bits. Qed.
Print Assumptions C13_pack_bits.

(* the <= 7 zero pad bits (indeed any run of zero bits) decode only to repeats of the last value *)
Theorem C13_pad_repeats_last : forall P last, last < two64 ->
  forall fuel k, (k < fuel)%nat -> exists j, decode_all fuel P (repeat false k) last = Ok (repeat last j).
Proof. exact decode_all_pad. Qed.
Print Assumptions C13_pad_repeats_last.

(* BuildGCSFilter succeeds exactly on the admissible parameters, so the theorems below cover every
   key, every M, every P <= 32 and every data set of fewer than 2^32 items *)
Theorem C13_build_total : forall hash sort P M key data,
  P <= 32 -> N.of_nat (length data) < two32 -> exists f, build hash sort P M key data = Ok f.
Proof. exact build_total. Qed.
Print Assumptions C13_build_total.

(* a member is reported by the single-item query, by both strategies and by their dispatcher *)
Theorem C13_member_matches : forall hash sort, hash_ok hash -> sort_ok sort ->
  forall P M key data f, build hash sort P M key data = Ok f ->
  forall d, In d data ->
    gmatch hash f key d = Ok true /\
    forall qs, In d qs ->
      zip_match_any hash sort f key qs = Ok true /\
      hash_match_any hash f key qs = Ok true /\
      match_any hash sort f key qs = Ok true.
Proof. exact member_matches_all. Qed.
Print Assumptions C13_member_matches.

(* the single-item query is exact: true iff the item's hashed value is the hashed value of a member *)
Theorem C13_match_exact : forall hash sort, hash_ok hash -> sort_ok sort ->
  forall P M key data f, build hash sort P M key data = Ok f ->
  forall q, gmatch hash f key q = Ok true <-> exists d, In d data /\ hashed hash f key d = hashed hash f key q.
Proof. exact match_exact. Qed.
Print Assumptions C13_match_exact.

Theorem C13_empty_filter_none : forall hash sort, hash_ok hash -> sort_ok sort ->
  forall P M key f, build hash sort P M key [] = Ok f ->
    (forall q, gmatch hash f key q = Ok false) /\
    (forall qs, zip_match_any hash sort f key qs = Ok false /\
                hash_match_any hash f key qs = Ok false /\
                match_any hash sort f key qs = Ok false).
Proof. exact empty_filter_none_all. Qed.
Print Assumptions C13_empty_filter_none.

(* an empty query matches nothing, whatever the filter (built or deserialised) *)
Theorem C13_empty_query_none : forall hash sort f key,
  zip_match_any hash sort f key [] = Ok false /\
  hash_match_any hash f key [] = Ok false /\
  match_any hash sort f key [] = Ok false.
Proof. exact empty_query_none. Qed.
Print Assumptions C13_empty_query_none.

(* on a built filter each any-of form is true exactly when some queried item matches individually *)
Theorem C13_strategies_agree : forall hash sort, hash_ok hash -> sort_ok sort ->
  forall P M key data f, build hash sort P M key data = Ok f ->
  forall qs,
    let some_item := exists q, In q qs /\ gmatch hash f key q = Ok true in
    (zip_match_any hash sort f key qs = Ok true <-> some_item) /\
    (hash_match_any hash f key qs = Ok true <-> some_item) /\
    (match_any hash sort f key qs = Ok true <-> some_item).
Proof. exact strategies_agree_all. Qed.
Print Assumptions C13_strategies_agree.

(* ... and none of them fails: all three return Ok of the same boolean *)
Theorem C13_strategies_agree_bool : forall hash sort, hash_ok hash -> sort_ok sort ->
  forall P M key data f, build hash sort P M key data = Ok f ->
  forall qs,
    let b := existsb (fun q => match gmatch hash f key q with Ok true => true | _ => false end) qs in
    zip_match_any hash sort f key qs = Ok b /\
    hash_match_any hash f key qs = Ok b /\
    match_any hash sort f key qs = Ok b.
Proof. exact strategies_agree_bool. Qed.
Print Assumptions C13_strategies_agree_bool.

(* C08 gcs_match_cost: on ANY filter (hostile N, P, bytes) the four query forms terminate within the
   fuel 8*|bytes|+1 (never the out-of-fuel value), because every successful code read consumes at
   least P+1 bits of the 8*|bytes| available: at most 8*|bytes| bit reads succeed *)
Theorem C13_match_cost : forall hash sort f key q qs,
  (exists b, gmatch hash f key q = Ok b) /\
  (exists b, zip_match_any hash sort f key qs = Ok b) /\
  (exists b, hash_match_any hash f key qs = Ok b) /\
  (exists b, match_any hash sort f key qs = Ok b) /\
  (forall bs d rest, read_full (f_p f) bs = Some (d, rest) ->
     (length rest + N.to_nat (f_p f) + 1 <= length bs)%nat).
Proof. exact match_cost. Qed.
Print Assumptions C13_match_cost.

(* C08 gcs_alloc: the capacity HashMatchAny asks for, and the number of entries it then inserts, are
   bounded by what the bytes can encode, whatever N claims *)
Theorem C13_alloc_bound : forall f,
  size_hint f <= N.of_nat (8 * length (f_data f)) / (f_p f + 1) /\
  size_hint f <= f_n f /\
  forall vs, decode_all (fuel_of f) (f_p f) (bits_of_bytes (f_data f)) 0 = Ok vs ->
             N.of_nat (length vs) <= N.of_nat (8 * length (f_data f)) / (f_p f + 1).
Proof. exact alloc_bound. Qed.
Print Assumptions C13_alloc_bound.

(* the bit-list stream of the model is github.com/kkdai/bstream's byte/offset reader: reading one
   Golomb-Rice code through ReadBit/ReadByte/ReadBits (EOF rules included) gives the same value, the
   same EOF outcome and leaves the same unread bits, for every P up to 64 on every byte string *)
Theorem C13_bstream_reader : forall P s, wf s -> P <= 64 ->
  match read_full P (bits_of_state s) with
  | None => bs_read_full P s = None
  | Some (d, rest) => exists s', bs_read_full P s = Some (d, s') /\ bits_of_state s' = rest /\ wf s'
  end.
Proof. exact bs_read_full_spec. Qed.
Print Assumptions C13_bstream_reader.

Theorem C13_bstream_decode : forall P data last fuel, P <= 64 -> Bytes data ->
  bs_decode_all fuel P (new_reader data) last = decode_all fuel P (bits_of_bytes data) last.
Proof. exact stream_readers_agree. Qed.
Print Assumptions C13_bstream_decode.

(* the model's fast_reduction IS the source: Gen/Kernels.v is regenerated from the Go AST of
   fastReduction on every run (harness/cmd/gotrans) and is the same function as the hand-written model
   for ALL arguments; a structural change of the Go function breaks this obligation at make time *)
Theorem C13_fast_reduction_is_translated_source : forall v nHi nLo,
  Kernels.fastReduction v nHi nLo = Gcs.fast_reduction v nHi nLo.
Proof. exact fastReduction_tie. Qed.
Print Assumptions C13_fast_reduction_is_translated_source.

Theorem C13_translated_fast_reduction_spec : forall v nHi nLo,
  v < 2 ^ 64 -> nHi < 2 ^ 32 -> nLo < 2 ^ 32 ->
  Kernels.fastReduction v nHi nLo = (v * (nHi * 2 ^ 32 + nLo)) / 2 ^ 64.
Proof. exact fastReduction_spec. Qed.
Print Assumptions C13_translated_fast_reduction_spec.

(* the hypotheses are satisfiable: SipHash-2-4 (cut to 64 bits) and insertion sort *)
Definition sip64 (k d : list N) : N := w64 (siphash k d).
Example C13_hypotheses_met : hash_ok sip64 /\ sort_ok isort.
Proof.
  split; [intros k d; apply N.mod_lt; discriminate | split; [exact isort_sorted | exact isort_perm]].
Qed.

(* the SipHash-2-4 model used by the run driver reproduces the 64 reference vectors *)
Example C13_siphash_vectors :
  map (fun n => siphash sip_ref_key (sip_ref_msg n)) (seq 0 64) = sip_ref_vectors.
Proof. exact siphash_reference_vectors. Qed.

Example C13_instance :
  let key := [0;1;2;3;4;5;6;7;8;9;10;11;12;13;14;15] in
  let data := [[1;2;3]; [4;5]; [6]; []; [7;7;7;7;7;7;7;7;7]] in
  exists f, build sip64 isort 19 784931 key data = Ok f /\
            f_data f = [177; 157; 250; 194; 217; 184; 93; 84; 230; 40; 72; 176; 188] /\
            gmatch sip64 f key [6] = Ok true /\ gmatch sip64 f key [9] = Ok false /\
            match_any sip64 isort f key [[9]; [6]] = Ok true.
Proof.
  cbv zeta. eexists. split; [vm_compute; reflexivity|]. vm_compute. auto.
Qed.

(* Module-wide state-shape obligation (coordinator-owned), counted for EVERY property: over all packages of the
   repository (modelled or not) the init functions, linkname-style directives, unsafe/syscall/reflect imports,
   package-level initialisers containing function literals, writes to (or addresses taken of) package-level
   variables of another package of the repository, and the files excluded from the analysed build are exactly
   those recorded when the models were written.  Anything in this list can change what a modelled function
   computes without touching its package. *)
From BU Require Import Gen.Shape Shape.Baseline.

Theorem Shape_module_unchanged : shape_module = base_module.
Proof. exact eq_refl. Qed.
Print Assumptions Shape_module_unchanged.

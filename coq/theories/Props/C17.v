(* C17 — amounts convert between BCH floats, satoshi integers and text without loss.
   Only statements; every proof is `exact <lemma proved elsewhere>`. *)
From Coq Require Import ZArith Reals.
From Flocq Require Import Core IEEE754.BinarySingleNaN.
From BU Require Import Lib.Bytes Gen.Xbchutil Amount.Amount Amount.RoundProofs.

(* NewAmount errors exactly on NaN and the infinities *)
Theorem C17_new_amount_rejects_nan_inf : forall f : float,
  is_finite f = false <-> new_amount f = Err 1%N.
Proof. exact new_amount_rejects_nan_inf. Qed.
Print Assumptions C17_new_amount_rejects_nan_inf.

(* round: for |y| < 2^62 the integer nearest to y, ties away from zero *)
Theorem C17_round_nearest : forall y : float,
  is_finite y = true -> (Rabs (B2R y) < IZR (2 ^ 62))%R -> nearest_away (B2R y) (round y).
Proof. exact round_nearest. Qed.
Print Assumptions C17_round_nearest.

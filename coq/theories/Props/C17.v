(* C17 — amounts convert between BCH floats, satoshi integers and text without loss.
   Only statements; every proof is `exact <lemma proved elsewhere>`.
   Model: Amount/Amount.v on Flocq binary64.  RN x is the binary64 round-to-nearest-even of the
   real x; nearest_away y n says n is the integer nearest to y, ties away from zero
   (Amount/RoundProofs.v; nearest_away_unique shows it determines n). *)
From Coq Require Import ZArith Reals List.
From Flocq Require Import Core IEEE754.BinarySingleNaN.
From BU Require Import Lib.Bytes Gen.Xbchutil Amount.Amount Amount.RoundProofs Amount.UnitProofs
  Amount.TextProofs Amount.FormatProofs Amount.DenoteProofs.

(* NewAmount errors exactly on NaN and the infinities *)
Theorem C17_new_amount_rejects_nan_inf : forall f : float,
  is_finite f = false <-> new_amount f = Err 1%N.
Proof. exact new_amount_rejects_nan_inf. Qed.
Print Assumptions C17_new_amount_rejects_nan_inf.

(* round: for |y| < 2^62 the integer nearest to y, ties away from zero *)
Theorem C17_round_nearest : forall y : float,
  is_finite y = true -> (Rabs (B2R y) < IZR (2 ^ 62))%R -> nearest_away (B2R y) (round y).
Proof. exact round_nearest. Qed.
Print Assumptions C17_round_nearest.

(* the specification predicate determines the integer *)
Theorem C17_nearest_away_unique : forall (y : R) (n1 n2 : Z),
  nearest_away y n1 -> nearest_away y n2 -> n1 = n2.
Proof. exact nearest_away_unique. Qed.
Print Assumptions C17_nearest_away_unique.

Theorem C17_round_odd : forall y : float,
  is_finite y = true -> (Rabs (B2R y) < IZR (2 ^ 62))%R -> round (Bopp y) = (- round y)%Z.
Proof. exact round_odd. Qed.
Print Assumptions C17_round_odd.

Theorem C17_round_monotone : forall y1 y2 : float,
  is_finite y1 = true -> is_finite y2 = true ->
  (Rabs (B2R y1) < IZR (2 ^ 62))%R -> (Rabs (B2R y2) < IZR (2 ^ 62))%R ->
  (B2R y1 <= B2R y2)%R -> (round y1 <= round y2)%Z.
Proof. exact round_monotone. Qed.
Print Assumptions C17_round_monotone.

(* NewAmount(f): the integer nearest to the single floating-point product fl(f * 1e8), ties away *)
Theorem C17_new_amount_nearest : forall f : float,
  is_finite f = true -> (Rabs (RN (B2R f * IZR c_SatoshiPerBitcoin)) < IZR (2 ^ 62))%R ->
  exists n, new_amount f = Ok n /\ nearest_away (RN (B2R f * IZR c_SatoshiPerBitcoin)) n.
Proof. exact new_amount_nearest. Qed.
Print Assumptions C17_new_amount_nearest.

Theorem C17_new_amount_odd : forall (f : float) n,
  is_finite f = true -> (Rabs (RN (B2R f * IZR c_SatoshiPerBitcoin)) < IZR (2 ^ 62))%R ->
  new_amount f = Ok n -> new_amount (Bopp f) = Ok (- n)%Z.
Proof. exact new_amount_odd. Qed.
Print Assumptions C17_new_amount_odd.

Theorem C17_new_amount_monotone : forall (f1 f2 : float) n1 n2,
  is_finite f1 = true -> is_finite f2 = true ->
  (Rabs (RN (B2R f1 * IZR c_SatoshiPerBitcoin)) < IZR (2 ^ 62))%R ->
  (Rabs (RN (B2R f2 * IZR c_SatoshiPerBitcoin)) < IZR (2 ^ 62))%R ->
  (B2R f1 <= B2R f2)%R -> new_amount f1 = Ok n1 -> new_amount f2 = Ok n2 -> (n1 <= n2)%Z.
Proof. exact new_amount_monotone. Qed.
Print Assumptions C17_new_amount_monotone.

(* every whole number of satoshi up to the 21-million-coin cap survives ToBCH then NewAmount *)
Theorem C17_roundtrip_21M : forall a : Z,
  (Z.abs a <= c_MaxSatoshi)%Z -> new_amount (to_bch a) = Ok a.
Proof. exact roundtrip_21M. Qed.
Print Assumptions C17_roundtrip_21M.

(* MulF64: nearest integer, ties away, to the single product fl(float64(a) * f), any int64 a *)
Theorem C17_mul_f64_nearest : forall (a : Z) (f : float),
  (Z.abs a <= 2 ^ 63)%Z -> is_finite f = true ->
  (Rabs (RN (RN (IZR a) * B2R f)) < IZR (2 ^ 62))%R ->
  nearest_away (RN (RN (IZR a) * B2R f)) (mul_f64 a f).
Proof. exact mul_f64_nearest. Qed.
Print Assumptions C17_mul_f64_nearest.

(* ToUnit for Satoshi .. 1e14 BCH: the correctly rounded quotient a / 10^(u+8) (one division,
   both operands exact) *)
Theorem C17_to_unit_correct : forall a u : Z,
  (Z.abs a <= 2 ^ 53)%Z -> (0 <= u + 8 <= 22)%Z ->
  B2R (to_unit a u) = RN (IZR a / IZR (10 ^ (u + 8))) /\ is_finite (to_unit a u) = true.
Proof. exact to_unit_correct. Qed.
Print Assumptions C17_to_unit_correct.

(* ToBCH is that conversion at the BCH unit: the correctly rounded quotient a / 1e8 *)
Theorem C17_to_bch_correct : forall a : Z, (Z.abs a <= 2 ^ 53)%Z ->
  B2R (to_bch a) = RN (IZR a / IZR c_SatoshiPerBitcoin) /\ is_finite (to_bch a) = true.
Proof. exact to_bch_correct. Qed.
Print Assumptions C17_to_bch_correct.

(* ... and below Satoshi: a division by the ROUNDED reciprocal power, not the correctly rounded
   product (root cause of known finding C17:format:unit<-8) *)
Theorem C17_to_unit_subsatoshi : forall a u : Z,
  (Z.abs a <= 2 ^ 53)%Z -> (-22 <= u + 8 < 0)%Z ->
  B2R (to_unit a u) = RN (IZR a / RN (1 / IZR (10 ^ (- (u + 8))))) /\ is_finite (to_unit a u) = true.
Proof. exact to_unit_subsatoshi. Qed.
Print Assumptions C17_to_unit_subsatoshi.

(* the only decimal with at most k = u+8 fractional digits that parses back to ToUnit's float
   is a * 10^-k: a correct shortest-round-trip printer has no other choice *)
Theorem C17_unit_text_unique : forall a m k : Z,
  (Z.abs a <= c_MaxSatoshi)%Z -> (0 <= k <= 22)%Z ->
  RN (IZR m / IZR (10 ^ k)) = B2R (to_unit a (k - 8)) -> m = a.
Proof. exact unit_text_unique. Qed.
Print Assumptions C17_unit_text_unique.

(* Format = exact decimal text + " " + label, for any printer meeting shortest_printer_spec
   (FormatProofs.v: the statement of what is trusted about strconv.FormatFloat(f,'f',-1,64)).
   _partial: strconv itself is not verified; the hypothesis is exercised on every run
   (cases Short/FmtO parse the printed text back inside Coq, the monitor compares exact rationals). *)
Theorem C17_format_exact_partial : forall shortest : float -> list N,
  shortest_printer_spec shortest ->
  forall a u : Z, (Z.abs a <= c_MaxSatoshi)%Z -> (c_AmountSatoshi <= u <= 14)%Z ->
  format shortest a u = format_spec a u.
Proof. exact format_exact. Qed.
Print Assumptions C17_format_exact_partial.

(* The same with a right-hand side that mentions no float: for EVERY unit Satoshi..1e14 BCH (the
   Satoshi unit included, where format_spec above is the model's own fixed-precision printer) the text
   is exact_text a (u+8), a space and the label.  exact_text is characterised by
   C17_exact_text_denotes below.  _partial for the same reason (strconv's shortest printer). *)
Theorem C17_format_is_exact_text_partial : forall shortest : float -> list N,
  shortest_printer_spec shortest ->
  forall a u : Z, (Z.abs a <= c_MaxSatoshi)%Z -> (c_AmountSatoshi <= u <= 14)%Z ->
  format shortest a u = format_exact_spec a u.
Proof. exact format_is_exact_text. Qed.
Print Assumptions C17_format_is_exact_text_partial.

(* What exact_text means.  read_dec (Amount.v, specification side) reads "-"? digits ("." digits)? as
   (sign, M, j), i.e. the number (-1)^sign * M / 10^j, and rejects any other string.  exact_text a k
   reads back as exactly a / 10^k and has no trailing fractional zero. *)
Theorem C17_exact_text_denotes : forall a k : Z, (0 <= k)%Z ->
  exists M j, read_dec (exact_text a k) = Some ((a <? 0)%Z, M, j) /\ (0 <= M)%Z /\ (0 <= j <= k)%Z /\
    ((if (a <? 0)%Z then - M else M) * 10 ^ (k - j) = a)%Z /\ (j = 0 \/ M mod 10 <> 0)%Z.
Proof. exact exact_text_denotes. Qed.
Print Assumptions C17_exact_text_denotes.

(* The property's text clause in one statement: Format(u) = T ++ " " ++ label(u) where T is a decimal
   numeral whose value is exactly a * 10^-(u+8).  _partial: strconv's shortest printer is a hypothesis. *)
Theorem C17_format_denotes_partial : forall shortest : float -> list N,
  shortest_printer_spec shortest ->
  forall a u : Z, (Z.abs a <= c_MaxSatoshi)%Z -> (c_AmountSatoshi <= u <= 14)%Z ->
  exists T M j, format shortest a u = T ++ 32%N :: unit_string u /\
    read_dec T = Some ((a <? 0)%Z, M, j) /\ (0 <= M)%Z /\ (0 <= j <= u + 8)%Z /\
    ((if (a <? 0)%Z then - M else M) * 10 ^ (u + 8 - j) = a)%Z /\ (j = 0 \/ M mod 10 <> 0)%Z.
Proof. exact format_denotes. Qed.
Print Assumptions C17_format_denotes_partial.

(* Amount.String() = Format(AmountBCH) *)
Theorem C17_string_partial : forall shortest : float -> list N,
  shortest_printer_spec shortest ->
  forall a : Z, (Z.abs a <= c_MaxSatoshi)%Z -> amount_string shortest a = format_exact_spec a c_AmountBCH.
Proof. exact string_is_exact_text. Qed.
Print Assumptions C17_string_partial.

(* Satoshi unit, no hypothesis about strconv (precision 0 is modelled, not assumed): any printer *)
Theorem C17_format_satoshi : forall (shortest : float -> list N) (a : Z), (Z.abs a <= c_MaxSatoshi)%Z ->
  format shortest a c_AmountSatoshi = dec_text (a <? 0)%Z (Z.abs a) 0 ++ 32%N :: unit_string c_AmountSatoshi.
Proof. exact format_satoshi. Qed.
Print Assumptions C17_format_satoshi.

(* what the model takes from the source text of amount.go besides the named constants: the
   arguments of strconv.FormatFloat in Format ('f', 8, 64), the 8 of ToUnit, the base of FormatInt *)
Theorem C17_source_literals :
  lits_Amount_Format = [102; 8; 64]%Z /\ lits_Amount_ToUnit = [8]%Z /\ lits_AmountUnit_String = [10]%Z /\
  lit_Format_8 = 8%Z /\ lit_ToUnit_8 = 8%Z /\ lit_String_base = 10%Z.
Proof. exact source_literals. Qed.
Print Assumptions C17_source_literals.

Theorem C17_unit_labels :
  unit_string c_AmountMegaBCH = [77; 66; 67; 72]%N /\
  unit_string c_AmountKiloBCH = [107; 66; 67; 72]%N /\
  unit_string c_AmountBCH = [66; 67; 72]%N /\
  unit_string c_AmountMilliBCH = [109; 66; 67; 72]%N /\
  unit_string c_AmountMicroBCH = [206; 188; 66; 67; 72]%N /\
  unit_string c_AmountSatoshi = [83; 97; 116; 111; 115; 104; 105]%N /\
  (c_AmountMegaBCH, c_AmountKiloBCH, c_AmountBCH, c_AmountMilliBCH, c_AmountMicroBCH, c_AmountSatoshi)
    = (6, 3, 0, -3, -6, -8)%Z /\
  forall u, ~ In u [c_AmountMegaBCH; c_AmountKiloBCH; c_AmountBCH; c_AmountMilliBCH; c_AmountMicroBCH; c_AmountSatoshi] ->
    unit_string u = ([49; 101]%N ++ dec_Z u ++ [32; 66; 67; 72]%N).
Proof. exact unit_labels. Qed.
Print Assumptions C17_unit_labels.

(* the exact-text statement is false below Satoshi: Amount(2099999999999999).Format(-9) *)
Theorem C17_format_subsatoshi_refuted :
  exists a u : Z, (Z.abs a <= c_MaxSatoshi)%Z /\ (u < c_AmountSatoshi)%Z /\ (-12 <= u)%Z /\
    int_value (to_unit a u) = Some 20999999999999988%Z /\
    (a * 10 ^ (- (u + 8)) = 20999999999999990)%Z /\
    forall shortest, format shortest a u =
      [50;48;57;57;57;57;57;57;57;57;57;57;57;57;57;56;56;46;48;32;49;101;45;57;32;66;67;72]%N.
Proof. exact format_subsatoshi_refuted. Qed.
Print Assumptions C17_format_subsatoshi_refuted.

(* hypotheses are satisfiable: one satoshi, the cap, a tie *)
Example C17_example_roundtrip :
  new_amount (to_bch 1) = Ok 1%Z /\ new_amount (to_bch (- c_MaxSatoshi)) = Ok (- c_MaxSatoshi)%Z /\
  format_spec 2099999999999999 c_AmountBCH =
    [50;48;57;57;57;57;57;57;46;57;57;57;57;57;57;57;57;32;66;67;72]%N /\
  new_amount (of_bits 0x3E35798EE2308C39) = Ok 0%Z (* 4.9999999999999992774e-09 *) /\
  round (of_bits 0x3FE0000000000000) = 1%Z /\ round (of_bits 0xBFE0000000000000) = (-1)%Z (* +-0.5 *).
Proof. vm_compute. repeat split. Qed.

(* C03 — address checksums detect every corruption they are specified to detect.
   Only statements; every proof is `exact <lemma proved under Checksum/>`.
   All constants (generator xor constants, masks, shifts, charsets, CharsetRev, length bounds) are
   the literals extracted from address.go / bech32/bech32.go on every run (Gen/X*.v). *)
From BU Require Import Lib.Bytes Lib.PolyMod CashAddr.CashAddr Bech32.Bech32
  Checksum.Syndrome Checksum.Valid Checksum.CashDetect Checksum.BechDetect
  Checksum.CashString Checksum.BechString.
From BU Require Import Gen.Kernels Tie.KernelsTie Gen.Kernels2 Checksum.SourceDetect Tie.Kernels2_CashAddr Tie.Kernels2_CashAddrDecode Tie.Kernels2_Bech32.
From BU Require Import Gen.Nets Address.Address Checksum.AddressDetect.

(* ---------- CashAddr ---------- *)
(* every string that agrees with an accepted string on the prefix and the separator, has the same
   length, and differs from it in 1..5 characters (ANY characters: other case, outside the charset,
   digits, ':') of a payload part of at most 112 symbols (= 512-bit hash + version + checksum) is
   rejected with an error *)
Theorem C03_cashaddr_detects_5 : forall s s' prefix payload,
  decode_cashaddr s = Ok (prefix, payload) ->
  length s' = length s ->
  firstn (length prefix + 1) s' = firstn (length prefix + 1) s ->
  (length s - (length prefix + 1) <= 112)%nat ->
  (1 <= hamming s s' <= 5)%nat ->
  exists e, decode_cashaddr s' = Err e.
Proof. exact cashaddr_detects_5. Qed.
Print Assumptions C03_cashaddr_detects_5.

(* the same with the parts named *)
Theorem C03_cashaddr_detects_5_app : forall pre body body' r,
  decode_cashaddr (pre ++ 58 :: body) = Ok r ->
  length body' = length body -> (length body <= 112)%nat ->
  (1 <= hamming body body' <= 5)%nat ->
  exists e, decode_cashaddr (pre ++ 58 :: body') = Err e.
Proof. exact cashaddr_detects_5_app. Qed.
Print Assumptions C03_cashaddr_detects_5_app.

(* minimum distance 6 between accepted strings of equal prefix and length *)
Theorem C03_cashaddr_min_distance_6 : forall pre body body' r r',
  decode_cashaddr (pre ++ 58 :: body) = Ok r -> decode_cashaddr (pre ++ 58 :: body') = Ok r' ->
  length body' = length body -> (length body <= 112)%nat -> body <> body' ->
  (6 <= hamming body body')%nat.
Proof. exact cashaddr_min_distance_6. Qed.
Print Assumptions C03_cashaddr_min_distance_6.

(* review round 2: the same through DecodeAddress with an explicit prefix (model of the dispatch: Address/Address.v).
   A string labelled -- up to ASCII case -- with the CashAddr or the SLP prefix of the network, accepted by the CashAddr
   decoder, with 1..5 characters of its payload part substituted, is rejected by DecodeAddress: by the first attempt, by
   the retry under the SLP prefix, and by the public-key and Base58Check paths; for every network record, every set of
   registered legacy ids and whatever ParsePubKey accepts *)
Theorem C03_DecodeAddress_detects_5 :
  forall (P : Type) (ec_parse : list N -> option P) (net : Nets.net) (reg_pkh reg_sh lbl body body' : list N) r,
    equal_fold (lbl ++ [58]) (cash_prefix net ++ [colon]) = true \/
    equal_fold (lbl ++ [58]) (slp_prefix net ++ [colon]) = true ->
    decode_cashaddr (lbl ++ 58 :: body) = Ok r ->
    length body' = length body -> (length body <= 112)%nat ->
    (1 <= hamming body body' <= 5)%nat ->
    exists e, decode_address P ec_parse net reg_pkh reg_sh (lbl ++ 58 :: body') = Err e.
Proof. exact decode_address_detects_5. Qed.
Print Assumptions C03_DecodeAddress_detects_5.

(* symbol level, for every prefix (any list of character codes) *)
Theorem C03_cashaddr_verify_detects_5 : forall prefix v v',
  length v = length v' -> (length v <= 112)%nat ->
  Forall (fun x => x < 32) v -> Forall (fun x => x < 32) v' -> (1 <= hamming v v' <= 5)%nat ->
  CashAddr.verify_checksum prefix v = true -> CashAddr.verify_checksum prefix v' = false.
Proof. exact cash_verify_detects_5. Qed.
Print Assumptions C03_cashaddr_verify_detects_5.

(* ---------- bech32 ---------- *)
(* a string that differs from an accepted one in at most 4 characters after the separator, at
   least one of them more than a change of case and none of them a new separator, is rejected *)
Theorem C03_bech32_detects_4 : forall hrp data data' r,
  Bech32.decode (hrp ++ 49 :: data) = Ok r -> ~ In 49 data ->
  length data' = length data -> ~ In 49 data' ->
  (hamming data data' <= 4)%nat ->
  (1 <= hamming (map to_lower data) (map to_lower data'))%nat ->
  exists e, Bech32.decode (hrp ++ 49 :: data') = Err e.
Proof. exact bech32_detects_4. Qed.
Print Assumptions C03_bech32_detects_4.

(* review round 2: the case exclusion of C03_bech32_detects_4 narrowed to exactly what is accepted.  A
   corrupted string (1..4 substituted data characters, none a new separator) is rejected unless it is the
   all-lower-case or the all-upper-case form of the original -- in particular a change of case of SOME
   letters (a mixed-case string) is rejected *)
Theorem C03_bech32_detects_4_case : forall hrp data data' r,
  Bech32.decode (hrp ++ 49 :: data) = Ok r -> ~ In 49 data ->
  length data' = length data -> ~ In 49 data' ->
  (hamming data data' <= 4)%nat ->
  hrp ++ 49 :: data' <> map to_lower (hrp ++ 49 :: data) ->
  hrp ++ 49 :: data' <> map to_upper (hrp ++ 49 :: data) ->
  exists e, Bech32.decode (hrp ++ 49 :: data') = Err e.
Proof. exact bech32_detects_4_case. Qed.
Print Assumptions C03_bech32_detects_4_case.

(* any number of case changes: the only accepted case variants of an accepted string are its two pure forms *)
Theorem C03_bech32_mixed_case_rejected : forall s s' r,
  Bech32.decode s = Ok r -> map to_lower s' = map to_lower s ->
  s' <> map to_lower s -> s' <> map to_upper s ->
  exists e, Bech32.decode s' = Err e.
Proof. exact bech32_mixed_case_rejected. Qed.
Print Assumptions C03_bech32_mixed_case_rejected.

Theorem C03_bech32_min_distance_5 : forall hrp data data' r r',
  Bech32.decode (hrp ++ 49 :: data) = Ok r -> Bech32.decode (hrp ++ 49 :: data') = Ok r' ->
  ~ In 49 data -> ~ In 49 data' -> length data' = length data ->
  map to_lower data <> map to_lower data' ->
  (5 <= hamming data data')%nat.
Proof. exact bech32_min_distance_5. Qed.
Print Assumptions C03_bech32_min_distance_5.

Theorem C03_bech32_verify_detects_4 : forall hrp v v',
  length v = length v' -> (length v <= 89)%nat ->
  Forall (fun x => x < 32) v -> Forall (fun x => x < 32) v' -> (1 <= hamming v v' <= 4)%nat ->
  Bech32.verify_checksum hrp v = true -> Bech32.verify_checksum hrp v' = false.
Proof. exact bech_verify_detects_4. Qed.
Print Assumptions C03_bech32_verify_detects_4.

(* The unrestricted sentence "every 1..4 substitution in the data part of an accepted bech32 string
   is rejected" is false of the faithful model -- and of bech32 as specified (BIP173): *)
(* all letters upper-cased: same address *)
Theorem C03_bech32_any_substitution_refuted_case : exists s s' r,
  length s' = length s /\ hamming s s' = 4%nat /\
  Bech32.decode s = Ok r /\ Bech32.decode s' = Ok r.
Proof. exact bech32_case_variant_accepted. Qed.
Print Assumptions C03_bech32_any_substitution_refuted_case.

(* one data character replaced by '1': the separator moves, another codeword of another code *)
Theorem C03_bech32_any_substitution_refuted_separator : exists s s' r r',
  length s' = length s /\ hamming s s' = 1%nat /\
  Bech32.decode s = Ok r /\ Bech32.decode s' = Ok r'.
Proof. exact bech32_separator_substitution_accepted. Qed.
Print Assumptions C03_bech32_any_substitution_refuted_separator.

(* ---------- created checksums verify and are the only ones that do ---------- *)
Theorem C03_cashaddr_checksum_valid : forall prefix payload,
  CashAddr.verify_checksum prefix (payload ++ CashAddr.create_checksum prefix payload) = true.
Proof. exact cashaddr_checksum_valid_strong. Qed.
Print Assumptions C03_cashaddr_checksum_valid.

Theorem C03_cashaddr_checksum_unique : forall prefix a b,
  length b = 8%nat -> Forall (fun x => x < 32) b ->
  CashAddr.verify_checksum prefix (a ++ b) = true -> b = CashAddr.create_checksum prefix a.
Proof. exact cashaddr_checksum_unique_app. Qed.
Print Assumptions C03_cashaddr_checksum_unique.

Theorem C03_bech32_checksum_valid : forall hrp data,
  Bech32.verify_checksum hrp (data ++ Bech32.create_checksum hrp data) = true.
Proof. exact bech32_checksum_valid_strong. Qed.
Print Assumptions C03_bech32_checksum_valid.

Theorem C03_bech32_checksum_unique : forall hrp a b,
  length b = 6%nat -> Forall (fun x => x < 32) b ->
  Bech32.verify_checksum hrp (a ++ b) = true -> b = Bech32.create_checksum hrp a.
Proof. exact bech32_checksum_unique_app. Qed.
Print Assumptions C03_bech32_checksum_unique.

(* ---------- the models of the two remainder functions are the translated source ---------- *)
(* Gen/Kernels.v is produced from the Go ASTs of polyMod / bech32Polymod by harness/cmd/gotrans on every
   run; a structural change that keeps every literal (e.g. `^=` -> `|=`) breaks these *)
Theorem C03_cashaddr_polymod_is_translated_source : forall v,
  Bytes v -> Kernels.polyMod v = CashAddr.polymod v.
Proof. exact polyMod_tie. Qed.
Print Assumptions C03_cashaddr_polymod_is_translated_source.

Theorem C03_bech32_polymod_is_translated_source : forall values,
  Forall (fun x => x < 2 ^ 30) values -> Kernels.bech32Polymod values = Bech32.polymod values.
Proof. exact bech32Polymod_tie. Qed.
Print Assumptions C03_bech32_polymod_is_translated_source.

(* ---------- review round 2: the property over the translated source of the two decoders ---------- *)
(* Gen/Kernels2.v holds DecodeCashAddress and bech32.Decode translated from their Go ASTs on every run,
   with Go's indexing / slicing as checked primitives; Tie/Kernels2_*.v prove them equal to the models on
   every input.  A structural change of a decoder that keeps every literal and table (an operator, the
   order of two tests, a dropped test) breaks these *)
Theorem C03_cashaddr_source_detects_5 : forall s s' prefix payload,
  Kernels2.DecodeCashAddress s = Ok (prefix, payload) ->
  length s' = length s ->
  firstn (length prefix + 1) s' = firstn (length prefix + 1) s ->
  (length s - (length prefix + 1) <= 112)%nat ->
  (1 <= hamming s s' <= 5)%nat ->
  exists e, Kernels2.DecodeCashAddress s' = Err e.
Proof. exact cashaddr_src_detects_5. Qed.
Print Assumptions C03_cashaddr_source_detects_5.

Theorem C03_bech32_source_detects_4 : forall hrp data data' r,
  Kernels2.Decode (hrp ++ 49 :: data) = Ok r -> ~ In 49 data ->
  length data' = length data -> ~ In 49 data' ->
  (hamming data data' <= 4)%nat ->
  hrp ++ 49 :: data' <> map to_lower (hrp ++ 49 :: data) ->
  hrp ++ 49 :: data' <> map to_upper (hrp ++ 49 :: data) ->
  exists e, Kernels2.Decode (hrp ++ 49 :: data') = Err e.
Proof. exact bech32_src_detects_4_case. Qed.
Print Assumptions C03_bech32_source_detects_4.

(* the checksum creators / verifiers the `checksum_valid` / `checksum_unique` / `verify_detects` theorems speak about
   are the translated source too (the models write `unpack 8`, `repeat 0 8`, `unpack 6`, `repeat 0 6` without
   going through the extracted literals: these statements are what ties them) *)
Theorem C03_cashaddr_checksum_functions_are_translated_source : forall prefix payload, Bytes payload ->
  Kernels2.createChecksum prefix payload = Ok (CashAddr.create_checksum prefix payload) /\
  Kernels2.verifyChecksum prefix payload = Ok (CashAddr.verify_checksum prefix payload).
Proof. intros prefix payload H. exact (conj (createChecksum_tie prefix payload H) (verifyChecksum_tie prefix payload H)). Qed.
Print Assumptions C03_cashaddr_checksum_functions_are_translated_source.

Theorem C03_bech32_checksum_functions_are_translated_source : forall hrp data, Bytes hrp -> Bytes data ->
  Kernels2.bech32Checksum hrp data = Ok (Bech32.create_checksum hrp data) /\
  Kernels2.bech32VerifyChecksum hrp data = Ok (Bech32.verify_checksum hrp data).
Proof. intros hrp data Hh Hd. exact (conj (bech32Checksum_tie hrp data Hh Hd) (bech32VerifyChecksum_tie hrp data Hh Hd)). Qed.
Print Assumptions C03_bech32_checksum_functions_are_translated_source.

(* ---------- the hypotheses are satisfiable ---------- *)
(* "bitcoincash:qpm2qsznhks23z7629mms6s4cwef74vcwvy22gdx6a" is accepted; with 'q' -> 'p' at the first
   payload position it is rejected (checksum), with 'q' -> 'b' (outside the charset) as well *)
Definition ex_cash : list N :=
  [98;105;116;99;111;105;110;99;97;115;104;58;113;112;109;50;113;115;122;110;104;107;115;50;51;122;55;54;
   50;57;109;109;115;54;115;52;99;119;101;102;55;52;118;99;119;118;121;50;50;103;100;120;54;97].
Example C03_example_cashaddr :
  is_ok (decode_cashaddr ex_cash) = true /\
  decode_cashaddr (firstn 12 ex_cash ++ 112 :: skipn 13 ex_cash) = Err 8 /\
  decode_cashaddr (firstn 12 ex_cash ++ 98 :: skipn 13 ex_cash) = Err 6.
Proof. vm_compute. repeat split; reflexivity. Qed.

(* the label hypothesis of C03_DecodeAddress_detects_5 is met by that address on the mainnet record *)
Example C03_example_label :
  equal_fold (firstn 11 ex_cash ++ [58]) (cash_prefix Nets.mainnet ++ [colon]) = true /\
  ex_cash = firstn 11 ex_cash ++ 58 :: skipn 12 ex_cash.
Proof. vm_compute. split; reflexivity. Qed.

(* "bc1qw508d6qejxtdg4y5r3zarvary0c5xw7kv8f3t4" (BIP173) is accepted; one substitution is rejected *)
Definition ex_bech : list N :=
  [98;99;49;113;119;53;48;56;100;54;113;101;106;120;116;100;103;52;121;53;114;51;122;97;114;118;97;114;
   121;48;99;53;120;119;55;107;118;56;102;51;116;52].
Example C03_example_bech32 :
  is_ok (Bech32.decode ex_bech) = true /\
  Bech32.decode (firstn 3 ex_bech ++ 112 :: skipn 4 ex_bech) = Err 6 /\
  (* 'q' -> 'Q' at the first data position: mixed case *)
  Bech32.decode (firstn 3 ex_bech ++ 81 :: skipn 4 ex_bech) = Err 3.
Proof. vm_compute. repeat split; reflexivity. Qed.

(* C08 for the prefix slices of bchutil.DecodeAddress (review round 2).
   a-c01's model (Address/Address.v) writes addr[:len(bchPrefix)+1] and addr[:len(slpPrefix)+1] with the
   total `firstn`, so C08_DecodeAddress_no_panic says nothing about those four slice expressions -- the
   very mechanism the property names ("prefix slicing guarded by a length pre-check").  Here the
   dispatch is written with CHECKED slices (bounds = the literals of the Go function), proved equal to
   the model for every network record, and the SLP clause of the pre-check is shown to be necessary. *)
From BU Require Import Lib.Bytes Lib.PolyMod Gen.Xbchutil Gen.Nets Base58.Base58 CashAddr.CashAddr
  Address.Bits Address.BitsProofs Address.Address
  NoPanic.Slices NoPanic.CashAddrNP NoPanic.Base58NP NoPanic.AddressNP.
From Coq Require Import ZifyBool ZifyN ZifyNat.

Section AddressBounds.
Variable P : Type.
Variable ec_parse : list N -> option P.

(* !strings.EqualFold(addr[:len(bchPrefix)+1], bchPrefix+":") && !strings.EqualFold(addr[:len(slpPrefix)+1], slpPrefix+":")
   [i], [j]: the positions of the two `+1` literals in lits_DecodeAddress (2,3 at line 91; 4,5 at line 123).
   Go evaluates the second slice only when the first comparison fails (short-circuit &&). *)
Definition has_prefix_checked (i j : nat) (net : net) (s : list N) : res bool :=
  do a <- slice_to s (zlen (cash_prefix net) + Z.of_N (DA i)) ;;
  if equal_fold a (cash_prefix net ++ [colon]) then Ok true else
  do b <- slice_to s (zlen (slp_prefix net) + Z.of_N (DA j)) ;;
  Ok (equal_fold b (slp_prefix net ++ [colon])).

Definition with_prefix_checked (i j : nat) (net : net) (slp : bool) (s : list N) : res (list N) :=
  do h <- has_prefix_checked i j net s ;;
  Ok (if h then s else net_prefix net slp ++ [colon] ++ ascii_lower s).

(* DecodeAddress with the four prefix slices checked.  [slp_guard]: whether the second clause of the
   length pre-check (`len(addr) < len(slpPrefix)+2`) is present. *)
Definition decode_address_checked (slp_guard : bool) (net : net) (reg_pkh reg_sh : list N) (s : list N) : res (addr P) :=
  let bch := cash_prefix net in
  let slp := slp_prefix net in
  if (lenN s <? lenN bch + DA 0) || (slp_guard && (lenN s <? lenN slp + DA 1)) then Err 1 else
  do w1 <- with_prefix_checked 2 3 net false s ;;
  let '(prefix, r) := check_decode_cash w1 in
  let retry :=
    do w2 <- with_prefix_checked 4 5 net true s ;;
    match snd (check_decode_cash w2) with
    | Ok (decoded, typ) => cash_dispatch P net true decoded typ
    | Err e => tail_path P ec_parse net reg_pkh reg_sh s (e =? 8)
    | Panic k => Panic k
    end in
  match r with
  | Panic k => Panic k
  | Ok (decoded, typ) =>
      if negb (list_eqb prefix slp) then cash_dispatch P net false decoded typ
      else retry
  | Err e =>
      if (e =? 8) || list_eqb prefix slp then retry
      else tail_path P ec_parse net reg_pkh reg_sh s false
  end.

(* obligations on the extracted literals: each `+2` of the pre-check covers the `+1` of the slices it
   guards, and the second pair of slices (retry with the SLP prefix) is the first pair again *)
Lemma lits_prefix_guard :
  (DA 2 <=? DA 0) = true /\ (DA 3 <=? DA 1) = true /\ DA 4 = DA 2 /\ DA 5 = DA 3.
Proof. vm_compute. repeat split; reflexivity. Qed.

Lemma has_prefix_checked_eq i j net s :
  DA i = DA 2 -> DA j = DA 3 ->
  lenN s <? lenN (cash_prefix net) + DA 0 = false -> lenN s <? lenN (slp_prefix net) + DA 1 = false ->
  has_prefix_checked i j net s = Ok (has_prefix net s).
Proof.
  intros Hi Hj H1 H2. unfold has_prefix_checked, has_prefix. rewrite Hi, Hj.
  destruct lits_prefix_guard as (G1 & G2 & _ & _). unfold lenN in *.
  rewrite slice_to_ok by (unfold zlen; lia). cbn [rbind].
  replace (Z.to_nat (zlen (cash_prefix net) + Z.of_N (DA 2))) with (length (cash_prefix net) + N.to_nat (DA 2))%nat by (unfold zlen; lia).
  destruct (equal_fold _ (cash_prefix net ++ [colon])); [reflexivity|]. cbn [orb].
  rewrite slice_to_ok by (unfold zlen; lia). cbn [rbind].
  replace (Z.to_nat (zlen (slp_prefix net) + Z.of_N (DA 3))) with (length (slp_prefix net) + N.to_nat (DA 3))%nat by (unfold zlen; lia).
  reflexivity.
Qed.

Theorem decode_address_checked_eq net reg_pkh reg_sh s :
  decode_address_checked true net reg_pkh reg_sh s = decode_address P ec_parse net reg_pkh reg_sh s.
Proof.
  unfold decode_address_checked, decode_address. cbn [andb].
  destruct (lenN s <? lenN (cash_prefix net) + DA 0) eqn:H1; [reflexivity|].
  destruct (lenN s <? lenN (slp_prefix net) + DA 1) eqn:H2; [reflexivity|]. cbn [orb].
  destruct lits_prefix_guard as (_ & _ & G4 & G5).
  unfold with_prefix_checked, with_prefix.
  rewrite (has_prefix_checked_eq 2 3 net s eq_refl eq_refl H1 H2).
  rewrite (has_prefix_checked_eq 4 5 net s G4 G5 H1 H2). cbn [rbind].
  reflexivity.
Qed.

Corollary decode_address_checked_no_panic net reg_pkh reg_sh s :
  is_panic (decode_address_checked true net reg_pkh reg_sh s) = false.
Proof. rewrite decode_address_checked_eq. apply decode_address_no_panic. Qed.
End AddressBounds.

(* the second clause of the pre-check is necessary: a network record whose SLP prefix is two characters
   longer than its CashAddr prefix (none of the six registered ones is) and a string that is long
   enough for the first clause only *)
Definition net_long_slp : net :=
  {| net_name := [120]; cash_prefix := [97]; slp_prefix := [97; 98; 99; 100]; pkh_id := 0; sh_id := 5;
     wif_id := 128; hd_priv_id := []; hd_pub_id := [] |}.

(* "q:q" passes `len(addr) < len("a")+2`; addr[:len("abcd")+1] is out of range *)
Theorem decode_address_slp_guard_needed :
  forall (P : Type) (ec_parse : list N -> option P) reg_pkh reg_sh,
    decode_address_checked P ec_parse false net_long_slp reg_pkh reg_sh [113; 58; 113] = Panic 2 /\
    decode_address_checked P ec_parse true net_long_slp reg_pkh reg_sh [113; 58; 113] = Err 1.
Proof. intros. split; vm_compute; reflexivity. Qed.

(* C08 for HISTORIES on one bloom filter object (round 4).  A peer may send any number of filterload
   messages; the node reloads the filter it has and goes on adding and matching.  NoPanic/BloomNP.v shows
   that ONE call on any filter-load within the wire limits does not panic; here every exported operation
   of a history is written with the checked functions of BloomNP (checked division: Panic 3, checked
   indexing: Panic 1) and the whole history is proved equal to the total model `Bloom.run` — whatever the
   sizes of the successive messages (larger, smaller, empty, nil), i.e. nothing computed from an earlier
   message survives a Reload. *)
From BU Require Import Lib.Bytes Bloom.Murmur3 Bloom.Bloom Bloom.BloomProofs NoPanic.BloomNP.

Definition step_checked (f : filter) (o : op) : res (filter * bool) :=
  match o with
  | OAdd d => do f' <- add_checked true f d ;; Ok (f', true)
  | OAddHash h => do f' <- add_checked true f h ;; Ok (f', true)
  | OAddOutPoint t i => do f' <- add_checked true f (outpoint_bytes t i) ;; Ok (f', true)
  | OMatches d => do b <- matches_checked true f d ;; Ok (f, b)
  | OMatchesOutPoint t i => do b <- matches_checked true f (outpoint_bytes_m t i) ;; Ok (f, b)
  | OReload m => Ok (reload f m, true)
  | OUnload => Ok (unload f, true)
  | OIsLoaded => Ok (f, is_loaded f)
  end.

Fixpoint run_checked (f : filter) (ops : list op) : res (filter * list bool) :=
  match ops with
  | [] => Ok (f, [])
  | o :: t =>
      do s <- step_checked f o ;;
      do r <- run_checked (fst s) t ;;
      Ok (fst r, snd s :: snd r)
  end.

Lemma step_checked_eq f o : len_ok f -> step_checked f o = Ok (step f o).
Proof.
  intros Hok. destruct o as [d|h|t i|d|t i|m| |]; cbn [step_checked step];
    try rewrite (add_checked_eq _ _ Hok); try rewrite (matches_checked_eq _ _ Hok); reflexivity.
Qed.

Lemma step_len_ok f o :
  len_ok f -> match o with OReload (Some m) => len_ok_msg m | _ => True end -> len_ok (fst (step f o)).
Proof.
  intros Hok Ho. destruct o as [d|h|t i|d|t i|m| |]; cbn [step fst]; try exact Hok;
    try (apply add_len_ok; exact Hok).
  - destruct m as [m|]; [exact Ho|exact I].
  - exact I.
Qed.

Theorem run_checked_eq ops : forall f, len_ok f -> reloads_ok ops -> run_checked f ops = Ok (run f ops).
Proof.
  induction ops as [|o t IH]; intros f Hok Hr; [reflexivity|].
  inversion Hr as [|o' t' Ho Ht]; subst.
  cbn [run_checked run]. rewrite (step_checked_eq f o Hok). cbn [rbind].
  pose proof (step_len_ok f o Hok Ho) as Hok1.
  destruct (step f o) as [f1 r] eqn:Es. cbn [fst snd] in *.
  rewrite (IH f1 Hok1 Ht). cbn [rbind].
  destruct (run f1 t) as [f2 rs]. reflexivity.
Qed.

(* every message of the history within the wire limits (or nil): no step of the history panics *)
Definition reloads_within_limits (ops : list op) : Prop :=
  Forall (fun o => match o with OReload (Some m) => within_wire_limits m | _ => True end) ops.

Lemma reloads_within_limits_ok ops : reloads_within_limits ops -> reloads_ok ops.
Proof.
  unfold reloads_within_limits, reloads_ok. intros H. eapply Forall_impl; [|exact H].
  intros o Ho. destruct o as [d|h|t i|d|t i|m| |]; try exact I.
  destruct m as [m|]; [|exact I]. exact (wire_limits_len_ok m Ho).
Qed.

Theorem history_no_panic : forall (start : option msg) ops,
  match start with Some m => within_wire_limits m | None => True end ->
  reloads_within_limits ops ->
  run_checked (load_filter start) ops = Ok (run (load_filter start) ops).
Proof.
  intros start ops Hs Hr. apply run_checked_eq; [|apply reloads_within_limits_ok; exact Hr].
  destruct start as [m|]; [exact (wire_limits_len_ok m Hs)|exact I].
Qed.

(* non-vacuity and the shape of the round-4 seed: a 4-byte array, then a 1-byte array on the same object
   (a bit count remembered from the first message would index out of range), then an empty one, then nil *)
Example history_example :
  let m4 := MkMsg [0;0;0;0] 3 7 0 in let m1 := MkMsg [0] 3 7 0 in let m0 := MkMsg [] 3 7 0 in
  run_checked (load_filter (Some m4))
    [OAdd [1;2;3]; OMatches [1;2;3]; OReload (Some m1); OAdd [1;2;3]; OMatches [1;2;3];
     OReload (Some m0); OMatches [9]; OAdd [9]; OReload None; OMatches [9]; OAdd [9]; OIsLoaded]
  = Ok (None, [true; true; true; true; true; true; true; true; true; false; true; false]).
Proof. vm_compute. reflexivity. Qed.

(* C08 stated over the MACHINE-TRANSLATED Go source (review round 2).
   Gen/Kernels2.v is regenerated from the Go ASTs on every run by harness/cmd/gotrans; in it every Go
   indexing, slicing, make and integer division is a checked primitive of the small Go semantics
   library (Go.idx / Go.slice / Go.make / Go.modN ... return Panic when Go would panic).  The tie
   theorems under Tie/ prove those translated functions equal to the hand-written models on every
   input.  Composed with the no-panic theorems of the models this gives no-panic statements about
   the translation of the code that exists -- a change of an operator, a bound or the order of two
   statements in the Go function changes Gen/Kernels2.v and breaks the tie, even when every integer
   literal stays the same (which is all the `lits_*` obligations of NoPanic/*NP.v can see). *)
From BU Require Import Lib.Bytes Gen.Kernels2 CashAddr.CashAddr Bech32.Bech32 Bloom.Bloom.
From BU Require Import NoPanic.CashAddrNP NoPanic.Bech32NP NoPanic.BloomNP.
From BU Require Import Tie.Kernels2_CashAddrDecode Tie.Kernels2_Bech32 Tie.Kernels2_Bech32Bits Tie.Kernels2_Bloom.
From Coq Require Import ZifyBool ZifyN ZifyNat.

(* address.go DecodeCashAddress: every string (list of arbitrary byte values) *)
Theorem DecodeCashAddress_src_no_panic str : is_panic (Kernels2.DecodeCashAddress str) = false.
Proof. rewrite DecodeCashAddress_tie. apply decode_cashaddr_no_panic. Qed.

(* bech32.Decode: every string, the slices taken for the checksum-failure message included *)
Theorem bech32_Decode_src_no_panic bech : is_panic (Kernels2.Decode bech) = false.
Proof. rewrite Decode_tie. apply Bech32NP.decode_no_panic. Qed.

(* bech32.Encode *)
Theorem bech32_Encode_src_no_panic hrp data :
  Bytes hrp -> Bytes data -> is_panic (Kernels2.Encode hrp data) = false.
Proof.
  intros Hh Hd. rewrite Encode_tie by assumption.
  pose proof (Bech32NP.encode_no_panic hrp data) as H.
  destruct (Bech32.encode hrp data); [reflexivity | reflexivity | discriminate H].
Qed.

(* bech32.ConvertBits: the inner loop `for remFromBits > 0` is a while loop in the translation; 8
   iterations of fuel always suffice (out of fuel would be Panic 9) *)
Theorem bech32_ConvertBits_src_no_panic fuel data fromBits toBits pad :
  (8 <= fuel)%nat -> is_panic (Kernels2.ConvertBits fuel data fromBits toBits pad) = false.
Proof. exact (ConvertBits_no_panic fuel data fromBits toBits pad). Qed.

(* bloom Filter.matches / Filter.add on every filter-load within the wire limits (Filter <= 36000
   bytes, HashFuncs <= 50), the empty array included, for every data item shorter than 2^32 bytes:
   the `%` of Filter.hash and the indexing Filter[idx>>3] of the translated source never fault *)
Theorem bloom_src_no_panic m data :
  Bytes data -> N.of_nat (length data) < 2 ^ 32 -> within_wire_limits m ->
  is_panic (Kernels2.Filter_matches false (m_bytes m) (m_nhash m) (m_tweak m) data) = false /\
  is_panic (Kernels2.Filter_add false (m_bytes m) (m_nhash m) (m_tweak m) data) = false.
Proof.
  intros Hd Hl Hw.
  assert (Hok : len_ok_msg m) by exact (wire_limits_len_ok m Hw).
  assert (Hn : m_nhash m < 2 ^ 32).
  { unfold within_wire_limits in Hw. destruct Hw as [_ Hh]. unfold max_hash_funcs in Hh. lia. }
  split.
  - rewrite (Filter_matches_tie m data Hd Hl Hn Hok). reflexivity.
  - rewrite (proj1 (Filter_add_tie m data Hd Hl Hn Hok)). reflexivity.
Qed.

(* an unloaded filter (msgFilterLoad == nil) *)
Theorem bloom_src_unloaded_no_panic bytes nh tw data :
  is_panic (Kernels2.Filter_matches true bytes nh tw data) = false /\
  is_panic (Kernels2.Filter_add true bytes nh tw data) = false.
Proof. split; reflexivity. Qed.

(* C08 for merkleblock.NewMerkleBlockFromMsg + ExtractMatches (model: Merkle/Merkle.v, engineer
   a-c11).  The model's only Panic is the out-of-fuel value of the height loop; with
   MaxTxnCount < 2^31 (it is 2098360) the loop ends within its fuel for every accepted transaction
   count, so ExtractMatches returns a root or one of its seven rejections on EVERY message.  The
   traversal itself is structural recursion on the height with the `bitsUsed >= len(bits)` and
   `hashesUsed >= len(finalHashes)` guards folded into nth_error: an exhausted cursor sets `bad`
   instead of indexing.  Cost: at most 2*|bits|+1 calls (a-c11's extract_cost). *)
From BU Require Import Lib.Bytes Merkle.Merkle Merkle.MerkleArith Merkle.ExtractTop.
From Coq Require Import ZifyBool ZifyN ZifyNat.

Section MerkleNP.
Variable node_hash : hash -> hash -> hash.

Theorem extract_no_panic maxtx (m : Merkle.msg) :
  maxtx < 2 ^ 31 -> is_panic (extract node_hash maxtx m) = false.
Proof.
  intros Hmax. unfold extract. rewrite extract_full_eq. cbv zeta.
  set (p := new_from_msg m).
  destruct (N.eqb_spec (pb_numTx p) 0) as [|Hn0]; [reflexivity|].
  destruct (N.ltb_spec maxtx (pb_numTx p)) as [|Hle]; [reflexivity|].
  match goal with |- context [if ?b then (Err 3, _) else _] => destruct b end; [reflexivity|].
  match goal with |- context [if ?b then (Err 4, _) else _] => destruct b end; [reflexivity|].
  destruct (calc_height_ok (pb_numTx p)) as (H & HH & _); [lia|].
  rewrite HH.
  destruct (traverse_extract _ _ _ _ _ _ _) as [root s].
  destruct (x_bad s); [reflexivity|]. destruct (negb _); [reflexivity|]. destruct (negb _); reflexivity.
Qed.
End MerkleNP.

(* C08 for DecodeWIF.  The model of engineer a-c15/C06 (Wif/Wif.v) already writes every index and
   slice of DecodeWIF as a checked primitive (nth_res, slice_res: Panic 1 / Panic 2), and
   WifProofs.decode_total shows the result is Ok or one of the two error classes. *)
From BU Require Import Lib.Bytes Wif.Wif Wif.WifProofs.

Theorem decode_wif_no_panic s : is_panic (decode_wif s) = false.
Proof.
  destruct (decode_total s) as [[w H] | [H | H]]; rewrite H; reflexivity.
Qed.

(* C08 for bchutil.DecodeAddress: the model of engineer a-c01 (Address/Address.v: prefix handling,
   checkDecodeCashAddress, the retry with the SLP prefix, the hex public-key path, the legacy
   Base58Check path) never returns Panic, for every string, every network record, every set of
   registered legacy ids, and whatever bchec.ParsePubKey (Section variable) accepts.
   Ingredients: DecodeCashAddress does not panic and yields 5-bit symbols; the strict 5->8
   regrouping does not panic on 5-bit symbols (a-c01's BitsProofs); data[0] is covered by the
   21/33 length test; serializedPubKey[0] by the 66/130 length test; CheckDecode does not panic. *)
From BU Require Import Lib.Bytes Lib.PolyMod Gen.Xbchutil Gen.Nets Base58.Base58 CashAddr.CashAddr
  Address.Bits Address.BitsProofs Address.Address
  NoPanic.Slices NoPanic.CashAddrNP NoPanic.Base58NP.
From Coq Require Import ZifyBool ZifyN ZifyNat.

Lemma lits_cd : CD 0 = 5 /\ CD 1 = 8 /\ CD 2 = 1 /\ CD 3 = 1 /\ CD 4 = 0.
Proof. vm_compute. repeat split; reflexivity. Qed.

Lemma check_decode_cash_no_panic input : is_panic (snd (check_decode_cash input)) = false.
Proof.
  unfold check_decode_cash.
  pose proof (decode_cashaddr_no_panic input) as Hd.
  destruct (decode_cashaddr input) as [[prefix data5]| |] eqn:E; cbn [snd] in *; try assumption.
  destruct lits_cd as (H0 & H1 & H2 & H3 & H4). rewrite H0, H1, H2, H3, H4.
  pose proof (decode_cashaddr_symbols _ _ _ E) as Hs.
  destruct (convert_bits data5 5 8 false) as [data| |k] eqn:Ec; cbn [snd]; try reflexivity.
  - destruct (negb _ && negb _) eqn:Hn; cbn [snd]; [reflexivity|].
    destruct (nth_error data (N.to_nat 0)) as [v|] eqn:En.
    + repeat match goal with |- context [if ?b then _ else _] => destruct b end; reflexivity.
    + exfalso. apply nth_error_None in En. unfold lenN, ripemd160_size, sha256_size in Hn. lia.
  - exfalso. exact (convert_bits_58_no_panic data5 k Hs Ec).
Qed.

Section AddressNP.
Variable P : Type.
Variable ec_parse : list N -> option P.

Lemma cash_dispatch_no_panic net slp decoded typ : is_panic (@cash_dispatch P net slp decoded typ) = false.
Proof.
  unfold cash_dispatch, new_pkh, new_sh, new_sh32.
  repeat match goal with |- context [if ?b then _ else _] => destruct b end; reflexivity.
Qed.

Lemma hex_decode_length s r : hex_decode s = Some r -> length s = (2 * length r)%nat.
Proof.
  revert r. induction s as [s IH] using (well_founded_induction (Wf_nat.well_founded_ltof _ (@length N))).
  intros r H. destruct s as [|a [|b t]]; cbn [hex_decode] in H.
  - inversion H. reflexivity.
  - discriminate.
  - destruct (hex_val a); [|discriminate]. destruct (hex_val b); [|discriminate].
    destruct (hex_decode t) as [r'|] eqn:Et; [|discriminate]. inversion H.
    cbn [length]. rewrite (IH t) with (r := r'); [lia| unfold ltof; cbn [length]; lia | exact Et].
Qed.

Lemma lits_da : DA 6 = 130 /\ DA 7 = 66 /\ PKL 0 = 0.
Proof. vm_compute. repeat split; reflexivity. Qed.

Lemma new_pubkey_no_panic net ser : (0 < length ser)%nat -> is_panic (new_pubkey P ec_parse net ser) = false.
Proof.
  intros Hlen. unfold new_pubkey. destruct (ec_parse ser); [|reflexivity].
  destruct lits_da as (_ & _ & H0). rewrite H0.
  destruct (nth_error ser (N.to_nat 0)) eqn:En.
  - repeat match goal with |- context [if ?b then _ else _] => destruct b end; reflexivity.
  - apply nth_error_None in En. lia.
Qed.

Lemma legacy_path_no_panic reg_pkh reg_sh s ce : is_panic (@legacy_path P reg_pkh reg_sh s ce) = false.
Proof.
  unfold legacy_path, new_leg_pkh, new_leg_sh.
  pose proof (check_decode_no_panic s) as Hc.
  destruct (check_decode s) as [[decoded id]| |]; try discriminate.
  - repeat match goal with |- context [if ?b then _ else _] => destruct b end; reflexivity.
  - repeat match goal with |- context [if ?b then _ else _] => destruct b end; reflexivity.
Qed.

Lemma tail_path_no_panic net reg_pkh reg_sh s ce : is_panic (tail_path P ec_parse net reg_pkh reg_sh s ce) = false.
Proof.
  unfold tail_path. destruct lits_da as (H6 & H7 & _). rewrite H6, H7.
  destruct ((lenN s =? 130) || (lenN s =? 66)) eqn:Hl.
  - destruct (hex_decode s) as [ser|] eqn:Eh; [|reflexivity].
    apply new_pubkey_no_panic. apply hex_decode_length in Eh. unfold lenN in Hl. lia.
  - apply legacy_path_no_panic.
Qed.

Theorem decode_address_no_panic net reg_pkh reg_sh s :
  is_panic (decode_address P ec_parse net reg_pkh reg_sh s) = false.
Proof.
  unfold decode_address.
  destruct (_ || _); [reflexivity|].
  pose proof (check_decode_cash_no_panic (with_prefix net false s)) as H1.
  pose proof (check_decode_cash_no_panic (with_prefix net true s)) as H2.
  destruct (check_decode_cash (with_prefix net false s)) as [prefix r]. cbn [snd] in H1.
  set (retry := match snd (check_decode_cash (with_prefix net true s)) with
                | Ok (decoded, typ) => @cash_dispatch P net true decoded typ
                | Err e => tail_path P ec_parse net reg_pkh reg_sh s (e =? 8)
                | Panic k => Panic k
                end).
  assert (Hretry : is_panic retry = false).
  { unfold retry. destruct (snd (check_decode_cash (with_prefix net true s))) as [[decoded typ]| |]; try discriminate.
    - apply cash_dispatch_no_panic.
    - apply tail_path_no_panic. }
  destruct r as [[decoded typ]| e |]; try discriminate.
  - destruct (negb _); [apply cash_dispatch_no_panic | exact Hretry].
  - destruct (_ || _); [exact Hretry | apply tail_path_no_panic].
Qed.
End AddressNP.

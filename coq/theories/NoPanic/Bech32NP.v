(* C08 for bech32.Decode / Encode / ConvertBits: Decode and Encode written with checked slicing and
   indexing (bounds from the literals of the Go source) equal the coordinator's model on every input;
   the models have no panicking primitive.  ConvertBits only shifts uint8 values by amounts that the
   range test on fromBits/toBits keeps within 0..8 and appends to a slice: it has no partial operation. *)
From BU Require Import Lib.Bytes Lib.PolyMod Gen.Xbech32 Bech32.Bech32 NoPanic.Slices.
From Coq Require Import ZifyBool ZifyN ZifyNat.

Definition B := lit lits_Decode.

(* func Decode(bech string) (string, []byte, error), including the slices taken only to build the
   checksum-failure message *)
Definition decode_checked (bech : list N) : res (list N * list N) :=
  let n := length bech in
  if (N.of_nat n <? B 0) || (B 1 <? N.of_nat n) then Err 1 else
  if negb (forallb (fun c => negb ((c <? B 3) || (B 4 <? c))) bech) then Err 2 else
  let lower := map to_lower bech in
  let upper := map to_upper bech in
  if negb (list_eqb bech lower) && negb (list_eqb bech upper) then Err 3 else
  match last_index (B 5) lower 0 None with
  | None => Err 4                                                    (* LastIndexByte = -1 *)
  | Some one =>
      let one := Z.of_nat one in
      if ((one <? Z.of_N (B 6)) || (zlen lower <? one + Z.of_N (B 7)))%Z then Err 4 else
      do hrp <- slice_to lower one ;;                                (* bech[:one] *)
      do data <- slice_from lower (one + Z.of_N (B 8)) ;;            (* bech[one+1:] *)
      match to_bytes data with
      | None => Err 5
      | Some decoded =>
          if verify_checksum hrp decoded then
            do r <- slice_to decoded (zlen decoded - Z.of_N (B 11)) ;;   (* decoded[:len(decoded)-6] *)
            Ok (hrp, r)
          else
            do _ <- slice_from lower (zlen lower - Z.of_N (B 9)) ;;      (* bech[len(bech)-6:] *)
            do _ <- slice_to decoded (zlen decoded - Z.of_N (B 10)) ;;   (* decoded[:len(decoded)-6] *)
            Err 6
      end
  end.

Lemma lits_decode : B 6 = 1 /\ B 7 = 7 /\ B 8 = 1 /\ B 9 = 6 /\ B 10 = 6 /\ B 11 = 6.
Proof. vm_compute. repeat split; reflexivity. Qed.

Lemma to_bytes_length chars : forall d, to_bytes chars = Some d -> length d = length chars.
Proof.
  induction chars as [|c t IH]; intros d H; cbn [to_bytes] in H.
  - inversion H. reflexivity.
  - destruct (index_of c charset 0); [|discriminate].
    destruct (to_bytes t) as [r|]; [|discriminate].
    inversion H. cbn [length]. f_equal. apply IH. reflexivity.
Qed.

Theorem decode_checked_eq bech : decode_checked bech = Bech32.decode bech.
Proof.
  unfold decode_checked, Bech32.decode, B.
  destruct lits_decode as (H6 & H7 & H8 & H9 & H10 & H11). unfold B in *.
  rewrite H6, H7, H8, H9, H10, H11.
  destruct (_ || _); [reflexivity|].
  destruct (negb (forallb _ _)); [reflexivity|].
  destruct (_ && _); [reflexivity|].
  destruct (last_index _ _ _ _) as [one|]; [|reflexivity].
  unfold zlen. rewrite map_length.
  destruct ((one <? 1)%nat || (length bech <? one + 7)%nat) eqn:Hg.
  - destruct ((Z.of_nat one <? Z.of_N 1) || (Z.of_nat (length bech) <? Z.of_nat one + Z.of_N 7))%Z eqn:Hz; [reflexivity|lia].
  - destruct ((Z.of_nat one <? Z.of_N 1) || (Z.of_nat (length bech) <? Z.of_nat one + Z.of_N 7))%Z eqn:Hz; [lia|].
    rewrite slice_to_ok by (unfold zlen; rewrite map_length; lia). cbn [rbind].
    rewrite slice_from_ok by (unfold zlen; rewrite map_length; lia). cbn [rbind].
    replace (Z.to_nat (Z.of_nat one)) with one by lia.
    replace (Z.to_nat (Z.of_nat one + Z.of_N 1)) with (one + 1)%nat by lia.
    destruct (to_bytes _) as [decoded|] eqn:Hd; [|reflexivity].
    apply to_bytes_length in Hd. rewrite skipn_length, map_length in Hd.
    destruct (verify_checksum _ _).
    + rewrite slice_to_ok by (unfold zlen; lia). cbn [rbind].
      do 3 f_equal. lia.
    + rewrite slice_from_ok by (unfold zlen; rewrite map_length; lia). cbn [rbind].
      rewrite slice_to_ok by (unfold zlen; lia). reflexivity.
Qed.

Theorem decode_no_panic bech : is_panic (Bech32.decode bech) = false.
Proof.
  unfold Bech32.decode.
  repeat match goal with
         | |- context [if ?b then _ else _] => destruct b
         | |- context [match ?x with Some _ => _ | None => _ end] => destruct x
         end; reflexivity.
Qed.

Corollary decode_checked_no_panic bech : is_panic (decode_checked bech) = false.
Proof. rewrite decode_checked_eq. apply decode_no_panic. Qed.

(* ---------- Encode: charset[b] guarded by `int(b) >= len(charset)` ---------- *)
Fixpoint to_chars_checked (data : list N) : res (list N) :=
  match data with
  | [] => Ok []
  | b :: t =>
      if (zlen charset <=? Z.of_N b)%Z then Err 7 else
      do c <- index_z charset (Z.of_N b) ;;
      do r <- to_chars_checked t ;;
      Ok (c :: r)
  end.

Definition encode_checked (hrp data : list N) : res (list N) :=
  do chars <- to_chars_checked (data ++ create_checksum hrp data) ;;
  Ok (hrp ++ [49] ++ chars).

Lemma to_chars_checked_eq data :
  to_chars_checked data = match to_chars data with Some r => Ok r | None => Err 7 end.
Proof.
  induction data as [|b t IH]; cbn [to_chars_checked to_chars]; [reflexivity|].
  unfold zlen.
  destruct (b <? N.of_nat (length charset)) eqn:Hb.
  - destruct (Z.of_nat (length charset) <=? Z.of_N b)%Z eqn:Hz; [lia|].
    rewrite (index_z_ok charset _ 0) by (unfold zlen; lia). cbn [rbind].
    rewrite IH. replace (Z.to_nat (Z.of_N b)) with (N.to_nat b) by lia.
    destruct (to_chars t); reflexivity.
  - destruct (Z.of_nat (length charset) <=? Z.of_N b)%Z eqn:Hz; [reflexivity|lia].
Qed.

Theorem encode_checked_eq hrp data : encode_checked hrp data = Bech32.encode hrp data.
Proof.
  unfold encode_checked, Bech32.encode. rewrite to_chars_checked_eq.
  destruct (to_chars _); reflexivity.
Qed.

Theorem encode_no_panic hrp data : is_panic (Bech32.encode hrp data) = false.
Proof. unfold Bech32.encode. destruct (to_chars _); reflexivity. Qed.

Corollary encode_checked_no_panic hrp data : is_panic (encode_checked hrp data) = false.
Proof. rewrite encode_checked_eq. apply encode_no_panic. Qed.

(* ---------- ConvertBits ---------- *)
Theorem convert_bits_no_panic data fromBits toBits pad : is_panic (convert_bits data fromBits toBits pad) = false.
Proof.
  unfold convert_bits.
  destruct (_ || _); [reflexivity|].
  destruct (convert_loop _ _ _ _ _ _) as [[next filled] out].
  destruct (pad && _); destruct (_ && _); reflexivity.
Qed.

(* the shift amounts `8 - fromBits`, `8 - toExtract`, `toBits - filled` are never negative on the
   accepted range, i.e. the truncated subtraction of the model is the Go subtraction: toExtract is
   the minimum of two quantities that are at most 8 *)
Lemma shifts_in_range fromBits toBits : ((fromBits <? 1) || (8 <? fromBits) || (toBits <? 1) || (8 <? toBits)) = false ->
  fromBits <= 8 /\ toBits <= 8 /\ 1 <= fromBits /\ 1 <= toBits.
Proof. lia. Qed.

(* C08 for the bloom filter queries (model: Bloom/Bloom.v, engineer a-c09).  That model is
   bool-valued and uses Coq's total `mod` and `nth`; here Filter.matches and Filter.add are written
   with CHECKED integer division (Panic 3 on a zero divisor) and CHECKED indexing (Panic 1), with
   the early return of the Go loop, and proved equal to the model for every filter-load whose array
   is shorter than 2^29 bytes (the wire limit is 36000) — including the EMPTY array, where the guard
   of commit 9cfd8f5 answers before any division.  Without that guard the same function divides by
   zero on an empty array with at least one hash function. *)
From BU Require Import Lib.Bytes Lib.PolyMod Gen.Xbloom Bloom.Murmur3 Bloom.Bloom Bloom.BloomProofs NoPanic.Slices.
From Coq Require Import ZifyBool ZifyN ZifyNat.

(* a % b on uint32 *)
Definition mod_checked (a b : N) : res N := if b =? 0 then Panic 3 else Ok (a mod b).

(* Filter.hash *)
Definition bit_index_checked (m : msg) (i : N) (data : list N) : res N :=
  mod_checked (murmur3 (seed_of i (m_tweak m)) data) (nbits m).

(* Filter[idx>>3] & (1<<(idx&7)) != 0 *)
Definition test_bit_checked (bytes : list N) (idx : N) : res bool :=
  do b <- nth_res bytes (N.to_nat (N.shiftr idx (mlit_m 2))) ;;
  Ok (negb (N.land b (w8 (N.shiftl (mlit_m 3) (N.land idx (mlit_m 4)))) =? mlit_m 5)).

(* for i := 0; i < HashFuncs; i++ { idx := hash(i, data); if Filter[idx>>3]&(1<<(idx&7)) == 0 { return false } }; return true *)
Fixpoint matches_loop (m : msg) (data : list N) (is : list N) : res bool :=
  match is with
  | [] => Ok true
  | i :: t =>
      do idx <- bit_index_checked m i data ;;
      do b <- test_bit_checked (m_bytes m) idx ;;
      if b then matches_loop m data t else Ok false
  end.

(* [guard]: whether the `len(Filter) == 0` test is present *)
Definition matches_checked (guard : bool) (f : filter) (data : list N) : res bool :=
  match f with
  | None => Ok false
  | Some m => if guard && is_empty m then Ok true else matches_loop m data (hash_nums (m_nhash m))
  end.

(* Filter[idx>>3] |= 1 << (7 & idx) *)
Definition set_bit_checked (bytes : list N) (idx : N) : res (list N) :=
  do _ <- nth_res bytes (N.to_nat (N.shiftr idx (mlit_a 2))) ;;
  Ok (set_bit bytes idx).

Fixpoint add_loop (m : msg) (data : list N) (is : list N) (bytes : list N) : res (list N) :=
  match is with
  | [] => Ok bytes
  | i :: t =>
      do idx <- bit_index_checked m i data ;;
      do bytes' <- set_bit_checked bytes idx ;;
      add_loop m data t bytes'
  end.

Definition add_checked (guard : bool) (f : filter) (data : list N) : res filter :=
  match f with
  | None => Ok None
  | Some m =>
      if guard && is_empty_a m then Ok (Some m) else
      do bytes <- add_loop m data (hash_nums (m_nhash m)) (m_bytes m) ;;
      Ok (Some (MkMsg bytes (m_nhash m) (m_tweak m) (m_flags m)))
  end.

(* ---------- equality with the model ---------- *)
Lemma nbits_pos m : len_ok_msg m -> m_bytes m <> [] -> nbits m <> 0.
Proof.
  intros Hok Hne. rewrite nbits_no_wrap by exact Hok.
  destruct (m_bytes m); [congruence|cbn [length]; lia].
Qed.

Lemma shiftr_lit_m idx : N.shiftr idx (mlit_m 2) = idx / 8.
Proof. destruct lits_matches as (_ & -> & _). apply shiftr_3. Qed.
Lemma shiftr_lit_a idx : N.shiftr idx (mlit_a 2) = idx / 8.
Proof. destruct lits_add as (_ & -> & _). apply shiftr_3. Qed.

Lemma matches_loop_eq m data is :
  len_ok_msg m -> m_bytes m <> [] ->
  matches_loop m data is = Ok (forallb (test_bit (m_bytes m)) (map (fun i => bit_index m i data) is)).
Proof.
  intros Hok Hne. induction is as [|i t IH]; [reflexivity|].
  cbn [matches_loop map forallb]. unfold bit_index_checked, mod_checked.
  destruct (N.eqb_spec (nbits m) 0) as [E|_]; [exfalso; exact (nbits_pos m Hok Hne E)|]. cbn [rbind].
  fold (bit_index m i data). unfold test_bit_checked, nth_res.
  pose proof (bit_index_in_range m i data Hok Hne) as Hr. rewrite shiftr_lit_m.
  destruct (nth_error (m_bytes m) (N.to_nat (bit_index m i data / 8))) as [b|] eqn:En.
  - cbn [rbind]. unfold test_bit at 1. rewrite shiftr_lit_m.
    rewrite (nth_error_nth _ _ 0 En).
    destruct (negb _); [exact IH|reflexivity].
  - apply nth_error_None in En. lia.
Qed.

Theorem matches_checked_eq f data : len_ok f -> matches_checked true f data = Ok (matches f data).
Proof.
  intros Hok. destruct f as [m|]; [|reflexivity]. cbn [matches_checked matches andb].
  destruct (is_empty m) eqn:E; [reflexivity|].
  apply matches_loop_eq; [exact Hok|].
  intros H. apply is_empty_iff in H. congruence.
Qed.

Lemma add_loop_eq m data is : forall bytes,
  len_ok_msg m -> m_bytes m <> [] -> length bytes = length (m_bytes m) ->
  add_loop m data is bytes = Ok (fold_left set_bit (map (fun i => bit_index m i data) is) bytes).
Proof.
  induction is as [|i t IH]; intros bytes Hok Hne Hlen; [reflexivity|].
  cbn [add_loop map fold_left]. unfold bit_index_checked, mod_checked.
  destruct (N.eqb_spec (nbits m) 0) as [E|_]; [exfalso; exact (nbits_pos m Hok Hne E)|]. cbn [rbind].
  fold (bit_index m i data). unfold set_bit_checked, nth_res.
  pose proof (bit_index_in_range m i data Hok Hne) as Hr. rewrite shiftr_lit_a.
  destruct (nth_error bytes (N.to_nat (bit_index m i data / 8))) eqn:En.
  - cbn [rbind]. apply IH; auto. rewrite set_bit_length. exact Hlen.
  - apply nth_error_None in En. lia.
Qed.

Theorem add_checked_eq f data : len_ok f -> add_checked true f data = Ok (add f data).
Proof.
  intros Hok. destruct f as [m|]; [|reflexivity]. cbn [add_checked add andb].
  destruct (is_empty_a m) eqn:E; [reflexivity|].
  rewrite add_loop_eq; [reflexivity | exact Hok | | reflexivity].
  intros H. rewrite is_empty_a_eq in E. apply is_empty_iff in H. congruence.
Qed.

(* within the wire limits the length condition holds *)
Lemma wire_limits_len_ok m : within_wire_limits m -> len_ok (Some m).
Proof. unfold within_wire_limits, len_ok, len_ok_msg, max_filter_size. intros [H _]. lia. Qed.

Theorem bloom_no_panic m data :
  within_wire_limits m ->
  is_panic (matches_checked true (Some m) data) = false /\ is_panic (add_checked true (Some m) data) = false.
Proof.
  intros Hw. rewrite matches_checked_eq, add_checked_eq by (apply wire_limits_len_ok; exact Hw). auto.
Qed.

Theorem bloom_unloaded_no_panic data :
  matches_checked true None data = Ok false /\ add_checked true None data = Ok None.
Proof. auto. Qed.

(* ---------- the code before commit 9cfd8f5 ---------- *)
Definition empty_load : msg := MkMsg [] 1 0 0.       (* Filter = {}, HashFuncs = 1 *)

Theorem bloom_old_refuted data :
  matches_checked false (Some empty_load) data = Panic 3 /\ add_checked false (Some empty_load) data = Panic 3.
Proof.
  assert (Hn : nbits empty_load = 0) by (vm_compute; reflexivity).
  split.
  - cbn [matches_checked andb]. change (hash_nums (m_nhash empty_load)) with [0].
    cbn [matches_loop]. unfold bit_index_checked, mod_checked. rewrite Hn. reflexivity.
  - cbn [add_checked andb]. change (hash_nums (m_nhash empty_load)) with [0].
    cbn [add_loop]. unfold bit_index_checked, mod_checked. rewrite Hn. reflexivity.
Qed.

Example bloom_now_on_empty data : matches_checked true (Some empty_load) data = Ok true.
Proof. reflexivity. Qed.

(* Go's slicing and indexing as checked primitives.  Indices are Go ints, modelled as Z, so that a
   subtraction such as len(values)-8 can go negative exactly as it does in Go.  A violated bound is
   [Panic 2] (slice bounds out of range) or [Panic 1] (index out of range). *)
From BU Require Import Lib.Bytes.
From Coq Require Import ZifyBool ZifyN ZifyNat.

Definition zlen {A} (l : list A) : Z := Z.of_nat (length l).

(* l[:hi] *)
Definition slice_to {A} (l : list A) (hi : Z) : res (list A) :=
  if ((hi <? 0) || (zlen l <? hi))%Z then Panic 2 else Ok (firstn (Z.to_nat hi) l).
(* l[lo:] *)
Definition slice_from {A} (l : list A) (lo : Z) : res (list A) :=
  if ((lo <? 0) || (zlen l <? lo))%Z then Panic 2 else Ok (skipn (Z.to_nat lo) l).
(* l[lo:hi] *)
Definition slice {A} (l : list A) (lo hi : Z) : res (list A) :=
  if ((lo <? 0) || (hi <? lo) || (zlen l <? hi))%Z then Panic 2
  else Ok (skipn (Z.to_nat lo) (firstn (Z.to_nat hi) l)).
(* l[i] *)
Definition index_z {A} (l : list A) (i : Z) : res A :=
  if (i <? 0)%Z then Panic 1 else nth_res l (Z.to_nat i).

Lemma slice_to_ok {A} (l : list A) hi :
  (0 <= hi <= zlen l)%Z -> slice_to l hi = Ok (firstn (Z.to_nat hi) l).
Proof. unfold slice_to, zlen. intros H. destruct ((hi <? 0) || _)%Z eqn:E; [lia|reflexivity]. Qed.

Lemma slice_from_ok {A} (l : list A) lo :
  (0 <= lo <= zlen l)%Z -> slice_from l lo = Ok (skipn (Z.to_nat lo) l).
Proof. unfold slice_from, zlen. intros H. destruct ((lo <? 0) || _)%Z eqn:E; [lia|reflexivity]. Qed.

Lemma slice_ok {A} (l : list A) lo hi :
  (0 <= lo <= hi)%Z -> (hi <= zlen l)%Z -> slice l lo hi = Ok (skipn (Z.to_nat lo) (firstn (Z.to_nat hi) l)).
Proof. unfold slice, zlen. intros H1 H2. destruct ((lo <? 0) || _ || _)%Z eqn:E; [lia|reflexivity]. Qed.

Lemma index_z_ok {A} (l : list A) i d :
  (0 <= i < zlen l)%Z -> index_z l i = Ok (nth (Z.to_nat i) l d).
Proof.
  unfold index_z, zlen, nth_res. intros H.
  destruct (i <? 0)%Z eqn:E; [lia|].
  destruct (nth_error l (Z.to_nat i)) as [x|] eqn:En.
  - f_equal. symmetry. apply nth_error_nth. exact En.
  - apply nth_error_None in En. lia.
Qed.

Lemma slice_to_panics {A} (l : list A) hi : (hi < 0)%Z -> slice_to l hi = Panic 2.
Proof. unfold slice_to. intros H. destruct ((hi <? 0) || _)%Z eqn:E; [reflexivity|lia]. Qed.

Definition no_panic {A} (r : res A) : Prop := forall k, r <> Panic k.

Lemma no_panic_iff {A} (r : res A) : no_panic r <-> is_panic r = false.
Proof.
  unfold no_panic. destruct r as [a|e|k]; simpl; split; intros H; try reflexivity; try discriminate;
    try (intros k' Hk; discriminate).
  exfalso. apply (H k). reflexivity.
Qed.

(* C08 for hdkeychain.NewKeyFromString.  The model (HD/HD.v, engineer a-c04) writes the slices of
   the Go function with total list functions; here the same function is written with CHECKED slices
   and indices (bounds = the literals of the source), proved equal to the model, and the model is
   shown panic-free provided bchec.ParsePubKey (a dependency, Section variable) does not panic. *)
From BU Require Import Lib.Bytes Lib.PolyMod Gen.Xhdkeychain Base58.Base58 HD.HD NoPanic.Slices.
From Coq Require Import ZifyBool ZifyN ZifyNat.

Section HDNP.
Variable point : Type.
Variable parse_point : list N -> res point.
Variable dsha : list N -> list N.

Notation parse := (HD.parse point parse_point dsha).

Definition zl (i : nat) : Z := Z.of_nat (LP i).

(* func NewKeyFromString(key string) returns ( * ExtendedKey, error) *)
Definition parse_checked (s : list N) : res xkey :=
  let decoded := Base58.decode s in
  if negb (length decoded =? serializedKeyLen + LP 0)%nat then Err E_keylen else
  do pl <- slice_to decoded (zlen decoded - zl 1) ;;          (* decoded[:len(decoded)-4] *)
  do ck <- slice_from decoded (zlen decoded - zl 2) ;;        (* decoded[len(decoded)-4:] *)
  do sum <- slice_to (dsha pl) (zl 3) ;;                      (* DoubleHashB(payload)[:4] *)
  if negb (list_eqb ck sum) then Err E_checksum else
  do version <- slice_to pl (zl 4) ;;                         (* payload[:4] *)
  do d1 <- Slices.slice pl (zl 5) (zl 6) ;;                   (* payload[4:5] *)
  do depth <- index_z d1 (zl 7) ;;                            (* [0] *)
  do fp <- Slices.slice pl (zl 8) (zl 9) ;;                   (* payload[5:9] *)
  do cn <- Slices.slice pl (zl 10) (zl 11) ;;                 (* payload[9:13] *)
  do cc <- Slices.slice pl (zl 12) (zl 13) ;;                 (* payload[13:45] *)
  do keyData <- Slices.slice pl (zl 14) (zl 15) ;;            (* payload[45:78] *)
  do k0 <- index_z keyData (zl 16) ;;                         (* keyData[0] *)
  if k0 =? N.of_nat (LP 17) then
    do kd <- slice_from keyData (zl 18) ;;                    (* keyData[1:] *)
    if out_of_range (set_bytes kd) then Err E_unusable
    else Ok (mk_xkey version kd cc fp depth (be_value cn 0) true)
  else
    do _ <- parse_point keyData ;;
    Ok (mk_xkey version keyData cc fp depth (be_value cn 0) false).

Lemma lits_parse :
  serializedKeyLen = 78%nat /\
  LP 0 = 4%nat /\ LP 1 = 4%nat /\ LP 2 = 4%nat /\ LP 3 = 4%nat /\ LP 4 = 4%nat /\ LP 5 = 4%nat /\
  LP 6 = 5%nat /\ LP 7 = 0%nat /\ LP 8 = 5%nat /\ LP 9 = 9%nat /\ LP 10 = 9%nat /\ LP 11 = 13%nat /\
  LP 12 = 13%nat /\ LP 13 = 45%nat /\ LP 14 = 45%nat /\ LP 15 = 78%nat /\ LP 16 = 0%nat /\ LP 18 = 1%nat.
Proof. vm_compute. repeat split; reflexivity. Qed.

(* chainhash.DoubleHashB returns 32 bytes; only `at least 4` is needed *)
Hypothesis dsha_len : forall b, (4 <= length (dsha b))%nat.

Theorem parse_checked_eq s : parse_checked s = parse s.
Proof.
  unfold parse_checked, HD.parse, zl, HD.slice.
  pose proof lits_parse as HL.
  repeat match type of HL with _ /\ _ => let E := fresh "E" in destruct HL as [E HL]; rewrite ?E; clear E end.
  rewrite ?HL. clear HL.
  set (d := Base58.decode s).
  destruct (length d =? 78 + 4)%nat eqn:Hn; cbn [negb]; [|reflexivity].
  apply Nat.eqb_eq in Hn.
  assert (Hpl : length (firstn (length d - 4) d) = 78%nat) by (rewrite firstn_length; lia).
  rewrite slice_to_ok by (unfold zlen; lia). cbn [rbind].
  rewrite slice_from_ok by (unfold zlen; lia). cbn [rbind].
  replace (Z.to_nat (zlen d - Z.of_nat 4)) with (length d - 4)%nat by (unfold zlen; lia).
  set (pl := firstn (length d - 4) d) in *.
  rewrite slice_to_ok by (unfold zlen; pose proof (dsha_len pl); lia). cbn [rbind].
  rewrite Nat2Z.id.
  destruct (list_eqb _ _); cbn [negb]; [|reflexivity].
  rewrite slice_to_ok by (unfold zlen; lia). cbn [rbind].
  rewrite slice_ok by (unfold zlen; lia). cbn [rbind].
  rewrite (index_z_ok _ _ 0) by (unfold zlen; rewrite skipn_length, firstn_length; lia). cbn [rbind].
  rewrite slice_ok by (unfold zlen; lia). cbn [rbind].
  rewrite slice_ok by (unfold zlen; lia). cbn [rbind].
  rewrite slice_ok by (unfold zlen; lia). cbn [rbind].
  rewrite slice_ok by (unfold zlen; lia). cbn [rbind].
  rewrite (index_z_ok _ _ 0) by (unfold zlen; rewrite skipn_length, firstn_length; lia). cbn [rbind].
  rewrite !Nat2Z.id.
  assert (Hsl : forall a b, skipn a (firstn b pl) = firstn (b - a) (skipn a pl)).
  { intros a b. rewrite skipn_firstn_comm. reflexivity. }
  rewrite !Hsl.
  destruct (_ =? _).
  - rewrite slice_from_ok by (unfold zlen; rewrite firstn_length, skipn_length; lia). cbn [rbind].
    rewrite Nat2Z.id. reflexivity.
  - reflexivity.
Qed.

(* the dependency does not panic (it is observed dynamically, see the harness) *)
Hypothesis parse_point_no_panic : forall b, is_panic (parse_point b) = false.

Theorem parse_no_panic s : is_panic (parse s) = false.
Proof.
  unfold HD.parse.
  repeat match goal with
         | |- context [if ?b then _ else _] => destruct b
         end; try reflexivity.
  match goal with |- context [parse_point ?x] => pose proof (parse_point_no_panic x) as Hp; destruct (parse_point x) end;
    cbn [rbind] in *; auto.
Qed.

Corollary parse_checked_no_panic s : is_panic (parse_checked s) = false.
Proof. rewrite parse_checked_eq. apply parse_no_panic. Qed.
End HDNP.

(* C08 for base58.CheckDecode: the function written with checked indexing and slicing (bounds taken
   from the literals of the Go source) equals the coordinator's model on every string; the model has
   no panicking primitive, so neither panics.  base58.Decode indexes a [256]byte table with a byte and
   otherwise only calls math/big; it has no partial operation. *)
From BU Require Import Lib.Bytes Lib.PolyMod Lib.Sha256 Gen.Xbase58 Base58.Base58 NoPanic.Slices.
From Coq Require Import ZifyBool ZifyN ZifyNat.

Definition K := lit lits_CheckDecode.

(* func CheckDecode(input string) (result []byte, version byte, err error) *)
Definition check_decode_checked (s : list N) : res (list N * N) :=
  let decoded := Base58.decode s in
  if (zlen decoded <? Z.of_N (K 0))%Z then Err 1 else              (* len(decoded) < 5 *)
  do version <- index_z decoded (Z.of_N (K 2)) ;;                  (* decoded[0] *)
  do ck <- slice_from decoded (zlen decoded - Z.of_N (K 4)) ;;     (* decoded[len(decoded)-4:] *)
  do body <- slice_to decoded (zlen decoded - Z.of_N (K 5)) ;;     (* decoded[:len(decoded)-4] *)
  if negb (list_eqb (checksum body) ck) then Err 2 else
  do payload <- slice decoded (Z.of_N (K 7)) (zlen decoded - Z.of_N (K 8)) ;;   (* decoded[1 : len(decoded)-4] *)
  Ok (payload, version).

(* the literals: guard 5, index 0, offsets 4, 4, 1, 4 *)
Lemma lits_check_decode : K 0 = 5 /\ K 2 = 0 /\ K 4 = 4 /\ K 5 = 4 /\ K 7 = 1 /\ K 8 = 4.
Proof. vm_compute. repeat split; reflexivity. Qed.

Theorem check_decode_checked_eq s : check_decode_checked s = check_decode s.
Proof.
  unfold check_decode_checked, check_decode.
  destruct lits_check_decode as (H0 & H2 & H4 & H5 & H7 & H8). rewrite H0, H2, H4, H5, H7, H8.
  set (d := Base58.decode s). unfold zlen.
  destruct (length d <? 5)%nat eqn:Hn.
  - destruct (Z.of_nat (length d) <? Z.of_N 5)%Z eqn:Hz; [reflexivity|lia].
  - destruct (Z.of_nat (length d) <? Z.of_N 5)%Z eqn:Hz; [lia|].
    rewrite (index_z_ok d _ 0) by (unfold zlen; lia). cbn [rbind].
    rewrite slice_from_ok by (unfold zlen; lia). cbn [rbind].
    rewrite slice_to_ok by (unfold zlen; lia). cbn [rbind].
    replace (Z.to_nat (Z.of_nat (length d) - Z.of_N 4)) with (length d - 4)%nat by lia.
    destruct (list_eqb _ _); cbn [negb]; [|reflexivity].
    rewrite slice_ok by (unfold zlen; lia). cbn [rbind].
    replace (Z.to_nat (Z.of_nat (length d) - Z.of_N 4)) with (length d - 4)%nat by lia.
    change (Z.to_nat (Z.of_N 1)) with 1%nat. change (Z.to_nat (Z.of_N 0)) with 0%nat.
    destruct d; reflexivity.
Qed.

Theorem check_decode_no_panic s : is_panic (check_decode s) = false.
Proof.
  unfold check_decode.
  destruct (_ <? _)%nat; [reflexivity|]. destruct (list_eqb _ _); reflexivity.
Qed.

Corollary check_decode_checked_no_panic s : is_panic (check_decode_checked s) = false.
Proof. rewrite check_decode_checked_eq. apply check_decode_no_panic. Qed.

(* b58[c]: a [256]byte table indexed by a byte *)
Lemma b58_table_total : length b58tab = 256%nat.
Proof. vm_compute. reflexivity. Qed.

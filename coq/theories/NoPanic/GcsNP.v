(* C08 for the GCS filter (model: Gcs/Gcs.v, engineer a-c13): parsing and the four query forms on
   ANY (N, P, M, bytes).  The model's only Panic is the out-of-fuel value of the three decoding
   loops; every successful readFullUint64 consumes at least one bit, so the fuel 8*|bytes|+1 always
   suffices: Match, ZipMatchAny, HashMatchAny, MatchAny return on every filter, whatever element
   count N the filter claims.  Allocation: the capacity HashMatchAny asks for is at most
   8*|bytes|/(P+1), and the number of values it decodes is at most 8*|bytes| — both independent of N
   (the historical code asked for N entries: 2^32-1 for a 7-byte input). *)
From BU Require Import Lib.Bytes Lib.PolyMod Gen.Xgcs Gcs.SipHash Gcs.Gcs.
From Coq Require Import ZifyBool ZifyN ZifyNat.

(* ---------- every read consumes at least one bit ---------- *)
Lemma read_unary_shorter bs : forall q q' t, read_unary bs q = Some (q', t) -> (length t < length bs)%nat.
Proof.
  induction bs as [|b r IH]; intros q q' t H; cbn [read_unary] in H; [discriminate|].
  destruct b.
  - apply IH in H. cbn [length]. lia.
  - inversion H. subst. cbn [length]. lia.
Qed.

Lemma read_bits_shorter n bs v t : read_bits n bs = Some (v, t) -> (length t <= length bs)%nat.
Proof.
  unfold read_bits. destruct (length bs <? n)%nat; [discriminate|].
  intros H. inversion H. rewrite skipn_length. lia.
Qed.

Lemma read_full_shorter P bs d t : read_full P bs = Some (d, t) -> (length t < length bs)%nat.
Proof.
  unfold read_full. destruct (read_unary bs 0) as [[q r]|] eqn:Eu; [|discriminate].
  destruct (read_bits (N.to_nat P) r) as [[v r']|] eqn:Eb; [|discriminate].
  intros H. inversion H. subst.
  apply read_unary_shorter in Eu. apply read_bits_shorter in Eb. lia.
Qed.

(* ---------- the loops never run out of fuel ---------- *)
Lemma match_loop_no_panic fuel : forall P left bs value term,
  (length bs < fuel)%nat -> is_panic (match_loop fuel P left bs value term) = false.
Proof.
  induction fuel as [|k IH]; intros P left bs value term Hf; [lia|].
  cbn [match_loop]. destruct (left =? 0); [reflexivity|].
  destruct (read_full P bs) as [[delta bs']|] eqn:E; [|reflexivity].
  destruct (_ =? term); [reflexivity|]. destruct (term <? _); [reflexivity|].
  apply IH. apply read_full_shorter in E. lia.
Qed.

Lemma zip_loop_no_panic fuel : forall P left bs value qs,
  (length bs < fuel)%nat -> is_panic (zip_loop fuel P left bs value qs) = false.
Proof.
  induction fuel as [|k IH]; intros P left bs value qs Hf; [lia|].
  cbn [zip_loop]. destruct (left =? 0); [reflexivity|].
  destruct (read_full P bs) as [[delta bs']|] eqn:E; [|reflexivity].
  destruct (zip_inner qs _); [reflexivity|].
  apply IH. apply read_full_shorter in E. lia.
Qed.

Lemma decode_all_ok fuel : forall P bs last,
  (length bs < fuel)%nat -> exists vs, decode_all fuel P bs last = Ok vs /\ (length vs <= length bs)%nat.
Proof.
  induction fuel as [|k IH]; intros P bs last Hf; [lia|].
  cbn [decode_all].
  destruct (read_full P bs) as [[delta bs']|] eqn:E.
  - apply read_full_shorter in E.
    destruct (IH P bs' (w64 (last + delta))) as (rest & Hr & Hl); [lia|].
    rewrite Hr. cbn [rbind]. eexists. split; [reflexivity|]. cbn [length]. lia.
  - exists []. split; [reflexivity|]. cbn [length]. lia.
Qed.

Lemma bits_be_length n v : length (bits_be n v) = n.
Proof. induction n; cbn [bits_be length]; auto. Qed.

Lemma bits_of_bytes_length l : length (bits_of_bytes l) = (8 * length l)%nat.
Proof.
  unfold bits_of_bytes. induction l as [|x t IH]; [reflexivity|].
  cbn [flat_map]. rewrite app_length, bits_be_length, IH. cbn [length]. lia.
Qed.

Lemma fuel_enough f : (length (bits_of_bytes (f_data f)) < fuel_of f)%nat.
Proof. unfold fuel_of. rewrite bits_of_bytes_length. lia. Qed.

Section Queries.
Variable hash : list N -> list N -> N.      (* siphash.Sum64: a dependency, any function *)
Variable sort : list N -> list N.           (* sort.Slice: a dependency, any function *)

Theorem match_no_panic f key d : is_panic (gmatch hash f key d) = false.
Proof. unfold gmatch. apply match_loop_no_panic, fuel_enough. Qed.

Theorem zip_match_any_no_panic f key data : is_panic (zip_match_any hash sort f key data) = false.
Proof. unfold zip_match_any. destruct data; [reflexivity|]. apply zip_loop_no_panic, fuel_enough. Qed.

Theorem hash_match_any_no_panic f key data : is_panic (hash_match_any hash f key data) = false.
Proof.
  unfold hash_match_any. destruct data; [reflexivity|].
  destruct (decode_all_ok (fuel_of f) (f_p f) (bits_of_bytes (f_data f)) 0 (fuel_enough f)) as (vs & Hv & _).
  rewrite Hv. reflexivity.
Qed.

Theorem match_any_no_panic f key data : is_panic (match_any hash sort f key data) = false.
Proof.
  unfold match_any. destruct (_ <=? _); [apply hash_match_any_no_panic | apply zip_match_any_no_panic].
Qed.
End Queries.

(* ---------- parsing ---------- *)
Theorem from_bytes_no_panic n P M d : is_panic (from_bytes n P M d) = false.
Proof. unfold from_bytes. destruct (_ <? P); reflexivity. Qed.

Theorem from_nbytes_no_panic P M d : is_panic (from_nbytes P M d) = false.
Proof.
  unfold from_nbytes, read_varint, read_le.
  destruct d as [|x t]; [reflexivity|].
  repeat match goal with
         | |- context [if ?b then _ else _] => destruct b; cbn [rbind]
         end; try reflexivity; apply from_bytes_no_panic.
Qed.

(* ---------- allocation ---------- *)
Lemma hint_lits : hint_mul = 8 /\ hint_add = 1.
Proof. vm_compute. split; reflexivity. Qed.

(* the capacity requested for HashMatchAny's table: bounded by the bytes, not by the claimed N *)
Theorem size_hint_bound f : size_hint f <= 8 * N.of_nat (length (f_data f)) / (f_p f + 1).
Proof.
  unfold size_hint. destruct hint_lits as (-> & ->).
  set (len := N.of_nat (length (f_data f))).
  assert (Hw : w64 (len * 8) <= 8 * len).
  { unfold w64. pose proof (N.mod_le (len * 8) two64). assert (two64 <> 0) by (vm_compute; discriminate). lia. }
  assert (Hmx : w64 (len * 8) / (f_p f + 1) <= 8 * len / (f_p f + 1)) by (apply N.div_le_mono; lia).
  destruct (f_n f <? _) eqn:E; lia.
Qed.

(* the number of values the table receives: at most one per bit of the filter *)
Theorem decoded_values_bound f :
  exists vs, decode_all (fuel_of f) (f_p f) (bits_of_bytes (f_data f)) 0 = Ok vs /\
             (length vs <= 8 * length (f_data f))%nat.
Proof.
  destruct (decode_all_ok (fuel_of f) (f_p f) (bits_of_bytes (f_data f)) 0 (fuel_enough f)) as (vs & Hv & Hl).
  exists vs. split; [exact Hv|]. rewrite bits_of_bytes_length in Hl. exact Hl.
Qed.

(* the historical input: seven bytes, N = 2^32-1 claimed; the hint is 2, not 4294967295 *)
Example size_hint_on_finding :
  match from_nbytes 19 784931 [0xfe; 0xff; 0xff; 0xff; 0xff; 0; 0] with
  | Ok f => f_n f = 4294967295 /\ size_hint f = 0
  | _ => False
  end.
Proof. vm_compute. split; reflexivity. Qed.

(* before commit 0c51eef the requested capacity was f.N(): on the same seven bytes that is 2^32-1
   entries, i.e. it violates the bound above by nine orders of magnitude *)
Definition size_hint_old (f : filter) : N := f_n f.
Theorem size_hint_old_refuted :
  exists f d, from_nbytes 19 784931 d = Ok f /\ length d = 7%nat /\
              8 * N.of_nat (length (f_data f)) / (f_p f + 1) < 1000 * 1000 * 1000 < size_hint_old f.
Proof.
  eexists. exists [0xfe; 0xff; 0xff; 0xff; 0xff; 0; 0]. split; [vm_compute; reflexivity|].
  split; [reflexivity|]. vm_compute. split; reflexivity.
Qed.

(* C08 for the CashAddr layer: DecodeCashAddress and encode never panic.
   The coordinator's model (CashAddr/CashAddr.v) writes the slices of the Go code with the total
   functions firstn/skipn.  Here the same function is written with CHECKED slices (NoPanic/Slices.v:
   Go int arithmetic in Z, Panic 2 when a bound is violated), proved equal to the model on every
   input, and the model is proved panic-free.  The same checked function WITHOUT the length guard
   of commit 09d521b panics on "af:v47zk5g". *)
From BU Require Import Lib.Bytes Lib.PolyMod Gen.Xbchutil CashAddr.CashAddr NoPanic.Slices.
From Coq Require Import ZifyBool ZifyN ZifyNat.

(* DecodeCashAddress with checked slices.
     prefix loop   for i := 0; i < prefixSize; i++ { str[i] }              ~ str[:prefixSize]
     values        make([]byte, len(str)-1-prefixSize); str[i+prefixSize+1] ~ str[prefixSize+1:]
     result        values[:len(values)-8]
   [guard] says whether the `len(values) < 8` test is present. *)
Definition decode_checked (guard : bool) (str : list N) : res (list N * list N) :=
  do (lower, upper, prefixSize) <- scan str 0 false false (D 0) ;;
  if prefixSize =? D 12 then Err 4 else
  if upper && lower then Err 5 else
  do pre <- slice_to str (Z.of_N prefixSize) ;;
  let prefix := map lower_case pre in
  do rest <- slice_from str (Z.of_N prefixSize + Z.of_N (D 14)) ;;
  do values <- to_values rest ;;
  if guard && (N.of_nat (length values) <? D 19) then Err 7 else
  if negb (verify_checksum prefix values) then Err 8 else
  do payload <- slice_to values (zlen values - Z.of_N (D 20)) ;;
  Ok (prefix, payload).

(* ---------- obligations on the extracted literals and tables ---------- *)
(* the reverse table has an entry for every character that passes `c > 127` *)
Lemma tab_rev_covers : (D 17 <? N.of_nat (length charset_rev)) = true.
Proof. vm_compute. reflexivity. Qed.
(* the forward table has an entry for every 5-bit symbol *)
Lemma tab_charset_len : length charset = 32%nat.
Proof. vm_compute. reflexivity. Qed.
(* the guard `len(values) < 8` covers the slice `values[:len(values)-8]` *)
Lemma lits_guard_covers_slice : (D 20 <=? D 19) = true.
Proof. vm_compute. reflexivity. Qed.
(* initial prefixSize, the "no prefix" test, the separator tests and the `+1` are what the proof needs them to be *)
Lemma lits_zero : D 0 = 0 /\ D 12 = 0 /\ D 10 = 0 /\ D 11 = 0 /\ D 14 = 1.
Proof. vm_compute. repeat split; reflexivity. Qed.

(* ---------- scan ---------- *)
Lemma scan_no_panic s : forall i l u p, is_panic (scan s i l u p) = false.
Proof.
  induction s as [|c t IH]; intros i l u p; cbn [scan]; [reflexivity|].
  repeat match goal with |- context [if ?b then _ else _] => destruct b end; auto.
Qed.

(* the prefix size is either the initial value or the position of a separator inside the string *)
Lemma scan_prefix s : forall i l u p l' u' p',
  scan s i l u p = Ok (l', u', p') -> p' = p \/ (i <= p' /\ p' < i + N.of_nat (length s)).
Proof.
  induction s as [|c t IH]; intros i l u p l' u' p' H; cbn [scan] in H.
  - inversion H. auto.
  - cbn [length]. rewrite Nat2N.inj_succ.
    repeat match type of H with context [if ?b then _ else _] => destruct b eqn:? end;
      try discriminate;
      (apply IH in H; destruct H as [H|H]; [first [left; exact H | right; lia] | right; lia]).
Qed.

(* ---------- to_values ---------- *)
Lemma to_values_no_panic chars : is_panic (to_values chars) = false.
Proof.
  induction chars as [|c t IH]; cbn [to_values]; [reflexivity|].
  destruct (D 17 <? c) eqn:Hc; [reflexivity|].
  destruct (nth_error charset_rev (N.to_nat c)) as [v|] eqn:E.
  - destruct (v =? _)%Z; [reflexivity|].
    destruct (to_values t); simpl in *; auto.
  - exfalso. apply nth_error_None in E. pose proof tab_rev_covers. lia.
Qed.

(* every entry of the reverse table is either the "invalid" marker or a 5-bit symbol *)
Lemma tab_rev_values :
  forallb (fun v => (v =? - Z.of_N (D 18))%Z || (Z.to_N v mod 256 <? 32)) charset_rev = true.
Proof. vm_compute. reflexivity. Qed.

Lemma to_values_lt32 chars : forall vals, to_values chars = Ok vals -> Forall (fun x => x < 32) vals.
Proof.
  induction chars as [|c t IH]; intros vals H; cbn [to_values] in H.
  - inversion H. constructor.
  - destruct (D 17 <? c); [discriminate|].
    destruct (nth_error charset_rev (N.to_nat c)) as [v|] eqn:E; [|discriminate].
    destruct (v =? _)%Z eqn:Ev; [discriminate|].
    destruct (to_values t) as [r| |]; cbn [rbind] in H; try discriminate.
    inversion H. constructor; [|apply IH; reflexivity].
    pose proof tab_rev_values as Ht. rewrite forallb_forall in Ht.
    specialize (Ht v (nth_error_In _ _ E)). rewrite Ev in Ht. cbn [orb] in Ht. lia.
Qed.

(* the payload of an accepted CashAddr string consists of 5-bit symbols *)
Lemma decode_cashaddr_symbols s p d : decode_cashaddr s = Ok (p, d) -> Forall (fun x => x < 32) d.
Proof.
  unfold decode_cashaddr. intros H.
  destruct (scan s 0 false false (D 0)) as [[[l u] ps]| |]; cbn [rbind] in H; try discriminate.
  destruct (ps =? D 12); [discriminate|]. destruct (u && l); [discriminate|].
  destruct (to_values _) as [values| |] eqn:Ev; cbn [rbind] in H; try discriminate.
  destruct (_ <? D 19); [discriminate|]. destruct (negb _); [discriminate|].
  injection H as _ <-.
  apply to_values_lt32 in Ev.
  rewrite <- (firstn_skipn (length values - N.to_nat (D 20)) values) in Ev.
  apply Forall_app in Ev. exact (proj1 Ev).
Qed.

(* ---------- the model never panics ---------- *)
Theorem decode_cashaddr_no_panic str : is_panic (decode_cashaddr str) = false.
Proof.
  unfold decode_cashaddr.
  pose proof (scan_no_panic str 0 false false (D 0)) as Hs.
  destruct (scan str 0 false false (D 0)) as [[[l u] p]| |]; cbn [rbind] in *; try assumption.
  destruct (p =? D 12); [reflexivity|].
  destruct (u && l); [reflexivity|].
  pose proof (to_values_no_panic (skipn (N.to_nat p + 1) str)) as Hv.
  destruct (to_values _) as [values| |]; cbn [rbind] in *; try assumption.
  destruct (N.of_nat (length values) <? D 19); [reflexivity|].
  destruct (negb _); reflexivity.
Qed.

(* ---------- checked = model: no slice of the current code is ever out of range ---------- *)
Theorem decode_checked_eq str : decode_checked true str = decode_cashaddr str.
Proof.
  unfold decode_checked, decode_cashaddr.
  destruct (scan str 0 false false (D 0)) as [[[l u] p]| |] eqn:Hs; cbn [rbind]; try reflexivity.
  destruct (p =? D 12) eqn:Hp; [reflexivity|].
  destruct (u && l); [reflexivity|].
  apply scan_prefix in Hs.
  destruct lits_zero as (H0 & H12 & _ & _ & H14).
  assert (Hlt : p < N.of_nat (length str)) by lia.
  rewrite slice_to_ok by (unfold zlen; lia). cbn [rbind].
  rewrite slice_from_ok by (unfold zlen; lia). cbn [rbind].
  replace (Z.to_nat (Z.of_N p)) with (N.to_nat p) by lia.
  replace (Z.to_nat (Z.of_N p + Z.of_N (D 14))) with (N.to_nat p + 1)%nat by lia.
  destruct (to_values _) as [values| |]; cbn [rbind]; try reflexivity.
  cbn [andb].
  destruct (N.of_nat (length values) <? D 19) eqn:Hlen; [reflexivity|].
  destruct (negb _); [reflexivity|].
  pose proof lits_guard_covers_slice.
  rewrite slice_to_ok by (unfold zlen; lia). cbn [rbind].
  unfold zlen. do 3 f_equal. lia.
Qed.

Corollary decode_checked_no_panic str : is_panic (decode_checked true str) = false.
Proof. rewrite decode_checked_eq. apply decode_cashaddr_no_panic. Qed.

(* ---------- the historical code (no length guard) panics on a valid checksum over 7 symbols ---------- *)
Definition af_v47zk5g : list N := [97;102;58;118;52;55;122;107;53;103].   (* "af:v47zk5g" *)

Theorem decode_old_refuted : decode_checked false af_v47zk5g = Panic 2.
Proof. vm_compute. reflexivity. Qed.

(* the same input on the current code: rejected as too short *)
Example decode_now_rejects : decode_cashaddr af_v47zk5g = Err 7.
Proof. vm_compute. reflexivity. Qed.

(* ---------- encode ---------- *)
Lemma to_chars_ok syms : Forall (fun c => c < 32) syms -> exists r, to_chars syms = Ok r.
Proof.
  induction 1 as [|c t Hc _ [r IH]]; cbn [to_chars]; [eauto|].
  destruct (nth_error charset (N.to_nat c)) as [ch|] eqn:E.
  - rewrite IH. cbn [rbind]. eauto.
  - exfalso. apply nth_error_None in E. rewrite tab_charset_len in E. lia.
Qed.

Lemma unpack_lt32 k v : Forall (fun c => c < 32) (unpack k v).
Proof.
  induction k as [|j IH]; cbn [unpack]; constructor; [|exact IH].
  change 31 with (N.ones 5). rewrite N.land_ones. apply N.mod_lt. discriminate.
Qed.

(* encode is only ever applied to 5-bit symbols (the output of convertBits(…, 8, 5, true));
   on those it does not panic, whatever the prefix *)
Theorem encode_no_panic prefix payload :
  Forall (fun c => c < 32) payload -> is_panic (encode prefix payload) = false.
Proof.
  intros Hp. unfold encode.
  destruct (to_chars_ok (payload ++ create_checksum prefix payload)) as [r Hr].
  - apply Forall_app. split; [exact Hp|]. unfold create_checksum. apply unpack_lt32.
  - rewrite Hr. reflexivity.
Qed.

(* the precondition is necessary: a symbol >= 32 indexes past the 32-character Charset *)
Example encode_needs_5bit : encode [97] [32] = Panic 1.
Proof. vm_compute. reflexivity. Qed.

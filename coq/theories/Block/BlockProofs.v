(* Proofs for C16: the caching wrappers refine the stateless functions of the message. *)
From BU Require Import Lib.Bytes Lib.PolyMod Gen.Xbchutil Block.Block.
From Coq Require Import ZifyBool ZifyN ZifyNat.

(* ---------- list update ---------- *)
Lemma upd_length {A} (l : list A) : forall k v, length (upd l k v) = length l.
Proof. induction l as [|x t IH]; intros [|k] v; simpl; auto. Qed.

Lemma nth_error_upd_eq {A} (l : list A) : forall k v, (k < length l)%nat -> nth_error (upd l k v) k = Some v.
Proof.
  induction l as [|x t IH]; intros [|k] v Hk; simpl in *; try lia; auto. apply IH. lia.
Qed.

Lemma nth_error_upd_neq {A} (l : list A) : forall k j v, j <> k -> nth_error (upd l k v) j = nth_error l j.
Proof.
  induction l as [|x t IH]; intros [|k] [|j] v Hjk; simpl; auto; try congruence.
Qed.

Lemma nth_error_repeat_inv {A} (a : A) n k s : nth_error (repeat a n) k = Some s -> s = a.
Proof. intros Hn. apply nth_error_In in Hn. apply repeat_spec in Hn. assumption. Qed.

(* the literals of the source that the model reads *)
Lemma lit_tx_lower : zlit lits_Block_Tx 0 = 0%Z. Proof. reflexivity. Qed.
Lemma lit_tx_len0 : natlit lits_Block_Tx 2 = 0%nat. Proof. reflexivity. Qed.
Lemma lit_txs_len0 : natlit lits_Block_Transactions 0 = 0%nat. Proof. reflexivity. Qed.
Lemma lit_bytes_len0 : natlit lits_Block_Bytes 0 = 0%nat. Proof. reflexivity. Qed.
Lemma height_unknown : c_BlockHeightUnknown = (-1)%Z. Proof. reflexivity. Qed.
Lemma index_unknown : c_TxIndexUnknown = (-1)%Z. Proof. reflexivity. Qed.

Section Proofs.
  Variables txc hdr H : Type.
  Variable W : wire txc hdr H.

  Notation msg_tx := (msg_tx txc).
  Notation msg_block := (msg_block txc hdr).
  Notation wtx := (wtx txc H).
  Notation block := (block txc hdr H).
  Notation world := (world txc hdr H).
  Notation obs := (obs H).
  Notation mt_ptr := (mt_ptr txc).
  Notation mt_val := (mt_val txc).
  Notation mb_hdr := (mb_hdr txc hdr).
  Notation mb_txs := (mb_txs txc hdr).
  Notation w_ptr := (w_ptr txc H).
  Notation w_msg := (w_msg txc H).
  Notation w_hash := (w_hash txc H).
  Notation w_index := (w_index txc H).
  Notation b_msg := (b_msg txc hdr H).
  Notation b_ser := (b_ser txc hdr H).
  Notation b_hash := (b_hash txc hdr H).
  Notation b_height := (b_height txc hdr H).
  Notation b_txs := (b_txs txc hdr H).
  Notation b_gen := (b_gen txc hdr H).
  Notation w_next := (w_next txc hdr H).
  Notation w_blk := (w_blk txc hdr H).
  Notation ser_block := (ser_block txc hdr H W).
  Notation do_tx := (do_tx txc hdr H).
  Notation fill := (fill txc H).
  Notation do_bytes := (do_bytes txc hdr H W).
  Notation step := (step txc hdr H W).
  Notation run := (run txc hdr H W).
  Notation ref_obs := (ref_obs txc hdr H W).
  Notation ref_run := (ref_run txc hdr H W).
  Notation view := (view txc H).
  Notation idmap := Block.idmap.
  Notation set_txs := (set_txs txc hdr H).
  Notation wtx_hash := (wtx_hash txc hdr H W).

  Definition slot_ok (m : msg_block) (k : nat) (s : option wtx) : Prop :=
    match s with
    | None => True
    | Some t => nth_error (mb_txs m) k = Some (w_msg t) /\ w_index t = Z.of_nat k /\
                match w_hash t with None => True | Some ph => snd ph = tx_hash _ _ _ W (mt_val (w_msg t)) end
    end.

  Definition good (m : msg_block) (b : block) : Prop :=
    b_msg b = m /\
    (b_ser b = [] \/ b_ser b = ser_block m) /\
    (match b_hash b with None => True | Some ph => snd ph = block_hash _ _ _ W (mb_hdr m) end) /\
    (b_txs b = [] \/ length (b_txs b) = length (mb_txs m)) /\
    (forall k s, nth_error (b_txs b) k = Some s -> slot_ok m k s) /\
    (b_gen b = true -> length (b_txs b) = length (mb_txs m) /\ forall k, nth_error (b_txs b) k <> Some None).

  Definition agrees (ids : idmap) (b : block) : Prop :=
    (forall k t, nth_error (b_txs b) k = Some (Some t) ->
       w_ptr t = wid ids k /\ forall ph, w_hash t = Some ph -> fst ph = thid ids k) /\
    (forall ph, b_hash b = Some ph -> fst ph = bhid ids).

  (* b' keeps every cached object of b *)
  Definition ext (b b' : block) : Prop :=
    (forall k t, nth_error (b_txs b) k = Some (Some t) ->
       exists t', nth_error (b_txs b') k = Some (Some t') /\ w_ptr t' = w_ptr t /\
                  forall ph, w_hash t = Some ph -> w_hash t' = Some ph) /\
    (forall ph, b_hash b = Some ph -> b_hash b' = Some ph).

  Lemma ext_refl b : ext b b.
  Proof. split; intros; eauto. Qed.

  Lemma ext_agrees ids b b' : ext b b' -> agrees ids b' -> agrees ids b.
  Proof.
    intros [E1 E2] [A1 A2]. split.
    - intros k t Hk. destruct (E1 k t Hk) as [t' [Hk' [Hp Hh]]].
      destruct (A1 k t' Hk') as [Hw Hth]. split; [congruence|].
      intros ph Hph. apply Hth. apply Hh. assumption.
    - intros ph Hph. apply A2. apply E2. assumption.
  Qed.

  Definition ids_of (b : block) : idmap :=
    mk_ids (fun k => match nth_error (b_txs b) k with Some (Some t) => w_ptr t | _ => 0 end)
           (fun k => match nth_error (b_txs b) k with
                     | Some (Some t) => match w_hash t with Some ph => fst ph | None => 0 end
                     | _ => 0 end)
           (match b_hash b with Some ph => fst ph | None => 0 end).

  Lemma agrees_ids_of b : agrees (ids_of b) b.
  Proof.
    split.
    - intros k t Hk. simpl. rewrite Hk. split; [reflexivity|]. intros ph Hph. rewrite Hph. reflexivity.
    - intros ph Hph. simpl. rewrite Hph. reflexivity.
  Qed.

  (* ---------- the lazily allocated slice ---------- *)
  Definition slots_of (b : block) (n : nat) : list (option wtx) :=
    if Nat.eqb (length (b_txs b)) 0 then repeat None n else b_txs b.

  Lemma slots_facts m b : good m b ->
    let slots := slots_of b (length (mb_txs m)) in
    length slots = length (mb_txs m) /\
    (forall k s, nth_error slots k = Some s -> slot_ok m k s) /\
    (forall k t, nth_error (b_txs b) k = Some (Some t) -> nth_error slots k = Some (Some t)) /\
    (b_gen b = true -> forall k, nth_error slots k <> Some None).
  Proof.
    intros [Hm [Hs [Hh [Hl [Hok Hg]]]]]. unfold slots_of.
    destruct (Nat.eqb_spec (length (b_txs b)) 0) as [E|E].
    - assert (b_txs b = []) as Hnil by (destruct (b_txs b); [reflexivity|discriminate]).
      repeat split.
      + apply repeat_length.
      + intros k s Hk. apply nth_error_repeat_inv in Hk. subst. exact I.
      + intros k t Hk. rewrite Hnil in Hk. destruct k; discriminate.
      + intros Hgen k Hk. destruct (Hg Hgen) as [Hlen _]. rewrite E in Hlen. rewrite <- Hlen in Hk.
        destruct k; discriminate.
    - destruct Hl as [Hl|Hl]; [rewrite Hl in E; simpl in E; congruence|].
      repeat split; auto.
      intros Hgen. apply Hg. assumption.
  Qed.

  Lemma good_set_txs m b l g : good m b ->
    length l = length (mb_txs m) ->
    (forall k s, nth_error l k = Some s -> slot_ok m k s) ->
    (g = true -> forall k, nth_error l k <> Some None) ->
    good m (set_txs b l g).
  Proof.
    intros [Hm [Hs [Hh [Hl [Hok Hg]]]]] Hlen Hok' Hg'.
    unfold good, Block.set_txs; simpl. repeat split; auto.
  Qed.

  (* ---------- Block.Tx ---------- *)
  Lemma do_tx_out_of_range m w i : good m (w_blk w) ->
    (i < 0 \/ Z.of_nat (length (mb_txs m)) <= i)%Z -> do_tx w i = (w, Err E_RANGE).
  Proof.
    intros [Hm _] Hi. unfold Block.do_tx. rewrite Hm, lit_tx_lower.
    destruct (Z.ltb_spec i 0); destruct (Z.leb_spec (Z.of_nat (length (mb_txs m))) i); simpl; try reflexivity; lia.
  Qed.

  Lemma do_tx_in_range m w i : good m (w_blk w) ->
    (0 <= i < Z.of_nat (length (mb_txs m)))%Z ->
    exists w' t, do_tx w i = (w', Ok (Z.to_nat i, t)) /\
      good m (w_blk w') /\ ext (w_blk w) (w_blk w') /\
      b_height (w_blk w') = b_height (w_blk w) /\
      nth_error (b_txs (w_blk w')) (Z.to_nat i) = Some (Some t).
  Proof.
    intros Hgood Hi. pose proof Hgood as [Hm _].
    destruct (slots_facts m (w_blk w) Hgood) as [Hlen [Hok [Hkeep Hgen]]].
    unfold Block.do_tx. rewrite Hm, lit_tx_lower, lit_tx_len0.
    destruct (Z.ltb_spec i 0); [lia|]. destruct (Z.leb_spec (Z.of_nat (length (mb_txs m))) i); [lia|]. simpl.
    fold (slots_of (w_blk w) (length (mb_txs m))).
    set (slots := slots_of (w_blk w) (length (mb_txs m))) in *.
    set (k := Z.to_nat i).
    assert (k < length (mb_txs m))%nat as Hk by lia.
    destruct (nth_error slots k) as [[t|]|] eqn:Hs.
    - exists (mk_world _ _ _ (w_next w) (set_txs (w_blk w) slots (b_gen (w_blk w)))), t.
      split; [reflexivity|]. simpl.
      split; [apply good_set_txs; auto|].
      split; [|split; [reflexivity|exact Hs]].
      split.
      + intros j t0 Hj. exists t0. split; [apply Hkeep; assumption|]. split; auto.
      + intros ph Hph. exact Hph.
    - destruct (nth_error (mb_txs m) k) as [mt|] eqn:Hmt.
      2:{ apply nth_error_None in Hmt. lia. }
      unfold Block.new_tx, Block.set_index. simpl.
      set (t := mk_wtx txc H (w_next w) mt None i).
      exists (mk_world _ _ _ (w_next w + 1) (set_txs (w_blk w) (upd slots k (Some t)) (b_gen (w_blk w)))), t.
      split; [reflexivity|]. simpl.
      assert (k < length slots)%nat as Hk' by lia.
      split; [|split; [|split; [reflexivity| apply nth_error_upd_eq; assumption]]].
      + apply good_set_txs; auto.
        * rewrite upd_length. assumption.
        * intros j s Hj. destruct (Nat.eq_dec j k) as [->|Hne].
          -- rewrite nth_error_upd_eq in Hj by assumption. inversion Hj; subst s. simpl.
             split; [assumption|]. split; [unfold k; lia|exact I].
          -- rewrite nth_error_upd_neq in Hj by assumption. apply Hok. assumption.
        * intros Hg j Hj. destruct (Nat.eq_dec j k) as [->|Hne].
          -- rewrite nth_error_upd_eq in Hj by assumption. discriminate.
          -- rewrite nth_error_upd_neq in Hj by assumption. apply (Hgen Hg j). assumption.
      + split.
        * intros j t0 Hj. exists t0. simpl. split; [|split; auto].
          apply Hkeep in Hj. destruct (Nat.eq_dec j k) as [->|Hne]; [congruence|].
          rewrite nth_error_upd_neq by assumption. assumption.
        * intros ph Hph. exact Hph.
    - apply nth_error_None in Hs. lia.
  Qed.

  (* ---------- the loop of Block.Transactions ---------- *)
  Lemma fill_spec m : forall slots next k,
    (k + length slots = length (mb_txs m))%nat ->
    (forall j s, nth_error slots j = Some s -> slot_ok m (k + j) s) ->
    exists next' slots', fill next k (mb_txs m) slots = Ok (next', slots') /\
      length slots' = length slots /\
      (forall j s, nth_error slots' j = Some s -> slot_ok m (k + j) s /\ s <> None) /\
      (forall j t, nth_error slots j = Some (Some t) -> nth_error slots' j = Some (Some t)).
  Proof.
    induction slots as [|s rest IH]; intros next k Hlen Hok.
    - exists next, []. simpl. split; [reflexivity|]. split; [reflexivity|].
      split; intros [|j] ? Hj; discriminate.
    - assert (forall next0, exists next' slots', fill next0 (S k) (mb_txs m) rest = Ok (next', slots') /\
               length slots' = length rest /\
               (forall j s, nth_error slots' j = Some s -> slot_ok m (S k + j) s /\ s <> None) /\
               (forall j t, nth_error rest j = Some (Some t) -> nth_error slots' j = Some (Some t))) as IH'.
      { intros next0. apply IH; [simpl in Hlen; lia|].
        intros j s0 Hj. replace (S k + j)%nat with (k + S j)%nat by lia. apply Hok. exact Hj. }
      destruct s as [t|].
      + destruct (IH' next) as [next' [slots' [Hf [Hl [Hok' Hkeep]]]]].
        exists next', (Some t :: slots'). simpl. rewrite Hf. simpl.
        split; [reflexivity|]. split; [congruence|]. split.
        * intros [|j] s0 Hj; simpl in Hj.
          -- inversion Hj; subst s0. split; [apply (Hok 0%nat); reflexivity|discriminate].
          -- replace (k + S j)%nat with (S k + j)%nat by lia. apply Hok'. assumption.
        * intros [|j] t0 Hj; simpl in *; [assumption| apply Hkeep; assumption].
      + destruct (nth_error (mb_txs m) k) as [mt|] eqn:Hmt.
        2:{ apply nth_error_None in Hmt. simpl in Hlen. lia. }
        simpl. rewrite Hmt. unfold Block.new_tx, Block.set_index. simpl.
        destruct (IH' (next + 1)) as [next' [slots' [Hf [Hl [Hok' Hkeep]]]]].
        rewrite Hf. simpl.
        eexists next', (Some _ :: slots'). split; [reflexivity|]. simpl.
        split; [congruence|]. split.
        * intros [|j] s0 Hj; simpl in Hj.
          -- inversion Hj; subst s0. split; [|discriminate]. simpl.
             replace (k + 0)%nat with k by lia. split; [assumption|]. split; [reflexivity|exact I].
          -- replace (k + S j)%nat with (S k + j)%nat by lia. apply Hok'. assumption.
        * intros [|j] t0 Hj; simpl in *; [discriminate| apply Hkeep; assumption].
  Qed.

  Lemma views_eq ids : forall (slots : list (option wtx)) (txs' : list msg_tx) k,
    length slots = length txs' ->
    (forall j s, nth_error slots j = Some s ->
       exists t, s = Some t /\ nth_error txs' j = Some (w_msg t) /\
                 w_index t = Z.of_nat (k + j) /\ w_ptr t = wid ids (k + j)) ->
    map (option_map view) slots =
    mapi (fun k mt => Some (wid ids k, mt_ptr mt, Z.of_nat k)) k txs'.
  Proof.
    induction slots as [|s rest IH]; intros [|mt txs'] k Hlen Hall; simpl in *; try discriminate; auto.
    f_equal.
    - destruct (Hall 0%nat s eq_refl) as [t [-> [Hmt [Hi Hp]]]]. simpl in Hmt. inversion Hmt; subst mt.
      replace (k + 0)%nat with k in * by lia. unfold Block.view. simpl. rewrite Hi, Hp. reflexivity.
    - apply IH; [lia|]. intros j s0 Hj. destruct (Hall (S j) s0 Hj) as [t [-> [Hmt [Hi Hp]]]].
      exists t. replace (S k + j)%nat with (k + S j)%nat by lia. auto.
  Qed.

  Lemma all_some_views ids m b : good m b -> agrees ids b ->
    length (b_txs b) = length (mb_txs m) -> (forall k, nth_error (b_txs b) k <> Some None) ->
    map (option_map view) (b_txs b) = mapi (fun k mt => Some (wid ids k, mt_ptr mt, Z.of_nat k)) 0 (mb_txs m).
  Proof.
    intros [Hm [Hs [Hh [Hl [Hok Hg]]]]] [A1 A2] Hlen Hsome.
    apply views_eq; [assumption|].
    intros j s Hj. destruct s as [t|]; [|exfalso; apply (Hsome j); assumption].
    exists t. destruct (Hok j _ Hj) as [Hmt [Hi _]]. destruct (A1 j t Hj) as [Hp _]. simpl. auto.
  Qed.

  (* ---------- one step ---------- *)
  Definition next_height (h : Z) (o : op) : Z := match o with OpSetHeight h' => h' | _ => h end.

  Lemma good_set_ser m b s : good m b -> s = [] \/ s = ser_block m -> good m (set_ser _ _ _ b s).
  Proof. intros [Hm [Hs [Hh [Hl [Hok Hg]]]]] Hs'. unfold good, Block.set_ser; simpl. repeat (split; [assumption|]). assumption. Qed.

  Lemma ext_same_caches (b b' : block) : b_txs b' = b_txs b -> b_hash b' = b_hash b -> ext b b'.
  Proof.
    intros E1 E2. split.
    - intros k t Hk. exists t. rewrite E1. auto.
    - intros ph Hph. rewrite E2. assumption.
  Qed.

  Ltac split4 := split; [|split; [|split]].

  Lemma do_bytes_spec m w : good m (w_blk w) ->
    let (w', s) := do_bytes w in
    good m (w_blk w') /\ ext (w_blk w) (w_blk w') /\ b_height (w_blk w') = b_height (w_blk w) /\ s = ser_block m.
  Proof.
    intros Hgood. pose proof Hgood as [Hm [Hs _]]. unfold Block.do_bytes. rewrite lit_bytes_len0.
    destruct (Nat.eqb_spec (length (b_ser (w_blk w))) 0) as [E|E]; simpl.
    - rewrite Hm. split4; auto.
      + apply good_set_ser; auto.
      + apply ext_same_caches; reflexivity.
    - destruct Hs as [Hs|Hs]; [rewrite Hs in E; simpl in E; congruence|].
      split4; auto. apply ext_refl.
  Qed.

  Lemma ref_out_of_range ids m h i : (i < 0 \/ Z.of_nat (length (mb_txs m)) <= i)%Z ->
    ref_obs ids m h (OpTx i) = OErr H E_RANGE /\ ref_obs ids m h (OpTxHash i) = OErr H E_RANGE.
  Proof.
    intros Hi. unfold Block.ref_obs.
    destruct (Z.ltb_spec i 0); destruct (Z.leb_spec (Z.of_nat (length (mb_txs m))) i); simpl; auto; lia.
  Qed.

  Lemma in_range_true m i : (0 <= i < Z.of_nat (length (mb_txs m)))%Z ->
    negb (Z.ltb i 0 || Z.leb (Z.of_nat (length (mb_txs m))) i) = true.
  Proof. intros Hi. destruct (Z.ltb_spec i 0); destruct (Z.leb_spec (Z.of_nat (length (mb_txs m))) i); simpl; auto; lia. Qed.

  Lemma upd_same {A} (l : list A) : forall k v, nth_error l k = Some v -> upd l k v = l.
  Proof.
    induction l as [|x l IH]; intros [|k] v Hk; simpl in *; try discriminate; auto.
    - inversion Hk. reflexivity.
    - f_equal. apply IH. assumption.
  Qed.

  Lemma step_spec m w o : good m (w_blk w) ->
    let (w', x) := step w o in
    good m (w_blk w') /\ ext (w_blk w) (w_blk w') /\
    b_height (w_blk w') = next_height (b_height (w_blk w)) o /\
    forall ids, agrees ids (w_blk w') -> x = ref_obs ids m (b_height (w_blk w)) o.
  Proof.
    intros Hgood. pose proof Hgood as [Hm [Hs [Hh [Hl [Hok Hg]]]]].
    destruct o as [i| |i| | | | |h]; unfold Block.step.
    - (* Tx *)
      destruct (Z_lt_le_dec i 0) as [Hneg|Hnn]; [|destruct (Z_le_gt_dec (Z.of_nat (length (mb_txs m))) i) as [Hbig|Hsmall]].
      + rewrite (do_tx_out_of_range m w i Hgood) by lia. simpl. split4; auto using ext_refl.
        intros ids _. symmetry. apply (proj1 (ref_out_of_range ids m (b_height (w_blk w)) i ltac:(lia))).
      + rewrite (do_tx_out_of_range m w i Hgood) by lia. simpl. split4; auto using ext_refl.
        intros ids _. symmetry. apply (proj1 (ref_out_of_range ids m (b_height (w_blk w)) i ltac:(lia))).
      + destruct (do_tx_in_range m w i Hgood) as [w' [t [-> [Hg' [He [Hht Hslot]]]]]]; [lia|].
        simpl. split4; auto.
        intros ids [A1 _]. unfold Block.ref_obs. rewrite in_range_true by lia.
        destruct Hg' as [_ [_ [_ [_ [Hok' _]]]]]. destruct (Hok' _ _ Hslot) as [Hmt [Hi _]].
        rewrite Hmt. destruct (A1 _ _ Hslot) as [Hp _]. unfold Block.view. rewrite Hp, Hi. f_equal. f_equal. lia.
    - (* Transactions *)
      destruct (b_gen (w_blk w)) eqn:Hgen.
      + simpl. split4; auto using ext_refl.
        intros ids Hag. unfold Block.ref_obs. f_equal. destruct (Hg eq_refl) as [Hlen Hsome].
        apply (all_some_views ids m (w_blk w)); auto.
      + rewrite lit_txs_len0, Hm.
        destruct (slots_facts m (w_blk w) Hgood) as [Hlen [Hok0 [Hkeep _]]].
        fold (slots_of (w_blk w) (length (mb_txs m))).
        set (slots := slots_of (w_blk w) (length (mb_txs m))) in *.
        destruct (fill_spec m slots (w_next w) 0) as [next' [slots' [Hf [Hl' [Hok' Hkeep']]]]]; [simpl; lia| exact Hok0 |].
        rewrite Hf. simpl.
        assert (forall k, nth_error slots' k <> Some None) as Hsome'.
        { intros k Hk. destruct (Hok' k None Hk) as [_ Hne]. congruence. }
        assert (good m (set_txs (w_blk w) slots' true)) as Hg'.
        { apply good_set_txs; auto; [congruence| intros k s Hk; apply (Hok' k s Hk)]. }
        split4; auto.
        * split.
          -- intros k t Hk. exists t. split; [apply Hkeep', Hkeep; assumption|]. split; auto.
          -- intros ph Hph. exact Hph.
        * intros ids Hag. unfold Block.ref_obs. f_equal.
          apply (all_some_views ids m (set_txs (w_blk w) slots' true)); auto.
          simpl. congruence.
    - (* TxHash *)
      destruct (Z_lt_le_dec i 0) as [Hneg|Hnn]; [|destruct (Z_le_gt_dec (Z.of_nat (length (mb_txs m))) i) as [Hbig|Hsmall]].
      + rewrite (do_tx_out_of_range m w i Hgood) by lia. simpl. split4; auto using ext_refl.
        intros ids _. symmetry. apply (proj2 (ref_out_of_range ids m (b_height (w_blk w)) i ltac:(lia))).
      + rewrite (do_tx_out_of_range m w i Hgood) by lia. simpl. split4; auto using ext_refl.
        intros ids _. symmetry. apply (proj2 (ref_out_of_range ids m (b_height (w_blk w)) i ltac:(lia))).
      + destruct (do_tx_in_range m w i Hgood) as [w' [t [-> [Hg' [He [Hht Hslot]]]]]]; [lia|].
        set (k := Z.to_nat i) in *.
        pose proof Hg' as [Hm' [Hs' [Hh' [Hl' [Hok' Hgen']]]]].
        destruct (Hok' _ _ Hslot) as [Hmt [Hi Hhash]].
        assert (k < length (b_txs (w_blk w')))%nat as Hk.
        { apply nth_error_Some. rewrite Hslot. discriminate. }
        assert (length (b_txs (w_blk w')) = length (mb_txs m)) as Hlen'.
        { destruct Hl' as [E|E]; [rewrite E in Hk; simpl in Hk; lia|assumption]. }
        unfold Block.wtx_hash.
        destruct (w_hash t) as [ph|] eqn:Hwh.
        * (* cached *)
          simpl. rewrite (upd_same _ _ _ Hslot).
          assert (set_txs (w_blk w') (b_txs (w_blk w')) (b_gen (w_blk w')) = w_blk w') as Hid by (destruct (w_blk w'); reflexivity).
          rewrite Hid. split4; auto.
          intros ids [A1 _]. unfold Block.ref_obs. rewrite in_range_true by lia.
          fold k. rewrite Hmt. destruct (A1 _ _ Hslot) as [_ Hth]. rewrite (Hth ph Hwh). rewrite Hhash. reflexivity.
        * simpl.
          set (t' := mk_wtx txc H (w_ptr t) (w_msg t) (Some (w_next w', tx_hash _ _ _ W (mt_val (w_msg t)))) (w_index t)).
          assert (good m (set_txs (w_blk w') (upd (b_txs (w_blk w')) k (Some t')) (b_gen (w_blk w')))) as Hg''.
          { apply good_set_txs; auto.
            - rewrite upd_length. assumption.
            - intros j s Hj. destruct (Nat.eq_dec j k) as [->|Hne].
              + rewrite nth_error_upd_eq in Hj by assumption. inversion Hj; subst s. simpl. auto.
              + rewrite nth_error_upd_neq in Hj by assumption. apply Hok'. assumption.
            - intros Hgn j Hj. destruct (Nat.eq_dec j k) as [->|Hne].
              + rewrite nth_error_upd_eq in Hj by assumption. discriminate.
              + rewrite nth_error_upd_neq in Hj by assumption. destruct (Hgen' Hgn) as [_ Hsome]. apply (Hsome j). assumption. }
          split4; auto.
          -- split.
             ++ intros j t0 Hj. destruct He as [He1 _]. destruct (He1 j t0 Hj) as [t1 [Hj1 [Hp1 Hh1]]].
                simpl. destruct (Nat.eq_dec j k) as [->|Hne].
                ** rewrite Hslot in Hj1. inversion Hj1; subst t1. exists t'. rewrite nth_error_upd_eq by assumption.
                   split; [reflexivity|]. split; [assumption|]. intros ph Hph. apply Hh1 in Hph. congruence.
                ** exists t1. rewrite nth_error_upd_neq by assumption. auto.
             ++ intros ph Hph. simpl. destruct He as [_ He2]. apply He2. assumption.
          -- intros ids [A1 _]. unfold Block.ref_obs. rewrite in_range_true by lia.
             fold k. rewrite Hmt.
             assert (nth_error (upd (b_txs (w_blk w')) k (Some t')) k = Some (Some t')) as Hnew by (apply nth_error_upd_eq; assumption).
             destruct (A1 k t' Hnew) as [_ Hth]. specialize (Hth _ eq_refl). simpl in Hth. rewrite Hth. reflexivity.
    - (* Hash *)
      destruct (b_hash (w_blk w)) as [[p h]|] eqn:Hbh.
      + simpl. split4; auto using ext_refl.
        intros ids [_ A2]. unfold Block.ref_obs. pose proof (A2 _ Hbh) as Hp. simpl in Hp, Hh. rewrite <- Hp, <- Hh. reflexivity.
      + simpl. split4; auto.
        * unfold good, Block.set_hash; simpl. split; [assumption|]. split; [assumption|]. split; [rewrite Hm; reflexivity|]. repeat (split; [assumption|]). assumption.
        * split; [intros k t Hk; exists t; auto| intros ph Hph; congruence].
        * intros ids [_ A2]. unfold Block.ref_obs. simpl in A2. rewrite <- (A2 _ eq_refl), Hm. reflexivity.
    - (* Bytes *)
      pose proof (do_bytes_spec m w Hgood) as Hb. destruct (do_bytes w) as [w' s].
      destruct Hb as [Hg' [He [Hht ->]]]. split4; auto.
    - (* TxLoc *)
      pose proof (do_bytes_spec m w Hgood) as Hb. destruct (do_bytes w) as [w' s].
      destruct Hb as [Hg' [He [Hht ->]]]. unfold Block.ref_obs.
      destruct (deser_txloc _ _ _ W (ser_block m)); split4; auto.
    - (* Height *)
      simpl. split4; auto using ext_refl.
    - (* SetHeight *)
      simpl. split4; auto.
      apply ext_same_caches; reflexivity.
  Qed.

  (* ---------- histories ---------- *)
  Lemma run_refines m : forall ops w, good m (w_blk w) ->
    exists ids, agrees ids (w_blk w) /\ run w ops = ref_run ids m (b_height (w_blk w)) ops.
  Proof.
    induction ops as [|o ops IH]; intros w Hgood.
    - exists (ids_of (w_blk w)). split; [apply agrees_ids_of|reflexivity].
    - pose proof (step_spec m w o Hgood) as Hstep. simpl.
      destruct (step w o) as [w' x]. destruct Hstep as [Hg' [He [Hht Hobs]]].
      destruct (IH w' Hg') as [ids [Hag Hrun]].
      exists ids. split; [eapply ext_agrees; eassumption|].
      rewrite Hrun, (Hobs ids Hag), Hht. destruct o; reflexivity.
  Qed.

  (* ---------- constructors ---------- *)
  Lemma good_fresh m s : s = [] \/ s = ser_block m -> good m (fresh_block _ _ _ m s).
  Proof.
    intros Hs. unfold good, Block.fresh_block; simpl. repeat split; auto; try discriminate.
    intros [|k] s0 Hk; discriminate.
  Qed.

  Lemma alloc_msgs_vals cs : forall next, map mt_val (alloc_msgs txc next cs) = cs.
  Proof. induction cs as [|c t IH]; intros next; simpl; [reflexivity|]. rewrite IH. reflexivity. Qed.

  Lemma app_firstn_exact {A} (a b : list A) : firstn (length (a ++ b) - length b) (a ++ b) = a.
  Proof.
    rewrite app_length. replace (length a + length b - length b)%nat with (length a + 0)%nat by lia.
    rewrite firstn_app_2. simpl. apply app_nil_r.
  Qed.

  (* the canonical-wire hypothesis of round 1 implies the one the repaired code needs *)
  Lemma canonical_size_canonical : wire_canonical txc hdr H W -> wire_size_canonical txc hdr H W.
  Proof.
    intros Hcan bytes h cs rest Hd ptrs Hp consumed _. subst consumed.
    rewrite (Hcan bytes h cs rest Hd ptrs Hp). apply app_firstn_exact.
  Qed.

  Lemma constructed_good w m :
    wire_size_canonical txc hdr H W -> constructed txc hdr H W w m -> good m (w_blk w) /\ b_height (w_blk w) = (-1)%Z.
  Proof.
    intros Hcan Hc. destruct Hc as [next m|next bytes w rest Hr|next bytes w Hb|next m bytes Hpre].
    - split; [apply good_fresh; auto|reflexivity].
    - unfold Block.new_block_from_reader in Hr. destruct (deser_block _ _ _ W bytes) as [[[h cs] r]|]; [|discriminate].
      inversion Hr; subst. simpl. split; [apply good_fresh; auto|reflexivity].
    - unfold Block.new_block_from_bytes, Block.new_block_from_reader in Hb.
      destruct (deser_block _ _ _ W bytes) as [[[h cs] r]|] eqn:Hd; [|discriminate]. simpl in Hb.
      pose proof (Hcan bytes h cs r Hd (alloc_msgs txc next cs) (alloc_msgs_vals cs next)) as Hbytes. simpl in Hbytes.
      destruct (Nat.leb_spec (length r) (length bytes)) as [Hle|Hgt]; [|discriminate].
      destruct (Nat.eqb_spec (length (firstn (length bytes - length r) bytes))
                  (length (Block.ser_block txc hdr H W (mk_mblk txc hdr h (alloc_msgs txc next cs))))) as [He|Hne];
        inversion Hb; subst w; simpl; (split; [|reflexivity]).
      + apply good_set_ser; [apply good_fresh; auto|]. right. apply Hbytes. exact He.
      + apply good_fresh; auto.
    - split; [apply good_fresh; assumption|reflexivity].
  Qed.

  Theorem wrapper_refines_message :
    wire_size_canonical txc hdr H W ->
    forall w m, constructed txc hdr H W w m ->
    forall ops, exists ids, run w ops = ref_run ids m (-1)%Z ops.
  Proof.
    intros Hcan w m Hc ops. destruct (constructed_good w m Hcan Hc) as [Hg Hh].
    destruct (run_refines m ops w Hg) as [ids [_ Hrun]]. exists ids. rewrite Hrun, Hh. reflexivity.
  Qed.

  (* the reference never panics and errs exactly out of range *)
  Lemma ref_no_panic ids m h o k : ref_obs ids m h o <> OPanic H k.
  Proof.
    destruct o; simpl; try discriminate.
    - destruct (negb _); [destruct (nth_error _ _)|]; discriminate.
    - destruct (negb _); [destruct (nth_error _ _)|]; discriminate.
    - destruct (deser_txloc _ _ _ W _); discriminate.
  Qed.

  Lemma ref_range ids m h i :
    let n := Z.of_nat (length (mb_txs m)) in
    ((i < 0 \/ n <= i)%Z -> ref_obs ids m h (OpTx i) = OErr H E_RANGE /\ ref_obs ids m h (OpTxHash i) = OErr H E_RANGE) /\
    ((0 <= i < n)%Z -> exists mt, nth_error (mb_txs m) (Z.to_nat i) = Some mt /\
        ref_obs ids m h (OpTx i) = OTxV H (wid ids (Z.to_nat i), mt_ptr mt, i) /\
        ref_obs ids m h (OpTxHash i) = OHashV H (thid ids (Z.to_nat i)) (tx_hash _ _ _ W (mt_val mt))).
  Proof.
    simpl. split; intros Hi.
    - destruct (Z.ltb_spec i 0); destruct (Z.leb_spec (Z.of_nat (length (mb_txs m))) i); simpl; auto; lia.
    - destruct (Z.ltb_spec i 0); [lia|]. destruct (Z.leb_spec (Z.of_nat (length (mb_txs m))) i); [lia|]. simpl.
      destruct (nth_error (mb_txs m) (Z.to_nat i)) as [mt|] eqn:Hmt.
      + exists mt. auto.
      + apply nth_error_None in Hmt. lia.
  Qed.

  (* ---------- transaction locations ---------- *)
  Lemma locs_from_delimit : forall txs pre off,
    length pre = off ->
    forall i s l, nth_error (locs_from _ _ _ W off txs) i = Some (s, l) ->
    exists mt, nth_error txs i = Some mt /\
      firstn l (skipn s (pre ++ concat (map (fun t => ser_tx _ _ _ W (mt_val t)) txs))) = ser_tx _ _ _ W (mt_val mt).
  Proof.
    induction txs as [|t r IH]; intros pre off Hpre i s l Hi.
    - destruct i; discriminate.
    - subst off. destruct i as [|i]; simpl in Hi.
      + inversion Hi; subst s l. exists t. split; [reflexivity|]. simpl.
        rewrite skipn_app, skipn_all, Nat.sub_diag. simpl.
        rewrite firstn_app, Nat.sub_diag, firstn_all. simpl. apply app_nil_r.
      + destruct (IH (pre ++ ser_tx _ _ _ W (mt_val t)) (length pre + length (ser_tx _ _ _ W (mt_val t)))%nat) with (i := i) (s := s) (l := l)
          as [mt [Hmt Hsl]]; [rewrite app_length; lia|exact Hi|].
        exists mt. split; [exact Hmt|]. simpl. rewrite <- app_assoc in Hsl. exact Hsl.
  Qed.

  Lemma locs_from_length : forall txs off, length (locs_from _ _ _ W off txs) = length txs.
  Proof. induction txs as [|t r IH]; intros off; simpl; [reflexivity|]. rewrite IH. reflexivity. Qed.

  Theorem txloc_delimits :
    wire_size_canonical txc hdr H W -> wire_txloc txc hdr H W ->
    forall w m, constructed txc hdr H W w m ->
    forall ops, exists locs,
      last (run w (ops ++ [OpTxLoc; OpBytes])) (OUnit H) = OBytesV H (ser_block m) /\
      nth (length ops) (run w (ops ++ [OpTxLoc; OpBytes])) (OUnit H) = OLocsV H locs /\
      length locs = length (mb_txs m) /\
      forall i s l, nth_error locs i = Some (s, l) ->
        exists mt, nth_error (mb_txs m) i = Some mt /\ firstn l (skipn s (ser_block m)) = ser_tx _ _ _ W (mt_val mt).
  Proof.
    intros Hcan Hloc w m Hc ops.
    destruct (wrapper_refines_message Hcan w m Hc (ops ++ [OpTxLoc; OpBytes])) as [ids Hrun].
    rewrite Hrun. exists (locs_of _ _ _ W m).
    assert (forall h ops0, exists h', ref_run ids m h (ops0 ++ [OpTxLoc; OpBytes]) =
              ref_run ids m h ops0 ++ [ref_obs ids m h' OpTxLoc; ref_obs ids m h' OpBytes] /\
              length (ref_run ids m h ops0) = length ops0) as Happ.
    { intros h ops0. revert h. induction ops0 as [|o r IH]; intros h.
      - exists h. split; reflexivity.
      - destruct (IH (match o with OpSetHeight h0 => h0 | _ => h end)) as [h' [E L]]. exists h'. simpl. rewrite E, L. auto. }
    destruct (Happ (-1)%Z ops) as [h' [-> Hlen]].
    repeat split.
    - match goal with |- last (?l ++ [?a; ?b]) _ = _ => change (l ++ [a; b]) with (l ++ ([a] ++ [b])) end.
      rewrite app_assoc, last_last. reflexivity.
    - rewrite app_nth2 by lia. rewrite Hlen, Nat.sub_diag. simpl. rewrite Hloc. reflexivity.
    - unfold Block.locs_of. apply locs_from_length.
    - intros i s l Hi. unfold Block.locs_of in Hi. unfold Block.ser_block. rewrite app_assoc.
      eapply locs_from_delimit; [|exact Hi]. rewrite app_length. reflexivity.
  Qed.

  (* ---------- re-parsing ---------- *)
  Notation erase := (erase H).

  Lemma erase_ref ids ids' (m m' : msg_block) h o :
    mb_hdr m = mb_hdr m' -> map mt_val (mb_txs m) = map mt_val (mb_txs m') ->
    erase (ref_obs ids m h o) = erase (ref_obs ids' m' h o).
  Proof.
    intros Hh Hv.
    assert (length (mb_txs m) = length (mb_txs m')) as Hlen.
    { rewrite <- (map_length mt_val (mb_txs m)), Hv, map_length. reflexivity. }
    assert (forall k, option_map mt_val (nth_error (mb_txs m) k) = option_map mt_val (nth_error (mb_txs m') k)) as Hnth.
    { intros k. rewrite <- !nth_error_map. rewrite Hv. reflexivity. }
    assert (ser_block m = ser_block m') as Hser.
    { unfold Block.ser_block. rewrite Hh, Hlen. f_equal. f_equal. f_equal.
      rewrite <- (map_map mt_val (ser_tx _ _ _ W)), Hv, map_map. reflexivity. }
    destruct o as [i| |i| | | | |hh]; simpl; rewrite ?Hlen, ?Hser, ?Hh; try reflexivity.
    - destruct (negb _); [|reflexivity]. specialize (Hnth (Z.to_nat i)).
      destruct (nth_error (mb_txs m) (Z.to_nat i)), (nth_error (mb_txs m') (Z.to_nat i)); simpl in *; try discriminate; reflexivity.
    - f_equal. generalize 0%nat. clear -Hv. revert Hv. generalize (mb_txs m) (mb_txs m').
      induction l as [|a l IH]; intros [|b l'] Hv k; simpl in *; try discriminate; auto.
      inversion Hv. f_equal. apply IH. assumption.
    - destruct (negb _); [|reflexivity]. specialize (Hnth (Z.to_nat i)).
      destruct (nth_error (mb_txs m) (Z.to_nat i)), (nth_error (mb_txs m') (Z.to_nat i)); simpl in *; try discriminate; try reflexivity.
      inversion Hnth. congruence.
  Qed.

  Lemma erase_ref_run ids ids' (m m' : msg_block) :
    mb_hdr m = mb_hdr m' -> map mt_val (mb_txs m) = map mt_val (mb_txs m') ->
    forall ops h, map erase (ref_run ids m h ops) = map erase (ref_run ids' m' h ops).
  Proof.
    intros Hh Hv. induction ops as [|o r IH]; intros h; simpl; [reflexivity|].
    rewrite (erase_ref ids ids' m m' h o Hh Hv), IH. reflexivity.
  Qed.

  Lemma ser_block_vals (m m' : msg_block) :
    mb_hdr m = mb_hdr m' -> map mt_val (mb_txs m) = map mt_val (mb_txs m') -> ser_block m = ser_block m'.
  Proof.
    intros Hh Hv.
    assert (length (mb_txs m) = length (mb_txs m')) as Hlen.
    { rewrite <- (map_length mt_val (mb_txs m)), Hv, map_length. reflexivity. }
    unfold Block.ser_block. rewrite Hh, Hlen. f_equal. f_equal. f_equal.
    rewrite <- (map_map mt_val (ser_tx _ _ _ W)), Hv, map_map. reflexivity.
  Qed.

  (* NewBlockFromBytes on a serialisation that wire reads back: the parsed message has the same contents,
     hence the same serialise size, and the bytes are kept *)
  Lemma from_bytes_of_ser m next :
    wire_roundtrip txc hdr H W ->
    let m' := mk_mblk txc hdr (mb_hdr m) (alloc_msgs txc next (map mt_val (mb_txs m))) in
    new_block_from_bytes _ _ _ W next (ser_block m) =
      Ok (mk_world _ _ _ (next + N.of_nat (length (map mt_val (mb_txs m))))
            (set_ser _ _ _ (fresh_block _ _ _ m' []) (ser_block m))).
  Proof.
    intros Hrt m'.
    assert (ser_block m' = ser_block m) as Hs.
    { apply ser_block_vals; [reflexivity|]. unfold m'. simpl. apply alloc_msgs_vals. }
    pose proof (Hrt m []) as Hd. rewrite app_nil_r in Hd.
    unfold Block.new_block_from_bytes, Block.new_block_from_reader. rewrite Hd.
    cbn [rbind fst snd Block.fresh_block Block.b_msg Block.w_blk Block.w_next length Nat.leb].
    fold m'. rewrite Nat.sub_0_r, firstn_all, Hs, Nat.eqb_refl. reflexivity.
  Qed.

  Theorem reparse_equiv :
    wire_size_canonical txc hdr H W -> wire_roundtrip txc hdr H W ->
    forall w m, constructed txc hdr H W w m ->
    forall next, exists w2,
      new_block_from_bytes _ _ _ W next (ser_block m) = Ok w2 /\
      mb_hdr (b_msg (w_blk w2)) = mb_hdr m /\
      map mt_val (mb_txs (b_msg (w_blk w2))) = map mt_val (mb_txs m) /\
      b_ser (w_blk w2) = ser_block m /\
      forall ops, map erase (run w2 ops) = map erase (run w ops).
  Proof.
    intros Hcan Hrt w m Hc next.
    pose proof (from_bytes_of_ser m next Hrt) as Hnb. cbv zeta in Hnb.
    eexists. split; [exact Hnb|]. simpl. rewrite alloc_msgs_vals.
    repeat split; try reflexivity.
    intros ops.
    match goal with |- context [run ?x ops] => set (w2 := x) end.
    assert (constructed txc hdr H W w2 (b_msg (w_blk w2))) as Hc2.
    { apply (c_bytes _ _ _ W next (ser_block m)). exact Hnb. }
    destruct (wrapper_refines_message Hcan w2 _ Hc2 ops) as [ids2 ->].
    destruct (wrapper_refines_message Hcan w m Hc ops) as [ids ->].
    apply erase_ref_run; simpl; [reflexivity| apply alloc_msgs_vals].
  Qed.


  (* ---------- the constructor that trusts its caller: the precondition is necessary ---------- *)
  Theorem block_and_bytes_trusts_caller next m bytes :
    bytes <> [] -> run (new_block_from_block_and_bytes _ _ _ next m bytes) [OpBytes] = [OBytesV H bytes].
  Proof.
    intros Hne. simpl. unfold Block.do_bytes. simpl. rewrite lit_bytes_len0.
    destruct bytes; [congruence|]. reflexivity.
  Qed.

  (* ---------- stand-alone Tx wrapper ---------- *)
  Notation trun := (trun txc hdr H W).
  Notation tref_run := (tref_run txc hdr H W).

  Definition tgood (m : msg_tx) (t : wtx) : Prop :=
    w_msg t = m /\ match w_hash t with None => True | Some ph => snd ph = tx_hash _ _ _ W (mt_val m) end.

  Lemma trun_refines m : forall ops next t, tgood m t ->
    exists hid, (forall ph, w_hash t = Some ph -> fst ph = hid) /\
      trun (next, t) ops = tref_run hid m (w_index t) ops.
  Proof.
    induction ops as [|o r IH]; intros next t [Hm Hh].
    - exists (match w_hash t with Some ph => fst ph | None => 0 end). split; [intros ph ->; reflexivity|reflexivity].
    - destruct o as [| |i|]; simpl.
      + unfold Block.wtx_hash. destruct (w_hash t) as [ph|] eqn:Hwh; simpl.
        * assert (tgood m t) as Hgt by (split; [exact Hm| rewrite Hwh; exact Hh]).
          destruct (IH next t Hgt) as [hid [Hid Hrun]].
          exists hid. split; [intros ph0 E; inversion E; subst ph0; apply Hid; assumption|]. rewrite Hrun, (Hid ph Hwh), Hh. reflexivity.
        * set (t' := mk_wtx txc H (w_ptr t) (w_msg t) (Some (next, tx_hash _ _ _ W (mt_val (w_msg t)))) (w_index t)).
          destruct (IH (next + 1) t') as [hid [Hid Hrun]].
          { split; [exact Hm|]. simpl. rewrite Hm. reflexivity. }
          exists hid. split; [intros ph Hph; discriminate|].
          rewrite Hrun. specialize (Hid _ eq_refl). simpl in Hid. rewrite Hid, Hm. reflexivity.
      + destruct (IH next t (conj Hm Hh)) as [hid [Hid Hrun]]. exists hid. split; [assumption|]. rewrite Hrun. reflexivity.
      + destruct (IH next (set_index _ _ t i)) as [hid [Hid Hrun]]; [split; assumption|].
        exists hid. split; [assumption|]. rewrite Hrun. reflexivity.
      + destruct (IH next t (conj Hm Hh)) as [hid [Hid Hrun]]. exists hid. split; [assumption|]. rewrite Hrun, Hm. reflexivity.
  Qed.

  Theorem tx_wrapper_refines :
    (forall next m ops, exists hid, trun (new_tx _ _ next m) ops = tref_run hid m (-1)%Z ops) /\
    (forall next bytes s rest ops, new_tx_from_reader _ _ _ W next bytes = Ok (s, rest) ->
       exists c hid, deser_tx _ _ _ W bytes = Some (c, rest) /\ mt_val (w_msg (snd s)) = c /\
                     trun s ops = tref_run hid (w_msg (snd s)) (-1)%Z ops).
  Proof.
    split.
    - intros next m ops. unfold Block.new_tx.
      destruct (trun_refines m ops (next + 1) (mk_wtx txc H next m None c_TxIndexUnknown)) as [hid [_ Hrun]]; [split; simpl; auto|].
      exists hid. exact Hrun.
    - intros next bytes s rest ops Hr. unfold Block.new_tx_from_reader in Hr.
      destruct (deser_tx _ _ _ W bytes) as [[c r]|]; [|discriminate]. inversion Hr; subst. simpl.
      destruct (trun_refines (mk_mtx txc next c) ops (next + 2) (mk_wtx txc H (next + 1) (mk_mtx txc next c) None c_TxIndexUnknown)) as [hid [_ Hrun]]; [split; simpl; auto|].
      exists c, hid. repeat split. exact Hrun.
  Qed.
End Proofs.

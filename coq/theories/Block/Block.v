(* Model of /repo/block.go and /repo/tx.go: the caching wrappers bchutil.Block and
   bchutil.Tx around wire.MsgBlock / wire.MsgTx.

   What is a dependency (package wire, chainhash) is a field of [wire]: serialisers,
   deserialisers, hash functions, DeserializeTxLoc.  Contents of a MsgTx / BlockHeader are
   opaque ([txc], [hdr]); hash values are [H].

   Object identity: every Go object the accessors hand out by pointer ( *bchutil.Tx,
   *chainhash.Hash, *wire.MsgTx) carries an id taken from an allocation counter
   ([w_next]); "the same object" = the same id.  Byte slices are values only (the
   harness checks their aliasing on the implementation side).

   The message is not mutated by anybody in the model (Go callers could, through
   MsgBlock(); that is outside the property). *)
From BU Require Import Lib.Bytes Lib.PolyMod Gen.Xbchutil.

Definition zlit (l : list Z) (i : nat) : Z := nth i l 0%Z.
Definition natlit (l : list Z) (i : nat) : nat := Z.to_nat (nth i l 0%Z).

(* error classes *)
Definition E_RANGE : N := 1.   (* bchutil.OutOfRangeError *)
Definition E_WIRE : N := 2.    (* an error returned by package wire *)

Fixpoint upd {A} (l : list A) (k : nat) (v : A) : list A :=
  match l, k with
  | [], _ => []
  | _ :: t, O => v :: t
  | x :: t, S j => x :: upd t j v
  end.

Section Model.
  Variables txc hdr H : Type.

  Record wire := mk_wire {
    ser_hdr : hdr -> list N;                 (* writeBlockHeader *)
    ser_count : nat -> list N;               (* WriteVarInt(len(Transactions)) *)
    ser_tx : txc -> list N;                  (* MsgTx.Serialize *)
    tx_hash : txc -> H;                      (* MsgTx.TxHash *)
    block_hash : hdr -> H;                   (* MsgBlock.BlockHash *)
    deser_block : list N -> option (hdr * list txc * list N);   (* MsgBlock.Deserialize: header, transactions, unread bytes *)
    deser_tx : list N -> option (txc * list N);                 (* MsgTx.Deserialize *)
    deser_txloc : list N -> option (list (nat * nat))           (* MsgBlock.DeserializeTxLoc: (TxStart, TxLen) *)
  }.
  Variable W : wire.

  (* ---------- messages ---------- *)
  Record msg_tx := mk_mtx { mt_ptr : N; mt_val : txc }.            (* *wire.MsgTx *)
  Record msg_block := mk_mblk { mb_hdr : hdr; mb_txs : list msg_tx }.

  (* MsgBlock.Serialize: header, count, transactions *)
  Definition ser_block (m : msg_block) : list N :=
    ser_hdr W (mb_hdr m) ++ ser_count W (length (mb_txs m)) ++ concat (map (fun t => ser_tx W (mt_val t)) (mb_txs m)).

  (* ---------- bchutil.Tx ---------- *)
  Record wtx := mk_wtx { w_ptr : N;                      (* identity of the *Tx *)
                         w_msg : msg_tx;                 (* msgTx *)
                         w_hash : option (N * H);        (* txHash: nil or (identity, value) *)
                         w_index : Z }.                  (* txIndex *)

  Definition new_tx (next : N) (m : msg_tx) : N * wtx :=
    (next + 1, mk_wtx next m None c_TxIndexUnknown).

  Definition set_index (t : wtx) (i : Z) : wtx := mk_wtx (w_ptr t) (w_msg t) (w_hash t) i.

  (* Tx.Hash *)
  Definition wtx_hash (next : N) (t : wtx) : N * wtx * (N * H) :=
    match w_hash t with
    | Some ph => (next, t, ph)
    | None => let h := tx_hash W (mt_val (w_msg t)) in
              (next + 1, mk_wtx (w_ptr t) (w_msg t) (Some (next, h)) (w_index t), (next, h))
    end.

  (* NewTxFromReader; NewTxFromBytes is the same on a reader over the slice (what follows the transaction is ignored) *)
  Definition new_tx_from_reader (next : N) (bytes : list N) : res (N * wtx * list N) :=
    match deser_tx W bytes with
    | None => Err E_WIRE
    | Some (c, rest) => Ok (next + 2, mk_wtx (next + 1) (mk_mtx next c) None c_TxIndexUnknown, rest)
    end.
  Definition new_tx_from_bytes (next : N) (bytes : list N) : res (N * wtx) :=
    do r <- new_tx_from_reader next bytes ;; Ok (fst r).

  (* ---------- bchutil.Block ---------- *)
  Record block := mk_block {
    b_msg : msg_block;                 (* msgBlock *)
    b_ser : list N;                    (* serializedBlock (nil and empty both have len 0) *)
    b_hash : option (N * H);           (* blockHash *)
    b_height : Z;                      (* blockHeight *)
    b_txs : list (option wtx);         (* transactions: nil/empty, or one slot per transaction *)
    b_gen : bool }.                    (* txnsGenerated *)

  Record world := mk_world { w_next : N; w_blk : block }.

  Definition with_blk (w : world) (next : N) (b : block) : world := mk_world next b.
  Definition set_ser (b : block) (s : list N) := mk_block (b_msg b) s (b_hash b) (b_height b) (b_txs b) (b_gen b).
  Definition set_hash (b : block) (h : option (N * H)) := mk_block (b_msg b) (b_ser b) h (b_height b) (b_txs b) (b_gen b).
  Definition set_height (b : block) (h : Z) := mk_block (b_msg b) (b_ser b) (b_hash b) h (b_txs b) (b_gen b).
  Definition set_txs (b : block) (l : list (option wtx)) (g : bool) := mk_block (b_msg b) (b_ser b) (b_hash b) (b_height b) l g.

  (* constructors *)
  Definition fresh_block (m : msg_block) (s : list N) : block := mk_block m s None c_BlockHeightUnknown [] false.

  Definition new_block (next : N) (m : msg_block) : world := mk_world next (fresh_block m []).

  Definition new_block_from_block_and_bytes (next : N) (m : msg_block) (bytes : list N) : world :=
    mk_world next (fresh_block m bytes).

  Fixpoint alloc_msgs (next : N) (cs : list txc) : list msg_tx :=
    match cs with [] => [] | c :: t => mk_mtx next c :: alloc_msgs (next + 1) t end.

  Definition new_block_from_reader (next : N) (bytes : list N) : res (world * list N) :=
    match deser_block W bytes with
    | None => Err E_WIRE
    | Some (h, cs, rest) =>
        Ok (mk_world (next + N.of_nat (length cs)) (fresh_block (mk_mblk h (alloc_msgs next cs)) []), rest)
    end.

  (* consumed := serializedBlock[:len(serializedBlock)-br.Len()]
     if len(consumed) == b.msgBlock.SerializeSize() { b.serializedBlock = consumed }
     (since fix 6ccc2c9: the input is kept only when it has the size of the parsed message's serialisation;
     MsgBlock.SerializeSize() is modelled as the length of MsgBlock.Serialize()'s output - a fact about
     package wire that the harness checks on every block it builds or parses) *)
  Definition new_block_from_bytes (next : N) (bytes : list N) : res world :=
    do wr <- new_block_from_reader next bytes ;;
    let (w, rest) := (wr : world * list N) in
    if Nat.leb (length rest) (length bytes)
    then
      let consumed := firstn (length bytes - length rest) bytes in
      if Nat.eqb (length consumed) (length (ser_block (b_msg (w_blk w))))
      then Ok (mk_world (w_next w) (set_ser (w_blk w) consumed))
      else Ok w
    else Panic 2.

  (* ---------- accessors ---------- *)
  Inductive op :=
  | OpTx (i : Z) | OpTransactions | OpTxHash (i : Z) | OpHash | OpBytes | OpTxLoc
  | OpHeight | OpSetHeight (h : Z).

  (* what a caller can observe of a returned *Tx: its identity, its MsgTx(), its Index() *)
  Definition view (t : wtx) : N * N * Z := (w_ptr t, mt_ptr (w_msg t), w_index t).

  Inductive obs :=
  | OErr (cls : N)
  | OPanic (k : N)
  | OTxV (v : N * N * Z)
  | OTxsV (l : list (option (N * N * Z)))
  | OHashV (p : N) (h : H)
  | OBytesV (b : list N)
  | OLocsV (l : list (nat * nat))
  | OIntV (h : Z)
  | OPtrV (p : N)
  | OUnit.

  (* Block.Tx; also returns the slot number *)
  Definition do_tx (w : world) (i : Z) : world * res (nat * wtx) :=
    let b := w_blk w in
    let txs := mb_txs (b_msg b) in
    let n := length txs in
    if (Z.ltb i (zlit lits_Block_Tx 0) || Z.leb (Z.of_nat n) i)%bool then (w, Err E_RANGE)
    else
      let k := Z.to_nat i in
      let slots := if Nat.eqb (length (b_txs b)) (natlit lits_Block_Tx 2) then repeat None n else b_txs b in
      match nth_error slots k with
      | None => (w, Panic 1)
      | Some (Some t) => (mk_world (w_next w) (set_txs b slots (b_gen b)), Ok (k, t))
      | Some None =>
          match nth_error txs k with
          | None => (w, Panic 1)
          | Some m =>
              let (next', t0) := new_tx (w_next w) m in
              let t := set_index t0 i in
              (mk_world next' (set_txs b (upd slots k (Some t)) (b_gen b)), Ok (k, t))
          end
      end.

  (* the loop of Block.Transactions over b.transactions, from slot k on *)
  Fixpoint fill (next : N) (k : nat) (txs : list msg_tx) (slots : list (option wtx)) : res (N * list (option wtx)) :=
    match slots with
    | [] => Ok (next, [])
    | Some t :: rest => do r <- fill next (S k) txs rest ;; Ok (fst r, Some t :: snd r)
    | None :: rest =>
        match nth_error txs k with
        | None => Panic 1
        | Some m =>
            let (next', t0) := new_tx next m in
            let t := set_index t0 (Z.of_nat k) in
            do r <- fill next' (S k) txs rest ;; Ok (fst r, Some t :: snd r)
        end
    end.

  Definition do_bytes (w : world) : world * list N :=
    let b := w_blk w in
    if negb (Nat.eqb (length (b_ser b)) (natlit lits_Block_Bytes 0)) then (w, b_ser b)
    else let s := ser_block (b_msg b) in (mk_world (w_next w) (set_ser b s), s).

  Definition of_res {A} (r : res A) (f : A -> obs) : obs :=
    match r with Ok a => f a | Err e => OErr e | Panic k => OPanic k end.

  Definition step (w : world) (o : op) : world * obs :=
    let b := w_blk w in
    match o with
    | OpTx i => let (w', r) := do_tx w i in (w', of_res r (fun kt => OTxV (view (snd kt))))
    | OpTransactions =>
        if b_gen b then (w, OTxsV (map (option_map view) (b_txs b)))
        else
          let txs := mb_txs (b_msg b) in
          let slots := if Nat.eqb (length (b_txs b)) (natlit lits_Block_Transactions 0) then repeat None (length txs) else b_txs b in
          match fill (w_next w) 0 txs slots with
          | Ok (next', slots') => (mk_world next' (set_txs b slots' true), OTxsV (map (option_map view) slots'))
          | Err e => (w, OErr e)
          | Panic k => (w, OPanic k)
          end
    | OpTxHash i =>
        let (w', r) := do_tx w i in
        match r with
        | Ok (k, t) =>
            let '(next', t', ph) := wtx_hash (w_next w') t in
            (mk_world next' (set_txs (w_blk w') (upd (b_txs (w_blk w')) k (Some t')) (b_gen (w_blk w'))), OHashV (fst ph) (snd ph))
        | Err e => (w', OErr e)
        | Panic k => (w', OPanic k)
        end
    | OpHash =>
        match b_hash b with
        | Some (p, h) => (w, OHashV p h)
        | None => let h := block_hash W (mb_hdr (b_msg b)) in
                  (mk_world (w_next w + 1) (set_hash b (Some (w_next w, h))), OHashV (w_next w) h)
        end
    | OpBytes => let (w', s) := do_bytes w in (w', OBytesV s)
    | OpTxLoc =>
        let (w', s) := do_bytes w in
        match deser_txloc W s with
        | Some l => (w', OLocsV l)
        | None => (w', OErr E_WIRE)
        end
    | OpHeight => (w, OIntV (b_height b))
    | OpSetHeight h => (mk_world (w_next w) (set_height b h), OUnit)
    end.

  Fixpoint run (w : world) (ops : list op) : list obs :=
    match ops with
    | [] => []
    | o :: t => let (w', x) := step w o in x :: run w' t
    end.

  Fixpoint run_world (w : world) (ops : list op) : world :=
    match ops with [] => w | o :: t => run_world (fst (step w o)) t end.

  (* ---------- accessors of a stand-alone bchutil.Tx ---------- *)
  Inductive top := TpHash | TpIndex | TpSetIndex (i : Z) | TpMsgTx.

  Definition tstep (s : N * wtx) (o : top) : (N * wtx) * obs :=
    let (next, t) := s in
    match o with
    | TpHash => let '(next', t', ph) := wtx_hash next t in ((next', t'), OHashV (fst ph) (snd ph))
    | TpIndex => (s, OIntV (w_index t))
    | TpSetIndex i => ((next, set_index t i), OUnit)
    | TpMsgTx => (s, OPtrV (mt_ptr (w_msg t)))
    end.

  Fixpoint trun (s : N * wtx) (ops : list top) : list obs :=
    match ops with [] => [] | o :: r => let (s', x) := tstep s o in x :: trun s' r end.

  (* ================= specification: stateless functions of the message ================= *)
  Record idmap := mk_ids { wid : nat -> N;      (* the *Tx for transaction k *)
                           thid : nat -> N;     (* the *chainhash.Hash for transaction k *)
                           bhid : N }.          (* the *chainhash.Hash of the block *)

  Fixpoint mapi {A B} (f : nat -> A -> B) (k : nat) (l : list A) : list B :=
    match l with [] => [] | x :: t => f k x :: mapi f (S k) t end.

  Definition ref_obs (ids : idmap) (m : msg_block) (height : Z) (o : op) : obs :=
    let txs := mb_txs m in
    let in_range i := negb (Z.ltb i 0 || Z.leb (Z.of_nat (length txs)) i)%bool in
    match o with
    | OpTx i =>
        if in_range i then
          match nth_error txs (Z.to_nat i) with
          | Some mt => OTxV (wid ids (Z.to_nat i), mt_ptr mt, i)
          | None => OErr E_RANGE
          end
        else OErr E_RANGE
    | OpTransactions => OTxsV (mapi (fun k mt => Some (wid ids k, mt_ptr mt, Z.of_nat k)) 0 txs)
    | OpTxHash i =>
        if in_range i then
          match nth_error txs (Z.to_nat i) with
          | Some mt => OHashV (thid ids (Z.to_nat i)) (tx_hash W (mt_val mt))
          | None => OErr E_RANGE
          end
        else OErr E_RANGE
    | OpHash => OHashV (bhid ids) (block_hash W (mb_hdr m))
    | OpBytes => OBytesV (ser_block m)
    | OpTxLoc => match deser_txloc W (ser_block m) with Some l => OLocsV l | None => OErr E_WIRE end
    | OpHeight => OIntV height
    | OpSetHeight _ => OUnit
    end.

  Fixpoint ref_run (ids : idmap) (m : msg_block) (height : Z) (ops : list op) : list obs :=
    match ops with
    | [] => []
    | o :: t => ref_obs ids m height o :: ref_run ids m (match o with OpSetHeight h => h | _ => height end) t
    end.

  Definition tref_obs (hid : N) (m : msg_tx) (index : Z) (o : top) : obs :=
    match o with
    | TpHash => OHashV hid (tx_hash W (mt_val m))
    | TpIndex => OIntV index
    | TpSetIndex _ => OUnit
    | TpMsgTx => OPtrV (mt_ptr m)
    end.
  Fixpoint tref_run (hid : N) (m : msg_tx) (index : Z) (ops : list top) : list obs :=
    match ops with
    | [] => []
    | o :: t => tref_obs hid m index o :: tref_run hid m (match o with TpSetIndex i => i | _ => index end) t
    end.

  (* how a block can come into being (with the precondition of the constructor that trusts its caller) *)
  Inductive constructed : world -> msg_block -> Prop :=
  | c_new : forall next m, constructed (new_block next m) m
  | c_reader : forall next bytes w rest, new_block_from_reader next bytes = Ok (w, rest) -> constructed w (b_msg (w_blk w))
  | c_bytes : forall next bytes w, new_block_from_bytes next bytes = Ok w -> constructed w (b_msg (w_blk w))
  | c_block_and_bytes : forall next m bytes, bytes = [] \/ bytes = ser_block m ->
      constructed (new_block_from_block_and_bytes next m bytes) m.

  (* hypotheses about package wire used by the theorems that involve bytes *)
  Definition wire_canonical : Prop :=      (* what Deserialize accepts is the canonical serialisation of what it returns *)
    forall bytes h cs rest, deser_block W bytes = Some (h, cs, rest) ->
      forall ptrs, map (@mt_val) ptrs = cs -> bytes = ser_block (mk_mblk h ptrs) ++ rest.
  (* wire_canonical is FALSE of bchd v0.20.0 (an output script 0xef, 32 zero bytes, well-formed CashToken body is
     read as token data and written back without it).  Since fix 6ccc2c9 the code needs only this weaker fact:
     whatever Deserialize consumed, IF it has the size of the message's serialisation THEN it is that
     serialisation (every non-canonical encoding wire accepts is longer than what it writes back). *)
  Definition wire_size_canonical : Prop :=
    forall bytes h cs rest, deser_block W bytes = Some (h, cs, rest) ->
      forall ptrs, map (@mt_val) ptrs = cs ->
        let consumed := firstn (length bytes - length rest) bytes in
        length consumed = length (ser_block (mk_mblk h ptrs)) -> consumed = ser_block (mk_mblk h ptrs).
  Definition wire_roundtrip : Prop :=      (* prefix code: Deserialize inverts Serialize and leaves what follows *)
    forall m rest, deser_block W (ser_block m ++ rest) = Some (mb_hdr m, map (@mt_val) (mb_txs m), rest).

  (* (TxStart, TxLen) of every transaction inside the serialised block *)
  Fixpoint locs_from (off : nat) (txs : list msg_tx) : list (nat * nat) :=
    match txs with
    | [] => []
    | t :: r => let l := length (ser_tx W (mt_val t)) in (off, l) :: locs_from (off + l) r
    end.
  Definition locs_of (m : msg_block) : list (nat * nat) :=
    locs_from (length (ser_hdr W (mb_hdr m)) + length (ser_count W (length (mb_txs m)))) (mb_txs m).
  Definition wire_txloc : Prop := forall m, deser_txloc W (ser_block m) = Some (locs_of m).

  (* observations with object identities erased *)
  Definition erase (x : obs) : obs :=
    match x with
    | OTxV (_, _, i) => OTxV (0, 0, i)
    | OTxsV l => OTxsV (map (option_map (fun v : N * N * Z => (0, 0, snd v))) l)
    | OHashV _ h => OHashV 0 h
    | OPtrV _ => OPtrV 0
    | y => y
    end.
End Model.

(* C16, review round 2: how much of the refinement depends on package wire being canonical.

   [wire_canonical] (round 1's hypothesis) is FALSE of bchd v0.20.0 for a family of inputs: an output script
   that starts with the CashToken prefix 0xef, a ZERO category id and a well-formed token body is split by
   wire.readTxOut, but WriteTxOut treats a zero category as "no token data" and writes the script without
   the prefix.  NewBlockFromBytes used to keep the consumed input whatever it was (genuine defect, repaired
   by /repo 6ccc2c9: the input is kept only when it has the message's serialise size).  The theorems now
   need only [wire_size_canonical].  This file
   - replaces even that global hypothesis by a per-input one ([constructed_pw]: the bytes NewBlockFromBytes
     kept, if any, are the serialisation of the message it parsed) and proves the refinement from that alone;
     the three other constructors need no hypothesis about wire at all;
   - shows the per-input condition is also necessary ([from_bytes_fresh_iff]);
   - gives a toy wire with REAL deserialisers that satisfies wire_canonical, wire_size_canonical, wire_roundtrip
     and wire_txloc together (the hypotheses of the C16 theorems are jointly satisfiable by a wire that accepts
     blocks);
   - a toy wire that, like bchd, reads an encoding it writes back SHORTER: NewBlockFromBytes keeps nothing and
     Bytes() is a fresh serialisation ([drop_example]); and
   - a toy wire with two encodings OF EQUAL LENGTH of one transaction content, on which Bytes() still differs
     from a fresh serialisation: [wire_size_canonical] cannot be dropped ([bytes_needs_size_canonical_wire]). *)
From BU Require Import Lib.Bytes Lib.PolyMod Gen.Xbchutil Block.Block Block.BlockProofs.
From Coq Require Import ZifyBool ZifyN ZifyNat.

Section Pointwise.
  Variables txc hdr H : Type.
  Variable W : wire txc hdr H.

  Notation world := (world txc hdr H).
  Notation msg_block := (msg_block txc hdr).
  Notation b_msg := (b_msg txc hdr H).
  Notation b_ser := (b_ser txc hdr H).
  Notation w_blk := (w_blk txc hdr H).
  Notation ser_block := (ser_block txc hdr H W).
  Notation run := (run txc hdr H W).
  Notation ref_run := (ref_run txc hdr H W).

  (* like [constructed], but NewBlockFromBytes carries a condition on THIS input instead of a
     hypothesis on all of wire; the harness evaluates the same condition with wire alone *)
  Inductive constructed_pw : world -> msg_block -> Prop :=
  | p_new : forall next m, constructed_pw (new_block txc hdr H next m) m
  | p_reader : forall next bytes w rest, new_block_from_reader txc hdr H W next bytes = Ok (w, rest) ->
      constructed_pw w (b_msg (w_blk w))
  | p_bytes : forall next bytes w, new_block_from_bytes txc hdr H W next bytes = Ok w ->
      b_ser (w_blk w) = [] \/ b_ser (w_blk w) = ser_block (b_msg (w_blk w)) ->
      constructed_pw w (b_msg (w_blk w))
  | p_block_and_bytes : forall next m bytes, bytes = [] \/ bytes = ser_block m ->
      constructed_pw (new_block_from_block_and_bytes txc hdr H next m bytes) m.

  Lemma constructed_pw_good w m :
    constructed_pw w m -> good txc hdr H W m (w_blk w) /\ b_height txc hdr H (w_blk w) = (-1)%Z.
  Proof.
    intros Hc. destruct Hc as [next m|next bytes w rest Hr|next bytes w Hb Hser|next m bytes Hpre].
    - split; [apply good_fresh; auto|reflexivity].
    - unfold new_block_from_reader in Hr. destruct (deser_block _ _ _ W bytes) as [[[h cs] r]|]; [|discriminate].
      inversion Hr; subst. simpl. split; [apply good_fresh; auto|reflexivity].
    - assert (b_msg (w_blk w) = b_msg (w_blk w) /\ b_txs txc hdr H (w_blk w) = [] /\ b_hash txc hdr H (w_blk w) = None /\
              b_gen txc hdr H (w_blk w) = false /\ b_height txc hdr H (w_blk w) = (-1)%Z) as [_ [Ht [Hh [Hg Hht]]]].
      { unfold new_block_from_bytes, new_block_from_reader in Hb.
        destruct (deser_block _ _ _ W bytes) as [[[h cs] r]|]; [|discriminate]. simpl in Hb.
        destruct (Nat.leb (length r) (length bytes)); [|discriminate].
        destruct (Nat.eqb _ _); inversion Hb; subst w; simpl; auto. }
      split; [|exact Hht].
      unfold good. rewrite Ht, Hh, Hg. repeat split; auto; try discriminate.
      intros [|k] s0 Hk; discriminate.
    - split; [apply good_fresh; assumption|reflexivity].
  Qed.

  Theorem wrapper_refines_message_pw :
    forall w m, constructed_pw w m ->
    forall ops, exists ids, run w ops = ref_run ids m (-1)%Z ops.
  Proof.
    intros w m Hc ops. destruct (constructed_pw_good w m Hc) as [Hg Hh].
    destruct (run_refines txc hdr H W m ops w Hg) as [ids [_ Hrun]]. exists ids. rewrite Hrun, Hh. reflexivity.
  Qed.

  (* under the hypothesis of the main theorems every constructed block is pointwise-constructed *)
  Lemma constructed_pw_of_canonical w m :
    wire_size_canonical txc hdr H W -> constructed txc hdr H W w m -> constructed_pw w m.
  Proof.
    intros Hcan Hc. destruct Hc as [next m|next bytes w rest Hr|next bytes w Hb|next m bytes Hpre].
    - constructor.
    - econstructor; eassumption.
    - apply (p_bytes next bytes w Hb).
      destruct (constructed_good txc hdr H W w _ Hcan (c_bytes _ _ _ W next bytes w Hb)) as [[_ [He _]] _]. exact He.
    - constructor. assumption.
  Qed.

  (* NewBlockFromBytes: if it kept bytes, Bytes() returns them, so the first clause of C16 holds for the
     block exactly when those bytes are the serialisation of the parsed message *)
  Theorem from_bytes_fresh_iff next bytes w :
    new_block_from_bytes txc hdr H W next bytes = Ok w ->
    b_ser (w_blk w) <> [] ->
    run w [OpBytes] = [OBytesV H (b_ser (w_blk w))] /\
    (run w [OpBytes] = [OBytesV H (ser_block (b_msg (w_blk w)))] <-> b_ser (w_blk w) = ser_block (b_msg (w_blk w))).
  Proof.
    intros _ Hne.
    assert (run w [OpBytes] = [OBytesV H (b_ser (w_blk w))]) as Hrun.
    { simpl. unfold do_bytes. rewrite lit_bytes_len0. destruct (b_ser (w_blk w)); [congruence|]. reflexivity. }
    split; [exact Hrun|]. rewrite Hrun. split.
    - intros E. inversion E. reflexivity.
    - intros ->. reflexivity.
  Qed.
  (* TxLoc() returns exactly the positions of the transactions: transaction i starts where the header, the
     count and transactions 0..i-1 end (stronger than "some slice with the right content": two identical
     transactions have different locations) *)
  Theorem txloc_positions :
    wire_txloc txc hdr H W ->
    forall w m, constructed_pw w m ->
    forall ops, nth (length ops) (run w (ops ++ [OpTxLoc])) (OUnit H) = OLocsV H (locs_of txc hdr H W m).
  Proof.
    intros Hloc w m Hc ops.
    destruct (wrapper_refines_message_pw w m Hc (ops ++ [OpTxLoc])) as [ids ->].
    assert (forall ops0 h, exists h', ref_run ids m h (ops0 ++ [OpTxLoc]) =
              ref_run ids m h ops0 ++ [ref_obs txc hdr H W ids m h' OpTxLoc] /\
              length (ref_run ids m h ops0) = length ops0) as Happ.
    { induction ops0 as [|o r IH]; intros h.
      - exists h. split; reflexivity.
      - destruct (IH (match o with OpSetHeight h0 => h0 | _ => h end)) as [h' [E L]]. exists h'. simpl. rewrite E, L. auto. }
    destruct (Happ ops (-1)%Z) as [h' [-> Hlen]].
    rewrite app_nth2 by lia. rewrite Hlen, Nat.sub_diag. simpl. rewrite Hloc. reflexivity.
  Qed.
End Pointwise.

(* ---------- a toy wire with real (de)serialisers: one byte per header, count and transaction ---------- *)
Definition toy_deser (bytes : list N) : option (N * list N * list N) :=
  match bytes with
  | h :: c :: rest => if Nat.leb (N.to_nat c) (length rest) then Some (h, firstn (N.to_nat c) rest, skipn (N.to_nat c) rest) else None
  | _ => None
  end.
Definition toy_txloc (bytes : list N) : option (list (nat * nat)) :=
  match bytes with
  | _ :: c :: _ => Some (map (fun i => (i, 1%nat)) (seq 2 (N.to_nat c)))
  | _ => None
  end.
Definition toyW : wire N N N :=
  mk_wire N N N (fun h => [h]) (fun n => [N.of_nat n]) (fun t => [t]) (fun t => t + 100) (fun h => h + 200)
    toy_deser (fun b => match b with t :: r => Some (t, r) | [] => None end) toy_txloc.

Lemma toy_concat (txs : list (msg_tx N)) : concat (map (fun t => [mt_val N t]) txs) = map (mt_val N) txs.
Proof. induction txs as [|t r IH]; simpl; [reflexivity|]. rewrite IH. reflexivity. Qed.

Lemma toy_canonical : wire_canonical N N N toyW.
Proof.
  intros bytes h cs rest Hd ptrs Hp. unfold ser_block. simpl in *.
  destruct bytes as [|h0 [|c r]]; try discriminate. simpl in Hd.
  destruct (Nat.leb_spec (N.to_nat c) (length r)) as [Hle|]; [|discriminate].
  inversion Hd as [[Eh Ecs Erest]]. rewrite toy_concat, Hp, <- Ecs.
  assert (length ptrs = N.to_nat c) as Hl.
  { rewrite <- (map_length (mt_val N)), Hp, <- Ecs, firstn_length. lia. }
  rewrite Hl, N2Nat.id, firstn_skipn. reflexivity.
Qed.

Lemma toy_size_canonical : wire_size_canonical N N N toyW.
Proof. apply canonical_size_canonical. exact toy_canonical. Qed.

Lemma toy_roundtrip : wire_roundtrip N N N toyW.
Proof.
  intros m rest. unfold ser_block. simpl. rewrite toy_concat, Nat2N.id.
  replace (length (mb_txs N N m)) with (length (map (mt_val N) (mb_txs N N m))) by apply map_length.
  generalize (map (mt_val N) (mb_txs N N m)) as l. intros l.
  destruct (Nat.leb_spec (length l) (length (l ++ rest))) as [_|Hgt]; [|rewrite app_length in Hgt; lia].
  rewrite firstn_app, skipn_app, Nat.sub_diag, firstn_all, skipn_all. simpl. rewrite app_nil_r. reflexivity.
Qed.

Lemma toy_locs_from : forall (txs : list (msg_tx N)) off,
  locs_from N N N toyW off txs = map (fun i => (i, 1%nat)) (seq off (length txs)).
Proof.
  induction txs as [|t r IH]; intros off; simpl; [reflexivity|].
  rewrite IH. replace (off + 1)%nat with (S off) by lia. reflexivity.
Qed.

Lemma toy_txloc_ok : wire_txloc N N N toyW.
Proof.
  intros m. unfold ser_block, locs_of. simpl. rewrite Nat2N.id, toy_locs_from. reflexivity.
Qed.

(* the three hypotheses hold together for a wire that accepts blocks, and the from-bytes constructor of
   [constructed] is inhabited: a 2-transaction block followed by one trailing byte *)
Example toy_from_bytes :
  exists w, new_block_from_bytes N N N toyW 0 [7; 2; 11; 12; 99] = Ok w /\
    run N N N toyW w [OpBytes; OpTxLoc; OpTx 1; OpTxHash 0; OpTx 2] =
      [OBytesV N [7; 2; 11; 12]; OLocsV N [(2, 1); (3, 1)]%nat; OTxV N (2, 1, 1%Z); OHashV N 4 111; OErr N E_RANGE].
Proof. eexists. split; vm_compute; reflexivity. Qed.

(* ---------- a wire that, like bchd, reads an encoding it writes back shorter ---------- *)
(* a transaction may be preceded by a 0 byte, which the reader skips (the "zero-category prefix") *)
Fixpoint drop_txs (c : nat) (rest : list N) : option (list N * list N) :=
  match c with
  | O => Some ([], rest)
  | S c' =>
      match rest with
      | 0 :: t :: r | t :: r => match drop_txs c' r with Some (ts, r') => Some (t :: ts, r') | None => None end
      | [] => None
      end
  end.
Definition drop_deser (bytes : list N) : option (N * list N * list N) :=
  match bytes with
  | h :: c :: rest => match drop_txs (N.to_nat c) rest with Some (ts, r) => Some (h, ts, r) | None => None end
  | _ => None
  end.
Definition dropW : wire N N N :=
  mk_wire N N N (fun h => [h]) (fun n => [N.of_nat n]) (fun t => [t]) (fun t => t + 100) (fun h => h + 200)
    drop_deser (fun b => match b with t :: r => Some (t, r) | [] => None end) toy_txloc.

(* 7 | count 2 | 0 11 | 12 | trailing 99: five bytes consumed, the message serialises to four: nothing is kept,
   Bytes() and TxLoc() are computed from the message *)
Example drop_example :
  exists w, new_block_from_bytes N N N dropW 0 [7; 2; 0; 11; 12; 99] = Ok w /\
    b_ser N N N (w_blk N N N w) = [] /\
    run N N N dropW w [OpTxLoc; OpBytes; OpTxHash 0] = [OLocsV N [(2, 1); (3, 1)]%nat; OBytesV N [7; 2; 11; 12]; OHashV N 3 111].
Proof. eexists. repeat split; vm_compute; reflexivity. Qed.

(* ---------- a wire with two encodings OF EQUAL LENGTH of one content: Bytes() is not a fresh serialisation ---------- *)
Definition alias_deser (bytes : list N) : option (N * list N * list N) :=
  match toy_deser bytes with
  | Some (h, cs, rest) => Some (h, map (fun b => if b =? 9 then 7 else b) cs, rest)
  | None => None
  end.
Definition aliasW : wire N N N :=
  mk_wire N N N (fun h => [h]) (fun n => [N.of_nat n]) (fun t => [t]) (fun t => t + 100) (fun h => h + 200)
    alias_deser (fun b => match b with t :: r => Some (t, r) | [] => None end) toy_txloc.

Theorem bytes_needs_size_canonical_wire :
  exists (W : wire N N N) bytes w,
    new_block_from_bytes N N N W 0 bytes = Ok w /\
    run N N N W w [OpBytes] = [OBytesV N bytes] /\
    ser_block N N N W (b_msg N N N (w_blk N N N w)) <> bytes /\
    ~ wire_size_canonical N N N W.
Proof.
  exists aliasW, [1; 1; 9]. eexists. split; [vm_compute; reflexivity|]. split; [vm_compute; reflexivity|].
  split; [vm_compute; discriminate|].
  intros Hcan. specialize (Hcan [1; 1; 9] 1 [7] [] eq_refl [mk_mtx N 0 7] eq_refl eq_refl). vm_compute in Hcan. discriminate.
Qed.

(* C16, complement: the *Tx objects a block hands out for different indices are different objects
   (and all younger than the block), in every reachable state. *)
From BU Require Import Lib.Bytes Lib.PolyMod Gen.Xbchutil Block.Block Block.BlockProofs.
From Coq Require Import Permutation.
From Coq Require Import ZifyBool ZifyN ZifyNat.

Section Distinct.
  Variables txc hdr H : Type.
  Variable W : wire txc hdr H.

  Notation wtx := (wtx txc H).
  Notation block := (block txc hdr H).
  Notation world := (world txc hdr H).
  Notation w_ptr := (w_ptr txc H).
  Notation b_txs := (b_txs txc hdr H).
  Notation w_next := (w_next txc hdr H).
  Notation w_blk := (w_blk txc hdr H).
  Notation step := (step txc hdr H W).
  Notation do_tx := (do_tx txc hdr H).
  Notation fill := (fill txc H).
  Notation run := (run txc hdr H W).
  Notation run_world := (run_world txc hdr H W).

  Definition ptr_of (s : option wtx) : list N := match s with Some t => [w_ptr t] | None => [] end.
  Definition ptrs (slots : list (option wtx)) : list N := flat_map ptr_of slots.

  Definition dinv (slots : list (option wtx)) (next : N) : Prop :=
    NoDup (ptrs slots) /\ Forall (fun p => p < next) (ptrs slots).

  Lemma ptrs_repeat_none n : ptrs (repeat None n) = [].
  Proof. induction n; simpl; auto. Qed.

  Lemma ptrs_upd_none : forall slots k t, nth_error slots k = Some None ->
    Permutation (ptrs (upd slots k (Some t))) (w_ptr t :: ptrs slots).
  Proof.
    induction slots as [|s rest IH]; intros [|k] t Hk; simpl in *; try discriminate.
    - inversion Hk; subst. simpl. reflexivity.
    - etransitivity; [apply Permutation_app_head; apply IH; assumption|].
      simpl. apply Permutation_sym, Permutation_middle.
  Qed.

  Lemma ptrs_upd_same : forall slots k t t0, nth_error slots k = Some (Some t0) -> w_ptr t = w_ptr t0 ->
    ptrs (upd slots k (Some t)) = ptrs slots.
  Proof.
    induction slots as [|s rest IH]; intros [|k] t t0 Hk Hp; simpl in *; try discriminate.
    - inversion Hk; subst. simpl. rewrite Hp. reflexivity.
    - f_equal. eapply IH; eassumption.
  Qed.

  Lemma ptrs_in : forall slots k t, nth_error slots k = Some (Some t) -> In (w_ptr t) (ptrs slots).
  Proof.
    induction slots as [|s rest IH]; intros [|k] t Hk; simpl in *; try discriminate.
    - inversion Hk; subst. simpl. auto.
    - apply in_or_app. right. eapply IH; eassumption.
  Qed.

  Lemma nodup_distinct : forall slots k1 k2 t1 t2, NoDup (ptrs slots) ->
    nth_error slots k1 = Some (Some t1) -> nth_error slots k2 = Some (Some t2) -> k1 <> k2 -> w_ptr t1 <> w_ptr t2.
  Proof.
    induction slots as [|s rest IH]; intros k1 k2 t1 t2 Hnd H1 H2 Hne.
    - destruct k1; discriminate.
    - simpl in Hnd. destruct k1 as [|k1], k2 as [|k2]; simpl in *; try congruence.
      + inversion H1; subst s. simpl in Hnd. inversion Hnd as [|? ? Hnotin _]; subst.
        intros E. apply Hnotin. rewrite E. eapply ptrs_in; eassumption.
      + inversion H2; subst s. simpl in Hnd. inversion Hnd as [|? ? Hnotin _]; subst.
        intros E. apply Hnotin. rewrite <- E. eapply ptrs_in; eassumption.
      + apply (IH k1 k2); auto.
        destruct s; simpl in Hnd; [inversion Hnd; assumption|assumption].
  Qed.

  Lemma dinv_mono slots next next' : next <= next' -> dinv slots next -> dinv slots next'.
  Proof.
    intros Hle [Hnd Hlt]. split; [assumption|]. rewrite Forall_forall in *. intros p Hp. specialize (Hlt p Hp). lia.
  Qed.

  Lemma dinv_alloc slots next k t : dinv slots next -> nth_error slots k = Some None -> w_ptr t = next ->
    dinv (upd slots k (Some t)) (next + 1).
  Proof.
    intros [Hnd Hlt] Hk Hp. pose proof (ptrs_upd_none slots k t Hk) as Hperm. rewrite Hp in Hperm.
    rewrite Forall_forall in Hlt. split.
    - eapply Permutation_NoDup; [apply Permutation_sym; exact Hperm|]. constructor; [|assumption].
      intros Hin. specialize (Hlt _ Hin). lia.
    - apply Forall_forall. intros p Hin. eapply Permutation_in in Hin; [|exact Hperm].
      destruct Hin as [<-|Hin]; [lia|]. specialize (Hlt _ Hin). lia.
  Qed.

  (* the loop of Transactions *)
  Lemma fill_dinv txs : forall slots next k next' slots',
    fill next k txs slots = Ok (next', slots') ->
    next <= next' /\
    (forall p, In p (ptrs slots') -> In p (ptrs slots) \/ next <= p < next') /\
    (dinv slots next -> NoDup (ptrs slots')).
  Proof.
    induction slots as [|s rest IH]; intros next k next' slots' Hf.
    - simpl in Hf. inversion Hf; subst. simpl. split; [lia|]. split; [tauto|]. intros _. constructor.
    - destruct s as [t|]; simpl in Hf.
      + destruct (fill next (S k) txs rest) as [[n1 s1]| |] eqn:Hr; simpl in Hf; try discriminate.
        inversion Hf; subst. destruct (IH _ _ _ _ Hr) as [Hle [Hin Hnd]].
        split; [assumption|]. split.
        * intros p [<-|Hp]; [left; left; reflexivity|]. destruct (Hin p Hp) as [Hold|Hnew]; [left; right; assumption|right; assumption].
        * intros [Hnd0 Hlt0]. simpl in Hnd0, Hlt0. inversion Hnd0 as [|? ? Hnotin Hnd1]; subst. inversion Hlt0 as [|? ? Hlt1 Hlt2]; subst.
          simpl. constructor; [|apply Hnd; split; assumption].
          intros Hp. cbv beta in Hlt1. destruct (Hin _ Hp) as [Hold|Hnew]; [contradiction|lia].
      + destruct (nth_error txs k) as [mt|]; [|discriminate].
        unfold Block.new_tx, Block.set_index in Hf. simpl in Hf.
        destruct (fill (next + 1) (S k) txs rest) as [[n1 s1]| |] eqn:Hr; simpl in Hf; try discriminate.
        inversion Hf; subst. destruct (IH _ _ _ _ Hr) as [Hle [Hin Hnd]].
        split; [lia|]. split.
        * intros p [<-|Hp]; [right; simpl; lia|]. destruct (Hin p Hp) as [Hold|Hnew]; [left; assumption|right; lia].
        * intros [Hnd0 Hlt0]. simpl in Hnd0, Hlt0. simpl. constructor.
          -- intros Hp. destruct (Hin _ Hp) as [Hold|Hnew]; [|lia].
             rewrite Forall_forall in Hlt0. specialize (Hlt0 _ Hold). lia.
          -- apply Hnd. apply (dinv_mono rest next); [lia|split; assumption].
  Qed.

  Definition slots_of' (b : block) (n : nat) : list (option wtx) :=
    if Nat.eqb (length (b_txs b)) 0 then repeat None n else b_txs b.

  Lemma dinv_slots_of b n next : dinv (b_txs b) next -> dinv (slots_of' b n) next.
  Proof.
    intros Hd. unfold slots_of'. destruct (Nat.eqb _ _); [|assumption].
    unfold dinv. rewrite ptrs_repeat_none. split; constructor.
  Qed.

  Lemma do_tx_dinv w i : dinv (b_txs (w_blk w)) (w_next w) ->
    let w' := fst (do_tx w i) in
    dinv (b_txs (w_blk w')) (w_next w') /\
    forall k t, snd (do_tx w i) = Ok (k, t) -> nth_error (b_txs (w_blk w')) k = Some (Some t).
  Proof.
    intros Hd. unfold Block.do_tx. rewrite lit_tx_len0.
    destruct (_ || _)%bool; [simpl; split; [assumption|discriminate]|].
    fold (slots_of' (w_blk w) (length (mb_txs txc hdr (b_msg txc hdr H (w_blk w))))).
    set (slots := slots_of' (w_blk w) _).
    assert (dinv slots (w_next w)) as Hds by (apply dinv_slots_of; assumption).
    destruct (nth_error slots (Z.to_nat i)) as [[t|]|] eqn:Hs.
    - simpl. split; [assumption|]. intros k t0 E. inversion E; subst. assumption.
    - destruct (nth_error (mb_txs txc hdr (b_msg txc hdr H (w_blk w))) (Z.to_nat i)) as [mt|] eqn:Hmt.
      + unfold Block.new_tx, Block.set_index. simpl. split.
        * apply dinv_alloc; auto.
        * intros k t0 E. inversion E; subst. apply nth_error_upd_eq. apply nth_error_Some. rewrite Hs. discriminate.
      + simpl. split; [assumption|discriminate].
    - simpl. split; [assumption|discriminate].
  Qed.

  Lemma step_dinv w o : dinv (b_txs (w_blk w)) (w_next w) ->
    dinv (b_txs (w_blk (fst (step w o)))) (w_next (fst (step w o))).
  Proof.
    intros Hd. destruct o as [i| |i| | | | |h]; unfold Block.step.
    - pose proof (do_tx_dinv w i Hd) as [H1 _]. destruct (do_tx w i) as [w' r]. exact H1.
    - destruct (b_gen _ _ _ (w_blk w)); [exact Hd|]. rewrite lit_txs_len0.
      fold (slots_of' (w_blk w) (length (mb_txs txc hdr (b_msg txc hdr H (w_blk w))))).
      set (slots := slots_of' (w_blk w) _).
      assert (dinv slots (w_next w)) as Hds by (apply dinv_slots_of; assumption).
      destruct (fill (w_next w) 0 _ slots) as [[next' slots']| |] eqn:Hf; simpl; try exact Hd.
      destruct (fill_dinv _ _ _ _ _ _ Hf) as [Hle [Hin Hnd]]. split; [apply Hnd; assumption|].
      apply Forall_forall. intros p Hp. destruct (Hin p Hp) as [Hold|Hnew]; [|lia].
      destruct Hds as [_ Hlt]. rewrite Forall_forall in Hlt. specialize (Hlt _ Hold). lia.
    - pose proof (do_tx_dinv w i Hd) as [H1 H2]. destruct (do_tx w i) as [w' r]. simpl in H1, H2.
      destruct r as [[k t]| |]; try exact H1.
      specialize (H2 k t eq_refl). unfold Block.wtx_hash. destruct (Block.w_hash txc H t); simpl.
      + rewrite (upd_same _ _ _ H2). exact H1.
      + unfold dinv. erewrite ptrs_upd_same; [|exact H2|reflexivity]. apply (dinv_mono _ (w_next w')); [lia|exact H1].
    - destruct (b_hash _ _ _ (w_blk w)) as [[p hh]|]; simpl; [exact Hd|]. apply (dinv_mono _ (w_next w)); [lia|exact Hd].
    - unfold Block.do_bytes. destruct (negb _); simpl; exact Hd.
    - unfold Block.do_bytes. destruct (negb _); simpl; destruct (deser_txloc _ _ _ W _); simpl; exact Hd.
    - exact Hd.
    - exact Hd.
  Qed.

  Lemma run_world_dinv : forall ops w, dinv (b_txs (w_blk w)) (w_next w) ->
    dinv (b_txs (w_blk (run_world w ops))) (w_next (run_world w ops)).
  Proof. induction ops as [|o r IH]; intros w Hd; simpl; [assumption|]. apply IH. apply step_dinv. assumption. Qed.

  Lemma constructed_fresh w m : constructed txc hdr H W w m -> b_txs (w_blk w) = [].
  Proof.
    intros Hc. destruct Hc as [next m|next bytes w rest Hr|next bytes w Hb|next m bytes Hpre]; try reflexivity.
    - unfold Block.new_block_from_reader in Hr. destruct (deser_block _ _ _ W bytes) as [[[h cs] r]|]; [|discriminate].
      inversion Hr; subst. reflexivity.
    - unfold Block.new_block_from_bytes, Block.new_block_from_reader in Hb.
      destruct (deser_block _ _ _ W bytes) as [[[h cs] r]|]; [|discriminate]. simpl in Hb.
      destruct (Nat.leb _ _); [|discriminate]. destruct (Nat.eqb _ _); inversion Hb; subst; reflexivity.
  Qed.

  (* in every reachable state the cached wrappers of different indices are different objects *)
  Theorem wrappers_distinct w m : constructed txc hdr H W w m ->
    forall ops k1 k2 t1 t2,
      nth_error (b_txs (w_blk (run_world w ops))) k1 = Some (Some t1) ->
      nth_error (b_txs (w_blk (run_world w ops))) k2 = Some (Some t2) ->
      k1 <> k2 -> w_ptr t1 <> w_ptr t2.
  Proof.
    intros Hc ops k1 k2 t1 t2 H1 H2 Hne.
    assert (dinv (b_txs (w_blk w)) (w_next w)) as Hd0.
    { rewrite (constructed_fresh w m Hc). split; constructor. }
    destruct (run_world_dinv ops w Hd0) as [Hnd _].
    eapply nodup_distinct; eassumption.
  Qed.

  Lemma run_snoc : forall ops w o d, last (run w (ops ++ [o])) d = snd (step (run_world w ops) o).
  Proof.
    induction ops as [|o' r IH]; intros w o d; simpl.
    - destruct (step w o). reflexivity.
    - destruct (step w o') as [w' x] eqn:Hs. simpl. specialize (IH w' o d).
      destruct (run w' (r ++ [o])) eqn:Hr.
      + destruct r; simpl in Hr; destruct (step _ _); discriminate.
      + rewrite <- IH. reflexivity.
  Qed.

  (* ... and so are the objects Transactions() returns, after any history *)
  Theorem transactions_objects_distinct w m : constructed txc hdr H W w m ->
    forall ops l, last (run w (ops ++ [OpTransactions])) (OUnit H) = OTxsV H l ->
    NoDup (flat_map (fun v : option (N * N * Z) => match v with Some (p, _, _) => [p] | None => [] end) l).
  Proof.
    intros Hc ops l Hl. rewrite run_snoc in Hl.
    assert (dinv (b_txs (w_blk w)) (w_next w)) as Hd0.
    { rewrite (constructed_fresh w m Hc). split; constructor. }
    pose proof (run_world_dinv ops w Hd0) as Hd. set (w1 := run_world w ops) in *.
    pose proof (step_dinv w1 OpTransactions Hd) as Hd'.
    assert (forall slots : list (option wtx),
              flat_map (fun v : option (N * N * Z) => match v with Some (p, _, _) => [p] | None => [] end)
                       (map (option_map (view txc H)) slots) = ptrs slots) as Hview.
    { induction slots as [|[t|] rest IH]; simpl; auto. rewrite IH. reflexivity. }
    unfold Block.step in Hl, Hd'.
    destruct (b_gen _ _ _ (w_blk w1)).
    - simpl in Hl. inversion Hl; subst l. rewrite Hview. apply Hd.
    - destruct (fill _ _ _ _) as [[next' slots']| |]; simpl in Hl; try discriminate.
      inversion Hl; subst l. rewrite Hview. simpl in Hd'. apply Hd'.
  Qed.
End Distinct.

(* The integer literals of base58.Decode, checksum, CheckEncode and CheckDecode that the model (Base58.v) writes out
   as numbers (the sentinel 255, the checksum width 4, the minimum length 5, the offsets 0 / 1): an obligation
   over the regenerated Gen/Xbase58.v, kept in a file of its own so that a changed literal is reported here (C07)
   and does not stop the proofs of the properties that merely use Base58 from compiling. *)
From BU Require Import Lib.Bytes Gen.Xbase58.

Lemma tie_lits_base58 :
  lits_Decode = [0;1;1;0;255;0]%Z /\ lits_checksum = [4]%Z /\
  lits_CheckEncode = [0;1;4]%Z /\ lits_CheckDecode = [5;0;0;4;4;4;0;1;4]%Z.
Proof. repeat split; reflexivity. Qed.

(* Model of base58/base58.go (Decode, Encode) and base58/base58check.go.
   Tables come from Gen.Xbase58 (regenerated from the Go source on every run). *)
From BU Require Import Lib.Bytes Lib.Radix Lib.Sha256 Gen.Xbase58.

Definition alphabet : list N := c_alphabet.
Definition idx0 : N := Z.to_N c_alphabetIdx0.
Definition b58tab : list N := map Z.to_N c_b58.

(* b58[c] for a byte c; Go indexes a [256]byte array with a byte: never out of range *)
Definition b58 (c : N) : N := nth (N.to_nat c) b58tab 255.

(* the big-integer accumulation of Decode: sum of digit_i * 58^(len-1-i).
   [None] when a character maps to 255. *)
Fixpoint decode_digits (s : list N) : option (list N) :=
  match s with
  | [] => Some []
  | c :: t => if b58 c =? 255 then None
              else match decode_digits t with Some ds => Some (b58 c :: ds) | None => None end
  end.

(* big.Int.Bytes(): minimal big-endian bytes *)
Definition nat_bytes (n : N) : list N := digits 256 n.

Definition decode (s : list N) : list N :=
  match decode_digits s with
  | None => []
  | Some ds =>
      let answer := value 58 ds 0 in
      repeat 0 (count_leading idx0 s) ++ nat_bytes answer
  end.

Definition alpha (d : N) : N := nth (N.to_nat d) alphabet 0.   (* alphabet[d] *)

Definition encode (b : list N) : list N :=
  let x := value 256 b 0 in
  (* the Go code produces the digits least-significant first, appends one idx0
     per leading zero byte, and reverses the whole thing *)
  repeat idx0 (count_leading 0 b) ++ map alpha (digits 58 x).

(* ---- base58check ---- *)
Definition checksum (input : list N) : list N := firstn 4 (sha256d input).

Definition check_encode (input : list N) (version : N) : list N :=
  let b := version :: input in encode (b ++ checksum b).

(* error classes: 1 = ErrInvalidFormat, 2 = ErrChecksum *)
Definition check_decode (s : list N) : res (list N * N) :=
  let d := decode s in
  let n := length d in
  if (n <? 5)%nat then Err 1
  else
    let body := firstn (n - 4) d in
    let ck := skipn (n - 4) d in
    if list_eqb (checksum body) ck
    then Ok (skipn 1 body, hd 0 d)
    else Err 2.

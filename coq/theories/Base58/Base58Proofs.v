(* Proofs about the Base58 model: Decode and Encode are mutually inverse
   bijections between byte strings and strings over the alphabet. *)
From BU Require Import Lib.Bytes Lib.Radix Lib.Sha256 Gen.Xbase58 Base58.Base58.
From Coq Require Import ZifyBool ZifyN ZifyNat.


(* ---------- obligations over the extracted tables (re-checked whenever the Go tables change) ---------- *)
Definition range (n : nat) : list N := map N.of_nat (seq 0 n).

Lemma range_spec n x : In x (range n) <-> x < N.of_nat n.
Proof.
  unfold range. rewrite in_map_iff. split.
  - intros [k [<- Hk]]. apply in_seq in Hk. lia.
  - intros H. exists (N.to_nat x). split; [lia|]. apply in_seq. lia.
Qed.

Lemma tab_alphabet_len : length alphabet = 58%nat.
Proof. vm_compute. reflexivity. Qed.

Lemma tab_b58_len : length b58tab = 256%nat.
Proof. vm_compute. reflexivity. Qed.

Lemma tab_idx0 : idx0 = alpha 0 /\ b58 idx0 = 0.
Proof. vm_compute. split; reflexivity. Qed.

Lemma tab_b58_alpha_b : forallb (fun d => (b58 (alpha d) =? d) && (alpha d <? 256)) (range 58) = true.
Proof. vm_compute. reflexivity. Qed.

Lemma tab_alpha_b58_b :
  forallb (fun c => (b58 c =? 255) || ((b58 c <? 58) && (alpha (b58 c) =? c))) (range 256) = true.
Proof. vm_compute. reflexivity. Qed.

Lemma b58_alpha d : d < 58 -> b58 (alpha d) = d /\ alpha d < 256.
Proof.
  intros Hd. pose proof tab_b58_alpha_b as H. rewrite forallb_forall in H.
  specialize (H d). rewrite range_spec in H. specialize (H ltac:(lia)). lia.
Qed.

Lemma alpha_b58 c : b58 c <> 255 -> b58 c < 58 /\ alpha (b58 c) = c.
Proof.
  intros Hc. destruct (N.lt_ge_cases c 256) as [Hlt|Hge].
  - pose proof tab_alpha_b58_b as H. rewrite forallb_forall in H.
    specialize (H c). rewrite range_spec in H. specialize (H ltac:(lia)). lia.
  - exfalso. apply Hc. unfold b58. apply nth_overflow. rewrite tab_b58_len. lia.
Qed.

Lemma in_alphabet_iff c : In c alphabet <-> b58 c <> 255.
Proof.
  split.
  - intros Hin. apply (In_nth _ _ 0) in Hin as [k [Hk E]]. rewrite tab_alphabet_len in Hk.
    assert (E' : alpha (N.of_nat k) = c) by (unfold alpha; rewrite Nat2N.id; exact E).
    destruct (b58_alpha (N.of_nat k)) as [H1 _]; [lia|]. rewrite E' in H1. lia.
  - intros H. destruct (alpha_b58 c H) as [Hlt E]. rewrite <- E. unfold alpha.
    apply nth_In. rewrite tab_alphabet_len. lia.
Qed.

(* ---------- generic lemmas ---------- *)
Lemma value_repeat0 b n ds : value b (repeat 0 n ++ ds) 0 = value b ds 0.
Proof. induction n; simpl; auto. Qed.

Lemma decode_digits_map ds :
  Forall (fun d => d < 58) ds -> decode_digits (map alpha ds) = Some ds.
Proof.
  induction 1 as [|d ds Hd _ IH]; simpl; auto.
  destruct (b58_alpha d Hd) as [E _]. rewrite E.
  destruct (N.eqb_spec d 255); [lia|]. rewrite IH. reflexivity.
Qed.

Lemma decode_digits_app a b :
  decode_digits (a ++ b) =
  match decode_digits a, decode_digits b with Some x, Some y => Some (x ++ y) | _, _ => None end.
Proof.
  induction a as [|c a IH]; simpl.
  - destruct (decode_digits b); reflexivity.
  - destruct (b58 c =? 255); auto. rewrite IH.
    destruct (decode_digits a), (decode_digits b); reflexivity.
Qed.

Lemma decode_digits_repeat_idx0 n : decode_digits (repeat idx0 n) = Some (repeat 0 n).
Proof.
  induction n; simpl; auto. destruct tab_idx0 as [_ E]. rewrite E. simpl. rewrite IHn. reflexivity.
Qed.

Lemma decode_digits_spec s ds :
  decode_digits s = Some ds -> Forall (fun d => d < 58) ds /\ map alpha ds = s.
Proof.
  revert ds; induction s as [|c s IH]; simpl; intros ds H.
  - inversion H; subst. split; constructor.
  - destruct (N.eqb_spec (b58 c) 255) as [|Hne]; [discriminate|].
    destruct (decode_digits s) as [ds'|]; [|discriminate]. inversion H; subst.
    destruct (IH ds' eq_refl) as [H1 H2]. destruct (alpha_b58 c Hne) as [H3 H4].
    split; [constructor; auto|]. simpl. rewrite H4, H2. reflexivity.
Qed.

Lemma decode_digits_none s :
  decode_digits s = None <-> exists c, In c s /\ b58 c = 255.
Proof.
  induction s as [|c s IH]; simpl.
  - split; [discriminate|intros [c [[] _]]].
  - destruct (N.eqb_spec (b58 c) 255) as [E|Hne].
    + split; auto. intros _. exists c. auto.
    + destruct (decode_digits s) as [ds|].
      * split; [discriminate|]. intros [x [[->|Hin] Hx]]; [contradiction|].
        exfalso. assert (Hn : Some ds = None) by (apply IH; exists x; auto). discriminate.
      * split; auto. intros _. destruct IH as [IH _]. destruct (IH eq_refl) as [x [Hin Hx]].
        exists x. auto.
Qed.

Lemma digits256_of_bytes r :
  Bytes r -> (match r with [] => True | x :: _ => x <> 0 end) ->
  digits 256 (value 256 r 0) = r.
Proof. intros Hb Hh. apply digits_value; [lia|]. split; assumption. Qed.

(* ---------- the two inverse laws ---------- *)
Theorem decode_encode b : Bytes b -> decode (encode b) = b.
Proof.
  intros Hb. unfold encode, decode.
  destruct (count_leading_split 0 b) as [r [Eb Hr]].
  set (nz := count_leading 0 b) in *.
  assert (Hbr : Bytes r) by (rewrite Eb in Hb; apply Bytes_app in Hb; tauto).
  assert (Ex : value 256 b 0 = value 256 r 0) by (rewrite Eb; apply value_repeat0).
  rewrite Ex. set (x := value 256 r 0).
  pose proof (digits_canonical 58 ltac:(lia) x) as [Hlt Hhd].
  rewrite decode_digits_app, decode_digits_repeat_idx0, (decode_digits_map _ Hlt).
  rewrite value_repeat0. rewrite value_digits by lia.
  rewrite count_leading_repeat_app.
  - unfold nat_bytes, x. rewrite digits256_of_bytes by assumption. symmetry. exact Eb.
  - destruct (digits 58 x) as [|d t]; simpl; auto.
    inversion Hlt as [|? ? Hd58 _]. intros E. destruct tab_idx0 as [_ E0].
    destruct (b58_alpha d Hd58) as [E1 _]. rewrite E, E0 in E1. simpl in Hhd. congruence.
Qed.

Theorem encode_decode s : Forall (fun c => In c alphabet) s -> encode (decode s) = s.
Proof.
  intros Hs. unfold decode.
  destruct (decode_digits s) as [ds|] eqn:Ed.
  2:{ apply decode_digits_none in Ed as [c [Hin Hc]]. rewrite Forall_forall in Hs.
      apply Hs, in_alphabet_iff in Hin. contradiction. }
  destruct (decode_digits_spec _ _ Ed) as [Hlt Es].
  destruct (count_leading_split idx0 s) as [r [Er Hr]].
  set (nz := count_leading idx0 s) in *.
  (* split the digit list the same way *)
  assert (Hds : exists dr, ds = repeat 0 nz ++ dr /\ map alpha dr = r /\
                           (match dr with [] => True | d :: _ => d <> 0 end)).
  { rewrite Er in Ed. rewrite decode_digits_app, decode_digits_repeat_idx0 in Ed.
    destruct (decode_digits r) as [dr|] eqn:Edr; [|discriminate]. injection Ed as Ed.
    exists dr. destruct (decode_digits_spec _ _ Edr) as [_ Hm]. repeat split; auto.
    destruct dr as [|d t]; auto. simpl in Hm. destruct r as [|c r']; [discriminate|].
    injection Hm as Hc _. intros Hd0. apply Hr. destruct tab_idx0 as [E _]. rewrite E, <- Hc, Hd0. reflexivity. }
  destruct Hds as [dr [Eds [Emr Hdr]]].
  assert (Hltr : Forall (fun d => d < 58) dr) by (rewrite Eds in Hlt; apply Forall_app in Hlt; tauto).
  unfold encode.
  set (x := value 58 ds 0).
  assert (Ex : x = value 58 dr 0) by (unfold x; rewrite Eds; apply value_repeat0).
  (* the decoded bytes: nz zeros followed by the canonical bytes of x *)
  pose proof (digits_canonical 256 ltac:(lia) x) as [Hb256 Hh256].
  rewrite count_leading_repeat_app by exact Hh256.
  rewrite value_repeat0.
  unfold nat_bytes. rewrite value_digits by lia.
  rewrite Ex. rewrite digits_value by (try lia; split; assumption).
  rewrite Emr. symmetry. exact Er.
Qed.

Theorem foreign_char_empty s : (exists c, In c s /\ ~ In c alphabet) -> decode s = [].
Proof.
  intros [c [Hin Hc]]. unfold decode.
  assert (E : decode_digits s = None).
  { apply decode_digits_none. exists c. split; auto.
    destruct (N.eq_dec (b58 c) 255); auto. exfalso. apply Hc, in_alphabet_iff. assumption. }
  rewrite E. reflexivity.
Qed.

Theorem decode_bytes s : Bytes (decode s).
Proof.
  unfold decode. destruct (decode_digits s); [|constructor].
  apply Bytes_app. split; [apply Bytes_repeat; lia|].
  apply (digits_lt 256). lia.
Qed.

Theorem encode_alphabet b : Forall (fun c => In c alphabet) (encode b).
Proof.
  unfold encode. apply Forall_app. split.
  - destruct tab_idx0 as [E _]. rewrite E. clear E.
    induction (count_leading 0 b) as [|k IHk]; cbn [repeat]; constructor; [|exact IHk].
    apply nth_In. rewrite tab_alphabet_len. lia.
  - pose proof (digits_lt 58 ltac:(lia) (value 256 b 0)) as H.
    induction H as [|d l Hd _ IHl]; cbn [map]; constructor; [|exact IHl].
    apply nth_In. rewrite tab_alphabet_len. lia.
Qed.

(* leading zero bytes correspond to leading '1' characters, in both directions *)
Theorem encode_leading b : Bytes b -> count_leading idx0 (encode b) = count_leading 0 b.
Proof.
  intros Hb. unfold encode.
  apply count_leading_repeat_app.
  pose proof (digits_canonical 58 ltac:(lia) (value 256 b 0)) as [Hlt Hhd].
  destruct (digits 58 (value 256 b 0)) as [|d t]; cbn [map]; [exact I|].
  inversion Hlt as [|? ? Hd58 _]. intros E. destruct tab_idx0 as [_ E0].
  destruct (b58_alpha d Hd58) as [E1 _]. rewrite E, E0 in E1. cbn in Hhd. congruence.
Qed.

Theorem decode_leading s : Forall (fun c => In c alphabet) s -> count_leading 0 (decode s) = count_leading idx0 s.
Proof.
  intros Hs. rewrite <- (encode_leading (decode s) (decode_bytes s)).
  rewrite (encode_decode s Hs). reflexivity.
Qed.

Theorem leading_zeros b s : Bytes b -> Forall (fun c => In c alphabet) s ->
  count_leading idx0 (encode b) = count_leading 0 b /\ count_leading 0 (decode s) = count_leading idx0 s.
Proof. intros Hb Hs. split; [exact (encode_leading b Hb) | exact (decode_leading s Hs)]. Qed.

(* idx0 is the character '1' *)
Lemma tie_idx0 : idx0 = 49.
Proof. reflexivity. Qed.

(* ---------- Base58Check ---------- *)
Lemma checksum_length input : length (checksum input) = 4%nat.
Proof. unfold checksum, sha256d. rewrite firstn_length, sha256_length_32. reflexivity. Qed.

Lemma firstn_tail4 (a c : list N) : length c = 4%nat -> firstn (length (a ++ c) - 4) (a ++ c) = a.
Proof.
  intros Hc. rewrite app_length, Hc. replace (length a + 4 - 4)%nat with (length a + 0)%nat by lia.
  rewrite firstn_app_2. cbn [firstn]. apply app_nil_r.
Qed.

Lemma skipn_tail4 (a c : list N) : length c = 4%nat -> skipn (length (a ++ c) - 4) (a ++ c) = c.
Proof.
  intros Hc. rewrite app_length, Hc. replace (length a + 4 - 4)%nat with (length a) by lia.
  rewrite skipn_app, skipn_all, Nat.sub_diag. reflexivity.
Qed.

Theorem check_roundtrip input version :
  Bytes input -> version < 256 -> check_decode (check_encode input version) = Ok (input, version).
Proof.
  intros Hb Hv. unfold check_decode, check_encode.
  assert (Hck : Bytes (checksum (version :: input))).
  { unfold checksum, sha256d. pose proof (sha256_bytes (sha256 (version :: input))) as Hs.
    unfold Bytes in *. rewrite <- (firstn_skipn 4) in Hs. apply Forall_app in Hs. tauto. }
  rewrite decode_encode.
  2:{ apply Bytes_app. split; [apply Bytes_cons; auto | exact Hck]. }
  pose proof (checksum_length (version :: input)) as Hl.
  rewrite firstn_tail4, skipn_tail4 by exact Hl.
  rewrite app_length, Hl. cbn [length].
  destruct (Nat.ltb_spec (S (length input) + 4) 5); [lia|].
  rewrite list_eqb_refl. reflexivity.
Qed.

(* acceptance is exactly "at least five bytes whose last four are the checksum of the rest" *)
Theorem check_accept_iff s payload version :
  check_decode s = Ok (payload, version) <->
  exists ck, decode s = (version :: payload) ++ ck /\ length ck = 4%nat /\ ck = checksum (version :: payload).
Proof.
  unfold check_decode. generalize (decode s) as d. intros d. split.
  - destruct (Nat.ltb_spec (length d) 5) as [|Hlen]; [discriminate|].
    destruct (list_eqb (checksum (firstn (length d - 4) d)) (skipn (length d - 4) d)) eqn:E; [|discriminate].
    apply list_eqb_eq in E. intros H. injection H as H1 H2.
    exists (skipn (length d - 4) d).
    assert (Hbody : firstn (length d - 4) d = version :: payload).
    { pose proof (firstn_skipn (length d - 4) d) as Hsplit.
      pose proof (firstn_length_le d (n:=(length d - 4)%nat) ltac:(lia)) as Hfl.
      destruct (firstn (length d - 4) d) as [|x body]; [simpl in Hfl; lia|].
      cbn [skipn] in H1. rewrite <- Hsplit in H2. cbn [hd app] in H2. congruence. }
    repeat split.
    + rewrite <- Hbody. symmetry. apply firstn_skipn.
    + rewrite skipn_length. lia.
    + rewrite <- Hbody. symmetry. exact E.
  - intros [ck [Hd [Hl Hc]]]. rewrite Hd.
    rewrite firstn_tail4, skipn_tail4 by exact Hl.
    rewrite app_length, Hl. cbn [length].
    destruct (Nat.ltb_spec (S (length payload) + 4) 5); [lia|].
    rewrite <- Hc, list_eqb_refl. reflexivity.
Qed.

(* Proofs about the WIF model (C06). *)
From BU Require Import Lib.Bytes Lib.Radix Lib.Sha256 Lib.PolyMod Base58.Base58 Base58.Base58Proofs Gen.Xbchutil Wif.Wif.
From Coq Require Import ZifyBool ZifyN ZifyNat.

(* ---------- obligations over the extracted literals (re-checked whenever wif.go changes) ---------- *)
Lemma tie_len_compressed : len_compressed = 38%nat. Proof. reflexivity. Qed.
Lemma tie_magic_pos : magic_pos = 33%nat. Proof. reflexivity. Qed.
Lemma tie_len_uncompressed : len_uncompressed = 37%nat. Proof. reflexivity. Qed.
Lemma tie_tosum_compressed : tosum_compressed = 34%nat. Proof. reflexivity. Qed.
Lemma tie_tosum_uncompressed : tosum_uncompressed = 33%nat. Proof. reflexivity. Qed.
Lemma tie_ck_take : ck_take = 4%nat. Proof. reflexivity. Qed.
Lemma tie_ck_tail : ck_tail = 4%nat. Proof. reflexivity. Qed.
Lemma tie_net_pos : net_pos = 0%nat. Proof. reflexivity. Qed.
Lemma tie_key_lo : key_lo = 1%nat. Proof. reflexivity. Qed.
Lemma tie_key_hi : key_hi = 33%nat. Proof. reflexivity. Qed.
Lemma tie_str_ck_take : str_ck_take = 4%nat. Proof. reflexivity. Qed.
Lemma tie_magic : magic = 1. Proof. reflexivity. Qed.
Lemma tie_priv_len : priv_len = 32%nat. Proof. reflexivity. Qed.

(* ---------- padding ---------- *)
Lemma pad_value k : Bytes k -> pad_to (length k) (big_bytes (set_bytes k)) = k.
Proof.
  intros Hb. unfold pad_to, big_bytes, set_bytes.
  destruct (count_leading_split 0 k) as [r [Ek Hr]].
  set (nz := count_leading 0 k) in *.
  assert (Hbr : Bytes r) by (rewrite Ek in Hb; apply Bytes_app in Hb; tauto).
  assert (Ev : value 256 k 0 = value 256 r 0) by (rewrite Ek; apply value_repeat0).
  rewrite Ev, digits256_of_bytes by assumption.
  rewrite Ek at 1. rewrite app_length, repeat_length.
  replace (nz + length r - length r)%nat with nz by lia. symmetry. exact Ek.
Qed.

Lemma big_bytes_Bytes d : Bytes (big_bytes d).
Proof.
  unfold big_bytes, Bytes. pose proof (digits_lt 256 ltac:(lia) d) as H.
  exact H.
Qed.

Lemma pad_to_Bytes n l : Bytes l -> Bytes (pad_to n l).
Proof. intros H. unfold pad_to. apply Bytes_app. split; [apply Bytes_repeat; lia | exact H]. Qed.

Lemma pad_to_length n l : (length l <= n)%nat -> length (pad_to n l) = n.
Proof. intros H. unfold pad_to. rewrite app_length, repeat_length. lia. Qed.

(* number of base-256 digits of a value below 256^n *)
Lemma value_bound ds : Bytes ds -> forall acc, value 256 ds acc < (acc + 1) * 256 ^ N.of_nat (length ds).
Proof.
  induction ds as [|d t IH]; intros Hb acc.
  - cbn [value length]. change (N.of_nat 0) with 0. rewrite N.pow_0_r. lia.
  - apply Bytes_cons in Hb as [Hd Ht]. cbn [value length]. specialize (IH Ht (acc * 256 + d)).
    rewrite Nat2N.inj_succ, N.pow_succ_r'.
    eapply N.lt_le_trans; [exact IH|].
    rewrite N.mul_assoc. apply N.mul_le_mono_r. lia.
Qed.

Lemma big_bytes_length_le d n : d < 256 ^ N.of_nat n -> (length (big_bytes d) <= n)%nat.
Proof.
  intros Hd. unfold big_bytes.
  destruct (Nat.le_gt_cases (length (digits 256 d)) n) as [|Hgt]; [assumption|exfalso].
  pose proof (digits_canonical 256 ltac:(lia) d) as [Hlt Hhd].
  pose proof (value_digits 256 ltac:(lia) d) as Hv.
  destruct (digits 256 d) as [|h t] eqn:E; [simpl in Hgt; lia|].
  cbn [value] in Hv. cbn [length] in Hgt.
  (* value of h :: t is at least h * 256^|t| >= 256^n *)
  assert (Hge : forall l acc, acc * 256 ^ N.of_nat (length l) <= value 256 l acc).
  { induction l as [|x l IHl]; intros acc; cbn [value length].
    - change (N.of_nat 0) with 0. rewrite N.pow_0_r. lia.
    - rewrite Nat2N.inj_succ, N.pow_succ_r'. specialize (IHl (acc * 256 + x)).
      eapply N.le_trans; [|exact IHl]. rewrite N.mul_assoc. apply N.mul_le_mono_r. lia. }
  specialize (Hge t (0 * 256 + h)). rewrite Hv in Hge.
  assert (Hpow : 256 ^ N.of_nat n <= 256 ^ N.of_nat (length t)) by (apply N.pow_le_mono_r; lia).
  assert (1 <= 0 * 256 + h) by lia.
  assert ((0 * 256 + h) * 256 ^ N.of_nat (length t) >= 256 ^ N.of_nat (length t)) by nia.
  lia.
Qed.

(* ---------- DecodeWIF in closed form ---------- *)
Definition decode_body (d : list N) (c : bool) : res wif :=
  let n := length d in
  if list_eqb (firstn 4 (sha256d (firstn (n - 4) d))) (skipn (n - 4) d)
  then Ok {| w_d := set_bytes (firstn 32 (skipn 1 d)); w_compress := c; w_net := hd 0 d |}
  else Err 2.

Definition decode_spec (d : list N) : res wif :=
  if (length d =? 38)%nat then (if nth 33 d 0 =? 1 then decode_body d true else Err 1)
  else if (length d =? 37)%nat then decode_body d false
  else Err 1.

Lemma slice_res_ok l lo hi : (lo <= hi)%nat -> (hi <= length l)%nat ->
  slice_res l lo hi = Ok (firstn (hi - lo) (skipn lo l)).
Proof.
  intros H1 H2. unfold slice_res.
  destruct (Nat.leb_spec lo hi); [|lia]. destruct (Nat.leb_spec hi (length l)); [|lia]. reflexivity.
Qed.

Lemma nth_res_ok (l : list N) i : (i < length l)%nat -> nth_res l i = Ok (nth i l 0).
Proof. intros H. unfold nth_res. rewrite (nth_error_nth' l 0 H). reflexivity. Qed.

Lemma skipn_tail (l : list N) n : (n <= length l)%nat -> firstn (length l - n) (skipn n l) = skipn n l.
Proof. intros H. apply firstn_all2. rewrite skipn_length. lia. Qed.

Lemma decode_wif_spec s : decode_wif s = decode_spec (Base58.decode s).
Proof.
  unfold decode_wif, decode_spec. generalize (Base58.decode s) as d. intros d.
  rewrite tie_len_compressed, tie_magic_pos, tie_len_uncompressed, tie_tosum_compressed, tie_tosum_uncompressed,
    tie_ck_take, tie_ck_tail, tie_net_pos, tie_key_lo, tie_key_hi, tie_magic.
  destruct (Nat.eqb_spec (length d) 38) as [E38|N38].
  - rewrite nth_res_ok by lia. cbn [rbind].
    destruct (nth 33 d 0 =? 1); cbn [rbind]; [|reflexivity].
    rewrite slice_res_ok by lia. cbn [rbind].
    rewrite slice_res_ok by lia. cbn [rbind].
    unfold decode_body. rewrite E38.
    change (34 - 0)%nat with 34%nat. change (38 - 4)%nat with 34%nat. rewrite skipn_O.
    replace (firstn (38 - 34) (skipn 34 d)) with (skipn 34 d)
      by (symmetry; apply firstn_all2; rewrite skipn_length; lia).
    destruct (list_eqb _ _); [|reflexivity].
    rewrite nth_res_ok by lia. cbn [rbind]. rewrite slice_res_ok by lia. cbn [rbind].
    change (33 - 1)%nat with 32%nat.
    destruct d as [|x d']; [discriminate|]. reflexivity.
  - destruct (Nat.eqb_spec (length d) 37) as [E37|N37]; [|reflexivity].
    cbn [rbind]. rewrite slice_res_ok by lia. cbn [rbind].
    rewrite slice_res_ok by lia. cbn [rbind].
    unfold decode_body. rewrite E37.
    change (33 - 0)%nat with 33%nat. change (37 - 4)%nat with 33%nat. rewrite skipn_O.
    replace (firstn (37 - 33) (skipn 33 d)) with (skipn 33 d)
      by (symmetry; apply firstn_all2; rewrite skipn_length; lia).
    destruct (list_eqb _ _); [|reflexivity].
    rewrite nth_res_ok by lia. cbn [rbind]. rewrite slice_res_ok by lia. cbn [rbind].
    change (33 - 1)%nat with 32%nat.
    destruct d as [|x d']; [discriminate|]. reflexivity.
Qed.

(* DecodeWIF never panics and fails only with its two error classes *)
Theorem decode_total s : (exists w, decode_wif s = Ok w) \/ decode_wif s = Err 1 \/ decode_wif s = Err 2.
Proof.
  rewrite decode_wif_spec. unfold decode_spec, decode_body.
  destruct (_ =? 38)%nat.
  - destruct (_ =? 1); [|auto]. destruct (list_eqb _ _); eauto.
  - destruct (_ =? 37)%nat; [|auto]. destruct (list_eqb _ _); eauto.
Qed.

(* ---------- acceptance ---------- *)
Definition accepts (d : list N) (w : wif) : Prop :=
  ((length d = 37%nat /\ w_compress w = false) \/ (length d = 38%nat /\ nth 33 d 0 = 1 /\ w_compress w = true)) /\
  skipn (length d - 4) d = firstn 4 (sha256d (firstn (length d - 4) d)) /\
  w_net w = hd 0 d /\ w_d w = set_bytes (firstn 32 (skipn 1 d)).

Theorem accept_iff s w : decode_wif s = Ok w <-> accepts (Base58.decode s) w.
Proof.
  rewrite decode_wif_spec. generalize (Base58.decode s) as d. intros d.
  unfold decode_spec, decode_body, accepts. split.
  - destruct (Nat.eqb_spec (length d) 38) as [E38|N38].
    + destruct (N.eqb_spec (nth 33 d 0) 1) as [Em|]; [|discriminate].
      destruct (list_eqb _ _) eqn:Eck; [|discriminate]. apply list_eqb_eq in Eck.
      intros H. injection H as <-. cbn [w_compress w_net w_d]. auto 10.
    + destruct (Nat.eqb_spec (length d) 37) as [E37|N37]; [|discriminate].
      destruct (list_eqb _ _) eqn:Eck; [|discriminate]. apply list_eqb_eq in Eck.
      intros H. injection H as <-. cbn [w_compress w_net w_d]. auto 10.
  - destruct w as [wd wc wn]. cbn [w_compress w_net w_d].
    intros [Hlen [Hck [Hn Hd]]]. subst wn wd.
    destruct Hlen as [[E37 ->]|[E38 [Em ->]]].
    + rewrite E37. cbn [Nat.eqb]. rewrite E37 in Hck. rewrite Hck, list_eqb_refl. reflexivity.
    + rewrite E38. cbn [Nat.eqb]. rewrite Em. cbn [N.eqb Pos.eqb].
      rewrite E38 in Hck. rewrite Hck, list_eqb_refl. reflexivity.
Qed.

(* ---------- round trip: DecodeWIF (String (NewWIF key net flag)) ---------- *)
Lemma sha_ck_Bytes a : Bytes (firstn 4 (sha256d a)).
Proof.
  unfold sha256d. pose proof (sha256_bytes (sha256 a)) as Hs.
  unfold Bytes in *. rewrite <- (firstn_skipn 4) in Hs. apply Forall_app in Hs. tauto.
Qed.

Lemma sha_ck_length a : length (firstn 4 (sha256d a)) = 4%nat.
Proof. exact (checksum_length a). Qed.

Lemma payload_new key net flag : Bytes key -> length key = 32%nat ->
  wif_payload (new_wif key net flag) = net :: key ++ (if flag then [1] else []).
Proof.
  intros Hb Hl. unfold wif_payload, new_wif. cbn [w_net w_d w_compress].
  rewrite tie_priv_len, <- Hl, pad_value by assumption. rewrite tie_magic. reflexivity.
Qed.

Theorem decode_encode key net flag :
  Bytes key -> length key = 32%nat -> net < 256 ->
  decode_wif (wif_string (new_wif key net flag)) = Ok (new_wif key net flag) /\
  priv_serialize (new_wif key net flag) = key /\
  is_for_net (new_wif key net flag) net = true.
Proof.
  intros Hb Hl Hn. split; [|split].
  2:{ unfold priv_serialize, new_wif. cbn [w_d]. rewrite tie_priv_len, <- Hl. apply pad_value. exact Hb. }
  2:{ unfold is_for_net, new_wif. cbn [w_net]. apply N.eqb_refl. }
  apply accept_iff. unfold wif_string. rewrite tie_str_ck_take, payload_new by assumption.
  set (a := net :: key ++ (if flag then [1] else [])).
  assert (Ha : Bytes a).
  { unfold a. apply Bytes_cons. split; [exact Hn|]. apply Bytes_app. split; [exact Hb|].
    destruct flag; [apply Bytes_cons; split; [lia|constructor] | constructor]. }
  rewrite Base58Proofs.decode_encode
    by (apply Bytes_app; split; [exact Ha | apply sha_ck_Bytes]).
  pose proof (sha_ck_length a) as Hcl.
  unfold accepts. rewrite firstn_tail4, skipn_tail4 by exact Hcl.
  assert (Hal : length a = if flag then 34%nat else 33%nat).
  { unfold a. cbn [length]. rewrite app_length, Hl. destruct flag; reflexivity. }
  repeat split.
  - rewrite app_length, Hcl, Hal. destruct flag.
    + right. repeat split. unfold a.
      change (net :: key ++ [1]) with ((net :: key) ++ [1]). rewrite <- app_assoc.
      rewrite app_nth2 by (cbn [length]; lia). cbn [length]. rewrite Hl. reflexivity.
    + left. split; reflexivity.
  - unfold new_wif. cbn [w_d]. f_equal. unfold a. cbn [app skipn].
    rewrite <- app_assoc, <- Hl, firstn_app, Nat.sub_diag, firstn_all, firstn_O, app_nil_r. reflexivity.
Qed.

(* ---------- canonicity: every accepted string re-encodes to itself ---------- *)
Lemma decode_nonempty_alphabet s : Base58.decode s <> [] -> Forall (fun c => In c alphabet) s.
Proof.
  intros Hne. apply Forall_forall. intros c Hc.
  destruct (N.eq_dec (b58 c) 255) as [E|Hn].
  - exfalso. apply Hne. apply foreign_char_empty. exists c. split; [exact Hc|].
    rewrite in_alphabet_iff. intros H. exact (H E).
  - apply in_alphabet_iff. exact Hn.
Qed.

Lemma firstn_S_nth (l : list N) : forall n, (n < length l)%nat -> firstn (S n) l = firstn n l ++ [nth n l 0].
Proof.
  induction l as [|x l IH]; intros n Hn; [simpl in Hn; lia|].
  destruct n as [|n]; [reflexivity|].
  cbn [length] in Hn. change (firstn (S (S n)) (x :: l)) with (x :: firstn (S n) l).
  rewrite IH by lia. reflexivity.
Qed.

Theorem encode_decode s w : decode_wif s = Ok w -> wif_string w = s.
Proof.
  intros H. apply accept_iff in H. unfold accepts in H.
  pose proof (decode_bytes s) as Hb.
  assert (Hne : Base58.decode s <> []).
  { intros E. rewrite E in H. destruct H as [[[H _]|[H _]] _]; discriminate. }
  rewrite <- (Base58Proofs.encode_decode s (decode_nonempty_alphabet s Hne)).
  revert H Hb. generalize (Base58.decode s) as d. intros d [Hlen [Hck [Hn Hd]]] Hb.
  unfold wif_string, wif_payload. rewrite tie_str_ck_take, tie_priv_len, tie_magic, Hn, Hd. f_equal.
  set (kb := firstn 32 (skipn 1 d)) in *.
  assert (Hbk : Bytes kb).
  { unfold kb, Bytes in *. rewrite <- (firstn_skipn 1 d) in Hb. apply Forall_app in Hb as [_ Hb].
    rewrite <- (firstn_skipn 32 (skipn 1 d)) in Hb. apply Forall_app in Hb. tauto. }
  assert (Hlk : length kb = 32%nat).
  { unfold kb. rewrite firstn_length, skipn_length. destruct Hlen as [[E _]|[E _]]; rewrite E; reflexivity. }
  assert (Hpad : pad_to 32 (big_bytes (set_bytes kb)) = kb).
  { rewrite <- Hlk at 1. apply pad_value. exact Hbk. }
  rewrite Hpad.
  assert (Hf33 : firstn 33 d = hd 0 d :: kb).
  { unfold kb. destruct d as [|x d]; [destruct Hlen as [[E _]|[E _]]; discriminate|]. reflexivity. }
  destruct Hlen as [[E37 ->]|[E38 [Em ->]]].
  - rewrite E37 in Hck. change (37 - 4)%nat with 33%nat in Hck.
    rewrite app_nil_r. change ([hd 0 d] ++ kb) with (hd 0 d :: kb).
    rewrite <- Hf33, <- Hck. apply firstn_skipn.
  - rewrite E38 in Hck. change (38 - 4)%nat with 34%nat in Hck.
    assert (Hf34 : firstn 34 d = [hd 0 d] ++ kb ++ [1]).
    { rewrite firstn_S_nth by lia. rewrite Hf33, Em. reflexivity. }
    rewrite <- Hf34, <- Hck. apply firstn_skipn.
Qed.

(* ---------- public key ---------- *)
Section Pub.
Variable base_mult : N -> N * N.
Hypothesis base_mult_field : forall d, fst (base_mult d) < 256 ^ 32 /\ snd (base_mult d) < 256 ^ 32.

Theorem pubkey_len w :
  length (serialize_pubkey base_mult w) = if w_compress w then 33%nat else 65%nat.
Proof.
  unfold serialize_pubkey, ser_compressed, ser_uncompressed.
  destruct (base_mult_field (w_d w)) as [Hx Hy].
  assert (Lx : (length (big_bytes (fst (base_mult (w_d w)))) <= 32)%nat) by (apply big_bytes_length_le; exact Hx).
  assert (Ly : (length (big_bytes (snd (base_mult (w_d w)))) <= 32)%nat) by (apply big_bytes_length_le; exact Hy).
  destruct (w_compress w); cbn [length].
  - rewrite pad_to_length by exact Lx. reflexivity.
  - rewrite app_length, !pad_to_length by assumption. reflexivity.
Qed.

(* the serialisation is the SEC1 encoding of the point: format byte by flag/parity, then the
   32-byte big-endian coordinates *)
Theorem pubkey_format w :
  let p := base_mult (w_d w) in
  exists xb yb, length xb = 32%nat /\ length yb = 32%nat /\ set_bytes xb = fst p /\ set_bytes yb = snd p /\
    serialize_pubkey base_mult w =
      if w_compress w then (if N.odd (snd p) then 3 else 2) :: xb else 4 :: xb ++ yb.
Proof.
  intros p. destruct (base_mult_field (w_d w)) as [Hx Hy]. fold p in Hx, Hy.
  exists (pad_to 32 (big_bytes (fst p))), (pad_to 32 (big_bytes (snd p))).
  assert (Hv : forall v, set_bytes (pad_to 32 (big_bytes v)) = v).
  { intros v. unfold set_bytes, pad_to, big_bytes. rewrite value_repeat0. apply value_digits. lia. }
  repeat split.
  - apply pad_to_length, big_bytes_length_le, Hx.
  - apply pad_to_length, big_bytes_length_le, Hy.
  - apply Hv.
  - apply Hv.
Qed.
End Pub.

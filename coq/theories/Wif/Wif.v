(* Model of wif.go: NewWIF, DecodeWIF, WIF.String, WIF.SerializePubKey, WIF.IsForNet, paddedAppend.
   Every integer literal of DecodeWIF / WIF.String and the constant compressMagic come from
   Gen.Xbchutil (regenerated from the Go source on every run).  bchec.PrivKeyBytesLen (= 32) is a
   constant of the dependency bchec; the harness checks its value on every run.
   No proofs here (WifProofs.v). *)
From BU Require Import Lib.Bytes Lib.Radix Lib.Sha256 Lib.PolyMod Base58.Base58 Gen.Xbchutil.

(* ---------- Go primitives ---------- *)
(* l[lo:hi] with the run-time bounds check *)
Definition slice_res (l : list N) (lo hi : nat) : res (list N) :=
  if ((lo <=? hi) && (hi <=? length l))%nat then Ok (firstn (hi - lo) (skipn lo l)) else Panic 2.

(* big.Int.Bytes(): minimal big-endian bytes; big.Int.SetBytes: big-endian value *)
Definition big_bytes (d : N) : list N := digits 256 d.
Definition set_bytes (b : list N) : N := value 256 b 0.

(* paddedAppend(size, dst, src) = dst ++ pad_to size src; `int(size)-len(src)` may be negative: no padding *)
Definition pad_to (size : nat) (src : list N) : list N := repeat 0 (size - length src) ++ src.

(* ---------- constants ---------- *)
Definition priv_len : nat := 32.                                  (* bchec.PrivKeyBytesLen *)
Definition magic : N := Z.to_N c_compressMagic.                   (* compressMagic *)
Definition litn (l : list Z) (i : nat) : nat := N.to_nat (lit l i).

Definition len_compressed : nat := (litn lits_DecodeWIF 0 + priv_len + litn lits_DecodeWIF 1 + litn lits_DecodeWIF 2)%nat.
Definition magic_pos : nat := litn lits_DecodeWIF 3.
Definition len_uncompressed : nat := (litn lits_DecodeWIF 4 + priv_len + litn lits_DecodeWIF 5)%nat.
Definition tosum_compressed : nat := (litn lits_DecodeWIF 6 + priv_len + litn lits_DecodeWIF 7)%nat.
Definition tosum_uncompressed : nat := (litn lits_DecodeWIF 8 + priv_len)%nat.
Definition ck_take : nat := litn lits_DecodeWIF 9.
Definition ck_tail : nat := litn lits_DecodeWIF 10.
Definition net_pos : nat := litn lits_DecodeWIF 11.
Definition key_lo : nat := litn lits_DecodeWIF 12.
Definition key_hi : nat := (litn lits_DecodeWIF 13 + priv_len)%nat.
Definition str_ck_take : nat := litn lits_WIF_String 3.

(* ---------- the WIF value ---------- *)
(* PrivKey is a big integer D (plus the public point computed from the same bytes); netID is a byte *)
Record wif := { w_d : N; w_compress : bool; w_net : N }.

(* bchec.PrivKeyFromBytes(curve, key) followed by NewWIF(priv, net, compress) *)
Definition new_wif (key : list N) (net_id : N) (compress : bool) : wif :=
  {| w_d := set_bytes key; w_compress := compress; w_net := net_id |}.

(* PrivKey.Serialize(): D zero-padded to 32 bytes *)
Definition priv_serialize (w : wif) : list N := pad_to priv_len (big_bytes (w_d w)).

Definition is_for_net (w : wif) (net_id : N) : bool := w_net w =? net_id.

(* WIF.String *)
Definition wif_payload (w : wif) : list N :=
  [w_net w] ++ pad_to priv_len (big_bytes (w_d w)) ++ (if w_compress w then [magic] else []).

Definition wif_string (w : wif) : list N :=
  let a := wif_payload w in
  Base58.encode (a ++ firstn str_ck_take (sha256d a)).

(* DecodeWIF.  Error classes: 1 = ErrMalformedPrivateKey, 2 = ErrChecksumMismatch *)
Definition decode_wif (s : list N) : res wif :=
  let decoded := Base58.decode s in
  let n := length decoded in
  do compress <-
     (if (n =? len_compressed)%nat then
        do m <- nth_res decoded magic_pos ;;
        if m =? magic then Ok true else Err 1
      else if (n =? len_uncompressed)%nat then Ok false
      else Err 1) ;;
  do tosum <- slice_res decoded 0 (if compress : bool then tosum_compressed else tosum_uncompressed) ;;
  let cksum := firstn ck_take (sha256d tosum) in
  do tail <- slice_res decoded (n - ck_tail) n ;;
  if list_eqb cksum tail then
    do net <- nth_res decoded net_pos ;;
    do kb <- slice_res decoded key_lo key_hi ;;
    Ok {| w_d := set_bytes kb; w_compress := compress; w_net := net |}
  else Err 2.

(* ---------- public key serialisation (bchec, a dependency) ---------- *)
Section Pub.
(* x, y of D*G as computed by bchec's ScalarBaseMult *)
Variable base_mult : N -> N * N.

(* bchec.PublicKey.SerializeCompressed / SerializeUncompressed *)
Definition ser_compressed (p : N * N) : list N :=
  (if N.odd (snd p) then 3 else 2) :: pad_to 32 (big_bytes (fst p)).
Definition ser_uncompressed (p : N * N) : list N :=
  4 :: pad_to 32 (big_bytes (fst p)) ++ pad_to 32 (big_bytes (snd p)).

Definition serialize_pubkey (w : wif) : list N :=
  if w_compress w then ser_compressed (base_mult (w_d w)) else ser_uncompressed (base_mult (w_d w)).
End Pub.

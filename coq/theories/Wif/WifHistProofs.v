(* Proofs about histories on one WIF value (model: Wif/WifHist.v). *)
From BU Require Import Lib.Bytes Base58.Base58 Wif.Wif Wif.WifProofs Wif.WifHist.

Lemma set_flag_new : forall key net flag b, set_flag (new_wif key net flag) b = new_wif key net b.
Proof. intros key net flag b. reflexivity. Qed.

(* every answer of every history is the answer of a fresh value with the flag in force *)
Lemma history_spec : forall (base_mult : N -> N * N) key net ops flag,
  wrun base_mult (new_wif key net flag) ops = wspec base_mult key net flag ops.
Proof.
  intros bm key net ops. induction ops as [|o t IH]; intros flag; [reflexivity|].
  destruct o as [b| |]; cbn [wrun wspec wstep fst snd].
  - rewrite set_flag_new. f_equal. apply IH.
  - f_equal. apply IH.
  - f_equal. apply IH.
Qed.

(* a history changes nothing but the flag: key and network of the value are those it was built with *)
Lemma history_final : forall (base_mult : N -> N * N) key net ops flag,
  wfinal base_mult (new_wif key net flag) ops = new_wif key net (flag_after flag ops).
Proof.
  intros bm key net ops. induction ops as [|o t IH]; intros flag; [reflexivity|].
  destruct o as [b| |]; cbn [wfinal flag_after wstep fst].
  - rewrite set_flag_new. apply IH.
  - apply IH.
  - apply IH.
Qed.

(* so after ANY history the string still decodes to the original key bytes, the flag in force and the network *)
Lemma history_then_decode : forall (base_mult : N -> N * N) key net ops flag,
  Bytes key -> length key = 32%nat -> net < 256 ->
  let w := wfinal base_mult (new_wif key net flag) ops in
  decode_wif (wif_string w) = Ok (new_wif key net (flag_after flag ops)) /\
  priv_serialize w = key /\ w_compress w = flag_after flag ops /\ is_for_net w net = true.
Proof.
  intros bm key net ops flag Hb Hl Hn w. subst w. rewrite history_final.
  destruct (decode_encode key net (flag_after flag ops) Hb Hl Hn) as (H1 & H2 & H3).
  repeat split; assumption.
Qed.

(* Histories on ONE *WIF value (round 4).  CompressPubKey is an exported, assignable field of the Go struct, and
   String / SerializePubKey may be called any number of times in any order: the property's "according to the
   flag" is a statement about the flag IN FORCE at the call, and every result is a fresh value.  Executable model
   of such histories (no proofs here); the correspondence run replays the same histories on the implementation,
   which also overwrites every slice it gets back before the next call. *)
From BU Require Export Lib.Bytes.
From BU Require Import Base58.Base58 Wif.Wif.

Inductive wop :=
| SetFlag (b : bool)    (* w.CompressPubKey = b *)
| Str                   (* w.String() *)
| Ser.                  (* w.SerializePubKey() *)

Section Hist.
Variable base_mult : N -> N * N.

Definition set_flag (w : wif) (b : bool) : wif := {| w_d := w_d w; w_compress := b; w_net := w_net w |}.

(* one call: the new value of the struct and what the call returns (an assignment returns nothing) *)
Definition wstep (w : wif) (o : wop) : wif * list N :=
  match o with
  | SetFlag b => (set_flag w b, [])
  | Str => (w, wif_string w)
  | Ser => (w, serialize_pubkey base_mult w)
  end.

Fixpoint wrun (w : wif) (ops : list wop) : list (list N) :=
  match ops with
  | [] => []
  | o :: t => snd (wstep w o) :: wrun (fst (wstep w o)) t
  end.

(* what the property prescribes: each answer is that of a FRESH value built from (key, net, flag in force) *)
Fixpoint wspec (key : list N) (net : N) (flag : bool) (ops : list wop) : list (list N) :=
  match ops with
  | [] => []
  | SetFlag b :: t => [] :: wspec key net b t
  | Str :: t => wif_string (new_wif key net flag) :: wspec key net flag t
  | Ser :: t => serialize_pubkey base_mult (new_wif key net flag) :: wspec key net flag t
  end.

(* the flag in force after a history *)
Fixpoint flag_after (flag : bool) (ops : list wop) : bool :=
  match ops with
  | [] => flag
  | SetFlag b :: t => flag_after b t
  | _ :: t => flag_after flag t
  end.

Fixpoint wfinal (w : wif) (ops : list wop) : wif :=
  match ops with
  | [] => w
  | o :: t => wfinal (fst (wstep w o)) t
  end.
End Hist.

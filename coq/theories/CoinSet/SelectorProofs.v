(* The three simple selectors (exact arithmetic: no int64 operation overflows). *)
From BU Require Import Lib.Bytes CoinSet.CoinSet CoinSet.CoinSetProofs.
From Coq Require Import Permutation Sorted ZifyBool.
Open Scope Z_scope.

Notation sat := (satisfies wx).
Notation vax := (va wx).
Notation sumvax := (sumva wx).

Lemma sat_iff target mc total : sat target mc total = true <-> total = target \/ total >= target + mc.
Proof. unfold satisfies, wx. lia. Qed.

(* ---------- what "the shortest qualifying prefix of l" means ----------
   k coins qualify when 1 <= k <= MaxInputs, k <= len(l) and the first k coins meet the target
   predicate.  (The selectors never return the empty prefix, even for target 0.) *)
Definition qualifies (maxin mc target : Z) (l : list coin) (k : nat) : Prop :=
  (1 <= k <= length l)%nat /\ Z.of_nat k <= maxin /\ sat target mc (sumv (firstn k l)) = true.

Definition prefix_sel (maxin mc target : Z) (l : list coin) (r : res coinset) : Prop :=
  match r with
  | Ok s => exists k, cs_list s = firstn k l /\ cs_ok wx s
                      /\ qualifies maxin mc target l k
                      /\ forall j, (j < k)%nat -> ~ qualifies maxin mc target l j
  | Err e => e = 1%N /\ forall j, ~ qualifies maxin mc target l j
  | Panic _ => False
  end.

Lemma firstn_app_len {A} (pre rest : list A) k : firstn (length pre + k) (pre ++ rest) = pre ++ firstn k rest.
Proof. rewrite firstn_app_2. reflexivity. Qed.

Lemma mi_loop_spec maxin mc target rest : forall s,
  cs_ok wx s ->
  (forall j, (1 <= j <= length (cs_list s))%nat -> ~ qualifies maxin mc target (cs_list s ++ rest) j) ->
  prefix_sel maxin mc target (cs_list s ++ rest)
             (mi_loop wx maxin mc target (Z.of_nat (length (cs_list s))) rest s).
Proof.
  induction rest as [|c t IH]; intros s Hok Hnone; cbn [mi_loop].
  - split; [reflexivity|]. intros j Hq. destruct Hq as (Hj & Hq). rewrite app_nil_r in *. apply (Hnone j); [exact Hj|].
    split; [exact Hj|exact Hq].
  - destruct (Z.ltb_spec (Z.of_nat (length (cs_list s))) maxin) as [Hlt|Hge].
    + set (s' := push wx c s).
      assert (Hl' : cs_list s' = cs_list s ++ [c]) by reflexivity.
      assert (Hok' : cs_ok wx s') by (apply push_ok; [apply wx_ok|exact Hok]).
      assert (Hsplit : cs_list s ++ c :: t = cs_list s' ++ t) by (rewrite Hl', <- app_assoc; reflexivity).
      assert (Hfirst : firstn (length (cs_list s')) (cs_list s ++ c :: t) = cs_list s').
      { rewrite Hsplit. rewrite <- (Nat.add_0_r (length (cs_list s'))), firstn_app_len. cbn. apply app_nil_r. }
      destruct (sat target mc (cs_tv s')) eqn:Esat.
      * exists (length (cs_list s')). split; [symmetry; exact Hfirst|]. split; [exact Hok'|]. split.
        -- split; [|split].
           ++ rewrite Hl', !app_length. cbn. lia.
           ++ rewrite Hl', app_length. cbn. lia.
           ++ rewrite Hfirst. destruct Hok' as [Hv _]. unfold wx in Hv at 1. rewrite <- Hv. exact Esat.
        -- intros j Hj Hq. destruct (Nat.eq_dec j 0) as [->|Hj0]; [destruct Hq as ((Hq & _) & _); lia|].
           apply (Hnone j); [|exact Hq]. rewrite Hl', app_length in Hj. cbn in Hj. lia.
      * replace (Z.of_nat (length (cs_list s)) + 1) with (Z.of_nat (length (cs_list s'))) by (rewrite Hl', app_length; cbn; lia).
        rewrite Hsplit. apply IH; [exact Hok'|].
        intros j Hj Hq. rewrite <- Hsplit in Hq.
        destruct (Nat.eq_dec j (length (cs_list s'))) as [->|Hne].
        -- destruct Hq as (_ & _ & Hq). rewrite Hfirst in Hq. destruct Hok' as [Hv _]. unfold wx in Hv at 1.
           rewrite <- Hv in Hq. congruence.
        -- apply (Hnone j); [|exact Hq]. rewrite Hl', app_length in Hj, Hne. cbn in Hj, Hne. lia.
    + split; [reflexivity|]. intros j Hq.
      destruct (Nat.le_gt_cases j (length (cs_list s))) as [Hle|Hgt].
      * apply (Hnone j); [|exact Hq]. destruct Hq as ((Hq & _) & _). lia.
      * destruct Hq as (_ & Hq & _). lia.
Qed.

Theorem min_index_shortest_prefix maxin mc target coins :
  prefix_sel maxin mc target coins (min_index wx maxin mc target coins).
Proof.
  unfold min_index. apply (mi_loop_spec maxin mc target coins cs_empty).
  - apply empty_ok, wx_ok.
  - intros j Hj. cbn in Hj. lia.
Qed.

(* ---------- a selection is valid for the offered coins ---------- *)
Definition sub_multiset (sel offered : list coin) : Prop := exists rest, Permutation (sel ++ rest) offered.

Definition valid_selection (maxin mc target : Z) (offered : list coin) (s : coinset) : Prop :=
  sub_multiset (cs_list s) offered
  /\ (1 <= length (cs_list s))%nat /\ cs_num s <= maxin
  /\ (sumv (cs_list s) = target \/ sumv (cs_list s) >= target + mc)
  /\ cs_tv s = sumv (cs_list s) /\ cs_tva s = sumvax (cs_list s).

Lemma nodup_app_l {A} (a b : list A) : NoDup (a ++ b) -> NoDup a.
Proof.
  induction a as [|x a IH]; cbn [app]; intros H; [constructor|]. inversion H; subst.
  constructor; [|auto]. intros Hin. apply H2. apply in_or_app. left. exact Hin.
Qed.

Lemma sub_multiset_nodup sel offered :
  sub_multiset sel offered -> NoDup (map cid offered) -> NoDup (map cid sel) /\ incl sel offered.
Proof.
  intros [rest Hp] Hnd. split.
  - apply (Permutation_map cid) in Hp. apply Permutation_sym in Hp. apply (Permutation_NoDup Hp) in Hnd.
    rewrite map_app in Hnd. apply nodup_app_l in Hnd. exact Hnd.
  - intros x Hx. apply (Permutation_in _ Hp). apply in_or_app. left. exact Hx.
Qed.

Lemma sub_multiset_perm sel a b : Permutation a b -> sub_multiset sel a -> sub_multiset sel b.
Proof. intros Hp [rest Hr]. exists rest. rewrite Hr. exact Hp. Qed.

Lemma prefix_valid maxin mc target l s :
  prefix_sel maxin mc target l (Ok s) -> valid_selection maxin mc target l s.
Proof.
  intros (k & Hl & [Hv Ha] & ((Hk1 & Hk2) & Hmax & Hsat) & _).
  assert (Hlen : length (cs_list s) = k) by (rewrite Hl, firstn_length; lia).
  unfold valid_selection. split; [|split; [|split; [|split; [|split]]]].
  - exists (skipn k l). rewrite Hl. apply Permutation_refl', firstn_skipn.
  - lia.
  - unfold cs_num. lia.
  - rewrite Hl. apply sat_iff, Hsat.
  - exact Hv.
  - exact Ha.
Qed.

(* ---------- the sorted selectors ---------- *)
Definition desc_by (key : coin -> Z) (l : list coin) : Prop := StronglySorted (fun a b => key a >= key b) l.

Lemma sorted_desc key l : sorted_by (reverse (fun a b => key a <? key b)) l -> desc_by key l.
Proof.
  unfold sorted_by, desc_by, reverse. induction 1 as [|x l Hl IH Hx]; constructor; [exact IH|].
  eapply Forall_impl; [|exact Hx]. cbn. intros; lia.
Qed.

Section Sorted.
  Variable sort_by : (coin -> coin -> bool) -> list coin -> list coin.
  Hypothesis Hsort : sort_spec sort_by.

  (* MinNumber: the shortest qualifying prefix of a value-descending permutation of the coins *)
  Theorem min_number_shortest_prefix maxin mc target coins :
    exists p, Permutation p coins /\ desc_by cval p
              /\ prefix_sel maxin mc target p (min_number wx sort_by maxin mc target coins).
  Proof.
    exists (sort_by (reverse (less_amt)) coins). destruct (Hsort (reverse less_amt) coins) as [Hp Hs].
    split; [exact Hp|]. split; [apply sorted_desc, Hs, swo_key_rev|].
    unfold min_number. apply min_index_shortest_prefix.
  Qed.

  Theorem max_value_age_shortest_prefix maxin mc target coins :
    exists p, Permutation p coins /\ desc_by vax p
              /\ prefix_sel maxin mc target p (max_value_age wx sort_by maxin mc target coins).
  Proof.
    exists (sort_by (reverse (less_va wx)) coins). destruct (Hsort (reverse (less_va wx)) coins) as [Hp Hs].
    split; [exact Hp|]. split; [apply sorted_desc, Hs, (swo_key_rev vax)|].
    unfold max_value_age. apply min_index_shortest_prefix.
  Qed.

  Theorem select_valid_all maxin mc target coins s :
    (min_index wx maxin mc target coins = Ok s
     \/ min_number wx sort_by maxin mc target coins = Ok s
     \/ max_value_age wx sort_by maxin mc target coins = Ok s) ->
    valid_selection maxin mc target coins s.
  Proof.
    intros [H|[H|H]].
    - apply prefix_valid. rewrite <- H. apply min_index_shortest_prefix.
    - destruct (min_number_shortest_prefix maxin mc target coins) as (p & Hp & _ & Hsel). rewrite H in Hsel.
      apply prefix_valid in Hsel. destruct Hsel as (Hsub & Hrest). split; [|exact Hrest].
      eapply sub_multiset_perm; eassumption.
    - destruct (max_value_age_shortest_prefix maxin mc target coins) as (p & Hp & _ & Hsel). rewrite H in Hsel.
      apply prefix_valid in Hsel. destruct Hsel as (Hsub & Hrest). split; [|exact Hrest].
      eapply sub_multiset_perm; eassumption.
  Qed.
End Sorted.

(* ---------- tie-breaking of the unstable sort cannot change what MinNumber achieves ----------
   two value-descending permutations of the same coins carry the same value sequence, and the
   prefix scan only looks at values *)
Lemma desc_perm_keys key : forall a b, desc_by key a -> desc_by key b -> Permutation a b -> map key a = map key b.
Proof.
  induction a as [|x a IH]; intros b Ha Hb Hp.
  - apply Permutation_nil in Hp. subst. reflexivity.
  - destruct b as [|y b]; [apply Permutation_sym, Permutation_nil in Hp; discriminate|].
    inversion Ha as [|? ? Ha' Hx]; subst. inversion Hb as [|? ? Hb' Hy]; subst.
    assert (Hk : key x = key y).
    { assert (In x (y :: b)) by (apply (Permutation_in _ Hp); left; reflexivity).
      assert (In y (x :: a)) by (apply (Permutation_in _ (Permutation_sym Hp)); left; reflexivity).
      rewrite Forall_forall in Hx, Hy. cbn in *.
      destruct H as [->|H]; [reflexivity|]. destruct H0 as [->|H0]; [reflexivity|].
      specialize (Hx _ H0). specialize (Hy _ H). lia. }
    cbn [map]. f_equal; [exact Hk|].
    (* remove one element of key (key x) from both *)
    destruct (Permutation_vs_cons_inv (Permutation_sym Hp)) as (b1 & b2 & Eb).
    destruct b1 as [|z b1]; cbn [app] in Eb.
    + injection Eb as Ey Eb'. subst y b. apply IH; auto. eapply Permutation_cons_inv; eassumption.
    + injection Eb as Ey Eb'. subst z b.
      (* y :: b1 ++ x :: b2, with key x = key y: swap x and y *)
      assert (Hb2 : desc_by key (b1 ++ y :: b2)).
      { clear - Hb' Hy Hk. unfold desc_by in *.
        induction b1 as [|z b1 IHb]; cbn [app] in *.
        - inversion Hb'; subst. constructor; [assumption|]. inversion Hy; subst. assumption.
        - inversion Hb' as [|? ? Hb1 Hz]; subst. inversion Hy as [|? ? Hyz Hy']; subst.
          constructor; [apply IHb; assumption|].
          rewrite Forall_app in *. destruct Hz as [Hz1 Hz2]. split; [exact Hz1|].
          inversion Hz2; subst. constructor; [lia|assumption]. }
      assert (Hp2 : Permutation a (b1 ++ y :: b2)).
      { apply (Permutation_cons_inv (a := x)). rewrite Hp.
        rewrite <- (Permutation_middle b1 b2 x), <- (Permutation_middle b1 b2 y). apply perm_swap. }
      rewrite (IH _ Ha' Hb2 Hp2). rewrite !map_app. cbn [map]. rewrite Hk. reflexivity.
Qed.

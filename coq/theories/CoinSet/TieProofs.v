(* Tie-breaking by the unstable sort cannot change what MinNumber achieves: two value-descending
   permutations of the same coins carry the same value sequence, and the prefix scan looks at
   values only.  (For MaxValueAge the analogous statement is false: coins of equal value-age may
   have different values, so the theorems there quantify over the permutation.) *)
From BU Require Import Lib.Bytes CoinSet.CoinSet CoinSet.CoinSetProofs CoinSet.SelectorProofs.
From Coq Require Import Permutation Sorted ZifyBool.
Open Scope Z_scope.

Lemma sumv_keys : forall a b, map cval a = map cval b -> sumv a = sumv b.
Proof.
  induction a as [|x a IH]; intros [|y b] H; try discriminate; [reflexivity|].
  cbn [map] in H. injection H as Hx Ht. rewrite !sumv_cons, Hx, (IH b Ht). reflexivity.
Qed.

Lemma firstn_keys k : forall a b, map cval a = map cval b -> map cval (firstn k a) = map cval (firstn k b).
Proof. intros a b H. rewrite <- !firstn_map, H. reflexivity. Qed.

Lemma qualifies_keys maxin mc target a b k :
  map cval a = map cval b -> qualifies maxin mc target a k -> qualifies maxin mc target b k.
Proof.
  intros H (Hk & Hm & Hs). split; [|split; [exact Hm|]].
  - rewrite <- (map_length cval b), <- H, map_length. exact Hk.
  - rewrite <- (sumv_keys _ _ (firstn_keys k a b H)). exact Hs.
Qed.

(* outcomes of the prefix scan on two lists with the same value sequence *)
Definition same_outcome (r r' : res coinset) : Prop :=
  match r, r' with
  | Ok s, Ok s' => map cval (cs_list s) = map cval (cs_list s') /\ cs_tv s = cs_tv s' /\ cs_num s = cs_num s'
  | Err e, Err e' => e = e'
  | _, _ => False
  end.

Lemma prefix_sel_keys maxin mc target a b r r' :
  map cval a = map cval b -> prefix_sel maxin mc target a r -> prefix_sel maxin mc target b r' -> same_outcome r r'.
Proof.
  intros H Ha Hb. pose proof (eq_sym H) as H'.
  destruct r as [s|e|p], r' as [s'|e'|p']; cbn in *; try contradiction.
  - destruct Ha as (k & Hl & [Hv _] & Hq & Hmin). destruct Hb as (k' & Hl' & [Hv' _] & Hq' & Hmin').
    assert (k = k').
    { destruct (Nat.lt_trichotomy k k') as [Hlt|[E|Hgt]]; [|exact E|].
      - exfalso. apply (Hmin' k Hlt). eapply qualifies_keys; eassumption.
      - exfalso. apply (Hmin k' Hgt). eapply qualifies_keys; eassumption. }
    subst k'. assert (Hk : map cval (cs_list s) = map cval (cs_list s')) by (rewrite Hl, Hl'; apply firstn_keys, H).
    split; [exact Hk|]. split.
    + unfold wx in Hv, Hv'. rewrite Hv, Hv'. apply sumv_keys, Hk.
    + unfold cs_num. rewrite <- (map_length cval (cs_list s)), Hk, map_length. reflexivity.
  - destruct Ha as (k & _ & _ & Hq & _). destruct Hb as (_ & Hnone). apply (Hnone k). eapply qualifies_keys; eassumption.
  - destruct Hb as (k & _ & _ & Hq & _). destruct Ha as (_ & Hnone). apply (Hnone k). eapply qualifies_keys; eassumption.
  - destruct Ha as [-> _]. destruct Hb as [-> _]. reflexivity.
Qed.

Theorem min_number_tie_independent sa sb :
  sort_spec sa -> sort_spec sb -> forall maxin mc target coins,
  same_outcome (min_number wx sa maxin mc target coins) (min_number wx sb maxin mc target coins).
Proof.
  intros Ha Hb maxin mc target coins.
  destruct (min_number_shortest_prefix sa Ha maxin mc target coins) as (p & Hp & Hd & Hsel).
  destruct (min_number_shortest_prefix sb Hb maxin mc target coins) as (p' & Hp' & Hd' & Hsel').
  eapply prefix_sel_keys; [|exact Hsel|exact Hsel'].
  apply desc_perm_keys; [exact Hd|exact Hd'|]. rewrite Hp, Hp'. reflexivity.
Qed.

(* The bridge between the two instances of the model: inside stated bounds no int64 operation of
   the selectors wraps, so the wrap-around instance (w64, the one compared with Go on every run)
   and the exact instance (wx, the one the selector theorems are about) compute the same thing. *)
From BU Require Import Lib.Bytes CoinSet.CoinSet CoinSet.CoinSetProofs CoinSet.SelectorProofs CoinSet.MinPrioProofs.
From Coq Require Import Permutation Sorted ZifyBool.
Open Scope Z_scope.

Definition K61 : Z := 2305843009213693952.   (* 2^61 *)
Definition K62 : Z := 4611686018427387904.   (* 2^62 *)

Definition nonneg (c : coin) : Prop := 0 <= cval c /\ 0 <= cconfs c.

Lemma nonneg_va c : nonneg c -> 0 <= vax c.
Proof. unfold nonneg, va, wx. nia. Qed.

Lemma nonneg_sumv l : Forall nonneg l -> 0 <= sumv l.
Proof. induction 1 as [|x l [Hx _] _ IH]; [cbn; lia|rewrite sumv_cons; lia]. Qed.

Lemma nonneg_sumva l : Forall nonneg l -> 0 <= sumvax l.
Proof. intros H. apply sumva_nonneg. eapply Forall_impl; [|exact H]. apply nonneg_va. Qed.

Lemma in_sumv x l : Forall nonneg l -> In x l -> cval x <= sumv l.
Proof.
  induction 1 as [|y l [Hy _] Hl IH]; intros Hin; [destruct Hin|]. rewrite sumv_cons.
  pose proof (nonneg_sumv l Hl). destruct Hin as [->|Hin]; [lia|]. specialize (IH Hin). lia.
Qed.

Lemma in_sumva x l : Forall nonneg l -> In x l -> vax x <= sumvax l.
Proof.
  induction 1 as [|y l Hy Hl IH]; intros Hin; [destruct Hin|]. rewrite sumva_cons.
  pose proof (nonneg_sumva l Hl). pose proof (nonneg_va y Hy). destruct Hin as [->|Hin]; [lia|]. specialize (IH Hin). lia.
Qed.

(* ---------- value-age, Less, push ---------- *)
Lemma va_agree c : nonneg c -> vax c <= K61 -> va w64 c = vax c.
Proof. intros Hn Hb. pose proof (nonneg_va c Hn). unfold va, wx in *. apply w64_id. unfold K61 in *. lia. Qed.

Definition small (l : list coin) : Prop := Forall nonneg l /\ sumv l <= K62 /\ sumvax l <= K61.

Lemma small_in l x : small l -> In x l -> va w64 x = vax x.
Proof. intros (Hn & _ & Ha) Hin. apply va_agree; [rewrite Forall_forall in Hn; auto|]. pose proof (in_sumva x l Hn Hin). lia. Qed.

Lemma small_perm a b : Permutation a b -> small a -> small b.
Proof.
  intros Hp (Hn & Hv & Ha). split; [eapply Forall_perm; eassumption|].
  rewrite <- (sumv_perm _ _ Hp), <- (sumva_perm wx _ _ Hp). auto.
Qed.

Lemma small_sub sel l : sub_multiset sel l -> small l -> small sel.
Proof.
  intros [rest Hp] Hs. apply (small_perm _ _ (Permutation_sym Hp)) in Hs. destruct Hs as (Hn & Hv & Ha).
  apply Forall_app in Hn as [Hn1 Hn2]. rewrite sumv_app in Hv. rewrite sumva_app in Ha.
  pose proof (nonneg_sumv _ Hn2). pose proof (nonneg_sumva _ Hn2). split; [exact Hn1|]. split; lia.
Qed.

Lemma small_app_l a b : small (a ++ b) -> small a.
Proof. apply small_sub. exists b. reflexivity. Qed.
Lemma small_app_r a b : small (a ++ b) -> small b.
Proof. apply small_sub. exists a. apply Permutation_app_comm. Qed.

Lemma sumva_agree l : small l -> sumva w64 l = sumvax l.
Proof.
  intros Hs. induction l as [|x l IH]; [reflexivity|]. rewrite !sumva_cons.
  rewrite (small_in _ x Hs) by (left; reflexivity). rewrite IH; [reflexivity|]. apply (small_app_r [x] l Hs).
Qed.

Lemma push_agree c s :
  nonneg c -> 0 <= cs_tv s -> 0 <= cs_tva s -> cs_tv s + cval c <= K62 -> cs_tva s + vax c <= K61 ->
  push w64 c s = push wx c s.
Proof.
  intros Hn Hv Ha Hbv Hba. pose proof (nonneg_va c Hn) as Hva.
  unfold push. rewrite (va_agree c Hn) by lia. destruct Hn as [Hc _].
  rewrite (w64_id (cs_tv s + cval c)), (w64_id (cs_tva s + vax c)) by (unfold K62, K61 in *; lia). reflexivity.
Qed.

(* a set whose caches are the exact sums of small contents *)
Definition okx (s : coinset) : Prop := cs_tv s = sumv (cs_list s) /\ cs_tva s = sumvax (cs_list s).

Lemma okx_push c s : okx s -> okx (push wx c s).
Proof. intros H. apply (proj1 (cs_ok_wx _)). apply push_ok; [apply wx_ok|]. apply cs_ok_wx, H. Qed.

Lemma fold_push_agree l : forall s, okx s -> small (cs_list s ++ l) ->
  fold_left (fun s c => push w64 c s) l s = fold_left (fun s c => push wx c s) l s.
Proof.
  induction l as [|x l IH]; intros s Hok Hs; cbn [fold_left]; [reflexivity|].
  assert (Hs' : small ((cs_list s ++ [x]) ++ l)) by (rewrite <- app_assoc; exact Hs).
  pose proof (small_app_l _ _ Hs') as (Hn & Hv & Ha). destruct Hok as [Ev Ea].
  apply Forall_app in Hn as [Hn1 Hn2]. inversion Hn2 as [|? ? Hx _]; subst.
  rewrite sumv_app, sumv_cons in Hv. rewrite sumva_app, sumva_cons in Ha. cbn in Hv, Ha.
  pose proof (nonneg_sumv _ Hn1). pose proof (nonneg_sumva _ Hn1).
  rewrite push_agree; try lia; try assumption.
  apply IH; [apply okx_push; split; assumption|exact Hs'].
Qed.

Lemma new_coinset_agree l : small l -> new_coinset w64 l = new_coinset wx l.
Proof. intros Hs. unfold new_coinset. apply fold_push_agree; [split; reflexivity|exact Hs]. Qed.

(* ---------- target predicate, prefix scan ---------- *)
Lemma satisfies_agree t mc total : - K62 - K61 <= t + mc <= K62 + K61 -> satisfies w64 t mc total = sat t mc total.
Proof. intros H. unfold satisfies, wx. unfold K62, K61 in *. rewrite w64_id by lia. reflexivity. Qed.

Lemma mi_loop_agree maxin mc target : - K62 - K61 <= target + mc <= K62 + K61 ->
  forall rest n s, okx s -> small (cs_list s ++ rest) ->
  mi_loop w64 maxin mc target n rest s = mi_loop wx maxin mc target n rest s.
Proof.
  intros Ht. induction rest as [|x rest IH]; intros n s Hok Hs; cbn [mi_loop]; [reflexivity|].
  destruct (n <? maxin); [|reflexivity].
  assert (Hs' : small ((cs_list s ++ [x]) ++ rest)) by (rewrite <- app_assoc; exact Hs).
  pose proof (small_app_l _ _ Hs') as (Hn & Hv & Ha). destruct Hok as [Ev Ea].
  apply Forall_app in Hn as [Hn1 Hn2]. inversion Hn2 as [|? ? Hx _]; subst.
  rewrite sumv_app, sumv_cons in Hv. rewrite sumva_app, sumva_cons in Ha. cbn in Hv, Ha.
  pose proof (nonneg_sumv _ Hn1). pose proof (nonneg_sumva _ Hn1).
  rewrite push_agree; try lia; try assumption.
  rewrite satisfies_agree by exact Ht.
  destruct (sat target mc (cs_tv (push wx x s))); [reflexivity|].
  apply IH; [apply okx_push; split; assumption|exact Hs'].
Qed.

Lemma min_index_agree maxin mc target coins :
  - K62 - K61 <= target + mc <= K62 + K61 -> small coins ->
  min_index w64 maxin mc target coins = min_index wx maxin mc target coins.
Proof. intros Ht Hs. unfold min_index. apply mi_loop_agree; [exact Ht|split; reflexivity|exact Hs]. Qed.

(* sort.Sort only looks at its elements through Less *)
Definition sort_local (sort_by : (coin -> coin -> bool) -> list coin -> list coin) : Prop :=
  forall less less' l, (forall a b, In a l -> In b l -> less a b = less' a b) -> sort_by less l = sort_by less' l.

Lemma less_va_agree l a b : small l -> In a l -> In b l -> less_va w64 a b = less_va wx a b.
Proof. intros Hs Ha Hb. unfold less_va. rewrite (small_in l a Hs Ha), (small_in l b Hs Hb). reflexivity. Qed.

(* ---------- bounds under which nothing wraps ---------- *)
Definition inb (mc minavg target : Z) (coins : list coin) : Prop :=
  small coins /\ - K61 <= mc <= K61
  /\ - K62 + sumv coins <= target <= K62 - sumv coins
  /\ - K61 <= minavg /\ (0 < minavg -> minavg * (Z.of_nat (length coins) + 1) <= K61).

Lemma inb_target mc minavg target coins : inb mc minavg target coins -> - K62 - K61 <= target + mc <= K62 + K61.
Proof. intros ((Hn & _) & Hmc & Ht & _). pose proof (nonneg_sumv _ Hn). lia. Qed.

Lemma quot_bound a b : 0 < b -> - Z.abs a <= Z.quot a b <= Z.abs a.
Proof.
  intros Hb. destruct (Z.le_gt_cases 0 a) as [Ha|Ha].
  - rewrite Z.quot_div_nonneg by lia. pose proof (Z.mul_div_le a b Hb). pose proof (Z.div_pos a b Ha Hb). nia.
  - replace a with (- (- a)) at 2 3 by lia. rewrite Z.quot_opp_l by lia. rewrite Z.quot_div_nonneg by lia.
    pose proof (Z.mul_div_le (- a) b Hb). pose proof (Z.div_pos (- a) b ltac:(lia) Hb). nia.
Qed.

Lemma new_minavg_agree minavg s nl :
  0 < minavg -> 0 < nl -> 0 <= cs_num s -> 0 <= cs_tva s <= K61 -> minavg * (cs_num s + nl) <= K61 ->
  new_minavg w64 minavg s nl = new_minavg wx minavg s nl.
Proof.
  intros Hm Hn Hnum Ha Hb. unfold new_minavg. cbv zeta. lits.
  assert (H1 : 0 <= minavg * (cs_num s + nl)) by nia.
  rewrite (w64_id (minavg * (cs_num s + nl))) by (unfold K61 in *; lia).
  rewrite (w64_id (minavg * (cs_num s + nl) - cs_tva s)) by (unfold K61 in *; lia).
  pose proof (quot_bound (minavg * (cs_num s + nl) - cs_tva s) nl Hn) as Hq.
  rewrite (w64_id (Z.quot (minavg * (cs_num s + nl) - cs_tva s) nl + 1)) by (unfold K61 in *; lia).
  reflexivity.
Qed.

(* the derived requirement stays between -K61 and the current one *)
Lemma new_minavg_bounds minavg s nl :
  0 < minavg -> 0 <= cs_num s -> 0 < nl -> minavg * cs_num s <= cs_tva s -> 0 <= cs_tva s <= K61 ->
  - K61 <= new_minavg wx minavg s nl <= minavg.
Proof.
  intros Hm Hnum Hn Hh Ha. pose proof (new_minavg_ceil minavg s nl Hn) as Hceil.
  unfold new_minavg, wx in *. lits. set (need := minavg * (cs_num s + nl) - cs_tva s) in *.
  assert (Hneed : need <= minavg * nl) by (subst need; lia).
  pose proof (Z.quot_rem' need nl) as Hqr. pose proof (quot_bound need nl Hn) as Hq.
  destruct (Z.ltb_spec 0 need) as [Hpos|Hneg].
  - pose proof (Z.rem_bound_pos need nl ltac:(lia) Hn) as Hb.
    replace (need >? 0) with true in * by lia. cbn [andb] in *.
    destruct (Z.eqb_spec (Z.rem need nl) 0) as [E|E]; cbn [negb] in *; split; try nia.
  - replace (need >? 0) with false in * by lia. cbn [andb] in *.
    pose proof (Z.rem_bound_pos_neg need nl Hn ltac:(lia)). split; [|nia].
    assert (- K61 <= need) by (subst need; nia). lia.
Qed.

Lemma pop_push_w64 x s :
  nonneg x -> 0 <= cs_tv s -> 0 <= cs_tva s -> cs_tv s + cval x <= K62 -> cs_tva s + vax x <= K61 ->
  snd (pop w64 (push wx x s)) = s.
Proof.
  intros Hn Hv Ha Hbv Hba. pose proof (nonneg_va x Hn) as Hva.
  unfold pop, push. cbn [cs_list]. rewrite rev_app_distr. cbn [rev app snd]. unfold removed. cbn [cs_tv cs_tva].
  rewrite rev_involutive. rewrite (va_agree x Hn) by lia. unfold wx at 1 2. destruct Hn as [Hc _].
  rewrite (w64_id (cs_tv s + cval x - cval x)), (w64_id (cs_tva s + vax x - vax x)) by (unfold K62, K61 in *; lia).
  destruct s as [l v a]. cbn. f_equal; lia.
Qed.

Lemma small_drop l x t : small (l ++ x :: t) -> small (l ++ t).
Proof.
  apply small_sub. exists [x]. rewrite <- app_assoc. apply Permutation_app_head.
  apply Permutation_sym, Permutation_cons_append.
Qed.

Lemma extend_agree maxin mc minavg target : - K62 - K61 <= target + mc <= K62 + K61 ->
  forall lows s, okx s -> small (cs_list s ++ lows) ->
  extend w64 maxin mc minavg target lows s = extend wx maxin mc minavg target lows s.
Proof.
  intros Ht. induction lows as [|x t IH]; intros s Hok Hs; cbn [extend]; [reflexivity|]. rewrite lit_skip_va_eq.
  destruct (cs_num s >=? maxin); [reflexivity|].
  rewrite (small_in _ x Hs) by (apply in_or_app; right; left; reflexivity).
  pose proof (small_drop _ _ _ Hs) as Hdrop.
  destruct (vax x =? 0); [apply IH; assumption|].
  assert (Hs' : small ((cs_list s ++ [x]) ++ t)) by (rewrite <- app_assoc; exact Hs).
  pose proof (small_app_l _ _ Hs') as (Hn & Hv & Ha). destruct Hok as [Ev Ea].
  apply Forall_app in Hn as [Hn1 Hn2]. inversion Hn2 as [|? ? Hx _]; subst.
  rewrite sumv_app, sumv_cons in Hv. rewrite sumva_app, sumva_cons in Ha. cbn in Hv, Ha.
  pose proof (nonneg_sumv _ Hn1). pose proof (nonneg_sumva _ Hn1).
  rewrite push_agree; try lia; try assumption.
  rewrite satisfies_agree by exact Ht.
  destruct ((Z.quot (cs_tva (push wx x s)) (cs_num (push wx x s)) <? minavg) || negb (sat target mc (cs_tv (push wx x s)))).
  - rewrite pop_push_w64, pop_push_wx; try lia; try assumption. apply IH; [split; assumption|exact Hdrop].
  - apply IH; [apply okx_push; split; assumption|exact Hs'].
Qed.

Lemma find_cutoff_agree minavg l : small l -> forall pc i, incl pc l ->
  find_cutoff w64 minavg pc i = find_cutoff wx minavg pc i.
Proof.
  intros Hs. induction pc as [|x pc IH]; intros i Hincl; cbn [find_cutoff]; [reflexivity|].
  rewrite (small_in l x Hs) by (apply Hincl; left; reflexivity).
  destruct (vax x >=? minavg); [reflexivity|]. apply IH. intros y Hy. apply Hincl. right. exact Hy.
Qed.

Lemma find_cutoff_low minavg : forall pc i c,
  find_cutoff wx minavg pc i = Some c -> exists n, c = (i + n)%nat /\ Forall (fun x => vax x < minavg) (firstn n pc).
Proof.
  induction pc as [|y t IH]; intros i c H; cbn [find_cutoff] in H; [discriminate|].
  destruct (Z.geb_spec (vax y) minavg) as [Hge|Hlt].
  - injection H as <-. exists 0%nat. split; [lia|constructor].
  - apply IH in H as (n & -> & Hn). exists (S n). split; [lia|]. cbn [firstn]. constructor; assumption.
Qed.

(* ---------- the priority selector ---------- *)
Section Bridge.
  Variable sort_by : (coin -> coin -> bool) -> list coin -> list coin.
  Hypothesis Hsort : sort_spec sort_by.
  Hypothesis Hloc : sort_local sort_by.

  Lemma min_number_agree maxin mc target coins :
    - K62 - K61 <= target + mc <= K62 + K61 -> small coins ->
    min_number w64 sort_by maxin mc target coins = min_number wx sort_by maxin mc target coins.
  Proof.
    intros Ht Hs. unfold min_number. apply min_index_agree; [exact Ht|].
    eapply small_perm; [apply Permutation_sym, (proj1 (Hsort _ coins))|exact Hs].
  Qed.

  Lemma max_value_age_agree maxin mc target coins :
    - K62 - K61 <= target + mc <= K62 + K61 -> small coins ->
    max_value_age w64 sort_by maxin mc target coins = max_value_age wx sort_by maxin mc target coins.
  Proof.
    intros Ht Hs. unfold max_value_age.
    rewrite (Hloc (reverse (less_va w64)) (reverse (less_va wx)) coins)
      by (intros a b Ha Hb; unfold reverse; apply (less_va_agree coins); assumption).
    apply min_index_agree; [exact Ht|].
    eapply small_perm; [apply Permutation_sym, (proj1 (Hsort _ coins))|exact Hs].
  Qed.

  (* the recursive calls agree whenever their arguments are within bounds *)
  Definition rec_agree (rec64 recx : recsel) (low : list coin) : Prop :=
    forall nl mc a t, inb mc a t low -> rec64 nl mc a t low = recx nl mc a t low.

  Lemma topup_agree rec64 recx maxin mc minavg target low hi all rest :
    inb mc minavg target all -> Permutation ((low ++ hi) ++ rest) all ->
    hi <> [] -> Forall (fun c => vax c < minavg) low -> Forall (fun c => minavg <= vax c) hi ->
    rec_ok recx low -> rec_agree rec64 recx low ->
    forall k nl, 0 < nl ->
      topup w64 rec64 maxin mc minavg target (Z.of_nat (length low)) low hi k nl
      = topup wx recx maxin mc minavg target (Z.of_nat (length low)) low hi k nl.
  Proof.
    intros Hin Hp Hne Hlow Hhi Hrok Hrag.
    pose proof Hin as (Hsall & Hmc & Htg & Hmlo & Hmhi).
    assert (Hslh : small (low ++ hi)) by (eapply small_sub; [exists rest; exact Hp|exact Hsall]).
    pose proof (small_app_l _ _ Hslh) as Hslow. pose proof (small_app_r _ _ Hslh) as Hshi.
    assert (Hsum : sumv low + sumv hi <= sumv all).
    { rewrite <- (sumv_perm _ _ Hp), !sumv_app. destruct Hsall as (Hn & _).
      apply (Forall_perm _ _ _ (Permutation_sym Hp)) in Hn. apply Forall_app in Hn as [_ Hn]. pose proof (nonneg_sumv _ Hn). lia. }
    assert (Hlen : Z.of_nat (length low) + Z.of_nat (length hi) <= Z.of_nat (length all)).
    { rewrite <- (Permutation_length Hp), !app_length. lia. }
    induction k as [|k IH]; intros nl Hnl; cbn [topup]; [reflexivity|]. rewrite lit_topup_slack_eq.
    destruct (Z.leb_spec nl (Z.of_nat (length low))) as [Hle|Hgt]; cbn [andb]; [|reflexivity].
    destruct (nl + (Z.of_nat (length hi) - 1) + 1 <=? maxin); [|reflexivity].
    destruct (Z.eqb_spec nl 0) as [Hz|_]; [lia|].
    (* low is not empty, so the requirement is positive *)
    assert (Hm : 0 < minavg).
    { destruct low as [|x low']; [cbn in Hle; lia|]. inversion Hlow; subst.
      destruct Hslow as (Hn & _). inversion Hn; subst. pose proof (nonneg_va x H3). lia. }
    rewrite (new_coinset_agree hi Hshi).
    pose proof (new_coinset_tv hi) as Etv. pose proof (new_coinset_tva hi) as Etva. pose proof (new_coinset_num hi) as Enum.
    destruct Hshi as (Hnhi & Hvhi & Hahi). pose proof (nonneg_sumv _ Hnhi). pose proof (nonneg_sumva _ Hnhi).
    destruct Hslow as (Hnlow & _). pose proof (nonneg_sumv _ Hnlow).
    assert (Hh : 1 <= Z.of_nat (length hi)) by (destruct hi; [congruence|cbn [length]; lia]).
    rewrite (new_minavg_agree minavg (new_coinset wx hi) nl); try lia;
      [|rewrite Enum; specialize (Hmhi Hm); nia].
    rewrite Etv. rewrite (w64_id (target - sumv hi)) by (unfold K62 in *; lia).
    change (wx (target - sumv hi)) with (target - sumv hi).
    set (newavg := new_minavg wx minavg (new_coinset wx hi) nl).
    assert (Hnb : - K61 <= newavg <= minavg).
    { apply new_minavg_bounds; try lia. rewrite Enum, Etva. apply sumva_ge, Hhi. }
    assert (Hinb : inb mc newavg (target - sumv hi) low).
    { split; [split; [exact Hnlow|split; destruct Hslh as (_ & Hv & Ha); rewrite ?sumv_app, ?sumva_app in *; lia]|].
      split; [exact Hmc|]. split; [lia|]. split; [lia|]. intros Hpos. specialize (Hmhi Hm). nia. }
    rewrite (Hrag _ _ _ _ Hinb).
    match goal with |- context [recx ?a mc newavg (target - sumv hi) low] =>
      destruct (recx a mc newavg (target - sumv hi) low) as [br rr] eqn:Erec end.
    destruct rr as [lowsel|e|p]; [| |reflexivity].
    - (* the selection comes from low: pushing it onto allhigh stays within bounds *)
      apply Hrok in Erec. destruct Erec as ((Hsub & _) & _).
      rewrite fold_push_agree; [reflexivity|split; rewrite new_coinset_list; [exact Etv|exact Etva]|].
      rewrite new_coinset_list. eapply small_sub; [|exact Hslh].
      destruct Hsub as [r Hr]. exists r. rewrite <- app_assoc, Hr. apply Permutation_app_comm.
    - destruct br; apply IH; lia.
  Qed.
End Bridge.

Section Bridge2.
  Variable sort_by : (coin -> coin -> bool) -> list coin -> list coin.
  Hypothesis Hsort : sort_spec sort_by.
  Hypothesis Hloc : sort_local sort_by.

  Lemma outer_agree rec64 recx maxin mc minavg target low all :
    inb mc minavg target all -> Forall (fun c => vax c < minavg) low ->
    rec_ok recx low -> rec_agree rec64 recx low ->
    forall rest hi_acc,
      Permutation (low ++ hi_acc ++ rest) all -> Forall (fun c => minavg <= vax c) (hi_acc ++ rest) ->
      outer w64 sort_by rec64 maxin mc minavg target (Z.of_nat (length low)) low hi_acc rest
      = outer wx sort_by recx maxin mc minavg target (Z.of_nat (length low)) low hi_acc rest.
  Proof.
    intros Hin Hlow Hrok Hrag. pose proof (inb_target _ _ _ _ Hin) as Ht. pose proof Hin as (Hsall & _).
    induction rest as [|x rest IH]; intros hi_acc Hp Hhi; cbn [outer]; [reflexivity|]. rewrite lit_numlow_start_eq.
    set (hi := hi_acc ++ [x]) in *.
    assert (Eapp : hi_acc ++ x :: rest = hi ++ rest) by (subst hi; rewrite <- app_assoc; reflexivity).
    rewrite Eapp in *.
    assert (Hp' : Permutation ((low ++ hi) ++ rest) all) by (rewrite <- app_assoc; exact Hp).
    assert (Hslh : small (low ++ hi)) by (eapply small_sub; [exists rest; exact Hp'|exact Hsall]).
    pose proof (small_app_r _ _ Hslh) as Hshi.
    assert (Hhi' : Forall (fun c => minavg <= vax c) hi) by (apply Forall_app in Hhi; tauto).
    assert (Hne : hi <> []) by (subst hi; destruct hi_acc; discriminate).
    rewrite (min_number_agree sort_by Hsort maxin mc target hi Ht Hshi).
    rewrite (topup_agree rec64 recx maxin mc minavg target low hi all rest Hin Hp' Hne Hlow Hhi' Hrok Hrag) by lia.
    rewrite (IH hi Hp Hhi).
    destruct (min_number wx sort_by maxin mc target hi) as [highsel|e|p] eqn:Emn; [|reflexivity|reflexivity].
    pose proof (select_valid_all sort_by Hsort maxin mc target hi highsel (or_intror (or_introl Emn))) as (Hsub & _).
    assert (Hssel : small (cs_list highsel ++ low)).
    { eapply small_sub; [|exact Hslh]. destruct Hsub as [r Hr]. exists r.
      rewrite <- Hr, <- app_assoc. apply Permutation_app_swap_app. }
    rewrite (new_coinset_agree _ (small_app_l _ _ Hssel)).
    rewrite extend_agree; [reflexivity|exact Ht| |rewrite new_coinset_list; exact Hssel].
    split; rewrite new_coinset_list; [apply new_coinset_tv|apply new_coinset_tva].
  Qed.

  Theorem min_priority_agree : forall fuel maxin mc minavg target coins,
    inb mc minavg target coins ->
    min_priority w64 sort_by fuel maxin mc minavg target coins = min_priority wx sort_by fuel maxin mc minavg target coins.
  Proof.
    induction fuel as [|fuel IH]; intros maxin mc minavg target coins Hin; cbn [min_priority]; [reflexivity|].
    pose proof Hin as (Hs & _).
    rewrite (Hloc (less_va w64) (less_va wx) coins) by (intros a b Ha Hb; apply (less_va_agree coins); assumption).
    destruct (Hsort (less_va wx) coins) as [Hp Hsd]. specialize (Hsd (swo_key vax)).
    set (pc := sort_by (less_va wx) coins) in *.
    assert (Hspc : small pc) by (eapply small_perm; [apply Permutation_sym, Hp|exact Hs]).
    rewrite (find_cutoff_agree minavg pc Hspc pc 0 (incl_refl pc)).
    destruct (find_cutoff wx minavg pc 0) as [c|] eqn:Ec; [|reflexivity].
    pose proof Ec as Ec'. apply find_cutoff_low in Ec' as (n' & En' & Hlowlt). cbn [Nat.add] in En'. subst n'.
    apply find_cutoff_spec in Ec as (n & x & En & Hn & Hx). cbn [Nat.add] in En. subst n.
    assert (Hsplit : firstn c pc ++ skipn c pc = pc) by apply firstn_skipn.
    assert (Hlen : length (firstn c pc) = c).
    { rewrite firstn_length. apply Nat.min_l. apply Nat.lt_le_incl, nth_error_Some. congruence. }
    replace (Z.of_nat c) with (Z.of_nat (length (firstn c pc))) by (rewrite Hlen; reflexivity).
    apply (outer_agree _ _ maxin mc minavg target (firstn c pc) coins Hin Hlowlt).
    - intros maxin' mc' minavg' target' br s Hr. eapply (minprio_valid_fuel sort_by Hsort); [|exact Hr].
      destruct Hspc as (Hn0 & _). rewrite <- Hsplit in Hn0. apply Forall_app in Hn0 as [Hn0 _].
      eapply Forall_impl; [|exact Hn0]. apply nonneg_va.
    - intros nl mc' a t Hinb. apply IH, Hinb.
    - cbn [app]. rewrite Hsplit. exact Hp.
    - cbn [app]. eapply sorted_high; eassumption.
  Qed.

  (* so the selector theorems transfer to the int64 model, the one compared with Go *)
  Theorem minprio_valid_w64 maxin mc minavg target coins br s :
    inb mc minavg target coins ->
    min_priority_sel w64 sort_by maxin mc minavg target coins = (br, Ok s) ->
    mp_valid maxin mc minavg target coins s.
  Proof.
    intros Hin H. unfold min_priority_sel in H. rewrite min_priority_agree in H by exact Hin.
    eapply (minprio_valid sort_by Hsort); [|exact H].
    destruct Hin as ((Hn & _) & _). eapply Forall_impl; [|exact Hn]. apply nonneg_va.
  Qed.
End Bridge2.

Lemma isort_local : sort_local isort.
Proof.
  intros less less' l H. unfold isort. f_equal.
  assert (G : forall l2 acc, incl l2 l -> incl acc l ->
            fold_left (fun acc x => ins_rev less x acc) l2 acc = fold_left (fun acc x => ins_rev less' x acc) l2 acc).
  { induction l2 as [|x l2 IH]; intros acc Hl2 Hacc; cbn [fold_left]; [reflexivity|].
    assert (E : ins_rev less x acc = ins_rev less' x acc).
    { clear IH. induction acc as [|y acc IHa]; cbn [ins_rev]; [reflexivity|].
      rewrite (H x y (Hl2 x (or_introl eq_refl)) (Hacc y (or_introl eq_refl))).
      destruct (less' x y); [|reflexivity]. f_equal. apply IHa. intros z Hz. apply Hacc. right. exact Hz. }
    rewrite E. apply IH.
    - intros z Hz. apply Hl2. right. exact Hz.
    - intros z Hz. apply (Permutation_in _ (ins_rev_perm less' x acc)) in Hz. destruct Hz as [<-|Hz]; [apply Hl2; left; reflexivity|apply Hacc, Hz]. }
  apply G; [apply incl_refl|intros z []].
Qed.

(* all four selectors at once *)
Theorem selectors_agree sort_by : sort_spec sort_by -> sort_local sort_by ->
  forall maxin mc minavg target coins, inb mc minavg target coins ->
    min_index w64 maxin mc target coins = min_index wx maxin mc target coins
    /\ min_number w64 sort_by maxin mc target coins = min_number wx sort_by maxin mc target coins
    /\ max_value_age w64 sort_by maxin mc target coins = max_value_age wx sort_by maxin mc target coins
    /\ min_priority_sel w64 sort_by maxin mc minavg target coins = min_priority_sel wx sort_by maxin mc minavg target coins.
Proof.
  intros Hs Hl maxin mc minavg target coins Hin. pose proof (inb_target _ _ _ _ Hin) as Ht. pose proof Hin as (Hsm & _).
  split; [apply min_index_agree; assumption|]. split; [apply min_number_agree; assumption|].
  split; [apply max_value_age_agree; assumption|]. apply min_priority_agree; assumption.
Qed.

(* the three simple selectors, read about the int64 code: inside the bounds (the required average
   plays no role: 0) they return the shortest qualifying prefix and only valid selections *)
Theorem simple_selectors_w64 sort_by : sort_spec sort_by -> sort_local sort_by ->
  forall maxin mc target coins, inb mc 0 target coins ->
    prefix_sel maxin mc target coins (min_index w64 maxin mc target coins)
    /\ (exists p, Permutation p coins /\ desc_by cval p
                  /\ prefix_sel maxin mc target p (min_number w64 sort_by maxin mc target coins))
    /\ (exists p, Permutation p coins /\ desc_by vax p
                  /\ prefix_sel maxin mc target p (max_value_age w64 sort_by maxin mc target coins))
    /\ forall s, (min_index w64 maxin mc target coins = Ok s
                  \/ min_number w64 sort_by maxin mc target coins = Ok s
                  \/ max_value_age w64 sort_by maxin mc target coins = Ok s) ->
                 valid_selection maxin mc target coins s.
Proof.
  intros Hs Hl maxin mc target coins Hin.
  destruct (selectors_agree sort_by Hs Hl maxin mc 0 target coins Hin) as (E1 & E2 & E3 & _).
  rewrite E1, E2, E3. split; [apply min_index_shortest_prefix|].
  split; [apply min_number_shortest_prefix, Hs|]. split; [apply max_value_age_shortest_prefix, Hs|].
  intros s. apply select_valid_all, Hs.
Qed.

(* the bounds are met by realistic inputs: amounts up to 21e14 satoshi in total, value-ages up to 2^61 *)
Example inb_example :
  inb 1000 100000000 35000000
      [mkCoin 0 100000000 1; mkCoin 1 10000000 0; mkCoin 2 50000000 0; mkCoin 3 25000000 3; mkCoin 4 5000000 7].
Proof.
  unfold inb, small, K61, K62. cbn. repeat split; try lia.
  repeat constructor; cbn; lia.
Qed.

(* MinPriorityCoinSelector (repaired code): every successful return is a valid selection that
   meets the required average value-age; and the three refuted statements about the old code.
   Exact arithmetic (no int64 overflow), every offered coin has value-age >= 0. *)
From BU Require Import Lib.Bytes CoinSet.CoinSet CoinSet.CoinSetProofs CoinSet.SelectorProofs.
From Coq Require Import Permutation Sorted ZifyBool.
Open Scope Z_scope.

(* valid selection + the average clause, in the multiplied form and in the form the code tests
   (Go's truncating division); they coincide because value-ages are non-negative *)
Definition mp_valid (maxin mc minavg target : Z) (offered : list coin) (s : coinset) : Prop :=
  valid_selection maxin mc target offered s
  /\ minavg * cs_num s <= sumvax (cs_list s)
  /\ minavg <= Z.quot (sumvax (cs_list s)) (cs_num s).

(* ---------- arithmetic ---------- *)
Lemma quot_ge_mul T n m : 0 <= T -> 0 < n -> (m <= Z.quot T n <-> m * n <= T).
Proof.
  intros HT Hn. rewrite Z.quot_div_nonneg by lia.
  pose proof (Z.mul_div_le T n Hn). pose proof (Z.mul_succ_div_gt T n Hn). split; intros; nia.
Qed.

(* the requirement handed to the recursive call is the deficit divided by numLow, rounded up *)
Lemma new_minavg_ceil minavg s nl :
  0 < nl -> new_minavg wx minavg s nl * nl >= minavg * (cs_num s + nl) - cs_tva s.
Proof.
  intros Hn. unfold new_minavg, wx. lits. set (need := minavg * (cs_num s + nl) - cs_tva s).
  pose proof (Z.quot_rem' need nl) as Hqr.
  destruct (Z.ltb_spec 0 need) as [Hpos|Hneg].
  - pose proof (Z.rem_bound_pos need nl ltac:(lia) Hn) as Hb.
    replace (need >? 0) with true by lia. cbn [andb].
    destruct (Z.eqb_spec (Z.rem need nl) 0) as [E|E]; cbn [negb]; nia.
  - replace (need >? 0) with false by lia. cbn [andb].
    pose proof (Z.rem_nonpos need nl ltac:(lia) ltac:(lia)). nia.
Qed.

Lemma combine_average minavg h H nl A k L :
  0 < nl -> 1 <= k <= nl -> minavg * h <= H -> A * nl >= minavg * (h + nl) - H -> A * k <= L ->
  minavg * (h + k) <= H + L.
Proof.
  intros Hn Hk HH HA HL.
  assert (nl * (A * k) >= nl * (minavg * k + (minavg * h - H))) by nia.
  nia.
Qed.

(* ---------- permutations of blocks ---------- *)
Lemma perm_blocks (a sub r1 r2 rest hi low : list coin) :
  Permutation (a ++ r1) hi -> Permutation (sub ++ r2) low ->
  Permutation ((a ++ sub) ++ (r1 ++ r2 ++ rest)) (low ++ hi ++ rest).
Proof.
  intros H1 H2. rewrite <- H1, <- H2. rewrite <- !app_assoc.
  rewrite (Permutation_app_swap_app a sub). apply Permutation_app_head.
  rewrite (Permutation_app_swap_app r1 r2). rewrite (Permutation_app_swap_app a r2). reflexivity.
Qed.

Lemma Forall_perm {A} (P : A -> Prop) a b : Permutation a b -> Forall P a -> Forall P b.
Proof. intros Hp H. rewrite Forall_forall in *. intros x Hx. apply H. apply (Permutation_in _ (Permutation_sym Hp)), Hx. Qed.

Lemma Forall_sub (P : coin -> Prop) sel offered : sub_multiset sel offered -> Forall P offered -> Forall P sel.
Proof. intros [rest Hp] H. apply (Forall_perm P _ _ (Permutation_sym Hp)) in H. apply Forall_app in H. tauto. Qed.

(* ---------- cut-off ---------- *)
Lemma find_cutoff_spec minavg : forall pc i c,
  find_cutoff wx minavg pc i = Some c ->
  exists n x, c = (i + n)%nat /\ nth_error pc n = Some x /\ minavg <= vax x.
Proof.
  induction pc as [|y t IH]; intros i c H; cbn [find_cutoff] in H; [discriminate|].
  destruct (Z.geb_spec (vax y) minavg) as [Hge|Hlt].
  - injection H as <-. exists 0%nat, y. split; [lia|]. split; [reflexivity|lia].
  - apply IH in H as (n & x & -> & Hn & Hx). exists (S n), x. split; [lia|]. split; [exact Hn|exact Hx].
Qed.

Lemma sorted_high minavg : forall c pc x,
  sorted_by (less_va wx) pc -> nth_error pc c = Some x -> minavg <= vax x ->
  Forall (fun y => minavg <= vax y) (skipn c pc).
Proof.
  unfold sorted_by. induction c as [|c IH]; intros pc x Hs Hn Hx; destruct pc as [|z t]; try discriminate.
  - cbn in Hn. injection Hn as ->. cbn [skipn]. inversion Hs as [|? ? _ Hall]; subst.
    constructor; [exact Hx|]. eapply Forall_impl; [|exact Hall]. cbn. unfold less_va. intros; lia.
  - cbn [skipn]. inversion Hs; subst. eapply IH; eauto.
Qed.

(* ---------- the extension loop ---------- *)
Definition ext_inv (maxin mc minavg target : Z) (s : coinset) : Prop :=
  cs_ok wx s /\ (1 <= length (cs_list s))%nat /\ cs_num s <= maxin
  /\ sat target mc (sumv (cs_list s)) = true
  /\ minavg * cs_num s <= sumvax (cs_list s) /\ 0 <= sumvax (cs_list s).

Lemma extend_spec maxin mc minavg target : forall lows s,
  Forall (fun c => 0 <= vax c) lows -> ext_inv maxin mc minavg target s ->
  ext_inv maxin mc minavg target (extend wx maxin mc minavg target lows s)
  /\ exists sub rest, cs_list (extend wx maxin mc minavg target lows s) = cs_list s ++ sub
                      /\ Permutation (sub ++ rest) lows.
Proof.
  induction lows as [|x t IH]; intros s Hpos Hinv; cbn [extend]; lits.
  - split; [exact Hinv|]. exists [], []. rewrite app_nil_r. split; reflexivity.
  - inversion Hpos as [|? ? Hx Ht]; subst.
    assert (Hskip : forall s0, ext_inv maxin mc minavg target s0 -> cs_list s0 = cs_list s ->
              ext_inv maxin mc minavg target (extend wx maxin mc minavg target t s0)
              /\ exists sub rest, cs_list (extend wx maxin mc minavg target t s0) = cs_list s ++ sub
                                  /\ Permutation (sub ++ rest) (x :: t)).
    { intros s0 H0 El. destruct (IH s0 Ht H0) as (Hi & sub & rest & Hl & Hp). split; [exact Hi|].
      exists sub, (x :: rest). split; [rewrite Hl, El; reflexivity|]. rewrite <- Hp. symmetry. apply Permutation_middle. }
    destruct (Z.geb_spec (cs_num s) maxin) as [Hfull|Hroom].
    { split; [exact Hinv|]. exists [], (x :: t). rewrite app_nil_r. split; reflexivity. }
    destruct (Z.eqb_spec (vax x) 0) as [Hz|Hnz]; [apply Hskip; [exact Hinv|reflexivity]|].
    set (s' := push wx x s).
    destruct ((Z.quot (cs_tva s') (cs_num s') <? minavg) || negb (sat target mc (cs_tv s'))) eqn:Econd.
    { subst s'. rewrite pop_push_wx. apply Hskip; [exact Hinv|reflexivity]. }
    apply orb_false_iff in Econd as [Eavg Esat]. apply negb_false_iff in Esat.
    destruct Hinv as (Hok & Hlen & Hmax & Hsat & Havg & Hnn).
    assert (Hok' : cs_ok wx s') by (apply push_ok; [apply wx_ok|exact Hok]).
    assert (Hl' : cs_list s' = cs_list s ++ [x]) by reflexivity.
    assert (Hnum' : cs_num s' = cs_num s + 1) by (unfold cs_num; rewrite Hl', app_length; cbn; lia).
    assert (Hsum' : sumvax (cs_list s') = sumvax (cs_list s) + vax x) by (rewrite Hl', sumva_app; cbn; lia).
    destruct (proj1 (cs_ok_wx _) Hok') as [Hv' Ha'].
    assert (Hinv' : ext_inv maxin mc minavg target s').
    { split; [exact Hok'|]. split; [rewrite Hl', app_length; cbn; lia|]. split; [lia|].
      split; [rewrite <- Hv'; exact Esat|]. split; [|lia].
      rewrite Ha' in Eavg. apply quot_ge_mul; [lia|unfold cs_num in *; lia|lia]. }
    destruct (IH s' Ht Hinv') as (Hi & sub & rest & Hl & Hp). split; [exact Hi|].
    exists (x :: sub), rest. split; [rewrite Hl, Hl', <- app_assoc; reflexivity|].
    cbn [app]. apply perm_skip, Hp.
Qed.

(* ---------- the top-up loop ---------- *)
Lemma new_coinset_num hi : cs_num (new_coinset wx hi) = Z.of_nat (length hi).
Proof. unfold cs_num. rewrite new_coinset_list. reflexivity. Qed.

Lemma new_coinset_tv hi : cs_tv (new_coinset wx hi) = sumv hi.
Proof. destruct (new_coinset_ok wx wx_ok hi) as [Hv _]. rewrite new_coinset_list in Hv. exact Hv. Qed.
Lemma new_coinset_tva hi : cs_tva (new_coinset wx hi) = sumvax hi.
Proof. destruct (new_coinset_ok wx wx_ok hi) as [_ Hv]. rewrite new_coinset_list in Hv. exact Hv. Qed.

Lemma topup_some rec maxin mc minavg target cutoff low hi : forall k numlow r,
  hi <> [] ->
  topup wx rec maxin mc minavg target cutoff low hi k numlow = Some r ->
  (exists p, r = (BrFuel, Panic p))
  \/ exists nl br lowsel,
       numlow <= nl /\ nl + Z.of_nat (length hi) <= maxin
       /\ rec nl mc (new_minavg wx minavg (new_coinset wx hi) nl) (target - sumv hi) low = (br, Ok lowsel)
       /\ r = (BrTopUp br, Ok (fold_left (fun s c => push wx c s) (cs_list lowsel) (new_coinset wx hi))).
Proof.
  induction k as [|k IH]; intros numlow r Hne H; cbn [topup] in H; [discriminate|]. rewrite lit_topup_slack_eq in H.
  destruct ((numlow <=? cutoff) && (numlow + (Z.of_nat (length hi) - 1) + 1 <=? maxin)) eqn:Econd; [|discriminate].
  apply andb_true_iff in Econd as [_ Emax].
  destruct (Z.eqb_spec numlow 0) as [Hz|Hnz]; [left; exists 8%N; injection H as <-; reflexivity|].
  assert (Hh : 1 <= Z.of_nat (length hi)) by (destruct hi; [congruence|cbn [length]; lia]).
  rewrite new_coinset_num in H.
  replace (Z.of_nat (length hi) + numlow >? numlow) with true in H by lia.
  change (wx (target - cs_tv (new_coinset wx hi))) with (target - cs_tv (new_coinset wx hi)) in H.
  rewrite new_coinset_tv in H.
  destruct (rec numlow mc (new_minavg wx minavg (new_coinset wx hi) numlow) (target - sumv hi) low) as [br rr] eqn:Erec.
  destruct rr as [lowsel|e|p].
  - assert (Hr : Some (BrTopUp br, Ok (fold_left (fun s c => push wx c s) (cs_list lowsel) (new_coinset wx hi))) = Some r)
      by (destruct br; exact H).
    injection Hr as <-. right. exists numlow, br, lowsel. repeat split; try lia. exact Erec.
  - assert (Hr : topup wx rec maxin mc minavg target cutoff low hi k (numlow + 1) = Some r) by (destruct br; exact H).
    apply IH in Hr; [|exact Hne]. destruct Hr as [Hr|(nl & br' & ls & H1 & H2 & H3 & H4)]; [left; exact Hr|].
    right; exists nl, br', ls; repeat split; try assumption; lia.
  - left. exists p. destruct br; injection H as <-; reflexivity.
Qed.

(* the iteration bound [k] of the model's top-up loop is never what ends it: once numLow + k
   exceeds cutoffIndex, any larger bound gives the same result (outer passes k = cutoffIndex with
   numLow = 1), so the model loop runs exactly as long as Go's loop condition holds *)
Lemma topup_bound_exact w rec maxin mc minavg target cutoff low hi : forall k k' numlow,
  cutoff < numlow + Z.of_nat k -> (k <= k')%nat ->
  topup w rec maxin mc minavg target cutoff low hi k numlow = topup w rec maxin mc minavg target cutoff low hi k' numlow.
Proof.
  induction k as [|k IH]; intros k' numlow Hc Hk.
  - destruct k' as [|k']; [reflexivity|]. cbn [topup].
    replace (numlow <=? cutoff) with false by lia. reflexivity.
  - destruct k' as [|k']; [lia|]. cbn [topup].
    destruct ((numlow <=? cutoff) && _); [|reflexivity].
    destruct (numlow =? 0); [reflexivity|].
    match goal with |- context [rec ?a ?b ?c ?d low] => destruct (rec a b c d low) as [br rr] end.
    destruct rr; [reflexivity| |reflexivity]. apply IH; lia.
Qed.

Lemma topup_valid maxin mc minavg target low hi nl lowsel :
  hi <> [] -> 1 <= nl -> nl + Z.of_nat (length hi) <= maxin ->
  Forall (fun c => minavg <= vax c) hi ->
  Forall (fun c => 0 <= vax c) hi -> Forall (fun c => 0 <= vax c) low ->
  mp_valid nl mc (new_minavg wx minavg (new_coinset wx hi) nl) (target - sumv hi) low lowsel ->
  mp_valid maxin mc minavg target (low ++ hi)
           (fold_left (fun s c => push wx c s) (cs_list lowsel) (new_coinset wx hi)).
Proof.
  intros Hne Hnl Hmax Hhi Hhi0 Hlow0 ((Hsub & Hlen & Hnum & Htgt & _ & _) & Havg & _).
  set (s := fold_left _ _ _).
  assert (Hl : cs_list s = hi ++ cs_list lowsel) by (subst s; rewrite fold_push_list, new_coinset_list; reflexivity).
  assert (Hok : cs_ok wx s) by (subst s; apply fold_push_ok; [apply wx_ok|apply new_coinset_ok, wx_ok]).
  assert (Hn : cs_num s = Z.of_nat (length hi) + cs_num lowsel) by (unfold cs_num; rewrite Hl, app_length; lia).
  assert (Hh : 1 <= Z.of_nat (length hi)) by (destruct hi; [congruence|cbn [length]; lia]).
  assert (HH : minavg * Z.of_nat (length hi) <= sumvax hi) by (apply sumva_ge, Hhi).
  assert (Hmul : minavg * cs_num s <= sumvax (cs_list s)).
  { rewrite Hn, Hl, sumva_app.
    pose proof (new_minavg_ceil minavg (new_coinset wx hi) nl ltac:(lia)) as Hceil.
    rewrite new_coinset_num in Hceil.
    rewrite new_coinset_tva in Hceil.
    eapply combine_average with (nl := nl) (A := new_minavg wx minavg (new_coinset wx hi) nl); try eassumption; try lia.
    unfold cs_num in *. lia. }
  assert (Hnn : 0 <= sumvax (cs_list s)).
  { rewrite Hl, sumva_app. apply sumva_nonneg in Hhi0. pose proof (sumva_nonneg wx _ (Forall_sub _ _ _ Hsub Hlow0)). lia. }
  split; [|split; [exact Hmul|]].
  - unfold valid_selection. destruct (proj1 (cs_ok_wx _) Hok) as [Hv Ha].
    split; [|split; [|split; [|split; [|split]]]]; try assumption.
    + destruct Hsub as [rest Hp]. exists rest. rewrite Hl, <- app_assoc, Hp. apply Permutation_app_comm.
    + rewrite Hl, app_length. lia.
    + unfold cs_num in *. lia.
    + rewrite Hl, sumv_app. lia.
  - apply quot_ge_mul; [exact Hnn|unfold cs_num in *; lia|exact Hmul].
Qed.

(* ---------- the outer loop and the whole selector ---------- *)
Section MinPrio.
  Variable sort_by : (coin -> coin -> bool) -> list coin -> list coin.
  Hypothesis Hsort : sort_spec sort_by.

  Definition rec_ok (rec : recsel) (low : list coin) : Prop :=
    forall maxin mc minavg target br s,
      rec maxin mc minavg target low = (br, Ok s) -> mp_valid maxin mc minavg target low s.

  Lemma mp_valid_more maxin mc minavg target a b s :
    mp_valid maxin mc minavg target a s -> mp_valid maxin mc minavg target (a ++ b) s.
  Proof.
    intros ((Hsub & Hrest) & Havg). split; [|exact Havg]. split; [|exact Hrest].
    destruct Hsub as [rest Hp]. exists (rest ++ b). rewrite app_assoc, Hp. reflexivity.
  Qed.

  Lemma outer_valid rec maxin mc minavg target low :
    Forall (fun c => 0 <= vax c) low -> rec_ok rec low ->
    forall rest hi_acc br s,
      Forall (fun c => minavg <= vax c) (hi_acc ++ rest) -> Forall (fun c => 0 <= vax c) (hi_acc ++ rest) ->
      outer wx sort_by rec maxin mc minavg target (Z.of_nat (length low)) low hi_acc rest = (br, Ok s) ->
      mp_valid maxin mc minavg target (low ++ hi_acc ++ rest) s.
  Proof.
    intros Hlow0 Hrec. induction rest as [|x rest IH]; intros hi_acc br s Hhi Hhi0 H; cbn [outer] in H; [discriminate|].
    rewrite lit_numlow_start_eq in H.
    set (hi := hi_acc ++ [x]) in *.
    assert (Eapp : hi_acc ++ x :: rest = hi ++ rest) by (subst hi; rewrite <- app_assoc; reflexivity).
    rewrite Eapp in *.
    assert (Hhi' : Forall (fun c => minavg <= vax c) hi) by (apply Forall_app in Hhi; tauto).
    assert (Hhi0' : Forall (fun c => 0 <= vax c) hi) by (apply Forall_app in Hhi0; tauto).
    assert (Hne : hi <> []) by (subst hi; destruct hi_acc; discriminate).
    assert (Htop : forall r, topup wx rec maxin mc minavg target (Z.of_nat (length low)) low hi (Z.to_nat (Z.of_nat (length low))) 1 = Some r ->
                             r = (br, Ok s) -> mp_valid maxin mc minavg target (low ++ hi ++ rest) s).
    { intros r Et Er. apply topup_some in Et; [|exact Hne].
      destruct Et as [(p & Ep)|(nl & br' & lowsel & Hnl & Hmax & Erec & Er')]; [congruence|].
      rewrite Er in Er'. injection Er' as _ ->. rewrite app_assoc. apply mp_valid_more.
      apply topup_valid with (nl := nl); try assumption. eapply Hrec, Erec. }
    destruct (min_number wx sort_by maxin mc target hi) as [highsel|e|p] eqn:Emn.
    - injection H as _ <-.
      pose proof (select_valid_all sort_by Hsort maxin mc target hi highsel (or_intror (or_introl Emn)))
        as (Hsub & Hlen & Hnum & Htgt & _ & _).
      set (s0 := new_coinset wx (cs_list highsel)).
      assert (Hl0 : cs_list s0 = cs_list highsel) by apply new_coinset_list.
      assert (Hinv0 : ext_inv maxin mc minavg target s0).
      { split; [apply new_coinset_ok, wx_ok|]. unfold cs_num in *. rewrite Hl0.
        split; [exact Hlen|]. split; [exact Hnum|]. split; [apply sat_iff, Htgt|].
        split; [apply sumva_ge, (Forall_sub _ _ _ Hsub Hhi')|apply sumva_nonneg, (Forall_sub _ _ _ Hsub Hhi0')]. }
      destruct (extend_spec maxin mc minavg target low s0 Hlow0 Hinv0) as ((Hok & Hlen' & Hnum' & Hsat' & Havg' & Hnn') & sub & rl & Hl & Hp).
      destruct (proj1 (cs_ok_wx _) Hok) as [Hv Ha].
      split; [|split; [exact Havg'|]].
      + split; [|split; [|split; [|split; [|split]]]]; try assumption.
        * destruct Hsub as [r1 Hp1]. exists (r1 ++ rl ++ rest). rewrite Hl, Hl0. apply perm_blocks; assumption.
        * apply sat_iff, Hsat'.
      + apply quot_ge_mul; [exact Hnn'|unfold cs_num; lia|exact Havg'].
    - destruct (topup wx rec maxin mc minavg target (Z.of_nat (length low)) low hi (Z.to_nat (Z.of_nat (length low))) 1) as [r|] eqn:Et.
      + eapply Htop; [reflexivity|exact H].
      + apply (IH hi br s); assumption.
    - destruct (topup wx rec maxin mc minavg target (Z.of_nat (length low)) low hi (Z.to_nat (Z.of_nat (length low))) 1) as [r|] eqn:Et.
      + eapply Htop; [reflexivity|exact H].
      + apply (IH hi br s); assumption.
  Qed.

  Theorem minprio_valid_fuel : forall fuel maxin mc minavg target coins br s,
    Forall (fun c => 0 <= vax c) coins ->
    min_priority wx sort_by fuel maxin mc minavg target coins = (br, Ok s) ->
    mp_valid maxin mc minavg target coins s.
  Proof.
    induction fuel as [|fuel IH]; intros maxin mc minavg target coins br s Hpos H; cbn [min_priority] in H; [discriminate|].
    destruct (Hsort (less_va wx) coins) as [Hp Hs]. specialize (Hs (swo_key vax)).
    set (pc := sort_by (less_va wx) coins) in *.
    destruct (find_cutoff wx minavg pc 0) as [c|] eqn:Ec; [|discriminate].
    apply find_cutoff_spec in Ec as (n & x & -> & Hn & Hx). cbn [Nat.add] in H.
    assert (Hpc0 : Forall (fun c => 0 <= vax c) pc) by (eapply Forall_perm; [apply Permutation_sym, Hp|exact Hpos]).
    assert (Hsplit : firstn n pc ++ skipn n pc = pc) by apply firstn_skipn.
    assert (Hlow0 : Forall (fun c => 0 <= vax c) (firstn n pc)) by (rewrite <- Hsplit in Hpc0; apply Forall_app in Hpc0; tauto).
    assert (Hhi0 : Forall (fun c => 0 <= vax c) (skipn n pc)) by (rewrite <- Hsplit in Hpc0; apply Forall_app in Hpc0; tauto).
    assert (Hlen : length (firstn n pc) = n).
    { rewrite firstn_length. apply Nat.min_l. apply Nat.lt_le_incl, nth_error_Some. congruence. }
    rewrite <- Hlen in H at 1.
    apply outer_valid in H; try assumption.
    - cbn [app] in H. rewrite Hsplit in H. destruct H as ((Hsub & Hrest) & Havg). split; [|exact Havg]. split; [|exact Hrest].
      eapply sub_multiset_perm; eassumption.
    - intros maxin' mc' minavg' target' br' s' Hr. eapply IH; eassumption.
    - cbn [app]. eapply sorted_high; eassumption.
  Qed.

  Theorem minprio_valid maxin mc minavg target coins br s :
    Forall (fun c => 0 <= vax c) coins ->
    min_priority_sel wx sort_by maxin mc minavg target coins = (br, Ok s) ->
    mp_valid maxin mc minavg target coins s.
  Proof. apply minprio_valid_fuel. Qed.
End MinPrio.

(* ---------- termination: the fuel of min_priority_sel suffices, and nothing panics ---------- *)
Definition no_panic (r : branch * res coinset) : Prop := match snd r with Panic _ => False | _ => True end.

Lemma topup_no_panic rec maxin mc minavg target cutoff low hi :
  (forall a b c d, no_panic (rec a b c d low)) ->
  forall k numlow r, 1 <= numlow -> topup wx rec maxin mc minavg target cutoff low hi k numlow = Some r -> no_panic r.
Proof.
  intros Hrec. induction k as [|k IH]; intros numlow r Hnl H; cbn [topup] in H; [discriminate|].
  destruct ((numlow <=? cutoff) && _); [|discriminate].
  destruct (Z.eqb_spec numlow 0) as [Hz|_]; [lia|].
  match type of H with context [rec ?a ?b ?c ?d low] => specialize (Hrec a b c d); destruct (rec a b c d low) as [br rr] end.
  destruct rr as [ls|e|p]; cbn in Hrec.
  - assert (Hr : exists x, r = (BrTopUp br, Ok x)) by (destruct br; injection H as <-; eexists; reflexivity).
    destruct Hr as [x ->]. exact I.
  - apply (IH (numlow + 1)); [lia|]. destruct br; exact H.
  - destruct Hrec.
Qed.

Section Fuel.
  Variable sort_by : (coin -> coin -> bool) -> list coin -> list coin.
  Hypothesis Hsort : sort_spec sort_by.

  Lemma outer_no_panic rec maxin mc minavg target cutoff low :
    (forall a b c d, no_panic (rec a b c d low)) ->
    forall rest hi_acc, no_panic (outer wx sort_by rec maxin mc minavg target cutoff low hi_acc rest).
  Proof.
    intros Hrec. induction rest as [|x rest IH]; intros hi_acc; cbn [outer]; [exact I|]. rewrite lit_numlow_start_eq.
    destruct (min_number wx sort_by maxin mc target (hi_acc ++ [x])); [exact I| |];
      (destruct (topup wx rec maxin mc minavg target cutoff low (hi_acc ++ [x]) (Z.to_nat cutoff) 1) as [r|] eqn:Et;
       [eapply (topup_no_panic _ _ _ _ _ _ _ _ Hrec _ 1); [lia|eassumption]|apply IH]).
  Qed.

  Theorem minprio_fuel_suffices : forall fuel maxin mc minavg target coins,
    (length coins < fuel)%nat -> no_panic (min_priority wx sort_by fuel maxin mc minavg target coins).
  Proof.
    induction fuel as [|fuel IH]; intros maxin mc minavg target coins Hf; [lia|]. cbn [min_priority].
    destruct (Hsort (less_va wx) coins) as [Hp _]. set (pc := sort_by (less_va wx) coins) in *.
    destruct (find_cutoff wx minavg pc 0) as [c|] eqn:Ec; [|exact I].
    apply find_cutoff_spec in Ec as (n & x & -> & Hn & _). cbn [Nat.add].
    apply outer_no_panic. intros a b c d. apply IH.
    assert (n < length pc)%nat by (apply nth_error_Some; congruence).
    rewrite firstn_length. rewrite (Permutation_length Hp) in H. lia.
  Qed.

  Theorem minprio_no_panic maxin mc minavg target coins :
    no_panic (min_priority_sel wx sort_by maxin mc minavg target coins).
  Proof. apply minprio_fuel_suffices. lia. Qed.
End Fuel.

(* ---------- the old algorithm: the three clauses are refuted (DESIGN section 7, rows 15a-c) ---------- *)
Definition mk (l : list (Z * Z)) : list coin :=
  map (fun '(i, (v, c)) => mkCoin (N.of_nat i) v c) (combine (seq 0 (length l)) l).

Definition w15a := mk [(3,2);(5,0);(5,3);(1,2);(0,1)].   (* target 8, MaxInputs 1, minChange 1, minAvg 9 *)
Definition w15b := mk [(3,3);(1,2);(5,2)].               (* target 3, MaxInputs 2, minChange 2, minAvg 3 *)
Definition w15c := mk [(2,0);(3,1);(5,3);(4,3);(2,1)].   (* target 11, MaxInputs 4, minChange 1, minAvg 5 *)
Definition w15d := mk [(5,0);(3,2);(3,0);(1,2)].         (* target 9, MaxInputs 3, minChange 1, minAvg 3 *)

Definition good_input (coins : list coin) : Prop :=
  Forall (fun c => 0 <= cval c /\ 0 <= cconfs c) coins /\ NoDup (map cid coins).

Ltac good := split; [repeat constructor; cbn; lia | cbn; repeat constructor; cbn; intuition discriminate].

(* pinned code: more than MaxInputs coins *)
Theorem minprio_maxinputs_old_refuted :
  exists maxin mc minavg target coins br s,
    good_input coins /\ min_priority_old wx isort maxin mc minavg target coins = (br, Ok s) /\ cs_num s > maxin.
Proof.
  exists 1, 1, 9, 8, w15a, (BrTopUp BrExtend). eexists. split; [good|]. split; [vm_compute; reflexivity|]. vm_compute. reflexivity.
Qed.

(* pinned code: total neither the target nor target + minChange or more *)
Theorem minprio_target_old_refuted :
  exists maxin mc minavg target coins br s,
    good_input coins /\ min_priority_old wx isort maxin mc minavg target coins = (br, Ok s)
    /\ sat target mc (sumv (cs_list s)) = false.
Proof.
  exists 2, 2, 3, 3, w15b, BrExtend. eexists. split; [good|]. split; [vm_compute; reflexivity|]. vm_compute. reflexivity.
Qed.

(* pinned code: the average value-age per input is below the requirement *)
Theorem minprio_average_old_refuted :
  exists maxin mc minavg target coins br s,
    good_input coins /\ min_priority_old wx isort maxin mc minavg target coins = (br, Ok s)
    /\ minavg * cs_num s > sumvax (cs_list s) /\ Z.quot (sumvax (cs_list s)) (cs_num s) < minavg.
Proof.
  exists 4, 1, 5, 11, w15c, (BrTopUp (BrTopUp BrExtend)). eexists. split; [good|]. split; [vm_compute; reflexivity|].
  split; vm_compute; reflexivity.
Qed.

(* each repair is necessary on its own: with only that one reverted the clause fails again
   (these are the three seeded reverts) *)
Theorem minprio_revert_bound_refuted :
  exists maxin mc minavg target coins br s,
    good_input coins
    /\ min_priority_fx wx isort (mkFixes false true true) (S (length coins)) maxin mc minavg target coins = (br, Ok s)
    /\ cs_num s > maxin.
Proof.
  exists 1, 1, 9, 8, w15a, (BrTopUp BrExtend). eexists. split; [good|]. split; [vm_compute; reflexivity|]. vm_compute. reflexivity.
Qed.

Theorem minprio_revert_target_refuted :
  exists maxin mc minavg target coins br s,
    good_input coins
    /\ min_priority_fx wx isort (mkFixes true false true) (S (length coins)) maxin mc minavg target coins = (br, Ok s)
    /\ sat target mc (sumv (cs_list s)) = false.
Proof.
  exists 2, 2, 3, 3, w15b, BrExtend. eexists. split; [good|]. split; [vm_compute; reflexivity|]. vm_compute. reflexivity.
Qed.

Theorem minprio_revert_round_refuted :
  exists maxin mc minavg target coins br s,
    good_input coins
    /\ min_priority_fx wx isort (mkFixes true true false) (S (length coins)) maxin mc minavg target coins = (br, Ok s)
    /\ minavg * cs_num s > sumvax (cs_list s).
Proof.
  exists 3, 1, 3, 9, w15d, (BrTopUp (BrTopUp BrExtend)). eexists. split; [good|]. split; [vm_compute; reflexivity|]. vm_compute. reflexivity.
Qed.

(* with all three repairs the old-code model is the current one *)
Lemma extend_old_all mx mc ma tg lows s :
  extend_old wx (mkFixes true true true) mx mc ma tg lows s = extend wx mx mc ma tg lows s.
Proof. revert s; induction lows as [|x t IH]; intros s; cbn [extend extend_old fx_target andb]; [reflexivity|]. rewrite !IH. reflexivity. Qed.

Lemma topup_old_all rec rec' mx mc ma tg cutoff low hi :
  (forall a b c d, rec a b c d low = rec' a b c d low) ->
  forall k nl, topup_old wx (mkFixes true true true) rec mx mc ma tg cutoff low hi k nl = topup wx rec' mx mc ma tg cutoff low hi k nl.
Proof.
  intros Hrec. induction k as [|k IH]; intros nl; cbn [topup topup_old fx_bound]; [reflexivity|].
  destruct ((nl <=? cutoff) && _); [|reflexivity].
  destruct (nl =? 0); [reflexivity|].
  unfold new_minavg_old. cbn [fx_round]. rewrite Hrec.
  match goal with |- context [rec' ?a ?b ?c ?d low] => destruct (rec' a b c d low) as [br rr] end.
  destruct rr; [reflexivity| |reflexivity]. destruct br; apply IH.
Qed.

Lemma outer_old_all sort_by rec rec' mx mc ma tg cutoff low :
  (forall a b c d, rec a b c d low = rec' a b c d low) ->
  forall rest hi, outer_old wx sort_by (mkFixes true true true) rec mx mc ma tg cutoff low hi rest
                  = outer wx sort_by rec' mx mc ma tg cutoff low hi rest.
Proof.
  intros Hrec. induction rest as [|x rest IH]; intros hi; cbn [outer outer_old]; [reflexivity|].
  rewrite (topup_old_all rec rec' mx mc ma tg cutoff low (hi ++ [x]) Hrec), IH.
  destruct (min_number wx sort_by mx mc tg (hi ++ [x])); [rewrite extend_old_all|..]; reflexivity.
Qed.

Theorem min_priority_fx_all sort_by : forall fuel mx mc ma tg coins,
  min_priority_fx wx sort_by (mkFixes true true true) fuel mx mc ma tg coins = min_priority wx sort_by fuel mx mc ma tg coins.
Proof.
  induction fuel as [|fuel IH]; intros; cbn [min_priority min_priority_fx]; [reflexivity|].
  destruct (find_cutoff wx ma (sort_by (less_va wx) coins) 0); [|reflexivity].
  apply outer_old_all. intros. apply IH.
Qed.

(* Model of /repo/coinset/coins.go (C19).  No proofs here.

   coin         = (id, value, confirmations); the id stands for the outpoint (hash, index);
                  value-age = confirmations * value                       (SimpleCoin.ValueAge)
   arithmetic   : every int64 / Amount operation of the Go code goes through [w]; the models are
                  instantiated with [w64] (two's-complement wrap, used by the correspondence run)
                  and with [wx] (exact integers, used by the selector theorems, which therefore
                  assume that no int64 operation overflows; CoinSetProofs.v/notes say where)
   sort.Sort    : a dependency ([sort_by less l]); NOT stable.  Theorems assume only [sort_spec];
                  the run driver instantiates it with the stable insertion sort [isort], which
                  is what Go's pdqsort does for at most 12 elements.
   MaxInputs    : Go int, modelled as Z (may be zero or negative). *)
From BU Require Import Lib.Bytes Gen.Xcoinset.
Open Scope Z_scope.

(* ---------- literals of the Go source (Gen/Xcoinset.v, regenerated from coins.go on every run) ----------
   [mp_lit i] = the i-th integer literal of MinPriorityCoinSelector.CoinSelect in source order
   (13 of them: make(..,0,..); -1; i := 0; cutoffIndex < 0; i+1; numLow := 1; ..+1 <= MaxInputs; i+1;
   needValueAge > 0; % .. != 0; possibleCoins[0:..]; n := 0; ValueAge() == 0), [mi_lit] the only
   literal of MinIndexCoinSelector.CoinSelect (n := 0).  The model takes from them the values the
   theorems depend on; a missing literal reads as -7, which no proof survives. *)
Definition mp_lit (i : nat) : Z := nth i lits_MinPriorityCoinSelector_CoinSelect (-7).
Definition lit_numlow_start : Z := mp_lit 5.   (* for numLow := 1 *)
Definition lit_topup_slack : Z := mp_lit 6.    (* numLow+(i-cutoffIndex)+1 <= MaxInputs *)
Definition lit_need_pos : Z := mp_lit 8.       (* needValueAge > 0 *)
Definition lit_rem_zero : Z := mp_lit 9.       (* needValueAge%numLow != 0 *)
Definition lit_skip_va : Z := mp_lit 12.       (* possibleCoins[n].ValueAge() == 0 *)
Definition lit_mi_start : Z := nth 0 lits_MinIndexCoinSelector_CoinSelect (-7).   (* for n := 0 *)

Record coin := mkCoin { cid : N; cval : Z; cconfs : Z }.

(* int64 two's-complement wrap, and exact arithmetic *)
Definition w64 (z : Z) : Z := (z + 9223372036854775808) mod 18446744073709551616 - 9223372036854775808.
Definition wx (z : Z) : Z := z.

(* ---------- the dependency sort.Sort ---------- *)
Section Insertion.
  Variable less : coin -> coin -> bool.
  (* Go: for j := i; j > a && Less(j, j-1); j-- { Swap(j, j-1) }   on the reversed prefix *)
  Fixpoint ins_rev (x : coin) (rpre : list coin) : list coin :=
    match rpre with
    | [] => [x]
    | y :: t => if less x y then y :: ins_rev x t else x :: rpre
    end.
  Definition isort (l : list coin) : list coin := rev (fold_left (fun acc x => ins_rev x acc) l []).
End Insertion.

Section Model.
  Variable w : Z -> Z.
  Variable sort_by : (coin -> coin -> bool) -> list coin -> list coin.

  Definition va (c : coin) : Z := w (cconfs c * cval c).

  (* byValueAge.Less, byAmount.Less, sort.Reverse *)
  Definition less_va (a b : coin) : bool := va a <? va b.
  Definition less_amt (a b : coin) : bool := cval a <? cval b.
  Definition reverse (less : coin -> coin -> bool) (a b : coin) : bool := less b a.

  (* ---------- CoinSet: container/list + two cached sums ---------- *)
  Record coinset := mkSet { cs_list : list coin; cs_tv : Z; cs_tva : Z }.

  Definition cs_empty : coinset := mkSet [] 0 0.
  Definition cs_num (s : coinset) : Z := Z.of_nat (length (cs_list s)).

  Definition push (c : coin) (s : coinset) : coinset :=
    mkSet (cs_list s ++ [c]) (w (cs_tv s + cval c)) (w (cs_tva s + va c)).

  (* removeElement: the cached sums are updated with the removed coin *)
  Definition removed (c : coin) (l : list coin) (s : coinset) : coinset :=
    mkSet l (w (cs_tv s - cval c)) (w (cs_tva s - va c)).

  Definition pop (s : coinset) : option coin * coinset :=
    match rev (cs_list s) with
    | [] => (None, s)
    | c :: r => (Some c, removed c (rev r) s)
    end.

  Definition shift (s : coinset) : option coin * coinset :=
    match cs_list s with
    | [] => (None, s)
    | c :: r => (Some c, removed c r s)
    end.

  Definition new_coinset (coins : list coin) : coinset := fold_left (fun s c => push c s) coins cs_empty.

  Inductive op := Push (c : coin) | Pop | Shift.
  Definition step (s : coinset) (o : op) : coinset :=
    match o with Push c => push c s | Pop => snd (pop s) | Shift => snd (shift s) end.
  Definition run_ops (ops : list op) (s : coinset) : coinset := fold_left step ops s.
  (* what each operation returned (None = nil) *)
  Fixpoint run_outs (ops : list op) (s : coinset) : list (option N) :=
    match ops with
    | [] => []
    | o :: t => match o with
                | Push _ => None
                | Pop => option_map cid (fst (pop s))
                | Shift => option_map cid (fst (shift s))
                end :: run_outs t (step s o)
    end.

  (* ---------- NewMsgTxWithInputCoins ---------- *)
  Record txin := mkTxIn { ti_outpoint : N; ti_script : list N; ti_sequence : Z }.
  Record msgtx := mkTx { tx_version : Z; tx_in : list txin; tx_nout : nat; tx_locktime : Z }.
  Definition max_sequence : Z := 4294967295.
  Definition tx_of_coins (version : Z) (s : coinset) : msgtx :=
    mkTx version (map (fun c => mkTxIn (cid c) [] max_sequence) (cs_list s)) 0 0.

  (* ---------- satisfiesTargetValue ---------- *)
  Definition satisfies (target minchange total : Z) : bool :=
    (total =? target) || (total >=? w (target + minchange)).

  (* ---------- MinIndexCoinSelector ----------
     for n := 0; n < len(coins) && n < MaxInputs; n++ { push; if satisfies return }  ; error *)
  Fixpoint mi_loop (maxin minchange target : Z) (n : Z) (coins : list coin) (s : coinset) : res coinset :=
    match coins with
    | [] => Err 1
    | c :: t =>
        if n <? maxin then
          let s' := push c s in
          if satisfies target minchange (cs_tv s') then Ok s'
          else mi_loop maxin minchange target (n + 1) t s'
        else Err 1
    end.
  Definition min_index (maxin minchange target : Z) (coins : list coin) : res coinset :=
    mi_loop maxin minchange target lit_mi_start coins cs_empty.

  (* MinNumberCoinSelector / MaxValueAgeCoinSelector: copy, sort.Sort(sort.Reverse(..)), MinIndex *)
  Definition min_number (maxin minchange target : Z) (coins : list coin) : res coinset :=
    min_index maxin minchange target (sort_by (reverse less_amt) coins).
  Definition max_value_age (maxin minchange target : Z) (coins : list coin) : res coinset :=
    min_index maxin minchange target (sort_by (reverse less_va) coins).

  (* ---------- MinPriorityCoinSelector ---------- *)
  (* every return carries the branch that produced it *)
  Inductive branch :=
  | BrNoCutoff                (* no coin reaches the required value-age: error *)
  | BrExhausted               (* outer loop ran out of high coins: error *)
  | BrExtend                  (* MinNumber on the high coins succeeded, extension loop ran *)
  | BrTopUp (inner : branch)  (* all high coins + a recursive selection from the low coins *)
  | BrFuel.                   (* out of fuel, or a division by numLow = 0 (both excluded by the theorems) *)

  (* first index with ValueAge >= MinAvg *)
  Fixpoint find_cutoff (minavg : Z) (pc : list coin) (i : nat) : option nat :=
    match pc with
    | [] => None
    | c :: t => if va c >=? minavg then Some i else find_cutoff minavg t (S i)
    end.

  (* the extension loop over possibleCoins[0:cutoff] *)
  Fixpoint extend (maxin minchange minavg target : Z) (lows : list coin) (s : coinset) : coinset :=
    match lows with
    | [] => s
    | x :: t =>
        if cs_num s >=? maxin then s                                   (* break *)
        else if va x =? lit_skip_va then extend maxin minchange minavg target t s  (* continue *)
        else
          let s' := push x s in
          if (Z.quot (cs_tva s') (cs_num s') <? minavg) || negb (satisfies target minchange (cs_tv s'))
          then extend maxin minchange minavg target t (snd (pop s'))
          else extend maxin minchange minavg target t s'
    end.

  Definition recsel := Z -> Z -> Z -> Z -> list coin -> branch * res coinset.  (* maxin minchange minavg target coins *)

  (* the derived per-coin requirement handed to the recursive call (repaired code: rounded up) *)
  Definition new_minavg (minavg : Z) (allhigh : coinset) (numlow : Z) : Z :=
    let need := w (w (minavg * (cs_num allhigh + numlow)) - cs_tva allhigh) in
    let q := Z.quot need numlow in
    if (need >? lit_need_pos) && negb (Z.rem need numlow =? lit_rem_zero) then w (q + 1) else q.

  (* for numLow := 1; numLow <= cutoff && numLow+(i-cutoff)+1 <= MaxInputs; numLow++ ;
     [k] bounds the number of iterations (cutoff suffices); [hi] = possibleCoins[cutoff:i+1] *)
  Fixpoint topup (rec : recsel) (maxin minchange minavg target : Z) (cutoff : Z) (low hi : list coin)
           (k : nat) (numlow : Z) : option (branch * res coinset) :=
    match k with
    | O => None
    | S k' =>
        if (numlow <=? cutoff) && (numlow + (Z.of_nat (length hi) - 1) + lit_topup_slack <=? maxin) then
          if numlow =? 0 then Some (BrFuel, Panic 8) else   (* needValueAge / int64(numLow) would panic: integer divide by zero *)
          let allhigh := new_coinset hi in
          let newtarget := w (target - cs_tv allhigh) in
          let newmax := if cs_num allhigh + numlow >? numlow then numlow else cs_num allhigh + numlow in
          let newavg := new_minavg minavg allhigh numlow in
          match rec newmax minchange newavg newtarget low with
          | (br, Ok lowsel) => Some (BrTopUp br, Ok (fold_left (fun s c => push c s) (cs_list lowsel) allhigh))
          | (_, Panic p) => Some (BrFuel, Panic p)
          | (_, Err _) => topup rec maxin minchange minavg target cutoff low hi k' (numlow + 1)
          end
        else None
    end.

  (* for i := cutoff; i < len; i++ : [hi_acc] = possibleCoins[cutoff:i], [rest] = possibleCoins[i:] *)
  Fixpoint outer (rec : recsel) (maxin minchange minavg target : Z) (cutoff : Z) (low : list coin)
           (hi_acc rest : list coin) : branch * res coinset :=
    match rest with
    | [] => (BrExhausted, Err 1)
    | x :: rest' =>
        let hi := hi_acc ++ [x] in
        match min_number maxin minchange target hi with
        | Ok highsel =>
            (BrExtend, Ok (extend maxin minchange minavg target low (new_coinset (cs_list highsel))))
        | _ =>
            match topup rec maxin minchange minavg target cutoff low hi (Z.to_nat cutoff) lit_numlow_start with
            | Some r => r
            | None => outer rec maxin minchange minavg target cutoff low hi rest'
            end
        end
    end.

  Fixpoint min_priority (fuel : nat) (maxin minchange minavg target : Z) (coins : list coin) : branch * res coinset :=
    match fuel with
    | O => (BrFuel, Panic 9)
    | S fuel' =>
        let pc := sort_by less_va coins in
        match find_cutoff minavg pc 0 with
        | None => (BrNoCutoff, Err 1)
        | Some c =>
            outer (min_priority fuel') maxin minchange minavg target (Z.of_nat c) (firstn c pc) [] (skipn c pc)
        end
    end.

  (* the recursion is on possibleCoins[0:cutoff], strictly shorter: this fuel suffices *)
  Definition min_priority_sel (maxin minchange minavg target : Z) (coins : list coin) : branch * res coinset :=
    min_priority (S (length coins)) maxin minchange minavg target coins.

  (* ---------- the algorithm as it was before the three repairs ----------
     (ca4f52a top-up bound, 41b64e3 extension target predicate, 8d94bfc round-up).
     [fixes] says which of the repairs are applied; all false = the pinned code, verbatim;
     one false = the corresponding seeded revert; all true = [min_priority]. *)
  Record fixes := mkFixes { fx_bound : bool; fx_target : bool; fx_round : bool }.
  Definition pinned : fixes := mkFixes false false false.

  Fixpoint extend_old (f : fixes) (maxin minchange minavg target : Z) (lows : list coin) (s : coinset) : coinset :=
    match lows with
    | [] => s
    | x :: t =>
        if cs_num s >=? maxin then s
        else if va x =? lit_skip_va then extend_old f maxin minchange minavg target t s
        else
          let s' := push x s in
          if (Z.quot (cs_tva s') (cs_num s') <? minavg)
             || (fx_target f && negb (satisfies target minchange (cs_tv s')))
          then extend_old f maxin minchange minavg target t (snd (pop s'))
          else extend_old f maxin minchange minavg target t s'
    end.

  Definition new_minavg_old (f : fixes) (minavg : Z) (allhigh : coinset) (numlow : Z) : Z :=
    if fx_round f then new_minavg minavg allhigh numlow
    else Z.quot (w (w (minavg * (cs_num allhigh + numlow)) - cs_tva allhigh)) numlow.

  Fixpoint topup_old (f : fixes) (rec : recsel) (maxin minchange minavg target : Z) (cutoff : Z) (low hi : list coin)
           (k : nat) (numlow : Z) : option (branch * res coinset) :=
    match k with
    | O => None
    | S k' =>
        if (numlow <=? cutoff) &&
           (if fx_bound f then numlow + (Z.of_nat (length hi) - 1) + lit_topup_slack <=? maxin
            else numlow + (Z.of_nat (length hi) - 1) <=? maxin) then
          if numlow =? 0 then Some (BrFuel, Panic 8) else
          let allhigh := new_coinset hi in
          let newtarget := w (target - cs_tv allhigh) in
          let newmax := if cs_num allhigh + numlow >? numlow then numlow else cs_num allhigh + numlow in
          let newavg := new_minavg_old f minavg allhigh numlow in
          match rec newmax minchange newavg newtarget low with
          | (br, Ok lowsel) => Some (BrTopUp br, Ok (fold_left (fun s c => push c s) (cs_list lowsel) allhigh))
          | (_, Panic p) => Some (BrFuel, Panic p)
          | (_, Err _) => topup_old f rec maxin minchange minavg target cutoff low hi k' (numlow + 1)
          end
        else None
    end.

  Fixpoint outer_old (f : fixes) (rec : recsel) (maxin minchange minavg target : Z) (cutoff : Z) (low : list coin)
           (hi_acc rest : list coin) : branch * res coinset :=
    match rest with
    | [] => (BrExhausted, Err 1)
    | x :: rest' =>
        let hi := hi_acc ++ [x] in
        match min_number maxin minchange target hi with
        | Ok highsel =>
            (BrExtend, Ok (extend_old f maxin minchange minavg target low (new_coinset (cs_list highsel))))
        | _ =>
            match topup_old f rec maxin minchange minavg target cutoff low hi (Z.to_nat cutoff) lit_numlow_start with
            | Some r => r
            | None => outer_old f rec maxin minchange minavg target cutoff low hi rest'
            end
        end
    end.

  Fixpoint min_priority_fx (f : fixes) (fuel : nat) (maxin minchange minavg target : Z) (coins : list coin) : branch * res coinset :=
    match fuel with
    | O => (BrFuel, Panic 9)
    | S fuel' =>
        let pc := sort_by less_va coins in
        match find_cutoff minavg pc 0 with
        | None => (BrNoCutoff, Err 1)
        | Some c =>
            outer_old f (min_priority_fx f fuel') maxin minchange minavg target (Z.of_nat c) (firstn c pc) [] (skipn c pc)
        end
    end.

  Definition min_priority_old (maxin minchange minavg target : Z) (coins : list coin) : branch * res coinset :=
    min_priority_fx pinned (S (length coins)) maxin minchange minavg target coins.

  (* ---------- what the property says about a selection ---------- *)
  Definition sumv (l : list coin) : Z := fold_right (fun c a => cval c + a) 0 l.
  Definition sumva (l : list coin) : Z := fold_right (fun c a => va c + a) 0 l.
End Model.

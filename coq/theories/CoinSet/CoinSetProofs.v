(* Proofs about the coin set, the dependency sort.Sort and the three simple selectors (C19). *)
From BU Require Import Lib.Bytes CoinSet.CoinSet.
From Coq Require Import Permutation Sorted ZifyBool.
Open Scope Z_scope.

(* ================= the literals of coins.go the theorems depend on =================
   Each is the value extracted from the Go source into Gen/Xcoinset.v; these six lemmas are where a
   changed literal (numLow starting at 0, the "+1" of the top-up bound dropped, the rounding test
   moved, ...) stops the development: every later proof uses them through [lits]. *)
Lemma lit_numlow_start_eq : lit_numlow_start = 1. Proof. reflexivity. Qed.
Lemma lit_topup_slack_eq : lit_topup_slack = 1. Proof. reflexivity. Qed.
Lemma lit_need_pos_eq : lit_need_pos = 0. Proof. reflexivity. Qed.
Lemma lit_rem_zero_eq : lit_rem_zero = 0. Proof. reflexivity. Qed.
Lemma lit_skip_va_eq : lit_skip_va = 0. Proof. reflexivity. Qed.
Lemma lit_mi_start_eq : lit_mi_start = 0. Proof. reflexivity. Qed.
Ltac lits := rewrite ?lit_numlow_start_eq, ?lit_topup_slack_eq, ?lit_need_pos_eq, ?lit_rem_zero_eq, ?lit_skip_va_eq, ?lit_mi_start_eq in *.

(* ================= arithmetic: what the proofs need of the wrap ================= *)
Definition wrap_ok (w : Z -> Z) : Prop :=
  w 0 = 0 /\ (forall a b, w (w a + b) = w (a + b)) /\ (forall a b, w (a + w b) = w (a + b))
  /\ (forall a b, w (w a - b) = w (a - b)) /\ (forall a b, w (a - w b) = w (a - b)).

Lemma wx_ok : wrap_ok wx.
Proof. unfold wrap_ok, wx. repeat split; reflexivity. Qed.

Lemma w64_ok : wrap_ok w64.
Proof. unfold wrap_ok, w64. repeat split; intros; lia. Qed.

Lemma w64_id z : -9223372036854775808 <= z < 9223372036854775808 -> w64 z = z.
Proof. unfold w64. lia. Qed.

(* ================= sums ================= *)
Section Sums.
  Variable w : Z -> Z.
  Lemma sumv_app a b : sumv (a ++ b) = sumv a + sumv b.
  Proof. induction a as [|x a IH]; cbn [sumv app fold_right] in *; [reflexivity|]. fold (sumv (a ++ b)) (sumv a). unfold sumv in *. lia. Qed.
  Lemma sumva_app a b : sumva w (a ++ b) = sumva w a + sumva w b.
  Proof. induction a as [|x a IH]; cbn [sumva app fold_right] in *; [reflexivity|]. unfold sumva in *. lia. Qed.
  Lemma sumv_cons x l : sumv (x :: l) = cval x + sumv l.
  Proof. reflexivity. Qed.
  Lemma sumva_cons x l : sumva w (x :: l) = va w x + sumva w l.
  Proof. reflexivity. Qed.
  Lemma sumv_perm a b : Permutation a b -> sumv a = sumv b.
  Proof. induction 1; rewrite ?sumv_cons in *; lia. Qed.
  Lemma sumva_perm a b : Permutation a b -> sumva w a = sumva w b.
  Proof. induction 1; rewrite ?sumva_cons in *; lia. Qed.
  Lemma sumva_ge m l : Forall (fun c => m <= va w c) l -> m * Z.of_nat (length l) <= sumva w l.
  Proof. induction 1 as [|x l Hx _ IH]; [cbn; lia|]. rewrite sumva_cons. cbn [length]. lia. Qed.
  Lemma sumva_nonneg l : Forall (fun c => 0 <= va w c) l -> 0 <= sumva w l.
  Proof. intros H. apply sumva_ge in H. lia. Qed.
End Sums.

(* ================= coin set: cached totals = sums over contents ================= *)
Section Totals.
  Variable w : Z -> Z.
  Hypothesis Hw : wrap_ok w.

  (* the invariant: both caches are the (wrapped) sums over the current contents *)
  Definition cs_ok (s : coinset) : Prop :=
    cs_tv s = w (sumv (cs_list s)) /\ cs_tva s = w (sumva w (cs_list s)).

  Lemma empty_ok : cs_ok cs_empty.
  Proof. destruct Hw as (H0 & _). unfold cs_ok, cs_empty; cbn. rewrite H0. auto. Qed.

  Lemma push_ok c s : cs_ok s -> cs_ok (push w c s).
  Proof.
    destruct Hw as (_ & H1 & _). intros [Hv Ha]. unfold cs_ok, push; cbn [cs_list cs_tv cs_tva].
    rewrite sumv_app, sumva_app, Hv, Ha, !H1. cbn [sumv sumva fold_right]. split; f_equal; lia.
  Qed.

  Lemma push_list c s : cs_list (push w c s) = cs_list s ++ [c].
  Proof. reflexivity. Qed.

  Lemma removed_ok c l s :
    cs_ok s -> Permutation (c :: l) (cs_list s) -> cs_ok (removed w c l s).
  Proof.
    destruct Hw as (_ & _ & _ & H3 & _). intros [Hv Ha] Hp. unfold cs_ok, removed; cbn [cs_list cs_tv cs_tva].
    rewrite Hv, Ha, !H3, <- (sumv_perm _ _ Hp), <- (sumva_perm w _ _ Hp), sumv_cons, sumva_cons.
    split; f_equal; lia.
  Qed.

  Lemma pop_ok s : cs_ok s -> cs_ok (snd (pop w s)).
  Proof.
    intros H. unfold pop. destruct (rev (cs_list s)) as [|c r] eqn:E; [exact H|]. cbn [snd].
    apply removed_ok; [exact H|]. rewrite <- (rev_involutive (cs_list s)), E. cbn [rev].
    rewrite Permutation_app_comm. reflexivity.
  Qed.

  Lemma shift_ok s : cs_ok s -> cs_ok (snd (shift w s)).
  Proof.
    intros H. unfold shift. destruct (cs_list s) as [|c r] eqn:E; [exact H|]. cbn [snd].
    apply removed_ok; [exact H|]. rewrite E. reflexivity.
  Qed.

  (* what pop / shift return and leave *)
  Lemma pop_spec s :
    match fst (pop w s) with
    | None => cs_list s = [] /\ snd (pop w s) = s
    | Some c => cs_list s = cs_list (snd (pop w s)) ++ [c]
    end.
  Proof.
    unfold pop. destruct (rev (cs_list s)) as [|c r] eqn:E; cbn [fst snd].
    - split; [|reflexivity]. rewrite <- (rev_involutive (cs_list s)), E. reflexivity.
    - cbn [removed cs_list]. rewrite <- (rev_involutive (cs_list s)), E. reflexivity.
  Qed.

  Lemma shift_spec s :
    match fst (shift w s) with
    | None => cs_list s = [] /\ snd (shift w s) = s
    | Some c => cs_list s = c :: cs_list (snd (shift w s))
    end.
  Proof. unfold shift. destruct (cs_list s) as [|c r] eqn:E; cbn [fst snd]; auto. Qed.

  Lemma fold_push_list l s : cs_list (fold_left (fun s c => push w c s) l s) = cs_list s ++ l.
  Proof. revert s; induction l as [|x l IH]; intros s; cbn [fold_left]; [now rewrite app_nil_r|]. rewrite IH, push_list, <- app_assoc. reflexivity. Qed.

  Lemma fold_push_ok l s : cs_ok s -> cs_ok (fold_left (fun s c => push w c s) l s).
  Proof. revert s; induction l as [|x l IH]; intros s H; cbn [fold_left]; [exact H|]. apply IH, push_ok, H. Qed.

  Lemma new_coinset_list l : cs_list (new_coinset w l) = l.
  Proof. unfold new_coinset. rewrite fold_push_list. reflexivity. Qed.

  Lemma new_coinset_ok l : cs_ok (new_coinset w l).
  Proof. apply fold_push_ok, empty_ok. Qed.

  Lemma step_ok s o : cs_ok s -> cs_ok (step w s o).
  Proof. destruct o; cbn [step]; auto using push_ok, pop_ok, shift_ok. Qed.

  Lemma run_ops_ok ops s : cs_ok s -> cs_ok (run_ops w ops s).
  Proof. unfold run_ops. revert s; induction ops as [|o ops IH]; intros s H; cbn [fold_left]; auto using step_ok. Qed.

  (* the contents behave as a double-ended queue of coins *)
  Definition deque_step (l : list coin) (o : op) : list coin :=
    match o with
    | Push c => l ++ [c]
    | Pop => removelast l
    | Shift => tl l
    end.

  Lemma step_list s o : cs_list (step w s o) = deque_step (cs_list s) o.
  Proof.
    destruct o; cbn [step deque_step].
    - reflexivity.
    - unfold pop. destruct (rev (cs_list s)) as [|c r] eqn:E; cbn [snd removed cs_list].
      + rewrite <- (rev_involutive (cs_list s)), E. reflexivity.
      + rewrite <- (rev_involutive (cs_list s)), E. cbn [rev]. rewrite removelast_last. reflexivity.
    - unfold shift. destruct (cs_list s) as [|c r] eqn:E; cbn [snd removed cs_list]; rewrite ?E; reflexivity.
  Qed.

  Lemma run_ops_list ops s : cs_list (run_ops w ops s) = fold_left deque_step ops (cs_list s).
  Proof. unfold run_ops. revert s; induction ops as [|o ops IH]; intros s; cbn [fold_left]; [reflexivity|]. rewrite IH, step_list. reflexivity. Qed.

  Theorem coinset_totals_w init ops :
    let s := run_ops w ops (new_coinset w init) in
    cs_list s = fold_left deque_step ops init
    /\ cs_num s = Z.of_nat (length (cs_list s))
    /\ cs_tv s = w (sumv (cs_list s))
    /\ cs_tva s = w (sumva w (cs_list s)).
  Proof.
    intros s. subst s. split; [rewrite run_ops_list, new_coinset_list; reflexivity|]. split; [reflexivity|].
    apply run_ops_ok, new_coinset_ok.
  Qed.

  Theorem pop_shift_empty s : cs_list s = [] -> pop w s = (None, s) /\ shift w s = (None, s).
  Proof. intros E. unfold pop, shift. rewrite E. auto. Qed.

  (* what PopCoin / ShiftCoin hand back: nil exactly on the empty set, otherwise the last / first
     coin, and the set keeps the others in order *)
  Theorem pop_shift_return s :
    match fst (pop w s) with
    | None => cs_list s = []
    | Some c => cs_list s = cs_list (snd (pop w s)) ++ [c]
    end
    /\ match fst (shift w s) with
       | None => cs_list s = []
       | Some c => cs_list s = c :: cs_list (snd (shift w s))
       end.
  Proof.
    pose proof (pop_spec s) as Hp. pose proof (shift_spec s) as Hs.
    destruct (fst (pop w s)), (fst (shift w s)); intuition.
  Qed.

  (* a transaction built from the set reached by a history spends the outpoints of the deque
     contents, in order *)
  Theorem tx_after_history version init ops :
    let t := tx_of_coins version (run_ops w ops (new_coinset w init)) in
    map ti_outpoint (tx_in t) = map cid (fold_left deque_step ops init)
    /\ length (tx_in t) = length (fold_left deque_step ops init).
  Proof.
    cbn. rewrite run_ops_list, new_coinset_list, map_map, map_length. split; reflexivity.
  Qed.
End Totals.

(* exact arithmetic: the wrap disappears *)
Lemma cs_ok_wx s : cs_ok wx s <-> cs_tv s = sumv (cs_list s) /\ cs_tva s = sumva wx (cs_list s).
Proof. reflexivity. Qed.

Lemma pop_push_wx c s : snd (pop wx (push wx c s)) = s.
Proof.
  unfold pop, push. cbn [cs_list]. rewrite rev_app_distr. cbn [rev app snd removed cs_tv cs_tva].
  rewrite rev_involutive. destruct s as [l v a]; unfold removed; cbn [cs_tv cs_tva]. unfold wx. f_equal; lia.
Qed.

(* ================= NewMsgTxWithInputCoins ================= *)
Theorem tx_spends_exactly_model version s :
  let t := tx_of_coins version s in
  map ti_outpoint (tx_in t) = map cid (cs_list s)
  /\ Forall (fun i => ti_script i = [] /\ ti_sequence i = max_sequence) (tx_in t)
  /\ tx_version t = version /\ tx_nout t = 0%nat /\ tx_locktime t = 0.
Proof.
  cbn. split; [|split; [|auto]].
  - rewrite map_map. reflexivity.
  - apply Forall_forall. intros i Hi. apply in_map_iff in Hi as (c & <- & _). auto.
Qed.

(* ================= the dependency sort.Sort ================= *)
(* Less must be a strict weak order: asymmetric and negatively transitive *)
Definition swo (less : coin -> coin -> bool) : Prop :=
  (forall a b, less a b = true -> less b a = false)
  /\ (forall a b c, less b a = false -> less c b = false -> less c a = false).

(* sorted: no later element is Less than an earlier one *)
Definition sorted_by (less : coin -> coin -> bool) (l : list coin) : Prop :=
  StronglySorted (fun a b => less b a = false) l.

(* all that is assumed of sort.Sort: a permutation, sorted when Less is a strict weak order *)
Definition sort_spec (sort_by : (coin -> coin -> bool) -> list coin -> list coin) : Prop :=
  forall less l, Permutation (sort_by less l) l /\ (swo less -> sorted_by less (sort_by less l)).

Lemma swo_key (key : coin -> Z) : swo (fun a b => key a <? key b).
Proof. split; intros; lia. Qed.
Lemma swo_key_rev (key : coin -> Z) : swo (reverse (fun a b => key a <? key b)).
Proof. unfold reverse. split; intros; lia. Qed.

(* the insertion sort of the run driver (Go's sort.Sort for at most 12 elements) meets the spec *)
Section Isort.
  Variable less : coin -> coin -> bool.

  Lemma ins_rev_perm x r : Permutation (ins_rev less x r) (x :: r).
  Proof.
    induction r as [|y t IH]; cbn [ins_rev]; [reflexivity|].
    destruct (less x y); [|reflexivity]. rewrite IH. apply perm_swap.
  Qed.

  Lemma fold_ins_perm l acc : Permutation (fold_left (fun acc x => ins_rev less x acc) l acc) (l ++ acc).
  Proof.
    revert acc; induction l as [|x l IH]; intros acc; cbn [fold_left app]; [reflexivity|].
    rewrite IH, ins_rev_perm. symmetry. apply Permutation_middle.
  Qed.

  Lemma isort_perm l : Permutation (isort less l) l.
  Proof. unfold isort. rewrite <- Permutation_rev, fold_ins_perm, app_nil_r. reflexivity. Qed.

  (* the reversed prefix is kept sorted the other way round *)
  Definition rsorted (r : list coin) : Prop := StronglySorted (fun a b => less a b = false) r.

  Hypothesis Hswo : swo less.

  Lemma ins_rev_sorted x r : rsorted r -> rsorted (ins_rev less x r).
  Proof.
    destruct Hswo as [Hasym Hnt]. unfold rsorted.
    induction r as [|y t IH]; intros Hs; cbn [ins_rev].
    - constructor; constructor.
    - inversion Hs as [|? ? Ht Hy]; subst. destruct (less x y) eqn:E.
      + constructor; [apply IH, Ht|].
        apply Forall_forall. intros z Hz.
        apply (Permutation_in _ (ins_rev_perm x t)) in Hz. destruct Hz as [<-|Hz].
        * apply Hasym, E.
        * rewrite Forall_forall in Hy. apply Hy, Hz.
      + constructor; [exact Hs|]. constructor; [exact E|].
        apply Forall_forall. intros z Hz. rewrite Forall_forall in Hy. specialize (Hy z Hz).
        (* less x y = false, less y z = false -> less x z = false *)
        apply (Hnt z y x); assumption.
  Qed.

  Lemma fold_ins_sorted l acc : rsorted acc -> rsorted (fold_left (fun acc x => ins_rev less x acc) l acc).
  Proof. revert acc; induction l as [|x l IH]; intros acc H; cbn [fold_left]; auto using ins_rev_sorted. Qed.

  Lemma sorted_snoc (R : coin -> coin -> Prop) l x :
    StronglySorted R l -> (forall z, In z l -> R z x) -> StronglySorted R (l ++ [x]).
  Proof.
    induction 1 as [|y l' Hl' IHl' Hy]; intros Hall; cbn [app].
    - constructor; constructor.
    - constructor.
      + apply IHl'. intros z Hz. apply Hall. right. exact Hz.
      + apply Forall_app. split; [exact Hy|]. constructor; [|constructor]. apply Hall. left. reflexivity.
  Qed.

  Lemma rsorted_rev r : rsorted r -> sorted_by less (rev r).
  Proof.
    unfold rsorted, sorted_by. induction 1 as [|x r Hr IH Hx]; cbn [rev]; [constructor|].
    apply sorted_snoc; [exact IH|]. intros z Hz. apply in_rev in Hz.
    rewrite Forall_forall in Hx. apply Hx, Hz.
  Qed.

  Lemma isort_sorted l : sorted_by less (isort less l).
  Proof. unfold isort. apply rsorted_rev, fold_ins_sorted. constructor. Qed.
End Isort.

Lemma isort_spec : sort_spec isort.
Proof. intros less l. split; [apply isort_perm|intros H; apply isort_sorted, H]. Qed.

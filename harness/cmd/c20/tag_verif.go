//go:build verif

package main

// builtWithVerifTag: bin/check builds the harness commands with -tags verif (and this one with -race).
const builtWithVerifTag = true

package main

// Independent BIP37 reference (same text as in cmd/c09; nothing here calls into package bloom).

func refMurmur(seed uint32, data []byte) uint32 {
	const mask = 0xffffffff
	rotl := func(x uint64, r uint) uint64 { return ((x << r) | (x >> (32 - r))) & mask }
	h := uint64(seed)
	n := len(data)
	for off := 0; off+4 <= n; off += 4 {
		k := uint64(data[off]) | uint64(data[off+1])<<8 | uint64(data[off+2])<<16 | uint64(data[off+3])<<24
		k = (k * 0xcc9e2d51) & mask
		k = rotl(k, 15)
		k = (k * 0x1b873593) & mask
		h ^= k
		h = rotl(h, 13)
		h = (h*5 + 0xe6546b64) & mask
	}
	rem := n % 4
	if rem > 0 {
		var k uint64
		for j := rem - 1; j >= 0; j-- {
			k = k<<8 | uint64(data[n-rem+j])
		}
		k = (k * 0xcc9e2d51) & mask
		k = rotl(k, 15)
		k = (k * 0x1b873593) & mask
		h ^= k
	}
	h ^= uint64(n) & mask
	h ^= h >> 16
	h = (h * 0x85ebca6b) & mask
	h ^= h >> 13
	h = (h * 0xc2b2ae35) & mask
	h ^= h >> 16
	return uint32(h)
}

type refFilter struct {
	bits  []bool
	nHash uint32
	tweak uint32
}

func refFromBytes(b []byte, nHash, tweak uint32) *refFilter {
	r := &refFilter{bits: make([]bool, 8*len(b)), nHash: nHash, tweak: tweak}
	for k := range r.bits {
		r.bits[k] = (b[k/8]>>(uint(k)%8))&1 == 1
	}
	return r
}

func (r *refFilter) bitNumber(i uint32, item []byte) uint64 {
	seed := (uint64(i)*0xFBA4C795 + uint64(r.tweak)) % (1 << 32)
	return uint64(refMurmur(uint32(seed), item)) % uint64(len(r.bits))
}

func (r *refFilter) insert(item []byte) {
	if len(r.bits) == 0 {
		return
	}
	for i := uint32(0); i < r.nHash; i++ {
		r.bits[r.bitNumber(i, item)] = true
	}
}

func (r *refFilter) bytes() []byte {
	out := make([]byte, len(r.bits)/8)
	for k, b := range r.bits {
		if b {
			out[k/8] |= 1 << (uint(k) % 8)
		}
	}
	return out
}

func refOutpoint(txid []byte, index uint32) []byte {
	out := append([]byte(nil), txid...)
	return append(out, byte(index), byte(index>>8), byte(index>>16), byte(index>>24))
}

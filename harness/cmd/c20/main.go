// Command c20 is the dynamic half of C20 (runtime evidence, labelled as such):
// it runs the real bloom.Filter and gcs.Filter from up to 32 goroutines.  It is
// meant to be built with -race (checks.d/C20.json: go_build_flags); every
// stress scenario runs in a child process (this same binary) so that a race
// report, a runtime fatal error (unlock of unlocked mutex, deadlock), a panic or
// a hang of the code under test becomes a monitor violation with a replay
// instead of killing the harness.
//
// Scenarios
//
//	adders  k goroutines issue Add/AddHash/AddOutPoint/MatchTxAndUpdate plus reads
//	        (Matches, MatchesOutPoint, IsLoaded, MsgFilterLoad).  Monitors: a
//	        Matches(x) begun after the insertion of x returned is true; after the
//	        join the array equals, bit for bit, the OR of all insertions computed by
//	        the independent BIP37 reference; the same data goes to Coq (ConcFinal).
//	churn   the same plus Reload(fresh message)/Unload from every goroutine: no
//	        race, no panic, consistent load state afterwards.
//	gcs     k goroutines query one gcs.Filter; every answer equals the sequential
//	        one and the filter's bytes are unchanged.
//	multi   2 or 4 INDEPENDENT filters, goroutine g works on filter g mod F
//	        (outpoint insertions and queries, transaction matching): filters share
//	        nothing, so no race may be reported across them, every goroutine reads
//	        its own insertions, and each array equals the OR of the insertions made
//	        into THAT filter (state shared between filters - a package-level scratch
//	        buffer, a cache - shows up here and nowhere else).
//
//	addreload  atomicity of one call: Add(x) of a large element (long hashing) races with
//	        Reload(B), B of the SAME size and hash-function count but another tweak; the
//	        final array must be that of "Add;Reload" (B untouched) or of "Reload;Add" (B
//	        plus x's bits under B's tweak) - anything else is not a sequential order.
//
//	readreload  (Round 3) half of the goroutines keep Reloading the filter with fresh copies of two messages A and B
//	        (other size / tweak / hash-function count) that BOTH contain the items X, for ops_per_goroutine milliseconds; the other half query X (items of
//	        20 bytes, 4 KiB and 64 KiB: the long ones keep Matches inside its loop for milliseconds) and an outpoint.
//	        Every sequential order answers true; false is a torn read (C20:torn_read), a panic an index computed for one
//	        message applied to the other.
//	gcsmulti  (Round 3) see childGCSMulti: two independent GCS filters of more than 64 KiB (thorough: 1 MiB) each.
//	hammer  (Round 3) adders on 1..8-byte arrays with 50 hash functions and long runs: every Add rewrites the same few
//	        bytes, an unlocked read-modify-write loses bits (C20:lost_insertion).
//
// Two binaries (Round 3).  bin/check builds this command with -race -tags verif.  Library code under `//go:build
// !race` or `!verif` is not in such a binary, so the parent builds the command a second time with NO flag and NO tag
// (bin/c20_prod: what users of the library compile) and runs every scenario in both; the replay names the binary.
// Without the race detector the monitors are the answers themselves: lost insertions, read-your-insert, torn reads,
// atomicity, panics, runtime fatal errors, hangs.
//
// Hangs (Round 3).  Each child has a deadline; when it passes the child gets SIGQUIT, the Go runtime prints every
// goroutine's stack, and the C20:hang replay names the scenario, the binary and the filter methods the goroutines are
// blocked in.  report.json is rewritten after every child; after 3 hangs, or when the time budget is used up, no
// further child is started.
//
// In adders/churn every goroutine first runs MatchTxAndUpdate over one SHARED list of
// fresh, never hashed *bchutil.Tx values (bchutil.Tx memoises its hash without
// synchronisation: on one filter that is race free only if the method touches its argument
// inside the critical section).  The gcs scenario builds the shared filter through
// BuildGCSFilter / FromBytes / FromNBytes (by seed), lets the owner rewrite the constructor's
// input with identical bytes while the queries run (an aliasing constructor is a data race),
// and afterwards scrambles that input and re-queries (answers and bytes must not change).
// adders and churn also call bloom.GetMatchedIndices (the block scan built on
// MatchTxAndUpdate) concurrently with the other operations.
package main

import (
	"bytes"
	"context"
	"encoding/hex"
	"encoding/json"
	"flag"
	"fmt"
	"os"
	"os/exec"
	"regexp"
	"runtime"
	"path/filepath"
	"sort"
	"strings"
	"sync"
	"sync/atomic"
	"syscall"
	"time"

	"github.com/gcash/bchd/chaincfg/chainhash"
	"github.com/gcash/bchd/wire"
	"github.com/gcash/bchutil"
	"github.com/gcash/bchutil/bloom"
	"github.com/gcash/bchutil/gcs"

	"verif/harness/internal/vh"
)

type params struct {
	Scenario   string `json:"scenario"`
	Goroutines int    `json:"goroutines"`
	PerG       int    `json:"ops_per_goroutine"`
	Size       int    `json:"filter_bytes"`
	HashFuncs  uint32 `json:"hashfuncs"`
	Tweak      uint32 `json:"tweak"`
	Flags      uint32 `json:"flags"`
	Seed       uint64 `json:"seed"`
}

type childViolation struct {
	Key  string      `json:"key"`
	What string      `json:"what"`
	Info interface{} `json:"info"`
}

type childOut struct {
	Params     params           `json:"params"`
	Race       bool             `json:"race_detector"`
	Tags       bool             `json:"verif_tag"`
	Ops        int64            `json:"operations"`
	Init       string           `json:"init"`  // hex of the array before the goroutines start
	Items      []string         `json:"items"` // hex, every inserted byte string
	Final      string           `json:"final"` // hex of the array after the join
	Violations []childViolation `json:"violations"`
}

// ---------------------------------------------------------------------------
// child side

func p2pkh(h []byte) []byte {
	s := []byte{0x76, 0xa9, 0x14}
	s = append(s, h...)
	return append(s, 0x88, 0xac)
}

// payScript: an output script carrying the known element: pay-to-pubkey-hash for a 20-byte element; for a 33-byte
// key alternately pay-to-pubkey and bare 1-of-2 multisig (the classes BloomUpdateP2PubkeyOnly inserts outpoints for)
func payScript(r *vh.RNG, known []byte) []byte {
	if len(known) != 33 {
		return p2pkh(known)
	}
	if r.Intn(2) == 0 {
		return append(append([]byte{33}, known...), 0xac)
	}
	other := append([]byte{0x03}, r.Bytes(32)...)
	s := append([]byte{0x51, 33}, known...)
	s = append(append(s, 33), other...)
	return append(s, 0x52, 0xae)
}

func mkTx(r *vh.RNG, known []byte) *bchutil.Tx {
	m := wire.NewMsgTx(1)
	var prev chainhash.Hash
	copy(prev[:], r.Bytes(32))
	m.AddTxIn(wire.NewTxIn(wire.NewOutPoint(&prev, r.U32()), r.Bytes(10)))
	m.AddTxOut(wire.NewTxOut(int64(r.Intn(100000)), payScript(r, known), wire.TokenData{}))
	return bchutil.NewTx(m)
}

// progress watchdog of a child: every scenario loop calls tick(); when NO goroutine has ticked for stallLimit the
// child prints all goroutine stacks and exits with exitStalled - the parent reports C20:hang at once instead of
// waiting for the full deadline
var progress int64

const exitStalled = 67
const stallLimit = 30 * time.Second

func tick() { atomic.AddInt64(&progress, 1) }

func watchdog() {
	last, since := int64(-1), time.Now()
	for {
		time.Sleep(500 * time.Millisecond)
		if cur := atomic.LoadInt64(&progress); cur != last {
			last, since = cur, time.Now()
			continue
		}
		if time.Since(since) > stallLimit {
			buf := make([]byte, 1<<20)
			buf = buf[:runtime.Stack(buf, true)]
			fmt.Fprintf(os.Stderr, "STALLED: no filter operation completed for %v\n\n%s\n", stallLimit, buf)
			os.Exit(exitStalled)
		}
	}
}

func childAdders(p params, churn bool) childOut {
	out := childOut{Params: p, Race: raceEnabled, Tags: builtWithVerifTag}
	rng := vh.NewRNG(p.Seed)
	msg := &wire.MsgFilterLoad{Filter: make([]byte, p.Size), HashFuncs: p.HashFuncs, Tweak: p.Tweak, Flags: wire.BloomUpdateType(p.Flags)}
	f := bloom.LoadFilter(msg)
	// data elements every goroutine's transactions pay to: inserted before the goroutines start, so the
	// transactions always match and their outpoint is always inserted: flags = BloomUpdateAll with 20-byte address
	// hashes, or flags = BloomUpdateP2PubkeyOnly with 33-byte keys in pay-to-pubkey / bare multisig outputs
	updates := p.Flags == uint32(wire.BloomUpdateAll) || p.Flags == uint32(wire.BloomUpdateP2PubkeyOnly)
	known := make([][]byte, 4)
	for i := range known {
		if p.Flags == uint32(wire.BloomUpdateP2PubkeyOnly) {
			known[i] = append([]byte{0x02}, rng.Bytes(32)...)
		} else {
			known[i] = rng.Bytes(20)
		}
		f.Add(known[i])
	}
	out.Init = vh.Hex(msg.Filter)
	var mu sync.Mutex
	var viol []childViolation
	violate := func(key, what string, info interface{}) {
		mu.Lock()
		if len(viol) < 5 {
			viol = append(viol, childViolation{key, what, info})
		}
		mu.Unlock()
	}
	items := make([][][]byte, p.Goroutines)
	// transactions shared by ALL goroutines, not hashed before the goroutines start
	var shared []*bchutil.Tx
	if churn || updates {
		sr := rng.Fork("shared-tx")
		for i := 0; i < 40; i++ {
			shared = append(shared, mkTx(sr, known[i%len(known)]))
		}
	}
	var ops int64
	start := make(chan struct{})
	var wg sync.WaitGroup
	for g := 0; g < p.Goroutines; g++ {
		wg.Add(1)
		r := rng.Fork(fmt.Sprintf("g%d", g))
		go func(g int, r *vh.RNG) {
			defer wg.Done()
			defer func() {
				if e := recover(); e != nil {
					violate("C20:panic", fmt.Sprintf("a filter operation panicked under concurrency: %v", e), nil)
				}
			}()
			<-start
			var mine [][]byte
			n := int64(0)
			for _, tx := range shared {
				tick()
				got := f.MatchTxAndUpdate(tx)
				n++
				if !churn && !got {
					violate("C20:matchtx", "MatchTxAndUpdate missed a shared transaction paying to an inserted element", map[string]interface{}{"goroutine": g})
				}
			}
			for j := 0; j < p.PerG; j++ {
				tick()
				c := r.Intn(20)
				switch {
				case c < 5:
					d := r.Bytes(vh.Pick(r, []int{0, 1, 2, 3, 4, 5, 20, 32, 33, 65}))
					f.Add(d)
					mine = append(mine, d)
					if !churn && !f.Matches(d) {
						violate("C20:read_your_insert", "Matches(x) begun after Add(x) returned is false", map[string]interface{}{"goroutine": g, "item": vh.Hex(d)})
					}
					n += 2
				case c < 7:
					var h chainhash.Hash
					copy(h[:], r.Bytes(32))
					f.AddHash(&h)
					mine = append(mine, h[:])
					if !churn && !f.Matches(h[:]) {
						violate("C20:read_your_insert", "Matches(h) begun after AddHash(h) returned is false", map[string]interface{}{"goroutine": g, "item": vh.Hex(h[:])})
					}
					n += 2
				case c < 9:
					var h chainhash.Hash
					copy(h[:], r.Bytes(32))
					op := wire.NewOutPoint(&h, r.U32())
					f.AddOutPoint(op)
					mine = append(mine, refOutpoint(h[:], op.Index))
					if !churn && !f.MatchesOutPoint(op) {
						violate("C20:read_your_insert", "MatchesOutPoint(o) begun after AddOutPoint(o) returned is false", map[string]interface{}{"goroutine": g})
					}
					n += 2
				case c < 11:
					if !updates {
						continue
					}
					tx := mkTx(r, known[r.Intn(len(known))])
					th := tx.Hash() // computed (and cached in the Tx) by this goroutine only
					got := f.MatchTxAndUpdate(tx)
					n++
					if !churn {
						mine = append(mine, refOutpoint(th[:], 0))
						if !got {
							violate("C20:matchtx", "MatchTxAndUpdate missed a transaction paying to an inserted element", map[string]interface{}{"goroutine": g})
						}
						if !f.MatchesOutPoint(wire.NewOutPoint(th, 0)) {
							violate("C20:read_your_insert", "outpoint inserted by MatchTxAndUpdate not matched afterwards", map[string]interface{}{"goroutine": g})
						}
						n++
					}
				case c < 14:
					if r.Intn(4) == 0 && (churn || updates) {
						// the block scan, concurrently with everything else: two transactions paying to inserted elements
						t1, t2 := mkTx(r, known[r.Intn(len(known))]), mkTx(r, known[r.Intn(len(known))])
						h1, h2 := t1.Hash(), t2.Hash()
						blk := bchutil.NewBlock(&wire.MsgBlock{Transactions: []*wire.MsgTx{t1.MsgTx(), t2.MsgTx()}})
						got := bloom.GetMatchedIndices(blk, f)
						n++
						if !churn {
							mine = append(mine, refOutpoint(h1[:], 0), refOutpoint(h2[:], 0))
							if !got[0] || !got[1] {
								violate("C20:matchtx", "GetMatchedIndices missed a transaction paying to an inserted element", map[string]interface{}{"goroutine": g})
							}
						}
						continue
					}
					f.Matches(r.Bytes(r.Intn(40)))
					n++
				case c < 15:
					if len(mine) > 0 && !churn && !f.Matches(mine[r.Intn(len(mine))]) {
						violate("C20:lost_insertion", "an item inserted earlier by this goroutine no longer matches", map[string]interface{}{"goroutine": g})
					}
					n++
				case c < 16:
					if !f.IsLoaded() && !churn {
						violate("C20:state", "IsLoaded false although nobody unloads", nil)
					}
					n++
				case c < 17:
					if m := f.MsgFilterLoad(); m != msg && !churn { // pointer only: the bytes belong to the filter
						violate("C20:state", "MsgFilterLoad returned a different message although nobody reloads", nil)
					}
					n++
				case c < 19 && churn:
					switch r.Intn(3) {
					case 0:
						f.Unload()
					case 1:
						f.Reload(nil)
					default:
						f.Reload(&wire.MsgFilterLoad{Filter: make([]byte, 1+r.Intn(64)), HashFuncs: uint32(r.Intn(51)), Tweak: r.U32(), Flags: wire.BloomUpdateType(r.Intn(3))})
					}
					n++
				default:
					var h chainhash.Hash
					copy(h[:], r.Bytes(32))
					f.MatchesOutPoint(wire.NewOutPoint(&h, r.U32()))
					n++
				}
			}
			items[g] = mine
			atomic.AddInt64(&ops, n)
		}(g, r)
	}
	close(start)
	wg.Wait()
	out.Ops = ops
	if churn {
		if f.IsLoaded() != (f.MsgFilterLoad() != nil) {
			violate("C20:state", "IsLoaded and MsgFilterLoad disagree after the join", nil)
		}
		out.Violations = viol
		return out
	}
	if len(shared) > 0 { // their outpoints were inserted by whichever call came first
		var so [][]byte
		for _, tx := range shared {
			so = append(so, refOutpoint(tx.Hash()[:], 0))
		}
		items = append(items, so)
	}
	final := f.MsgFilterLoad()
	ref := refFromBytes(mustHex(out.Init), p.HashFuncs, p.Tweak)
	for _, mine := range items {
		for _, it := range mine {
			ref.insert(it)
			out.Items = append(out.Items, vh.Hex(it))
			if !f.Matches(it) {
				violate("C20:lost_insertion", "an inserted item is not matched after all goroutines finished", map[string]interface{}{"item": vh.Hex(it)})
			}
		}
	}
	out.Final = vh.Hex(final.Filter)
	if want := ref.bytes(); !bytes.Equal(final.Filter, want) {
		missing := 0
		for i := range want {
			if want[i]&^final.Filter[i] != 0 {
				missing++
			}
		}
		violate("C20:lost_insertion", "the array after the join is not the OR of all insertions (BIP37 reference)", map[string]interface{}{"bytes_missing_bits": missing})
	}
	out.Violations = viol
	return out
}

// childMulti: several independent filters used at the same time (see the package comment)
func childMulti(p params) childOut {
	out := childOut{Params: p, Race: raceEnabled, Tags: builtWithVerifTag}
	rng := vh.NewRNG(p.Seed)
	nf := 2
	if p.Goroutines >= 8 {
		nf = 4
	}
	type fstate struct {
		f     *bloom.Filter
		init  []byte
		tweak uint32
	}
	known := rng.Bytes(20)
	fs := make([]fstate, nf)
	for i := range fs {
		tw := p.Tweak + uint32(i)*0x9e3779b9
		f := bloom.LoadFilter(&wire.MsgFilterLoad{Filter: make([]byte, p.Size), HashFuncs: p.HashFuncs, Tweak: tw, Flags: wire.BloomUpdateAll})
		f.Add(known)
		fs[i] = fstate{f, append([]byte(nil), f.MsgFilterLoad().Filter...), tw}
	}
	var mu sync.Mutex
	var viol []childViolation
	violate := func(key, what string, info interface{}) {
		mu.Lock()
		if len(viol) < 5 {
			viol = append(viol, childViolation{key, what, info})
		}
		mu.Unlock()
	}
	items := make([][][]byte, p.Goroutines)
	var ops int64
	start := make(chan struct{})
	var wg sync.WaitGroup
	for g := 0; g < p.Goroutines; g++ {
		wg.Add(1)
		r := rng.Fork(fmt.Sprintf("g%d", g))
		go func(g int, r *vh.RNG) {
			defer wg.Done()
			defer func() {
				if e := recover(); e != nil {
					violate("C20:panic", fmt.Sprintf("a filter operation panicked while another filter was in use: %v", e), nil)
				}
			}()
			f := fs[g%nf].f
			<-start
			var mine [][]byte
			n := int64(0)
			for j := 0; j < p.PerG; j++ {
				tick()
				switch c := r.Intn(10); {
				case c < 4:
					var h chainhash.Hash
					copy(h[:], r.Bytes(32))
					op := wire.NewOutPoint(&h, r.U32())
					f.AddOutPoint(op)
					mine = append(mine, refOutpoint(h[:], op.Index))
					if !f.MatchesOutPoint(op) {
						violate("C20:read_your_insert", "MatchesOutPoint(o) begun after AddOutPoint(o) returned is false (several filters in use)", map[string]interface{}{"goroutine": g, "filter": g % nf})
					}
					n += 2
				case c < 6:
					d := r.Bytes(vh.Pick(r, []int{1, 20, 32, 36}))
					f.Add(d)
					mine = append(mine, d)
					if !f.Matches(d) {
						violate("C20:read_your_insert", "Matches(x) begun after Add(x) returned is false (several filters in use)", map[string]interface{}{"goroutine": g, "filter": g % nf})
					}
					n += 2
				case c < 8:
					tx := mkTx(r, known)
					th := tx.Hash()
					got := f.MatchTxAndUpdate(tx)
					mine = append(mine, refOutpoint(th[:], 0))
					if !got || !f.MatchesOutPoint(wire.NewOutPoint(th, 0)) {
						violate("C20:matchtx", "MatchTxAndUpdate missed a paying transaction or its outpoint (several filters in use)", map[string]interface{}{"goroutine": g, "filter": g % nf})
					}
					n += 2
				default:
					var h chainhash.Hash
					copy(h[:], r.Bytes(32))
					f.MatchesOutPoint(wire.NewOutPoint(&h, r.U32()))
					n++
				}
			}
			items[g] = mine
			atomic.AddInt64(&ops, n)
		}(g, r)
	}
	close(start)
	wg.Wait()
	out.Ops = ops
	for i, st := range fs {
		ref := refFromBytes(st.init, p.HashFuncs, st.tweak)
		for g, mine := range items {
			if g%nf != i {
				continue
			}
			for _, it := range mine {
				ref.insert(it)
			}
		}
		if got, want := st.f.MsgFilterLoad().Filter, ref.bytes(); !bytes.Equal(got, want) {
			missing, extra := 0, 0
			for k := range want {
				if want[k]&^got[k] != 0 {
					missing++
				}
				if got[k]&^want[k] != 0 {
					extra++
				}
			}
			violate("C20:lost_insertion", "with several filters in use, a filter's array is not the OR of the insertions made into it (BIP37 reference)",
				map[string]interface{}{"filter": i, "bytes_missing_bits": missing, "bytes_with_foreign_bits": extra})
		}
	}
	out.Violations = viol
	return out
}

// childAddReload: is one Add call atomic with respect to a concurrent Reload? (see the package comment)
func childAddReload(p params) childOut {
	out := childOut{Params: p, Race: raceEnabled, Tags: builtWithVerifTag}
	rng := vh.NewRNG(p.Seed)
	var viol []childViolation
	var ops int64
	for round := 0; round < p.PerG; round++ {
		tick()
		tA := rng.U32()
		tB := tA + 1 + rng.U32()%1000
		a := &wire.MsgFilterLoad{Filter: make([]byte, p.Size), HashFuncs: p.HashFuncs, Tweak: tA}
		b := &wire.MsgFilterLoad{Filter: make([]byte, p.Size), HashFuncs: p.HashFuncs, Tweak: tB}
		f := bloom.LoadFilter(a)
		x := rng.Bytes(256 << 10) // hashing 256 KiB HashFuncs times keeps Add busy for a long time
		delay := time.Duration(200+rng.Intn(3000)) * time.Microsecond
		var wg sync.WaitGroup
		stop := make(chan struct{})
		for g := 0; g < p.Goroutines; g++ {
			wg.Add(1)
			go func(g int) {
				defer wg.Done()
				switch g {
				case 0:
					f.Add(x)
				case 1:
					time.Sleep(delay)
					f.Reload(b)
				default: // readers, for scheduling noise
					for {
						select {
						case <-stop:
							return
						default:
							f.Matches(x[:20])
							f.IsLoaded()
							time.Sleep(100 * time.Microsecond)
						}
					}
				}
			}(g)
		}
		// the adder and the reloader finish on their own; then stop the readers
		done := make(chan struct{})
		go func() { wg.Wait(); close(done) }()
		for f.MsgFilterLoad() != b {
			time.Sleep(200 * time.Microsecond)
		}
		// Reload has happened; Add may still be running: give it time to return, then stop the readers
		time.Sleep(5 * time.Millisecond)
		probe := make(chan struct{})
		go func() { f.IsLoaded(); close(probe) }() // returns only when no Add holds the lock
		<-probe
		close(stop)
		<-done
		ops += 2
		zero := true
		for _, v := range b.Filter {
			if v != 0 {
				zero = false
				break
			}
		}
		ref := refFromBytes(make([]byte, p.Size), p.HashFuncs, tB)
		ref.insert(x)
		if !zero && !bytes.Equal(b.Filter, ref.bytes()) {
			stray := 0
			want := ref.bytes()
			for i := range want {
				if b.Filter[i]&^want[i] != 0 {
					stray++
				}
			}
			viol = append(viol, childViolation{"C20:atomicity", "Add(x) concurrent with Reload(B): the final array is neither B untouched (Add;Reload) nor B plus x's bits (Reload;Add)",
				map[string]interface{}{"round": round, "bytes_with_stray_bits": stray, "contains_x": f.Matches(x), "delay_us": delay.Microseconds()}})
			break
		}
	}
	out.Ops = ops
	out.Violations = viol
	return out
}

// childReadReload: see the package comment
func childReadReload(p params) childOut {
	out := childOut{Params: p, Race: raceEnabled, Tags: builtWithVerifTag}
	rng := vh.NewRNG(p.Seed)
	var txid chainhash.Hash
	copy(txid[:], rng.Bytes(32))
	op := wire.NewOutPoint(&txid, rng.U32())
	X := [][]byte{rng.Bytes(20), rng.Bytes(4 << 10), rng.Bytes(64 << 10)}
	type shape struct {
		size  int
		nh    uint32
		tweak uint32
	}
	a := shape{p.Size, p.HashFuncs, p.Tweak}
	b := shape{16, 7, p.Tweak ^ 0x9e3779b9}
	if p.Seed%2 == 0 { // same size and hash-function count, only the tweak differs: a torn read cannot panic, only answer wrongly
		b = shape{p.Size, p.HashFuncs, p.Tweak + 1}
	}
	mk := func(s shape) []byte {
		ref := refFromBytes(make([]byte, s.size), s.nh, s.tweak)
		for _, x := range X {
			tick()
			ref.insert(x)
		}
		ref.insert(refOutpoint(txid[:], op.Index))
		return ref.bytes()
	}
	bytesA, bytesB := mk(a), mk(b)
	fresh := func(which int) *wire.MsgFilterLoad {
		if which == 0 {
			return &wire.MsgFilterLoad{Filter: append([]byte(nil), bytesA...), HashFuncs: a.nh, Tweak: a.tweak}
		}
		return &wire.MsgFilterLoad{Filter: append([]byte(nil), bytesB...), HashFuncs: b.nh, Tweak: b.tweak}
	}
	f := bloom.LoadFilter(fresh(0))
	var mu sync.Mutex
	var viol []childViolation
	violate := func(key, what string, info interface{}) {
		mu.Lock()
		if len(viol) < 5 {
			viol = append(viol, childViolation{key, what, info})
		}
		mu.Unlock()
	}
	writers := p.Goroutines / 2
	if writers < 1 {
		writers = 1
	}
	var ops int64
	var writersLeft int32 = int32(writers)
	start := make(chan struct{})
	var wg sync.WaitGroup
	for g := 0; g < p.Goroutines; g++ {
		wg.Add(1)
		r := rng.Fork(fmt.Sprintf("g%d", g))
		go func(g int, r *vh.RNG) {
			defer wg.Done()
			defer func() {
				if e := recover(); e != nil {
					if g < writers {
						atomic.AddInt32(&writersLeft, -1)
					}
					violate("C20:panic", fmt.Sprintf("a filter operation panicked while the filter was being reloaded: %v", e), map[string]interface{}{"goroutine": g, "role": map[bool]string{true: "reloader", false: "reader"}[g < writers]})
				}
			}()
			<-start
			n := int64(0)
			if g < writers {
				stopAt := time.Now().Add(time.Duration(p.PerG) * time.Millisecond) // ops_per_goroutine = run time in ms here
				for time.Now().Before(stopAt) {
					tick()
					f.Reload(fresh(r.Intn(2)))
					n++
					time.Sleep(time.Duration(20+r.Intn(300)) * time.Microsecond)
				}
				atomic.AddInt32(&writersLeft, -1)
			} else {
				for atomic.LoadInt32(&writersLeft) > 0 {
					tick()
					k := r.Intn(len(X) + 2)
					switch {
					case k < len(X):
						if !f.Matches(X[k]) {
							violate("C20:torn_read", "Matches(x) answered false although every message ever loaded contains x: no sequential order of the calls gives that answer",
								map[string]interface{}{"goroutine": g, "item_bytes": len(X[k])})
						}
					case k == len(X):
						if !f.MatchesOutPoint(op) {
							violate("C20:torn_read", "MatchesOutPoint(o) answered false although every message ever loaded contains o", map[string]interface{}{"goroutine": g})
						}
					default:
						if !f.IsLoaded() {
							violate("C20:state", "IsLoaded false although nobody unloads", nil)
						}
					}
					n++
				}
			}
			atomic.AddInt64(&ops, n)
		}(g, r)
	}
	close(start)
	wg.Wait()
	out.Ops = ops
	if m := f.MsgFilterLoad(); m == nil || !(bytes.Equal(m.Filter, bytesA) || bytes.Equal(m.Filter, bytesB)) {
		violate("C20:atomicity", "after the join the loaded array is neither of the two messages that were ever loaded", nil)
	}
	out.Violations = viol
	return out
}

// childGCSMulti (Round 3): two INDEPENDENT GCS filters of filter_bytes elements each (25 000 elements at P=19 are
// about 64 KiB of filter data, 450 000 more than 1 MiB: above any size threshold that might gate a copy / buffer
// path), goroutine g queries filter g mod 2 only.  Read-only use of immutable values: every Bytes()/NBytes() equals
// the bytes taken before the goroutines started, every member matches, every answer equals the sequential one.
func childGCSMulti(p params) childOut {
	out := childOut{Params: p, Race: raceEnabled, Tags: builtWithVerifTag}
	rng := vh.NewRNG(p.Seed)
	type fs struct {
		f       *gcs.Filter
		key     [gcs.KeySize]byte
		data    [][]byte
		bytes   []byte
		nbytes  []byte
		probes  [][]byte
		answers []bool
		anyQ    [][]byte
		anyA    bool
	}
	var F [2]fs
	for i := range F {
		copy(F[i].key[:], rng.Bytes(16))
		n := p.Size + rng.Intn(1+p.Size/50)
		F[i].data = make([][]byte, n)
		for j := range F[i].data {
			F[i].data[j] = rng.Bytes(8 + rng.Intn(24))
		}
		tick()
		f, err := gcs.BuildGCSFilter(19, 784931, F[i].key, F[i].data)
		tick()
		if err != nil {
			out.Violations = append(out.Violations, childViolation{"C20:gcs:build", fmt.Sprint(err), nil})
			return out
		}
		F[i].f = f
		F[i].bytes, _ = f.Bytes()
		F[i].nbytes, _ = f.NBytes()
		for j := 0; j < 16; j++ {
			q := rng.Bytes(8 + rng.Intn(24))
			if j%2 == 0 {
				q = F[i].data[rng.Intn(n)]
			}
			a, _ := f.Match(F[i].key, q)
			tick()
			F[i].probes, F[i].answers = append(F[i].probes, q), append(F[i].answers, a)
		}
		for j := 0; j < 20; j++ {
			F[i].anyQ = append(F[i].anyQ, rng.Bytes(12))
		}
		F[i].anyA, _ = f.MatchAny(F[i].key, F[i].anyQ)
	}
	out.Init = fmt.Sprintf("filter data: %d and %d bytes", len(F[0].bytes), len(F[1].bytes))
	var mu sync.Mutex
	var viol []childViolation
	violate := func(key, what string, info interface{}) {
		mu.Lock()
		if len(viol) < 5 {
			viol = append(viol, childViolation{key, what, info})
		}
		mu.Unlock()
	}
	var ops int64
	start := make(chan struct{})
	var wg sync.WaitGroup
	for g := 0; g < p.Goroutines; g++ {
		wg.Add(1)
		r := rng.Fork(fmt.Sprintf("g%d", g))
		go func(g int, r *vh.RNG) {
			defer wg.Done()
			defer func() {
				if e := recover(); e != nil {
					violate("C20:panic", fmt.Sprintf("a GCS query panicked while another filter was queried: %v", e), map[string]interface{}{"goroutine": g})
				}
			}()
			x := &F[g%2]
			info := map[string]interface{}{"goroutine": g, "filter": g % 2, "filter_data_bytes": len(x.bytes)}
			<-start
			for j := 0; j < p.PerG; j++ {
				tick()
				switch r.Intn(5) {
				case 0:
					if b, err := x.f.Bytes(); err != nil || !bytes.Equal(b, x.bytes) {
						violate("C20:gcs:mutated", "Bytes() of an immutable GCS filter returned other bytes while ANOTHER filter was being queried (foreign or torn data)", info)
					}
				case 1:
					if b, err := x.f.NBytes(); err != nil || !bytes.Equal(b, x.nbytes) {
						violate("C20:gcs:mutated", "NBytes() of an immutable GCS filter returned other bytes while ANOTHER filter was being queried", info)
					}
				case 2:
					if a, err := x.f.MatchAny(x.key, x.anyQ); err != nil || a != x.anyA {
						violate("C20:gcs:answer", "a concurrent GCS MatchAny differs from the sequential answer (independent filters in use)", info)
					}
				default:
					k := r.Intn(len(x.probes))
					if a, err := x.f.Match(x.key, x.probes[k]); err != nil || a != x.answers[k] {
						violate("C20:gcs:answer", "a concurrent GCS Match differs from the sequential answer (independent filters in use; members are even probes)", map[string]interface{}{"goroutine": g, "filter": g % 2, "filter_data_bytes": len(x.bytes), "probe_is_member": k%2 == 0, "got": a, "error": fmt.Sprint(err)})
					}
				}
			}
			atomic.AddInt64(&ops, int64(p.PerG))
		}(g, r)
	}
	close(start)
	wg.Wait()
	out.Ops = ops
	out.Violations = viol
	return out
}

func childGCS(p params) childOut {
	out := childOut{Params: p, Race: raceEnabled, Tags: builtWithVerifTag}
	rng := vh.NewRNG(p.Seed)
	var key [gcs.KeySize]byte
	copy(key[:], rng.Bytes(16))
	n := 50 + rng.Intn(400)
	data := make([][]byte, n)
	for i := range data {
		data[i] = rng.Bytes(1 + rng.Intn(40))
	}
	// f is the filter the goroutines share; it is NOT touched before they start (no warm-up of anything a query
	// might cache).  The sequential answers come from a second filter object built from the same data.
	fseq, err2 := gcs.BuildGCSFilter(19, 784931, key, data)
	if err2 != nil {
		out.Violations = append(out.Violations, childViolation{"C20:gcs:build", fmt.Sprint(err2), nil})
		return out
	}
	before, _ := fseq.NBytes()
	// the shared filter comes from one of the three constructors; [input] is the memory the caller handed to it and
	// still owns, [rewrite] stores the same bytes into it again, [scramble] overwrites it
	var f *gcs.Filter
	var err error
	var rewrite, scramble func()
	ctor := []string{"BuildGCSFilter", "FromBytes", "FromNBytes"}[p.Seed%3]
	switch ctor {
	case "BuildGCSFilter":
		in := make([][]byte, len(data))
		for i := range data {
			in[i] = append([]byte(nil), data[i]...)
		}
		f, err = gcs.BuildGCSFilter(19, 784931, key, in)
		rewrite = func() {
			for i := range in {
				copy(in[i], data[i])
			}
		}
		scramble = func() {
			for i := range in {
				for j := range in[i] {
					in[i][j] ^= 0xa5
				}
			}
		}
	case "FromBytes":
		raw, _ := fseq.Bytes()
		in := append([]byte(nil), raw...)
		f, err = gcs.FromBytes(fseq.N(), 19, 784931, in)
		rewrite = func() { copy(in, raw) }
		scramble = func() {
			for j := range in {
				in[j] = 0
			}
		}
	default:
		in := append([]byte(nil), before...)
		f, err = gcs.FromNBytes(19, 784931, in)
		rewrite = func() { copy(in, before) }
		scramble = func() {
			for j := range in {
				in[j] = 0
			}
		}
	}
	if err != nil {
		out.Violations = append(out.Violations, childViolation{"C20:gcs:build", ctor + ": " + fmt.Sprint(err), nil})
		return out
	}
	type q struct {
		single []byte
		many   [][]byte
		want   [4]bool
	}
	qs := make([]q, 64)
	for i := range qs {
		if i%2 == 0 {
			qs[i].single = data[rng.Intn(n)]
		} else {
			qs[i].single = rng.Bytes(1 + rng.Intn(40))
		}
		m := 1 + rng.Intn(30)
		for j := 0; j < m; j++ {
			if rng.Intn(10) == 0 && i%4 == 0 {
				qs[i].many = append(qs[i].many, data[rng.Intn(n)])
			} else {
				qs[i].many = append(qs[i].many, rng.Bytes(1+rng.Intn(40)))
			}
		}
		tick()
		qs[i].want[0], _ = fseq.Match(key, qs[i].single)
		qs[i].want[1], _ = fseq.MatchAny(key, qs[i].many)
		qs[i].want[2], _ = fseq.ZipMatchAny(key, qs[i].many)
		qs[i].want[3], _ = fseq.HashMatchAny(key, qs[i].many)
	}
	var mu sync.Mutex
	var viol []childViolation
	var ops int64
	start := make(chan struct{})
	var wg sync.WaitGroup
	for g := 0; g < p.Goroutines; g++ {
		wg.Add(1)
		r := rng.Fork(fmt.Sprintf("g%d", g))
		go func(g int, r *vh.RNG) {
			defer wg.Done()
			<-start
			for j := 0; j < p.PerG; j++ {
				tick()
				x := qs[r.Intn(len(qs))]
				var got bool
				var which int
				switch which = r.Intn(6); which {
				case 0:
					got, _ = f.Match(key, x.single)
				case 1:
					got, _ = f.MatchAny(key, x.many)
				case 2:
					got, _ = f.ZipMatchAny(key, x.many)
				case 3:
					got, _ = f.HashMatchAny(key, x.many)
				case 4:
					b, _ := f.NBytes()
					got = bytes.Equal(b, before)
					x.want[0] = true
					which = 0
				default:
					got = f.N() == uint32(n) && f.P() == 19
					x.want[0] = true
					which = 0
				}
				if got != x.want[which] {
					mu.Lock()
					if len(viol) < 5 {
						viol = append(viol, childViolation{"C20:gcs:answer", "a concurrent GCS query differs from the sequential answer", map[string]interface{}{"goroutine": g, "method": which}})
					}
					mu.Unlock()
				}
			}
			atomic.AddInt64(&ops, int64(p.PerG))
		}(g, r)
	}
	// the owner of the constructor's input keeps using its buffer (same contents) while the queries run
	stop := make(chan struct{})
	ownerDone := make(chan struct{})
	go func() {
		defer close(ownerDone)
		<-start
		for {
			select {
			case <-stop:
				return
			default:
				rewrite()
				time.Sleep(50 * time.Microsecond)
			}
		}
	}()
	close(start)
	wg.Wait()
	close(stop)
	<-ownerDone
	after, _ := f.NBytes()
	if !bytes.Equal(before, after) {
		viol = append(viol, childViolation{"C20:gcs:mutated", "the filter bytes changed while it was queried", nil})
	}
	// ... and then reuses it for something else: the filter must not notice
	scramble()
	changed := 0
	for _, x := range qs {
		a0, _ := f.Match(key, x.single)
		a1, _ := f.MatchAny(key, x.many)
		a2, _ := f.ZipMatchAny(key, x.many)
		a3, _ := f.HashMatchAny(key, x.many)
		if [4]bool{a0, a1, a2, a3} != x.want {
			changed++
		}
	}
	after2, _ := f.NBytes()
	if changed > 0 || !bytes.Equal(before, after2) {
		viol = append(viol, childViolation{"C20:gcs:aliased_input", "a filter built by " + ctor + " changed when the caller overwrote the constructor's input afterwards (not immutable)",
			map[string]interface{}{"constructor": ctor, "queries_with_changed_answers": changed, "bytes_changed": !bytes.Equal(before, after2)}})
	}
	out.Ops = ops
	out.Violations = viol
	return out
}

func mustHex(s string) []byte {
	b, err := hex.DecodeString(s)
	if err != nil {
		panic(err)
	}
	return b
}

// ---------------------------------------------------------------------------
// parent side

var cfg vh.Config
var rep *vh.Report
var cases *vh.Cases

var bloomFn = regexp.MustCompile(`(bloom|gcs)\.\(\*Filter\)\.([A-Za-z]+)`)

// the two binaries the scenarios run in
type binary struct {
	Path string
	Name string // "race" | "production"
}

var binaries []binary
var hangs, launched, skipped int
var t0 = time.Now()
var budget time.Duration
var childDeadline = 120 * time.Second

var blockedFn = regexp.MustCompile(`(bloom|gcs)\.\(?\*?Filter\)?\.([A-Za-z]+)`)

// blockedIn: from a SIGQUIT goroutine dump, the filter methods goroutines are parked in (with counts)
func blockedIn(dump string) []string {
	cnt := map[string]int{}
	for _, g := range strings.Split(dump, "\n\ngoroutine ") {
		if !strings.Contains(g, "semacquire") && !strings.Contains(g, "sync.(*Mutex)") && !strings.Contains(g, "[sync.Mutex.Lock") {
			continue
		}
		if m := blockedFn.FindStringSubmatch(g); m != nil {
			cnt[m[1]+".Filter."+m[2]]++
		}
	}
	var out []string
	for k, v := range cnt {
		out = append(out, fmt.Sprintf("%s (%d goroutines waiting for the mutex)", k, v))
	}
	sort.Strings(out)
	return out
}

func runChild(p params) {
	for _, b := range binaries {
		runChildIn(p, b)
	}
}

func runChildIn(p params, b binary) {
	if hangs >= 3 || (budget > 0 && time.Since(t0) > budget) {
		skipped++
		rep.Extra["children_not_started"] = fmt.Sprintf("%d (after %d hangs / %.0f s of a %.0f s budget)", skipped, hangs, time.Since(t0).Seconds(), budget.Seconds())
		return
	}
	launched++
	defer func() { rep.Cases = cases.Len(); rep.Write(cfg) }() // the report on disk is always current: a later hang or kill of the harness loses nothing
	pj, _ := json.Marshal(p)
	outFile := fmt.Sprintf("%s/child_%s_%s_%d_%d.json", cfg.Out, b.Name, p.Scenario, p.Goroutines, p.Seed)
	ctx, cancel := context.WithTimeout(context.Background(), childDeadline)
	defer cancel()
	cmd := exec.CommandContext(ctx, b.Path, "-child", string(pj), "-childout", outFile)
	cmd.Cancel = func() error { return cmd.Process.Signal(syscall.SIGQUIT) } // the runtime dumps all goroutine stacks and exits
	cmd.WaitDelay = 15 * time.Second
	cmd.Env = append(os.Environ(), "GORACE=halt_on_error=0 exitcode=66", "GOTRACEBACK=all")
	var stderr bytes.Buffer
	cmd.Stderr = &stderr
	err := cmd.Run()
	se := stderr.String()
	replay := map[string]interface{}{"stress": p, "binary": b.Name}
	kind := "stress:" + p.Scenario
	if b.Name != "race" {
		kind += ":" + b.Name
	}
	stalled := false
	if ee, ok := err.(*exec.ExitError); ok && ee.ExitCode() == exitStalled {
		stalled = true
	}
	switch {
	case ctx.Err() != nil || stalled:
		hangs++
		where := blockedIn(se)
		replay["blocked_in"] = where
		if i := strings.Index(se, "goroutine "); i >= 0 {
			d := se[i:]
			if j := strings.Index(d, "bchutil/bloom."); j > 600 {
				d = d[j-600:]
			}
			if len(d) > 2500 {
				d = d[:2500]
			}
			replay["goroutine_dump_excerpt"] = d
		}
		if n := strings.Count(se, "WARNING: DATA RACE"); n > 0 { // a child drowned in race reports is slow, not necessarily blocked: say so, and report the race as well
			replay["race_reports_before_the_deadline"] = n
			first := se[strings.Index(se, "WARNING: DATA RACE"):]
			if i := strings.Index(first, "\n=================="); i > 0 {
				first = first[:i]
			}
			fn := "unknown"
			if m := bloomFn.FindStringSubmatch(first); m != nil {
				fn = m[1] + "." + m[2]
			}
			if len(first) > 2500 {
				first = first[:2500]
			}
			rep.Violate("C20:race:"+fn, "the race detector reported a data race in "+fn, map[string]interface{}{"stress": p, "binary": b.Name, "race_report": first})
		}
		rep.Violate("C20:hang", fmt.Sprintf("stress scenario %q (%s binary, %d goroutines) made no progress for %.0f s / did not finish within %.0f s: deadlock or livelock in the filter %v", p.Scenario, b.Name, p.Goroutines, stallLimit.Seconds(), childDeadline.Seconds(), where), replay)
	case strings.Contains(se, "WARNING: DATA RACE"):
		first := se[strings.Index(se, "WARNING: DATA RACE"):]
		if i := strings.Index(first, "\n=================="); i > 0 {
			first = first[:i]
		}
		fn := "unknown"
		if m := bloomFn.FindStringSubmatch(first); m != nil {
			fn = m[1] + "." + m[2]
		}
		if len(first) > 2500 {
			first = first[:2500]
		}
		replay["race_report"] = first
		rep.Violate("C20:race:"+fn, "the race detector reported a data race in "+fn, replay)
	case strings.Contains(se, "fatal error:") || strings.Contains(se, "panic:"):
		i := strings.Index(se, "fatal error:")
		if i < 0 {
			i = strings.Index(se, "panic:")
		}
		msg := se[i:]
		if strings.Contains(msg, "all goroutines are asleep") {
			replay["blocked_in"] = blockedIn(msg)
		}
		if len(msg) > 1500 {
			msg = msg[:1500]
		}
		replay["stderr"] = msg
		rep.Violate("C20:crash", "the process crashed under concurrent use: "+strings.SplitN(msg, "\n", 2)[0], replay)
	case err != nil:
		replay["stderr"] = se
		rep.Violate("C20:child", "stress child failed: "+err.Error(), replay)
	}
	raw, rerr := os.ReadFile(outFile)
	os.Remove(outFile)
	if rerr != nil {
		rep.Count(kind, "", false)
		return
	}
	var co childOut
	if json.Unmarshal(raw, &co) != nil {
		rep.Count(kind, "", false)
		return
	}
	rep.Evaluations += int(co.Ops) // operations executed concurrently
	rep.Count(kind, string(pj), p.Goroutines > 1)
	rep.Histogram[fmt.Sprintf("goroutines:%d", p.Goroutines)]++
	if !co.Race && b.Name == "race" {
		rep.Extra["race_detector"] = false
	}
	for _, v := range co.Violations {
		r := map[string]interface{}{"stress": p, "binary": b.Name, "info": v.Info}
		rep.Violate(v.Key, v.What, r)
	}
	// the Coq model recomputes the array from the items (cost ~ items x hash functions): keep the case affordable
	if p.Scenario == "adders" && b.Name == "race" && co.Final != "" && !cfg.Search && len(co.Items)*int(p.HashFuncs+1) <= 9000 {
		items := make([]string, len(co.Items))
		for i, it := range co.Items {
			items[i] = vh.CoqBytes(mustHex(it))
		}
		init := mustHex(co.Init)
		fin := mustHex(co.Final)
		var nz []string
		for i, b := range fin {
			if b != 0 {
				nz = append(nz, fmt.Sprintf("(%d,%d)", i, b))
			}
		}
		term := fmt.Sprintf("ConcFinal (Some (MkMsg %s %d %d %d)) %s (Some (%d, %s, %d, %d, %d))",
			chunked(len(init), func(lo, hi int) string { return vh.CoqBytes(init[lo:hi]) }), p.HashFuncs, p.Tweak, p.Flags,
			chunked(len(items), func(lo, hi int) string { return vh.CoqList(items[lo:hi]) }),
			len(fin), chunked(len(nz), func(lo, hi int) string { return vh.CoqList(nz[lo:hi]) }), p.HashFuncs, p.Tweak, p.Flags)
		cases.Add(term, map[string]interface{}{"kind": "concurrent-final", "stress": p, "items": len(items)})
	}
}

// buildProduction: `go build` of this command with no flag and no tag, against the same module graph the driver
// used (GOFLAGS, incl. -modfile on mutation runs, is inherited)
func buildProduction() (string, error) {
	dir := ""
	if exe, err := os.Executable(); err == nil {
		d := filepath.Dir(filepath.Dir(exe))
		if _, err := os.Stat(filepath.Join(d, "go.mod")); err == nil {
			dir = d
		}
	}
	if dir == "" {
		dir, _ = os.Getwd()
	}
	bin := filepath.Join(dir, "bin", "c20_prod")
	cmd := exec.Command("go", "build", "-o", bin, "./cmd/c20")
	cmd.Dir = dir
	if out, err := cmd.CombinedOutput(); err != nil {
		o := string(out)
		if len(o) > 1500 {
			o = o[:1500]
		}
		return "", fmt.Errorf("go build ./cmd/c20: %v: %s", err, o)
	}
	return bin, nil
}

func chunked(n int, part func(lo, hi int) string) string {
	const c = 300
	if n <= c {
		return part(0, n)
	}
	var ps []string
	for lo := 0; lo < n; lo += c {
		hi := lo + c
		if hi > n {
			hi = n
		}
		ps = append(ps, part(lo, hi))
	}
	return "(" + strings.Join(ps, " ++ ") + ")"
}

func main() {
	child := flag.String("child", "", "internal: run one stress scenario (JSON params)")
	childOutF := flag.String("childout", "", "internal: where the child writes its result")
	cfg = vh.ParseFlags("C20")
	if *child != "" {
		var p params
		vh.Must(json.Unmarshal([]byte(*child), &p))
		go watchdog()
		var co childOut
		switch p.Scenario {
		case "adders":
			co = childAdders(p, false)
		case "churn":
			co = childAdders(p, true)
		case "gcs":
			co = childGCS(p)
		case "multi":
			co = childMulti(p)
		case "addreload":
			co = childAddReload(p)
		case "readreload":
			co = childReadReload(p)
		case "gcsmulti":
			co = childGCSMulti(p)
		}
		j, _ := json.Marshal(co)
		vh.Must(os.WriteFile(*childOutF, j, 0o644))
		return
	}
	rep = vh.NewReport(cfg)
	rep.Rule = "one execution = one filter operation issued while other goroutines were running (evaluations) ; a stress run is non-trivial when more than one goroutine took part (distinct by scenario, goroutine count, filter shape and seed)"
	cases = vh.NewCases(cfg, "Run.Run_C20", 4)
	rep.Extra["race_detector"] = raceEnabled
	rep.Extra["evidence_kind"] = "runtime evidence: schedules are whatever the Go scheduler produced; data-race freedom is observed by the race detector, not proved"
	rng := vh.NewRNG(cfg.Seed)

	// the binaries: this one (as built by the driver: -race -tags verif) and the production configuration
	self := "race"
	if !raceEnabled {
		self = "as-built-without-race"
		if !builtWithVerifTag {
			self = "production"
		}
	}
	binaries = []binary{{os.Args[0], self}}
	if self != "production" {
		if pb, err := buildProduction(); err != nil {
			rep.Extra["production_binary"] = "NOT BUILT: " + err.Error()
			fmt.Fprintln(os.Stderr, "c20: production binary not built:", err)
		} else {
			binaries = append(binaries, binary{pb, "production"})
			rep.Extra["production_binary"] = "cmd/c20 rebuilt with plain `go build` (no -race, no build tag) and every scenario run in it as well: code under //go:build !race or !verif is observed there"
		}
	}
	budget = time.Duration(cfg.Scale(400, 540)) * time.Second
	if cfg.Search {
		budget = 700 * time.Second
	}

	if cfg.Replay != "" {
		raw, err := os.ReadFile(cfg.Replay)
		vh.Must(err)
		var rp struct {
			Input struct {
				Stress *params `json:"stress"`
				Binary string  `json:"binary"`
			} `json:"input"`
		}
		vh.Must(json.Unmarshal(raw, &rp))
		if rp.Input.Stress != nil {
			var use []binary
			for _, b := range binaries {
				if b.Name == rp.Input.Binary {
					use = append(use, b)
				}
			}
			if len(use) > 0 {
				binaries = use
			}
			for i := 0; i < 5 && hangs == 0; i++ { // schedules differ from run to run
				runChild(*rp.Input.Stress)
			}
		}
		vh.Must(rep.Write(cfg))
		return
	}

	rounds := cfg.Scale(1, 4)
	if cfg.Search {
		rounds = 6
	}
	r := rng.Fork("stress")
	for round := 0; round < rounds; round++ {
		for _, k := range []int{1, 2, 4, 8, 16, 32} {
			perG := 2400 / k
			if perG < 60 {
				perG = 60
			}
			if k == 1 {
				perG = 200
			}
			shape := vh.Pick(r, []struct {
				size int
				nh   uint32
			}{{8, 3}, {64, 5}, {512, 10}, {3, 5}, {36000, 50}, {1, 1}})
			if k == 32 && round == 0 {
				shape.size, shape.nh = 512, 10
			}
			fl := uint32(wire.BloomUpdateAll)
			if k == 4 || k == 16 { // the P2PubkeyOnly path of maybeAddOutpoint (script classification, pubkey / multisig outputs)
				fl = uint32(wire.BloomUpdateP2PubkeyOnly)
			}
			runChild(params{Scenario: "adders", Goroutines: k, PerG: perG, Size: shape.size, HashFuncs: shape.nh, Tweak: r.U32(), Flags: fl, Seed: r.U64()})
			if k > 1 {
				runChild(params{Scenario: "churn", Goroutines: k, PerG: perG, Size: 1 + r.Intn(64), HashFuncs: uint32(r.Intn(51)), Tweak: r.U32(), Flags: uint32(r.Intn(3)), Seed: r.U64()})
				runChild(params{Scenario: "gcs", Goroutines: k, PerG: 400 / k * 4, Seed: r.U64()})
				if k == 2 || k == 4 || cfg.Thorough() || cfg.Search {
					runChild(params{Scenario: "addreload", Goroutines: k, PerG: cfg.Scale(4, 8), Size: vh.Pick(r, []int{64, 1024}), HashFuncs: uint32(10 + r.Intn(20)), Seed: r.U64()})
				}
				if k == 4 || k == 16 || cfg.Thorough() || cfg.Search {
					runChild(params{Scenario: "readreload", Goroutines: k, PerG: cfg.Scale(800, 3000), Size: vh.Pick(r, []int{64, 512, 4096}), HashFuncs: uint32(10 + r.Intn(41)), Tweak: r.U32(), Seed: r.U64()})
				}
				if k == 2 || k == 8 || cfg.Thorough() || cfg.Search { // two independent GCS filters above 64 KiB (thorough: one run above 1 MiB)
					n := 30000
					if (cfg.Thorough() || cfg.Search) && k == 4 && round == 0 {
						n = 450000
					}
					runChild(params{Scenario: "gcsmulti", Goroutines: k, PerG: map[bool]int{true: 24, false: cfg.Scale(24, 60)}[n > 100000], Size: n, Seed: r.U64()})
				}
				if k == 8 || k == 32 || cfg.Thorough() || cfg.Search { // hammer: tiny array, 50 hash functions, long runs
					runChild(params{Scenario: "adders", Goroutines: k, PerG: cfg.Scale(4000, 20000) / k * 4, Size: 1 + r.Intn(8), HashFuncs: 50, Tweak: r.U32(), Flags: uint32(wire.BloomUpdateNone), Seed: r.U64()})
				}
				if k == 2 || k == 8 || k == 32 || cfg.Thorough() || cfg.Search {
					runChild(params{Scenario: "multi", Goroutines: k, PerG: perG, Size: vh.Pick(r, []int{8, 64, 512}), HashFuncs: uint32(1 + r.Intn(10)), Tweak: r.U32(), Flags: uint32(wire.BloomUpdateAll), Seed: r.U64()})
				}
			}
		}
	}
	if !cfg.Search {
		_, err := cases.Flush()
		vh.Must(err)
	}
	rep.Cases = cases.Len()
	rep.Extra["children"] = fmt.Sprintf("%d stress children run (%d binaries), %d hangs, %d not started", launched, len(binaries), hangs, skipped)
	rep.Sample(map[string]interface{}{"scenario": "adders", "what": "k goroutines x Add/AddHash/AddOutPoint/MatchTxAndUpdate + reads; final array == OR of all insertions; Matches(x) after Add(x) returned"}, 4)
	vh.Must(rep.Write(cfg))
	fmt.Printf("c20: race detector %v, %d concurrent operations, %d stress runs with >1 goroutine, %d cases, %d violations\n", raceEnabled, rep.Evaluations, rep.Nontrivial, cases.Len(), len(rep.Violations))
}

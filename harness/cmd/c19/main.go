// Command c19 drives the coinset package of the repository under test: it evaluates the
// clauses of property C19 on the implementation (monitors) over exhaustive small scopes and
// random larger ones, and writes correspondence cases for the Coq model (Run/Run_C19.v).
package main

import (
	"encoding/json"
	"fmt"
	"math"
	"math/big"
	"os"
	"path/filepath"
	"sort"
	"sync"
	"time"

	"github.com/gcash/bchd/chaincfg/chainhash"
	"github.com/gcash/bchd/wire"
	"github.com/gcash/bchutil"
	"github.com/gcash/bchutil/coinset"

	"verif/harness/cmd/c16/srclits"
	"verif/harness/cmd/c17/prodrun"
	"verif/harness/internal/vh"
)

var cfg vh.Config
var rep *vh.Report
var cases *vh.Cases

// ---------- inputs ----------
type tcoin struct{ V, C int64 } // value, confirmations; the id is the position in the offered list

type param struct {
	MaxIn                  int
	MinChange, MinAvg, Tgt int64
}

var selName = []string{"minindex", "minnumber", "maxvalueage", "minpriority"}

// pool builds coinset.SimpleCoin values backed by real transactions.  Coin ids are grouped in
// threes (group g = id/3, slot = id%3).  In groups with g%4 != 3 the coins are different outputs of
// ONE transaction (same previous-transaction hash), at output indices that ascend with the id
// (g%3 == 0), descend (g%3 == 2) or are mixed (g%3 == 1), so lists, selections and histories hold
// coins sharing a hash in both index orders; in groups with g%4 == 3 every coin has its own
// transaction and is its first, a middle or its last output.  Other outputs carry other, non-zero
// values.  The outpoint each coin stands for is recorded here, computed from the wire transaction
// and not through the SimpleCoin accessors under test.
//
// SimpleCoin is a plain struct with exported fields (Tx, TxIndex, TxNumConfs) that a wallet
// updates as blocks arrive: the pool keeps ONE object per coin id and re-points its exported
// fields for every new case (fresh objects only on every 7th call), so almost every use of a
// coin follows an earlier use of the same object with other values and confirmations.  After each
// update the accessors are compared with the values just stored (bad).
type txKey struct {
	g, n, slot int
	v          [3]int64
}

type txInfo struct {
	tx   *bchutil.Tx
	hash chainhash.Hash
}

type pool struct {
	txs   map[txKey]txInfo
	objs  []*coinset.SimpleCoin
	op    map[*coinset.SimpleCoin]wire.OutPoint
	calls int
	bad   string // first accessor disagreement since it was last cleared
}

func newPool() *pool {
	return &pool{txs: map[txKey]txInfo{}, op: map[*coinset.SimpleCoin]wire.OutPoint{}}
}

// outpoint: the (hash, index) a coin of this pool must be spent by
func (p *pool) outpoint(c coinset.Coin) (wire.OutPoint, bool) {
	sc, ok := c.(*coinset.SimpleCoin)
	if !ok {
		return wire.OutPoint{}, false
	}
	o, ok := p.op[sc]
	return o, ok
}

var slotIndex = [3][3]uint32{{0, 1, 2}, {1, 0, 2}, {2, 1, 0}}

// place: the transaction and output index of coin id within desc
func (p *pool) place(id int, desc []tcoin) (txInfo, uint32) {
	g, slot := id/3, id%3
	var k txKey
	var idx uint32
	nout := 0
	if g%4 == 3 { // a transaction of its own
		k = txKey{g: g, n: -1, slot: slot}
		k.v[0] = desc[id].V
		idx = uint32(slot)
		nout = slot + 1 + g%3
	} else { // one transaction for the whole group
		k = txKey{g: g}
		for s := 0; s < 3 && 3*g+s < len(desc); s++ {
			k.v[s] = desc[3*g+s].V
			k.n++
		}
		idx = slotIndex[g%3][slot]
		nout = 3 + g%2
	}
	if ti, ok := p.txs[k]; ok {
		return ti, idx
	}
	tx := wire.NewMsgTx(1)
	tx.AddTxIn(wire.NewTxIn(wire.NewOutPoint(&chainhash.Hash{}, uint32(id)), nil))
	for j := 0; j < nout; j++ {
		v := int64(1000003 + 17*j)
		if g%4 == 3 {
			if j == slot {
				v = desc[id].V
			}
		} else {
			for s := 0; s < k.n; s++ {
				if slotIndex[g%3][s] == uint32(j) {
					v = k.v[s]
				}
			}
		}
		tx.AddTxOut(wire.NewTxOut(v, []byte{0x51}, wire.TokenData{}))
	}
	if len(p.txs) > 300000 {
		p.txs = map[txKey]txInfo{}
	}
	ti := txInfo{bchutil.NewTx(tx), tx.TxHash()}
	p.txs[k] = ti
	return ti, idx
}

func (p *pool) coins(desc []tcoin) []coinset.Coin {
	fresh := p.calls%7 == 0
	p.calls++
	out := make([]coinset.Coin, len(desc))
	for i, t := range desc {
		ti, idx := p.place(i, desc)
		for len(p.objs) <= i {
			p.objs = append(p.objs, nil)
		}
		c := p.objs[i]
		if c == nil || fresh {
			if c != nil {
				delete(p.op, c)
			}
			c = &coinset.SimpleCoin{}
			p.objs[i] = c
		}
		// the wallet updates the coin: another transaction / output / number of confirmations
		c.Tx, c.TxIndex, c.TxNumConfs = ti.tx, idx, t.C
		want := wire.OutPoint{Hash: ti.hash, Index: idx}
		if p.op[c] != want {
			p.op[c] = want
		}
		p.audit(c, i, t, want)
		out[i] = c
	}
	return out
}

// audit: at every call the accessors report the exported fields as they are now
func (p *pool) audit(c *coinset.SimpleCoin, id int, t tcoin, want wire.OutPoint) {
	if p.bad != "" {
		return
	}
	switch {
	case int64(c.Value()) != t.V:
		p.bad = fmt.Sprintf("coin %d: Value() = %d, the output it points to carries %d", id, int64(c.Value()), t.V)
	case c.NumConfs() != t.C:
		p.bad = fmt.Sprintf("coin %d: NumConfs() = %d, TxNumConfs is %d", id, c.NumConfs(), t.C)
	case c.ValueAge() != t.C*t.V:
		p.bad = fmt.Sprintf("coin %d: ValueAge() = %d, NumConfs()*Value() = %d*%d = %d", id, c.ValueAge(), t.C, t.V, t.C*t.V)
	case c.Index() != want.Index || *c.Hash() != want.Hash:
		p.bad = fmt.Sprintf("coin %d: Hash()/Index() is not the outpoint (transaction hash, TxIndex %d)", id, want.Index)
	}
}

// ---------- running a selector ----------
type outcome struct {
	Ok      bool
	IDs     []int // positions in the offered list (-1: not an offered coin)
	TV, TVA int64 // cached totals of the returned *CoinSet
	Num     int
	IsSet   bool
	Panic   string
	TxBad   string // a transaction built from the returned selection does not spend exactly the selected coins (checked outside the sweeps)
}

func selector(kind int, p param) coinset.CoinSelector {
	switch kind {
	case 0:
		return coinset.MinIndexCoinSelector{MaxInputs: p.MaxIn, MinChangeAmount: bchutil.Amount(p.MinChange)}
	case 1:
		return coinset.MinNumberCoinSelector{MaxInputs: p.MaxIn, MinChangeAmount: bchutil.Amount(p.MinChange)}
	case 2:
		return coinset.MaxValueAgeCoinSelector{MaxInputs: p.MaxIn, MinChangeAmount: bchutil.Amount(p.MinChange)}
	}
	return coinset.MinPriorityCoinSelector{MaxInputs: p.MaxIn, MinChangeAmount: bchutil.Amount(p.MinChange), MinAvgValueAgePerInput: p.MinAvg}
}

func runSel(kind int, p param, offered []coinset.Coin, pl *pool) (o outcome) {
	defer func() {
		if e := recover(); e != nil {
			o = outcome{Panic: fmt.Sprint(e)}
		}
	}()
	before := append([]coinset.Coin(nil), offered...)
	res, err := selector(kind, p).CoinSelect(bchutil.Amount(p.Tgt), offered)
	for i := range before {
		if before[i] != offered[i] {
			o.Panic = "the offered slice was reordered"
		}
	}
	if err != nil {
		return o
	}
	o.Ok = true
	sel := res.Coins()
	o.IDs = make([]int, len(sel))
	for i, c := range sel {
		o.IDs[i] = -1
		for j, oc := range offered {
			if c == oc {
				o.IDs[i] = j
				break
			}
		}
	}
	if cs, ok := res.(*coinset.CoinSet); ok {
		o.IsSet, o.TV, o.TVA, o.Num = true, int64(cs.TotalValue()), cs.TotalValueAge(), cs.Num()
	}
	if pl != nil {
		// the selection is itself a coin set: the transaction built from it spends the selected coins in order
		t := coinset.NewMsgTxWithInputCoins(2, res)
		if len(t.TxIn) != len(sel) {
			o.TxBad = fmt.Sprintf("%d inputs for a selection of %d coins", len(t.TxIn), len(sel))
		}
		for i, in := range t.TxIn {
			if i < len(sel) {
				if want, ok := pl.outpoint(sel[i]); !ok || in.PreviousOutPoint != want || in.SignatureScript != nil || in.Sequence != wire.MaxTxInSequenceNum {
					o.TxBad = fmt.Sprintf("input %d does not spend the outpoint of selected coin %d", i, i)
				}
			}
		}
		if len(t.TxOut) != 0 || t.LockTime != 0 || t.Version != 2 {
			o.TxBad = "unexpected outputs, lock time or version"
		}
	}
	return o
}

// ---------- the property's clauses ----------
type viol struct {
	Key, What string
	Replay    map[string]interface{}
}

func satisfies(target, minChange, total int64) bool {
	return total == target || total >= target+minChange
}

func replayOf(kind int, p param, desc []tcoin, o outcome, extra string) map[string]interface{} {
	cs := make([][2]int64, len(desc))
	for i, t := range desc {
		cs[i] = [2]int64{t.V, t.C}
	}
	sel := make([]map[string]int64, 0, len(o.IDs))
	for _, id := range o.IDs {
		if id >= 0 {
			sel = append(sel, map[string]int64{"id": int64(id), "value": desc[id].V, "value_age": desc[id].V * desc[id].C})
		} else {
			sel = append(sel, map[string]int64{"id": -1})
		}
	}
	return map[string]interface{}{"family": "select", "selector": selName[kind], "kind": kind,
		"coins_value_confs": cs, "target": p.Tgt, "max_inputs": p.MaxIn, "min_change": p.MinChange, "min_avg_value_age": p.MinAvg,
		"observed_ok": o.Ok, "observed_selection": sel, "required": extra}
}

// inDomain: the property's domain (values and confirmations >= 0) and no int64 overflow anywhere near.
func inDomain(p param, desc []tcoin, small bool) bool {
	if small {
		return true
	}
	lim := new(big.Int).Lsh(big.NewInt(1), 62)
	sv, sa := new(big.Int), new(big.Int)
	for _, t := range desc {
		if t.V < 0 || t.C < 0 {
			return false
		}
		sv.Add(sv, big.NewInt(t.V))
		sa.Add(sa, new(big.Int).Mul(big.NewInt(t.V), big.NewInt(t.C)))
	}
	abs := func(x int64) *big.Int { return new(big.Int).Abs(big.NewInt(x)) }
	a := new(big.Int).Add(sv, abs(p.Tgt))
	a.Add(a, abs(p.MinChange))
	b := new(big.Int).Mul(abs(p.MinAvg), big.NewInt(int64(len(desc)+2)))
	b.Add(b, sa)
	return a.Cmp(lim) < 0 && b.Cmp(lim) < 0
}

// check evaluates every clause of C19 that concerns one selector run.
func check(kind int, p param, desc []tcoin, o outcome, out *[]viol) {
	name := selName[kind]
	add := func(clause, what, req string) {
		key := "C19:" + name + ":" + clause
		if kind == 3 {
			key = "C19:minpriority:" + branchOf(p, desc, o) + ":" + clause
		}
		*out = append(*out, viol{key, name + ": " + what, replayOf(kind, p, desc, o, req)})
	}
	if o.Panic != "" {
		add("panic", "CoinSelect panicked / misbehaved: "+o.Panic, "no panic")
		return
	}
	n := len(desc)
	if o.Ok && o.TxBad != "" {
		add("tx", "NewMsgTxWithInputCoins(selection): "+o.TxBad, "the transaction spends exactly the selected outpoints in order")
	}
	if o.Ok {
		seen := make([]bool, n)
		var tv, tva int64
		valid := true
		for _, id := range o.IDs {
			if id < 0 {
				add("offered", "selected a coin that was not offered", "every selected coin is one of the offered coins")
				return
			}
			if seen[id] {
				add("distinct", "selected the same coin twice", "distinct coins")
				valid = false
			}
			seen[id] = true
			tv += desc[id].V
			tva += desc[id].V * desc[id].C
		}
		if len(o.IDs) > p.MaxIn {
			add("maxinputs", fmt.Sprintf("selected %d coins, MaxInputs %d", len(o.IDs), p.MaxIn), "len(selection) <= MaxInputs")
			valid = false
		}
		if !satisfies(p.Tgt, p.MinChange, tv) {
			add("target", fmt.Sprintf("total %d is neither the target %d nor >= target+minChange %d", tv, p.Tgt, p.Tgt+p.MinChange), "total = target or total >= target + minChange")
			valid = false
		}
		if o.IsSet && (o.TV != tv || o.TVA != tva || o.Num != len(o.IDs)) {
			add("totals", fmt.Sprintf("returned set caches Num %d TotalValue %d TotalValueAge %d, contents give %d %d %d", o.Num, o.TV, o.TVA, len(o.IDs), tv, tva), "cached totals = sums over contents")
		}
		if kind == 3 {
			cnt := int64(len(o.IDs))
			if cnt == 0 || p.MinAvg*cnt > tva || tva/cnt < p.MinAvg {
				add("average", fmt.Sprintf("total value-age %d over %d inputs is below the required average %d", tva, cnt, p.MinAvg), "MinAvgValueAgePerInput * count <= total value-age")
			}
			return
		}
		if !valid {
			return
		}
	}
	if kind == 3 {
		return // no completeness claim for the priority heuristic
	}
	// shortest (non-empty) qualifying prefix
	limit := n
	if p.MaxIn < limit {
		limit = p.MaxIn
	}
	firstQualifying := func(vals []int64) int {
		var s int64
		for k := 1; k <= limit; k++ {
			s += vals[k-1]
			if satisfies(p.Tgt, p.MinChange, s) {
				return k
			}
		}
		return 0
	}
	switch kind {
	case 0:
		vals := make([]int64, n)
		for i, t := range desc {
			vals[i] = t.V
		}
		k := firstQualifying(vals)
		if k == 0 && o.Ok {
			add("prefix", "succeeded although no prefix of at most MaxInputs coins qualifies", "error")
		} else if k > 0 && !o.Ok {
			add("error", fmt.Sprintf("error although the prefix of length %d qualifies", k), "the shortest qualifying prefix")
		} else if k > 0 {
			good := len(o.IDs) == k
			for i := 0; good && i < k; i++ {
				good = o.IDs[i] == i
			}
			if !good {
				add("prefix", fmt.Sprintf("selection is not the shortest qualifying prefix (length %d) of the offered list", k), "coins[0:k]")
			}
		}
	case 1:
		vals := make([]int64, n)
		for i, t := range desc {
			vals[i] = t.V
		}
		sort.Slice(vals, func(i, j int) bool { return vals[i] > vals[j] })
		k := firstQualifying(vals)
		if k == 0 && o.Ok {
			add("prefix", "succeeded although no prefix of the value-descending order qualifies", "error")
		} else if k > 0 && !o.Ok {
			add("error", fmt.Sprintf("error although the %d largest coins qualify", k), "the shortest qualifying prefix of the descending order")
		} else if k > 0 {
			good := len(o.IDs) == k
			for i := 0; good && i < k; i++ {
				good = desc[o.IDs[i]].V == vals[i]
			}
			if !good {
				add("prefix", fmt.Sprintf("selected values are not the %d largest in descending order", k), "values of the shortest qualifying prefix of any value-descending permutation")
			}
		}
	case 2:
		vas := make([]int64, n)
		for i, t := range desc {
			vas[i] = t.V * t.C
		}
		sort.Slice(vas, func(i, j int) bool { return vas[i] > vas[j] })
		if o.Ok {
			good := true
			var s int64
			for i, id := range o.IDs {
				if desc[id].V*desc[id].C != vas[i] {
					good = false // not a prefix of any value-age-descending permutation
				}
				s += desc[id].V
				if i+1 < len(o.IDs) && satisfies(p.Tgt, p.MinChange, s) {
					good = false // a shorter prefix already qualified
				}
			}
			if !good {
				add("prefix", "selection is not the shortest qualifying prefix of a value-age-descending permutation of the offered coins", "shortest qualifying prefix of some value-age-descending permutation")
			}
		} else if !someOrderFails(p, desc, limit) {
			add("error", "error although every value-age-descending permutation has a qualifying prefix", "a selection")
		}
	}
}

// someOrderFails: is there a value-age-descending permutation none of whose non-empty prefixes
// (up to limit) qualifies?  (Ties may be broken either way by sort.Sort.)
func someOrderFails(p param, desc []tcoin, limit int) bool {
	idx := make([]int, len(desc))
	for i := range idx {
		idx[i] = i
	}
	sort.SliceStable(idx, func(i, j int) bool { return desc[idx[i]].V*desc[idx[i]].C > desc[idx[j]].V*desc[idx[j]].C })
	return rec2(0, 0, make([]bool, len(desc)), idx, desc, p, limit)
}

func rec2(pos int, sum int64, used []bool, idx []int, desc []tcoin, p param, limit int) bool {
	if pos >= limit || pos >= len(idx) {
		return true
	}
	va := func(i int) int64 { return desc[i].V * desc[i].C }
	g, found := int64(0), false
	for _, i := range idx { // idx is value-age-descending: first unused is the largest
		if !used[i] {
			g, found = va(i), true
			break
		}
	}
	if !found {
		return true
	}
	tried := map[int64]bool{}
	for _, i := range idx {
		if used[i] || va(i) != g || tried[desc[i].V] {
			continue
		}
		tried[desc[i].V] = true
		if satisfies(p.Tgt, p.MinChange, sum+desc[i].V) {
			continue
		}
		used[i] = true
		ok := rec2(pos+1, sum+desc[i].V, used, idx, desc, p, limit)
		used[i] = false
		if ok {
			return true
		}
	}
	return false
}

// branchOf labels a min-priority outcome: in the top-up branch the high-priority part of the
// selection (value-age >= MinAvg) does not meet the target predicate by itself (MinNumber failed
// on it), in the extension branch it does.
func branchOf(p param, desc []tcoin, o outcome) string {
	if !o.Ok {
		return "error"
	}
	var hv int64
	for _, id := range o.IDs {
		if id >= 0 && desc[id].V*desc[id].C >= p.MinAvg {
			hv += desc[id].V
		}
	}
	if satisfies(p.Tgt, p.MinChange, hv) {
		return "extend"
	}
	return "topup"
}

// ---------- correspondence ----------
func coqCoins(desc []tcoin) string {
	it := make([]string, len(desc))
	for i, t := range desc {
		it[i] = fmt.Sprintf("C %d %s %s", i, vh.CoqZ(t.V), vh.CoqZ(t.C))
	}
	return vh.CoqList(it)
}

func coqIDs(ids []int) string {
	it := make([]string, len(ids))
	for i, x := range ids {
		if x < 0 {
			x = 999999
		}
		it[i] = fmt.Sprint(x)
	}
	return vh.CoqList(it)
}

func corrSel(kind int, p param, desc []tcoin, o outcome) {
	if o.Panic != "" || len(desc) > 12 { // beyond 12 elements sort.Sort is no longer an insertion sort
		return
	}
	cases.Add(fmt.Sprintf("Sel %d %s %s %s %s %s %s %s %s %s", kind, vh.CoqZ(int64(p.MaxIn)), vh.CoqZ(p.MinChange), vh.CoqZ(p.MinAvg), vh.CoqZ(p.Tgt),
		coqCoins(desc), vh.CoqBool(o.Ok), coqIDs(o.IDs), vh.CoqZ(o.TV), vh.CoqZ(o.TVA)),
		map[string]interface{}{"op": selName[kind], "params": p, "coins": desc, "impl_ok": o.Ok, "impl_ids": o.IDs, "impl_total_value": o.TV, "impl_total_value_age": o.TVA})
}

// one run: implementation, monitors (when in the property's domain), optionally a correspondence case
func one(pl *pool, kind int, p param, desc []tcoin, small, corr bool, out *[]viol) outcome {
	txpl := pl
	if small {
		txpl = nil
	}
	offered := pl.coins(desc)
	if pl.bad != "" {
		*out = append(*out, viol{"C19:simplecoin:accessors", "SimpleCoin: " + pl.bad, replayOf(kind, p, desc, outcome{}, "ValueAge() = NumConfs() * Value() of the coin as it is now; Hash()/Index() = its outpoint")})
		pl.bad = ""
	}
	o := runSel(kind, p, offered, txpl)
	if inDomain(p, desc, small) {
		check(kind, p, desc, o, out)
	}
	if corr {
		corrSel(kind, p, desc, o)
	}
	return o
}

// ---------- exhaustive sweep over small scopes (parallel, deterministic) ----------
type sweepStats struct {
	runs, ok [4]int
	branch   map[string]int
}

func sweep(types []tcoin, n int, ps []param, minavgs []int64, sample int, seed uint64) (viols []viol, st sweepStats) {
	total := 1
	for i := 0; i < n; i++ {
		total *= len(types)
	}
	const W = 16
	var wg sync.WaitGroup
	res := make([][]viol, W)
	sts := make([]sweepStats, W)
	for wk := 0; wk < W; wk++ {
		wg.Add(1)
		go func(wk int) {
			defer wg.Done()
			pl := newPool()
			best := map[string]viol{}
			sts[wk].branch = map[string]int{}
			desc := make([]tcoin, n)
			var tmp []viol
			for li := wk; li < total; li += W {
				x := li
				for i := 0; i < n; i++ {
					desc[i] = types[x%len(types)]
					x /= len(types)
				}
				r := vh.NewRNG(seed ^ uint64(li)*0x9E3779B97F4A7C15)
				for _, p := range ps {
					if p.MaxIn > n+1 {
						continue
					}
					if sample > 0 && r.Intn(len(ps)) >= sample {
						continue
					}
					for kind := 0; kind < 4; kind++ {
						avgs := minavgs
						if kind != 3 {
							avgs = minavgs[:1]
						}
						for _, a := range avgs {
							q := p
							q.MinAvg = a
							tmp = tmp[:0]
							o := one(pl, kind, q, desc, true, false, &tmp)
							sts[wk].runs[kind]++
							if o.Ok {
								sts[wk].ok[kind]++
								if kind == 3 {
									sts[wk].branch[branchOf(q, desc, o)]++
								}
							}
							for _, v := range tmp {
								if b, ok := best[v.Key]; !ok || size(v.Replay) < size(b.Replay) {
									best[v.Key] = v
								}
							}
						}
					}
				}
			}
			for _, v := range best {
				res[wk] = append(res[wk], v)
			}
		}(wk)
	}
	wg.Wait()
	st.branch = map[string]int{}
	for wk := 0; wk < W; wk++ {
		viols = append(viols, res[wk]...)
		for k := 0; k < 4; k++ {
			st.runs[k] += sts[wk].runs[k]
			st.ok[k] += sts[wk].ok[k]
		}
		for b, c := range sts[wk].branch {
			st.branch[b] += c
		}
	}
	return
}

func size(x interface{}) int { j, _ := json.Marshal(x); return len(j) }

func report(vs []viol) {
	sort.Slice(vs, func(i, j int) bool {
		si, sj := size(vs[i].Replay), size(vs[j].Replay)
		if si != sj {
			return si < sj
		}
		a, _ := json.Marshal(vs[i].Replay)
		b, _ := json.Marshal(vs[j].Replay)
		return string(a) < string(b)
	})
	for _, v := range vs {
		rep.Violate(v.Key, v.What, v.Replay)
	}
}

func types(vals, confs []int64) []tcoin {
	var t []tcoin
	for _, v := range vals {
		for _, c := range confs {
			t = append(t, tcoin{v, c})
		}
	}
	return t
}

func params(targets []int64, maxins []int, mcs []int64) []param {
	var ps []param
	for _, t := range targets {
		for _, m := range maxins {
			for _, c := range mcs {
				ps = append(ps, param{MaxIn: m, MinChange: c, Tgt: t})
			}
		}
	}
	return ps
}

// ---------- random lists ----------
func randDesc(r *vh.RNG, n int, mode int) []tcoin {
	desc := make([]tcoin, n)
	for i := range desc {
		switch mode {
		case 0: // tiny alphabet, many ties and zeros
			desc[i] = tcoin{vh.Pick(r, []int64{0, 1, 2, 3, 5}), vh.Pick(r, []int64{0, 1, 2, 3})}
		case 1: // medium
			desc[i] = tcoin{int64(r.Intn(40)), int64(r.Intn(8))}
		case 2: // realistic amounts
			desc[i] = tcoin{int64(r.U64() % 2100000000000000), int64(r.Intn(1000))}
		case 3: // tie-free value-ages and values where possible
			desc[i] = tcoin{int64(1 + 2*i + 7*r.Intn(3)), int64(1 + r.Intn(5))}
		default: // arbitrary int64 (wrap-around; correspondence only)
			desc[i] = tcoin{int64(r.U64()) >> uint(r.Intn(40)), int64(r.U64()) >> uint(20+r.Intn(43))}
		}
	}
	return desc
}

func randParam(r *vh.RNG, desc []tcoin, mode int) param {
	var sv, mva int64
	for _, t := range desc {
		sv += t.V
		if t.V*t.C > mva {
			mva = t.V * t.C
		}
	}
	p := param{MaxIn: r.Intn(len(desc)+2) - r.Intn(2)*r.Intn(2)}
	if r.Intn(16) == 0 { // "no limit" and nonsense limits
		p.MaxIn = vh.Pick(r, []int{math.MaxInt64, math.MaxInt32, 1 << 32, 255, 256, math.MinInt64, -2})
	}
	if mode >= 4 {
		p.Tgt = int64(r.U64()) >> uint(r.Intn(50))
		p.MinChange = int64(r.U64()) >> uint(r.Intn(60))
		p.MinAvg = int64(r.U64()) >> uint(r.Intn(60))
		return p
	}
	if sv > 0 {
		p.Tgt = int64(r.U64()%uint64(sv+sv/4+2)) - int64(r.Intn(8)/7)
	}
	switch r.Intn(4) {
	case 0:
		p.MinChange = 0
	case 1:
		p.MinChange = int64(r.Intn(4))
	default:
		p.MinChange = int64(r.U64() % uint64(sv/4+2))
	}
	if r.Intn(12) == 0 {
		p.MinChange = -p.MinChange
	}
	p.MinAvg = int64(r.U64() % uint64(mva+mva/3+2))
	if r.Intn(15) == 0 {
		p.MinAvg = -p.MinAvg
	}
	return p
}

// ---------- boundary-derived parameters ----------
// The thresholds the selectors compare against are taken from the coins themselves: the target is
// the exact value sum of a sub-list (or one off, or that sum minus the minimum change), the minimum
// change the value of a coin or the gap between two sub-list sums, the required average the exact
// (floored) average value-age of a sub-list, or the value-age of one coin, or one more / one less.
// In the "large" regimes the value-ages lie between 2^53 and 2^57 (still far from any int64
// overflow), where only exact integer arithmetic tells total/count from the required average.
func bdDesc(r *vh.RNG, n, regime int) []tcoin {
	desc := make([]tcoin, n)
	for i := range desc {
		switch regime {
		case 0: // tiny, many ties
			desc[i] = tcoin{vh.Pick(r, []int64{0, 1, 2, 3, 5}), vh.Pick(r, []int64{0, 1, 2, 3})}
		case 1: // medium
			desc[i] = tcoin{int64(1 + r.Intn(60)), int64(r.Intn(9))}
		case 2: // large, odd digits everywhere: value < 2^48, confirmations < 2^9
			desc[i] = tcoin{int64(r.U64()>>16) | 1, int64(1 + r.Intn(511))}
		case 3: // large with close value-ages: a common base plus small differences
			desc[i] = tcoin{int64(1)<<47 + int64(r.Intn(1000)), int64(256 + r.Intn(3))}
		default: // huge: value-ages up to 2^59 (two or three coins, so still inside the overflow bounds)
			desc[i] = tcoin{int64(r.U64()>>uint(14+r.Intn(6))) | 1, int64(1 + r.Intn(511))}
		}
	}
	return desc
}

func bdParam(r *vh.RNG, desc []tcoin) param {
	n := len(desc)
	subset := func() []int {
		k := 1 + r.Intn(4)
		if k > n {
			k = n
		}
		perm := make([]int, n)
		for i := range perm {
			perm[i] = i
		}
		for i := 0; i < k; i++ {
			j := i + r.Intn(n-i)
			perm[i], perm[j] = perm[j], perm[i]
		}
		return perm[:k]
	}
	sums := func(ix []int) (v, a int64) {
		for _, i := range ix {
			v += desc[i].V
			a += desc[i].V * desc[i].C
		}
		return
	}
	sa := subset()
	st := sa
	switch r.Intn(4) {
	case 0:
		st = sa[:1+r.Intn(len(sa))] // the target is met by a part of the sub-list the average is taken over
	case 1:
		st = subset()
	}
	tv, _ := sums(st)
	_, aa := sums(sa)
	var p param
	switch r.Intn(6) {
	case 0:
		p.MinChange = 0
	case 1:
		p.MinChange = 1
	case 2:
		p.MinChange = desc[r.Intn(n)].V
	case 3:
		p.MinChange = desc[r.Intn(n)].V + 1
	case 4:
		ov, _ := sums(subset())
		if ov > tv {
			p.MinChange = ov - tv
		} else {
			p.MinChange = tv - ov
		}
	default:
		p.MinChange = int64(r.Intn(4))
	}
	p.Tgt = tv + vh.Pick(r, []int64{0, 0, 0, -1, 1, -p.MinChange, -p.MinChange - 1, -p.MinChange + 1})
	if p.Tgt < 0 {
		p.Tgt = 0
	}
	switch r.Intn(5) {
	case 0, 1, 2:
		p.MinAvg = aa/int64(len(sa)) + vh.Pick(r, []int64{0, 0, 1, 1, -1, 2})
	case 3:
		i := r.Intn(n)
		p.MinAvg = desc[i].V*desc[i].C + vh.Pick(r, []int64{0, 1, -1})
	default:
		p.MinAvg = (aa + int64(len(sa)) - 1) / int64(len(sa))
	}
	if p.MinAvg < 0 {
		p.MinAvg = 0
	}
	p.MaxIn = vh.Pick(r, []int{len(sa), len(sa), len(st), len(sa) - 1, len(sa) + 1, n, n + 1})
	return p
}

// ---------- coin-set histories ----------
// A history interleaves mutations (push, pop, shift) with reads: "coins" (Coins() compared with
// the reference contents), "tx" (NewMsgTxWithInputCoins compared with the reference contents).
// Num(), TotalValue(), TotalValueAge() are compared with the sums over the reference contents
// after every step.
type hop struct {
	Op   string // push pop shift coins tx
	Coin int    // index into the coins of the history (push)
}

// history runs one operation history; a panic anywhere in it (the implementation's: the harness code itself
// indexes nothing it has not checked) is a finding of its own with the history as replay -- round 4: a coin set
// kept in a slice with a head index made Coins() / NewMsgTxWithInputCoins panic after push, push, shift, shift,
// pop, and an unrecovered panic here would lose every violation recorded before it.
func history(pl *pool, init []tcoin, extra []tcoin, ops []hop, corr bool) {
	if p, msg := vh.Catch(func() { historyBody(pl, init, extra, ops, corr) }); p {
		rep.Violate("C19:coinset:panic", "a coin-set operation panicked in a history of PushCoin / PopCoin / ShiftCoin / Coins / NewMsgTxWithInputCoins: "+msg,
			map[string]interface{}{"family": "history", "init_value_confs": init, "pushable_value_confs": extra, "ops": ops, "failing_step": -2, "panic": msg})
	}
}

func historyBody(pl *pool, init []tcoin, extra []tcoin, ops []hop, corr bool) {
	all := append(append([]tcoin(nil), init...), extra...)
	all = append([]tcoin(nil), all...) // "confs" operations update the copy
	cs := pl.coins(all)
	if pl.bad != "" {
		rep.Violate("C19:simplecoin:accessors", "SimpleCoin: "+pl.bad, map[string]interface{}{"family": "history", "init_value_confs": init, "pushable_value_confs": extra, "ops": ops, "failing_step": -1})
		pl.bad = ""
	}
	set := coinset.NewCoinSet(cs[:len(init)])
	ref := make([]int, 0, len(all)) // reference: the ids in order
	for i := range init {
		ref = append(ref, i)
	}
	idOf := func(c coinset.Coin) int {
		for i, x := range cs {
			if c == x {
				return i
			}
		}
		return -1
	}
	bad := func(clause, what string, step int) {
		rep.Violate("C19:coinset:"+clause, what, map[string]interface{}{"family": "history", "init_value_confs": init, "pushable_value_confs": extra, "ops": ops, "failing_step": step})
	}
	sums := func(step int) {
		var tv, tva int64
		for _, id := range ref {
			tv += all[id].V
			tva += all[id].V * all[id].C // int64 wrap, like the sums over contents in Go
		}
		if set.Num() != len(ref) {
			bad("num", fmt.Sprintf("Num() = %d, contents %d", set.Num(), len(ref)), step)
		}
		if int64(set.TotalValue()) != tv {
			bad("totalvalue", fmt.Sprintf("TotalValue() = %d, sum over contents %d", int64(set.TotalValue()), tv), step)
		}
		if set.TotalValueAge() != tva {
			bad("totalvalueage", fmt.Sprintf("TotalValueAge() = %d, sum over contents %d", set.TotalValueAge(), tva), step)
		}
	}
	// a snapshot returned by an earlier Coins() call that the caller kept: it must keep showing
	// the contents of the moment it was taken, whatever happens to the set afterwards
	var held []coinset.Coin
	var heldIDs []int
	var heldStep int
	snapshot := func(step int) {
		if held == nil {
			return
		}
		same := len(held) == len(heldIDs)
		for i := 0; same && i < len(heldIDs); i++ {
			same = idOf(held[i]) == heldIDs[i]
		}
		if !same {
			ids := []int{}
			for _, c := range held {
				ids = append(ids, idOf(c))
			}
			bad("snapshot", fmt.Sprintf("the slice Coins() returned at step %d listed ids %v; after later operations on the set the same slice lists %v", heldStep, heldIDs, ids), step)
			held = nil
		}
	}
	contents := func(step int) {
		got := set.Coins()
		snapshot(step)
		same := len(got) == len(ref)
		for i := 0; same && i < len(ref); i++ {
			same = idOf(got[i]) == ref[i]
		}
		if !same {
			ids := []int{}
			for _, c := range got {
				ids = append(ids, idOf(c))
			}
			bad("contents", fmt.Sprintf("Coins() lists ids %v, the pushed-minus-removed sequence is %v (Num() = %d)", ids, ref, set.Num()), step)
		}
		if step%2 == 0 {
			// the caller owns the returned slice: scribbling on it must not change the set
			for i := range got {
				got[i] = nil
			}
			held = nil
		} else if len(got) > 0 {
			held, heldIDs, heldStep = got, append([]int(nil), ref...), step
			rep.Histogram["snapshot_held"]++
		}
	}
	tx := func(step int) {
		version := int32(1 + step%3)
		t := coinset.NewMsgTxWithInputCoins(version, set)
		why := ""
		if len(t.TxIn) != len(ref) {
			why = fmt.Sprintf("%d inputs for %d coins", len(t.TxIn), len(ref))
		}
		for i, in := range t.TxIn {
			if i < len(ref) {
				if want, ok := pl.outpoint(cs[ref[i]]); !ok || in.PreviousOutPoint != want {
					why = fmt.Sprintf("input %d does not spend the outpoint of coin %d of the set", i, i)
				}
			}
			if in.SignatureScript != nil || in.Sequence != wire.MaxTxInSequenceNum {
				why = "input with a signature script or a non-final sequence"
			}
		}
		if len(t.TxOut) != 0 || t.LockTime != 0 || t.Version != version {
			why = "unexpected outputs, lock time or version"
		}
		if why != "" {
			rep.Violate("C19:tx:spends_exactly", "NewMsgTxWithInputCoins: "+why, map[string]interface{}{"family": "history", "init_value_confs": init, "pushable_value_confs": extra, "ops": ops, "failing_step": step, "set_contents_ids": append([]int(nil), ref...)})
		}
		rep.Histogram["tx"]++
		snapshot(step)
	}
	sums(-1)
	dupSeen := false
	obs := make([]string, 0, len(ops))
	coqOps := make([]string, 0, len(ops))
	nmut := 0
	for i, o := range ops {
		ret := "None"
		switch o.Op {
		case "coins":
			contents(i)
			sums(i)
			continue
		case "tx":
			tx(i)
			sums(i)
			continue
		case "confs":
			// new blocks arrive (or a reorganisation takes some away) for a coin that is not in the
			// set at the moment: its exported TxNumConfs changes; the coin may be pushed again later
			inSet := false
			for _, id := range ref {
				inSet = inSet || id == o.Coin
			}
			if !inSet {
				sc := cs[o.Coin].(*coinset.SimpleCoin)
				all[o.Coin].C = all[o.Coin].C/2 + 3
				sc.TxNumConfs = all[o.Coin].C
				if sc.ValueAge() != all[o.Coin].C*all[o.Coin].V || sc.NumConfs() != all[o.Coin].C {
					rep.Violate("C19:simplecoin:accessors", fmt.Sprintf("SimpleCoin: after TxNumConfs was set to %d: NumConfs() = %d, Value() = %d, ValueAge() = %d", all[o.Coin].C, sc.NumConfs(), int64(sc.Value()), sc.ValueAge()),
						map[string]interface{}{"family": "history", "init_value_confs": init, "pushable_value_confs": extra, "ops": ops, "failing_step": i})
				}
				rep.Histogram["history_confs_changed_outside_set"]++
			}
			continue
		case "push":
			set.PushCoin(cs[o.Coin])
			for _, id := range ref {
				if id == o.Coin {
					dupSeen = true
				}
			}
			ref = append(ref, o.Coin)
			coqOps = append(coqOps, fmt.Sprintf("Push (C %d %s %s)", o.Coin, vh.CoqZ(all[o.Coin].V), vh.CoqZ(all[o.Coin].C)))
		case "pop":
			c := set.PopCoin()
			coqOps = append(coqOps, "Pop")
			if len(ref) == 0 {
				if c != nil {
					bad("pop-empty", "PopCoin on an empty set returned a coin", i)
				}
			} else {
				if c == nil || idOf(c) != ref[len(ref)-1] {
					bad("pop", "PopCoin did not return the last coin", i)
				}
				ref = ref[:len(ref)-1]
			}
			if c != nil {
				ret = fmt.Sprintf("(Some %d)", idOf(c))
			}
		case "shift":
			c := set.ShiftCoin()
			coqOps = append(coqOps, "Shift")
			if len(ref) == 0 {
				if c != nil {
					bad("shift-empty", "ShiftCoin on an empty set returned a coin", i)
				}
			} else {
				if c == nil || idOf(c) != ref[0] {
					bad("shift", "ShiftCoin did not return the first coin", i)
				}
				ref = ref[1:]
			}
			if c != nil {
				ret = fmt.Sprintf("(Some %d)", idOf(c))
			}
		}
		nmut++
		sums(i)
		obs = append(obs, fmt.Sprintf("Ob %s %d %s %s", ret, set.Num(), vh.CoqZ(int64(set.TotalValue())), vh.CoqZ(set.TotalValueAge())))
	}
	// final reads: contents, then the transaction built from the set
	contents(len(ops))
	tx(len(ops))
	sums(len(ops))
	snapshot(len(ops) + 1)
	rep.Count("history", fmt.Sprint(init, extra, ops), nmut > 0)
	if dupSeen {
		rep.Histogram["history_same_coin_twice_in_set"]++
	}
	if corr {
		final := make([]int, 0)
		itm := make([]string, 0)
		for _, c := range set.Coins() {
			id := idOf(c)
			final = append(final, id)
			if id >= 0 {
				itm = append(itm, fmt.Sprintf("C %d %s %s", id, vh.CoqZ(all[id].V), vh.CoqZ(all[id].C)))
			}
		}
		cases.Add(fmt.Sprintf("Hist %s %s %s %s", coqCoins(init), vh.CoqList(coqOps), vh.CoqList(obs), coqIDs(final)),
			map[string]interface{}{"op": "history", "init": init, "pushable": extra, "ops": ops})
		// the transaction of the final set, as the implementation built it
		t := coinset.NewMsgTxWithInputCoins(2, set)
		outs := make([]int, len(t.TxIn))
		plain := true
		for i, in := range t.TxIn {
			outs[i] = -1
			for j, c := range cs {
				if want, ok := pl.outpoint(c); ok && in.PreviousOutPoint == want {
					outs[i] = j
				}
			}
			if in.SignatureScript != nil || in.Sequence != wire.MaxTxInSequenceNum {
				plain = false
			}
		}
		cases.Add(fmt.Sprintf("Tx %d %s %s %s %d%%nat %d", t.Version, vh.CoqList(itm), coqIDs(outs), vh.CoqBool(plain), len(t.TxOut), t.LockTime),
			map[string]interface{}{"op": "NewMsgTxWithInputCoins", "contents_ids": final, "impl_outpoints": outs})
	}
}

func randHistory(r *vh.RNG, pl *pool, mode int, corr bool) {
	ni := r.Intn(5)
	if r.Intn(3) == 0 {
		ni = 0
	}
	init := randDesc(r, ni, mode)
	extra := randDesc(r, 1+r.Intn(5), mode)
	nmut := r.Intn(14)
	var ops []hop
	bias := r.Intn(3)  // 0: mostly push, 1: balanced, 2: mostly remove (hits the empty set)
	reads := r.Intn(4) // 0: no reads between mutations ... 3: a read after almost every mutation
	if r.Intn(2) == 0 {
		ops = append(ops, hop{Op: vh.Pick(r, []string{"coins", "tx"})}) // read the initial set
	}
	for i := 0; i < nmut; i++ {
		k := r.Intn(6)
		switch {
		case k < 4-bias-bias/2:
			o := hop{"push", len(init) + r.Intn(len(extra))}
			if ni > 0 && r.Intn(6) == 0 {
				o.Coin = r.Intn(ni) // push a coin that is (or was) already in the set
			}
			ops = append(ops, o)
		case k%2 == 0:
			ops = append(ops, hop{Op: "pop"})
		default:
			ops = append(ops, hop{Op: "shift"})
		}
		if r.Intn(3) < reads {
			ops = append(ops, hop{Op: vh.Pick(r, []string{"coins", "coins", "tx"})})
		}
		if r.Intn(4) == 0 {
			ops = append(ops, hop{"confs", r.Intn(len(init) + len(extra))})
		}
	}
	history(pl, init, extra, ops, corr)
}

// ---------- fixed edge cases: the replays of DESIGN §7 rows 15a-c and boundary shapes ----------
type fixedCase struct {
	kind int
	p    param
	desc []tcoin
}

func fixedCases() []fixedCase {
	d15a := []tcoin{{3, 2}, {5, 0}, {5, 3}, {1, 2}, {0, 1}}
	d15b := []tcoin{{3, 3}, {1, 2}, {5, 2}}
	d15c := []tcoin{{2, 0}, {3, 1}, {5, 3}, {4, 3}, {2, 1}}
	d15d := []tcoin{{5, 0}, {3, 2}, {3, 0}, {1, 2}}
	test := []tcoin{{100000000, 1}, {10000000, 0}, {50000000, 0}, {25000000, 3}, {5000000, 7}} // shape of coins_test.go
	var fc []fixedCase
	fc = append(fc,
		fixedCase{3, param{1, 1, 9, 8}, d15a},
		fixedCase{3, param{2, 2, 3, 3}, d15b},
		fixedCase{3, param{4, 1, 5, 11}, d15c},
		fixedCase{3, param{3, 1, 3, 9}, d15d},
	)
	for kind := 0; kind < 4; kind++ {
		for _, d := range [][]tcoin{nil, {{0, 0}}, {{1, 1}}, d15a, d15b, d15c, d15d, test} {
			for _, p := range []param{{0, 0, 0, 0}, {1, 0, 0, 0}, {-1, 0, 0, 1}, {5, 0, 0, 0}, {5, 1, 1, 1}, {2, 2, 3, 3}, {3, 1000, 100000000, 35000000}, {5, 0, 100000000, 160000000}, {5, -1, 2, 4}, {5, 2, -3, -1}} {
				fc = append(fc, fixedCase{kind, p, d})
			}
		}
	}
	return fc
}

func main() {
	cfg = vh.ParseFlags("C19")
	rep = vh.NewReport(cfg)
	cases = vh.NewCases(cfg, "Run.Run_C19", 300)
	cases.SetPreamble("Open Scope Z_scope.\nDefinition Ob (o : option Z) (n v a : Z) := (o, n, v, a).\n")
	rep.Rule = "a selector run counts as non-trivial when it succeeds or fails on a non-empty list with MaxInputs >= 1 (distinct by selector, parameters and (value, confirmations) list); histories with at least one operation"
	rng := vh.NewRNG(cfg.Seed)
	pl := newPool()
	var vs []viol

	if cfg.Replay != "" {
		replay(pl)
		return
	}

	// 1. fixed cases (monitors + correspondence)
	for _, f := range fixedCases() {
		o := one(pl, f.kind, f.p, f.desc, false, true, &vs)
		rep.Count(selName[f.kind], fmt.Sprint("f", f), len(f.desc) > 0 && f.p.MaxIn >= 1)
		_ = o
	}

	// 2. exhaustive small scopes (monitors only)
	full := types([]int64{0, 1, 2, 3, 5}, []int64{0, 1, 2, 3})
	red := types([]int64{0, 1, 3, 4}, []int64{0, 1, 2})
	tiny := types([]int64{0, 1, 2, 5}, []int64{0, 1, 3})[1:]
	six := []tcoin{{1, 0}, {1, 1}, {2, 3}, {5, 1}, {0, 3}, {3, 1}}
	five := []tcoin{{1, 0}, {1, 2}, {3, 1}, {5, 3}, {2, 1}}
	targets := []int64{0, 1, 2, 3, 4, 5, 6, 7, 8, 9, 10, 11, 13}
	maxins := []int{0, 1, 2, 3, 4, 5, 6, 7, 8}
	mcs := []int64{0, 1, 2}
	avgs := []int64{0, 1, 2, 3, 4, 5, 6, 9, 10, 15}
	ps := params(targets, maxins, mcs)
	type scope struct {
		t      []tcoin
		n      int
		sample int
	}
	var scopes []scope
	if cfg.Search {
		scopes = []scope{{full, 0, 0}, {full, 1, 0}, {full, 2, 0}, {full, 3, 120}, {full, 4, 6}, {red, 5, 5}, {six, 6, 20}, {five, 7, 12}}
	} else if cfg.Thorough() {
		scopes = []scope{{full, 0, 0}, {full, 1, 0}, {full, 2, 0}, {full, 3, 120}, {full, 4, 6}, {red, 5, 5}, {six, 6, 20}, {five, 7, 12}}
	} else {
		scopes = []scope{{full, 0, 0}, {full, 1, 0}, {full, 2, 0}, {full, 3, 25}, {red, 4, 15}, {tiny, 5, 2}}
	}
	hist := map[string]int{}
	for _, sc := range scopes {
		sseed := cfg.Seed
		if cfg.Search {
			sseed ^= 0x5ea7c4
		}
		v, st := sweep(sc.t, sc.n, ps, avgs, sc.sample, sseed)
		vs = append(vs, v...)
		for k := 0; k < 4; k++ {
			rep.Evaluations += st.runs[k]
			rep.Histogram[selName[k]] += st.runs[k]
			rep.Histogram[selName[k]+"_ok"] += st.ok[k]
			if sc.n > 0 {
				rep.Nontrivial += st.runs[k] // distinct by construction of the enumeration
			}
		}
		for b, c := range st.branch {
			hist["minpriority_branch_"+b] += c
		}
		hist[fmt.Sprintf("sweep_n%d_types%d", sc.n, len(sc.t))] = st.runs[0] + st.runs[1] + st.runs[2] + st.runs[3]
	}
	for k, v := range hist {
		rep.Histogram[k] = v
	}

	// 3. random lists: monitors, and correspondence for at most 12 coins
	r := rng.Fork("random")
	nr := cfg.Scale(900, 4000)
	if cfg.Search {
		nr = 30000
	}
	for i := 0; i < nr; i++ {
		mode := []int{0, 0, 1, 1, 2, 3, 4}[i%7]
		n := r.Intn(8)
		if i%5 == 0 {
			n = 8 + r.Intn(5) // up to 12: still an insertion sort inside sort.Sort
		}
		if i%11 == 0 {
			n = 13 + r.Intn(12) // beyond: monitors only (tie-breaking is that of pdqsort)
		}
		desc := randDesc(r, n, mode)
		p := randParam(r, desc, mode)
		kind := i % 4
		if i%3 == 0 {
			kind = 3
		}
		corr := !cfg.Search && (cfg.Thorough() || i%2 == 0 || mode == 4)
		o := one(pl, kind, p, desc, false, corr, &vs)
		rep.Count(selName[kind], fmt.Sprint("r", kind, p, desc), n > 0 && p.MaxIn >= 1)
		if o.Ok {
			rep.Histogram[selName[kind]+"_ok"]++
			if kind == 3 {
				rep.Histogram["minpriority_branch_"+branchOf(p, desc, o)]++
			}
		}
		if mode == 4 {
			rep.Histogram["int64_wrap_domain"]++
		}
		if n > 12 {
			rep.Histogram["beyond_insertion_sort_n13plus"]++
		}
		if p.MaxIn > 1000 || p.MaxIn < -1 {
			rep.Histogram["maxinputs_extreme"]++
		}
		if i < 3 {
			rep.Sample(replayOf(kind, p, desc, o, ""), 6)
		}
	}
	// 3b. boundary-derived parameters (monitors + correspondence): targets, minimum changes and
	// required averages that are exact sums / averages of sub-lists of the offered coins, also with
	// value-ages beyond 2^53
	r = rng.Fork("boundary")
	nb := cfg.Scale(900, 6000)
	if cfg.Search {
		nb = 40000
	}
	for i := 0; i < nb; i++ {
		regime := []int{0, 1, 2, 3, 2, 3, 4}[i%7]
		n := 2 + r.Intn(5)
		if i%9 == 0 {
			n = 7 + r.Intn(6)
		}
		if i%13 == 0 && regime != 2 {
			n = 13 + r.Intn(20) // beyond the insertion-sort range of sort.Sort: monitors only
		}
		if regime == 4 {
			n = 2 + r.Intn(2)
		}
		desc := bdDesc(r, n, regime)
		p := bdParam(r, desc)
		kind := i % 4
		if i%2 == 0 {
			kind = 3
		}
		corr := !cfg.Search && (cfg.Thorough() || i%3 != 1)
		o := one(pl, kind, p, desc, false, corr, &vs)
		rep.Count(selName[kind], fmt.Sprint("b", kind, p, desc), p.MaxIn >= 1)
		fam := "boundary_" + []string{"tiny", "medium", "large", "large_close", "huge"}[regime]
		rep.Histogram[fam]++
		if o.Ok {
			rep.Histogram[selName[kind]+"_ok"]++
			rep.Histogram[fam+"_ok"]++
			if kind == 3 {
				b := branchOf(p, desc, o)
				rep.Histogram["minpriority_branch_"+b]++
				rep.Histogram[fam+"_minpriority_"+b]++
				if len(o.IDs) > 1 {
					rep.Histogram[fam+"_minpriority_"+b+"_multi"]++
				}
			}
		}
		if !inDomain(p, desc, false) {
			rep.Histogram[fam+"_outside_domain"]++
		}
		if n > 12 {
			rep.Histogram["beyond_insertion_sort_n13plus"]++
		}
	}
	report(vs)

	// 4. histories and transactions
	r = rng.Fork("history")
	nh := cfg.Scale(400, 4000)
	if cfg.Search {
		nh = 8000
	}
	history(pl, nil, []tcoin{{1, 1}}, []hop{{Op: "pop"}, {Op: "shift"}, {"push", 0}, {Op: "shift"}, {Op: "shift"}, {Op: "pop"}}, true)
	history(pl, []tcoin{{3, 2}, {5, 0}}, []tcoin{{7, 7}}, nil, true)
	// read / remove / read patterns: push a,b,c; read; shift; read; pop; read; push d; read (and the mirror image)
	abc := []tcoin{{3, 2}, {5, 1}, {7, 3}, {11, 4}}
	for _, rd := range []string{"coins", "tx"} {
		history(pl, nil, abc, []hop{{"push", 0}, {"push", 1}, {"push", 2}, {Op: rd}, {Op: "shift"}, {Op: rd}, {Op: "pop"}, {Op: rd}, {"push", 3}, {Op: rd}}, true)
		history(pl, nil, abc, []hop{{"push", 0}, {"push", 1}, {"push", 2}, {Op: rd}, {Op: "pop"}, {Op: rd}, {Op: "shift"}, {Op: rd}, {"push", 3}, {Op: rd}, {Op: "shift"}, {Op: "shift"}, {Op: rd}}, true)
		history(pl, abc[:3], abc[3:], []hop{{Op: rd}, {Op: "shift"}, {Op: "shift"}, {Op: rd}, {Op: "shift"}, {Op: rd}, {Op: "shift"}, {Op: rd}}, true)
	}
	for i := 0; i < nh; i++ {
		randHistory(r, pl, []int{0, 1, 2, 4}[i%4], !cfg.Search && i%3 == 0)
	}

	round3Families(rng.Fork("round3"), pl)

	rep.Cases = cases.Len()
	rep.Extra["duplicate_cases_dropped"] = cases.Dups
	rep.Extra["sort_note"] = "correspondence compares exact id sequences: for at most 12 elements Go's sort.Sort is a stable insertion sort, which the run driver uses; monitors are tie-independent"
	_, err := cases.Flush()
	vh.Must(err)
	vh.Must(rep.Write(cfg))
	fmt.Printf("c19: %d implementation executions, %d correspondence cases, %d monitor violations\n", rep.Evaluations, rep.Cases, len(rep.Violations))
}

// replay re-runs the recorded input of a replay file through the monitors.
func replay(pl *pool) {
	raw, err := os.ReadFile(cfg.Replay)
	vh.Must(err)
	var f struct {
		Input struct {
			Family string     `json:"family"`
			Kind   int        `json:"kind"`
			Coins  [][2]int64 `json:"coins_value_confs"`
			Tgt    int64      `json:"target"`
			MaxIn  int        `json:"max_inputs"`
			MinCh  int64      `json:"min_change"`
			MinAvg int64      `json:"min_avg_value_age"`
			Init   []tcoin    `json:"init_value_confs"`
			Extra  []tcoin    `json:"pushable_value_confs"`
			Ops    []hop      `json:"ops"`
			Prod   bool       `json:"prod_build"`
		} `json:"input"`
	}
	vh.Must(json.Unmarshal(raw, &f))
	if f.Input.Prod && f.Input.Family == "select" { // found by the production-build child: replay there
		prodRuns = []prodRun{{f.Input.Kind, f.Input.MaxIn, f.Input.MinCh, f.Input.MinAvg, f.Input.Tgt, f.Input.Coins}}
		runProd()
		vh.Must(rep.Write(cfg))
		fmt.Printf("c19 replay (production build): %d monitor violations\n", len(rep.Violations))
		return
	}
	switch f.Input.Family {
	case "select":
		desc := make([]tcoin, len(f.Input.Coins))
		for i, c := range f.Input.Coins {
			desc[i] = tcoin{c[0], c[1]}
		}
		var vs, discard []viol
		p := param{f.Input.MaxIn, f.Input.MinCh, f.Input.MinAvg, f.Input.Tgt}
		// an earlier use of the same coin objects with other values and confirmations, as in the runs
		prev := make([]tcoin, len(desc)+1)
		for i := range prev {
			prev[i] = tcoin{int64(7 + 3*i), int64(2 + i%4)}
		}
		one(pl, f.Input.Kind, param{MaxIn: 2, MinAvg: 1, Tgt: 9}, prev, false, false, &discard)
		pl.bad = ""
		one(pl, f.Input.Kind, p, desc, false, false, &vs)
		rep.Count(selName[f.Input.Kind], "replay", true)
		report(vs)
	case "history":
		prev := make([]tcoin, len(f.Input.Init)+len(f.Input.Extra))
		for i := range prev {
			prev[i] = tcoin{int64(7 + 3*i), int64(2 + i%4)}
		}
		pl.coins(prev) // an earlier use of the same coin objects
		pl.bad = ""
		history(pl, f.Input.Init, f.Input.Extra, f.Input.Ops, false)
	}
	vh.Must(rep.Write(cfg))
	fmt.Printf("c19 replay: %d monitor violations\n", len(rep.Violations))
}

// ---------- round 3: dictionary numbers, list sizes at growth boundaries ----------
// (a) dictionary: every number that occurs as a literal in the source of package coinset as it is
//     now (srclits, all non-test files whatever their names or build constraints) and memorable
//     numbers (digit runs, repdigits, hexspeak, powers of two and ten) as the VALUE of a coin, as
//     its CONFIRMATIONS (pairs of the two), as the TARGET, as the minimum change - in lists where the
//     remarkable coin is first, in the middle, last, with targets that need every coin, exactly the
//     remarkable coin, or more than everything offered (all four selectors);
// (b) targets from the same pool over lists in which no short prefix satisfies them (the first
//     coin alone never does);
// (c) list sizes 0,1,2,3,4,5,7,8,9,...,1023,1024,1025 (the capacities at which append / the
//     selectors' working copies grow): all four selectors with targets that need every coin, one more
//     than everything, about half; coin-set histories that push that many coins one by one and then
//     remove them from both ends, Coins()/Num()/totals compared with the reference after EVERY step
//     for sizes up to 129 and at every boundary size beyond.
func round3Families(r *vh.RNG, pl *pool) {
	t0 := time.Now()
	dict := srclits.Harvest(true, filepath.Join(srclits.RepoDir(), "coinset"))
	rep.Extra["dictionary"] = map[string]interface{}{"files": dict.Files, "source_literals": len(dict.Raw)}
	wide := cfg.Thorough() || cfg.Search
	var vs []viol
	run := func(kind int, p param, desc []tcoin, fam string) outcome {
		o := one(pl, kind, p, desc, false, false, &vs)
		rep.Count(selName[kind], fmt.Sprint("r3", kind, p, desc), p.MaxIn >= 1 && len(desc) > 0)
		rep.Histogram[fam]++
		if nprod++; inDomain(p, desc, false) && (fam != "dictionary_coin" || nprod%8 == 0 || (desc[0].V > 255 && desc[0].C > 255)) {
			cs := make([][2]int64, len(desc))
			for i, t := range desc {
				cs[i] = [2]int64{t.V, t.C}
			}
			prodRuns = append(prodRuns, prodRun{kind, p.MaxIn, p.MinChange, p.MinAvg, p.Tgt, cs})
		}
		return o
	}
	nonneg := func(xs []int64, max int64) []int64 {
		seen := map[int64]bool{}
		var out []int64
		for _, x := range xs {
			if x >= 0 && x <= max && !seen[x] {
				seen[x] = true
				out = append(out, x)
			}
		}
		return out
	}
	const capSat = int64(2100000000000000)
	bigPool := nonneg(dict.Numbers(400), capSat)
	core := nonneg(append(append([]int64(nil), dict.Raw...), 0, 1, 2, 3, 7, 10, 42, 100, 255, 256, 1000, 1337, 4242, 65535, 65536, 100000000,
		123456789, 1234567890, 1234567891, 987654321, 0xbeef, 0xdead, 0xcafe, 0xdeadbeef, 0xcafebabe, 0x7fffffff, 0x80000000, 0xffffffff, 0x100000000,
		1111111, 999999999, 21000000, capSat), capSat)
	// (a) remarkable coins
	fill := []tcoin{{5, 1}, {7, 3}}
	pair := func(k int, v, c int64) {
		if v > 0 && c > (int64(1)<<57)/v {
			return
		}
		pos := k % 3
		desc := make([]tcoin, 0, 3)
		desc = append(desc, fill[:pos%2+pos/2]...)
		desc = append(desc, tcoin{v, c})
		desc = append(desc, fill[pos%2+pos/2:]...)
		sum := v + 12
		for kind := 0; kind < 4; kind++ {
			for ti, tgt := range []int64{sum, 2*v + 13, v} {
				p := param{MaxIn: 10, Tgt: tgt, MinAvg: int64(ti)}
				run(kind, p, desc, "dictionary_coin")
			}
		}
	}
	k := 0
	for _, v := range core {
		for _, c := range core {
			k++
			pair(k, v, c)
		}
	}
	for _, v := range bigPool {
		for _, c := range core {
			k++
			pair(k, v, c)
			pair(k+1, c, v)
		}
	}
	// (b) remarkable targets / minimum changes
	for i, T := range bigPool {
		if T < 8 {
			continue
		}
		q := T / 4
		descs := [][]tcoin{
			{{q, 1}, {q, 2}, {q + 1, 3}, {q + 3, 1}, {1, 5}},
			{{1, 1}, {T - 1, 2}, {1, 3}},
			{{T / 2, 4}, {T/2 - 1, 1}, {2, 2}, {T, 1}},
			{{T + 1, 1}, {T - 1, 1}, {1, 1}},
		}
		for kind := 0; kind < 4; kind++ {
			for di, desc := range descs {
				run(kind, param{MaxIn: 10, Tgt: T, MinAvg: 1}, desc, "dictionary_target")
				if (i+di)%3 == 0 {
					run(kind, param{MaxIn: 2 + di%2, Tgt: T, MinChange: 1, MinAvg: 2}, desc, "dictionary_target")
					run(kind, param{MaxIn: 10, Tgt: q, MinChange: T - q - 1, MinAvg: 1}, desc, "dictionary_minchange")
				}
			}
		}
	}
	report(vs)
	vs = nil
	rep.Extra["round3_dictionary_seconds"] = time.Since(t0).Seconds()
	t0 = time.Now()
	// (c) sizes at growth boundaries
	var sizes []int
	for _, n := range []int{0, 1, 2, 3, 4, 5, 6, 7, 8, 9, 12, 13, 15, 16, 17, 31, 32, 33, 63, 64, 65, 127, 128, 129, 255, 256, 257, 511, 512, 513, 1023, 1024, 1025} {
		if n <= 257 || wide || n == 1025 {
			sizes = append(sizes, n)
		}
	}
	for _, n := range sizes {
		for variant := 0; variant < 2; variant++ {
			desc := make([]tcoin, n)
			var sum int64
			for i := range desc {
				desc[i] = tcoin{int64(3*i + 1), int64(1 + (i*5)%7)}
				if variant == 1 { // descending values, ties in value-age
					desc[i] = tcoin{int64(3*(n-i) + 2), int64(1 + i%2)}
				}
				sum += desc[i].V
			}
			for kind := 0; kind < 4; kind++ {
				run(kind, param{MaxIn: n + 1, Tgt: sum, MinAvg: 1}, desc, "growth_size_select")
				run(kind, param{MaxIn: n + 1, Tgt: sum + 1, MinAvg: 1}, desc, "growth_size_select")
				run(kind, param{MaxIn: n, Tgt: sum / 2, MinChange: 1, MinAvg: 2}, desc, "growth_size_select")
				if n > 0 {
					run(kind, param{MaxIn: n - 1, Tgt: sum, MinAvg: 0}, desc, "growth_size_select")
				}
			}
		}
		// push n coins one by one, then take them away from both ends
		boundary := map[int]bool{}
		for _, b := range sizes {
			boundary[b] = true
		}
		extra := make([]tcoin, n)
		for i := range extra {
			extra[i] = tcoin{int64(2*i + 1), int64(i % 5)}
		}
		var ops []hop
		for i := 0; i < n; i++ {
			ops = append(ops, hop{"push", i})
			if n <= 129 || boundary[i+1] {
				ops = append(ops, hop{Op: "coins"})
			}
		}
		for left := n; left > 0; left-- {
			if left%2 == 0 {
				ops = append(ops, hop{Op: "shift"})
			} else {
				ops = append(ops, hop{Op: "pop"})
			}
			if n <= 129 || boundary[left-1] {
				ops = append(ops, hop{Op: "coins"})
			}
		}
		ops = append(ops, hop{Op: "pop"}, hop{Op: "shift"})
		if n > 0 {
			ops = append(ops, hop{"push", 0}, hop{Op: "coins"})
		}
		history(pl, nil, extra, ops, false)
		rep.Histogram["growth_size_history"]++
		// the same with the coins given to NewCoinSet at once
		history(pl, extra, nil, []hop{{Op: "coins"}, {Op: "shift"}, {Op: "pop"}, {Op: "coins"}, {Op: "tx"}}, false)
	}
	report(vs)
	rep.Extra["round3_growth_seconds"] = time.Since(t0).Seconds()
	runProd()
}

// ---------- the build that ships ----------
// The selector runs of the families above (inside the property's domain; a sample of the large
// coin cross product) are also given to harness/cmd/c19/prod, a child built at run time WITHOUT
// -tags verif in a scratch module (harness/cmd/c17/prodrun): this harness is built with the tag, so
// files selected by `//go:build !verif` are invisible to it.
type prodRun struct {
	Kind      int        `json:"kind"`
	MaxIn     int        `json:"max_inputs"`
	MinChange int64      `json:"min_change"`
	MinAvg    int64      `json:"min_avg_value_age"`
	Tgt       int64      `json:"target"`
	Coins     [][2]int64 `json:"coins_value_confs"`
}

var prodRuns []prodRun
var nprod int

func runProd() {
	stdin, _ := json.Marshal(prodRuns)
	o, err := prodrun.Run(cfg.Out, "c19", "cmd/c19/prod", stdin)
	if err != nil {
		rep.Extra["production_build"] = "NOT RUN: " + err.Error()
		rep.Histogram["production_build/not_run"]++
		return
	}
	rep.Extra["production_build"] = map[string]interface{}{"main_module": o.MainPath, "build_tags": o.Tags, "executions": o.Executions, "build_seconds": o.BuildSecs, "run_seconds": o.RunSecs}
	rep.Evaluations += o.Executions
	for k, v := range o.Histogram {
		rep.Histogram["production_build/"+k] += v
	}
	for _, v := range o.Violations {
		rep.Violate(v.Key, v.What+" [build without -tags verif]", v.Replay)
	}
}

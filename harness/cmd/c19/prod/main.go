// Command prod is the production-build child of harness/cmd/c19 (built at run time by
// harness/cmd/c17/prodrun WITHOUT the tag `verif`, scratch module, public API only).  The parent
// sends the selector runs of its round-3 families (inside the property's domain) on stdin; here every
// run is judged by the clauses that need no model: a successful selection consists of distinct
// offered coins, at most MaxInputs of them, its totals are the sums over its coins and satisfy the
// target; MinIndex and MinNumber succeed exactly when a prefix of the (value-sorted) list does, and
// MinIndex returns the shortest such prefix.  Output: prodrun.Output on stdout.
package main

import (
	"encoding/json"
	"fmt"
	"io"
	"os"
	"runtime/debug"
	"sort"

	"github.com/gcash/bchd/wire"
	"github.com/gcash/bchutil"
	"github.com/gcash/bchutil/coinset"
)

type run struct {
	Kind      int        `json:"kind"`
	MaxIn     int        `json:"max_inputs"`
	MinChange int64      `json:"min_change"`
	MinAvg    int64      `json:"min_avg_value_age"`
	Tgt       int64      `json:"target"`
	Coins     [][2]int64 `json:"coins_value_confs"`
}
type violation struct {
	Key    string                 `json:"key"`
	What   string                 `json:"what"`
	Replay map[string]interface{} `json:"replay"`
}
type output struct {
	MainPath   string         `json:"main_path"`
	Tags       string         `json:"build_tags"`
	Executions int            `json:"executions"`
	Histogram  map[string]int `json:"histogram"`
	Violations []violation    `json:"violations"`
}

var res = output{Histogram: map[string]int{}}
var perKey = map[string]int{}
var selName = []string{"minindex", "minnumber", "maxvalueage", "minpriority"}

func violate(r run, clause, what string, extra map[string]interface{}) {
	key := "C19:" + selName[r.Kind] + ":" + clause
	perKey[key]++
	if perKey[key] > 2 {
		return
	}
	rp := map[string]interface{}{"prod_build": true, "family": "select", "selector": selName[r.Kind], "kind": r.Kind, "coins_value_confs": r.Coins,
		"target": r.Tgt, "max_inputs": r.MaxIn, "min_change": r.MinChange, "min_avg_value_age": r.MinAvg}
	for k, v := range extra {
		rp[k] = v
	}
	res.Violations = append(res.Violations, violation{key, selName[r.Kind] + ": " + what, rp})
}

func selector(r run) coinset.CoinSelector {
	switch r.Kind {
	case 0:
		return coinset.MinIndexCoinSelector{MaxInputs: r.MaxIn, MinChangeAmount: bchutil.Amount(r.MinChange)}
	case 1:
		return coinset.MinNumberCoinSelector{MaxInputs: r.MaxIn, MinChangeAmount: bchutil.Amount(r.MinChange)}
	case 2:
		return coinset.MaxValueAgeCoinSelector{MaxInputs: r.MaxIn, MinChangeAmount: bchutil.Amount(r.MinChange)}
	}
	return coinset.MinPriorityCoinSelector{MaxInputs: r.MaxIn, MinChangeAmount: bchutil.Amount(r.MinChange), MinAvgValueAgePerInput: r.MinAvg}
}

func satisfies(r run, total int64) bool { return total == r.Tgt || total >= r.Tgt+r.MinChange }

// shortest prefix of vals (at most MaxIn long) whose sum satisfies the target; -1 if none
func prefix(r run, vals []int64) int {
	var sum int64
	for k := 0; k < len(vals) && k < r.MaxIn; k++ {
		sum += vals[k]
		if satisfies(r, sum) {
			return k + 1
		}
	}
	return -1
}

func one(r run) {
	defer func() {
		if e := recover(); e != nil {
			violate(r, "panic", "CoinSelect panicked", map[string]interface{}{"panic": fmt.Sprint(e)})
		}
	}()
	res.Executions++
	offered := make([]coinset.Coin, len(r.Coins))
	id := map[coinset.Coin]int{}
	for i, vc := range r.Coins {
		tx := wire.NewMsgTx(2)
		tx.AddTxOut(wire.NewTxOut(vc[0], []byte{0x51, byte(i), byte(i >> 8)}, wire.TokenData{}))
		offered[i] = &coinset.SimpleCoin{Tx: bchutil.NewTx(tx), TxIndex: 0, TxNumConfs: vc[1]}
		id[offered[i]] = i
	}
	got, err := selector(r).CoinSelect(bchutil.Amount(r.Tgt), offered)
	vals := make([]int64, len(r.Coins))
	for i, vc := range r.Coins {
		vals[i] = vc[0]
	}
	want := -2 // unknown
	switch r.Kind {
	case 0:
		want = prefix(r, vals)
	case 1:
		s := append([]int64(nil), vals...)
		sort.Slice(s, func(i, j int) bool { return s[i] > s[j] })
		want = prefix(r, s)
	}
	if err != nil {
		if want > 0 {
			violate(r, "complete", "failed although a selection exists", map[string]interface{}{"required": fmt.Sprintf("a selection of %d coins", want)})
		}
		return
	}
	var ids []int
	seen := map[int]bool{}
	var tv, tva int64
	for _, c := range got.Coins() {
		i, ok := id[c]
		if !ok {
			violate(r, "offered", "selected a coin that was not offered", nil)
			return
		}
		ids = append(ids, i)
		if seen[i] {
			violate(r, "distinct", "selected the same coin twice", map[string]interface{}{"observed_selection_ids": ids})
			return
		}
		seen[i] = true
		tv += r.Coins[i][0]
		tva += r.Coins[i][0] * r.Coins[i][1]
	}
	ex := map[string]interface{}{"observed_ok": true, "observed_selection_ids": ids}
	if len(ids) > r.MaxIn {
		violate(r, "maxinputs", "selected more than MaxInputs coins", ex)
	}
	if cs, ok := got.(*coinset.CoinSet); ok && (int64(cs.TotalValue()) != tv || cs.TotalValueAge() != tva || cs.Num() != len(ids)) {
		violate(r, "totals", "Num/TotalValue/TotalValueAge of the selection are not the sums over its coins", ex)
	}
	if !satisfies(r, tv) {
		violate(r, "target", fmt.Sprintf("total %d is neither the target %d nor >= target+minChange", tv, r.Tgt), ex)
	}
	if want == -1 {
		violate(r, "sound", "succeeded although no prefix satisfies the target", ex)
	}
	if r.Kind == 0 && want > 0 {
		ok := len(ids) == want
		for k := 0; ok && k < want; k++ {
			ok = ids[k] == k
		}
		if !ok {
			violate(r, "prefix", "the selection is not the shortest satisfying prefix of the offered list", ex)
		}
	}
	if r.Kind == 1 && want > 0 && len(ids) != want {
		violate(r, "minimal", fmt.Sprintf("selected %d coins where %d suffice", len(ids), want), ex)
	}
}

func main() {
	if bi, ok := debug.ReadBuildInfo(); ok {
		res.MainPath = bi.Main.Path
		for _, s := range bi.Settings {
			if s.Key == "-tags" {
				res.Tags = s.Value
			}
		}
	}
	defer func() {
		b, _ := json.Marshal(res)
		os.Stdout.Write(b)
	}()
	raw, _ := io.ReadAll(os.Stdin)
	var runs []run
	if err := json.Unmarshal(raw, &runs); err != nil {
		res.Histogram["bad_input"]++
		return
	}
	for _, r := range runs {
		one(r)
		res.Histogram[selName[r.Kind]]++
	}
}

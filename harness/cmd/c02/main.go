// Command c02 checks property C02 on the implementation: DecodeAddress is
// strict, canonical and network-separating.  It CONSTRUCTS strings with a valid
// checksum over arbitrary 5-bit payloads (all version bytes, hash lengths,
// padding values, surplus symbols, known and unknown prefixes, renderings),
// Base58Check strings over all version bytes and lengths, and hex strings of
// public-key length with every first byte, and requires "accepted only when
// canonical" of each; it also writes the correspondence cases for the Coq model.
package main

import (
	"bytes"
	"encoding/hex"
	"fmt"
	"strings"

	"github.com/gcash/bchd/chaincfg"
	"github.com/gcash/bchutil"

	al "verif/harness/cmd/c01/addrlib"
	"verif/harness/cmd/c01/addrlib/envrun"
	"verif/harness/internal/vh"
)

var cfg vh.Config
var rep *vh.Report
var ctx *al.Ctx

// cashCase describes one constructed CashAddr string.
type cashCase struct {
	net      int
	ckPrefix string // prefix the checksum is computed under
	version  byte
	hash     []byte
	padVal   byte   // value of the padding bits
	extra    []byte // surplus 5-bit symbols appended to the payload
	render   string // bare-lower | bare-upper | prefix-lower | prefix-upper | mixed
}

func (c cashCase) payload5() []byte {
	p := al.RefBits8to5(append([]byte{c.version}, c.hash...), c.padVal)
	return append(p, c.extra...)
}

func (c cashCase) text() string {
	body := al.RefCashString(c.ckPrefix, c.payload5())
	switch c.render {
	case "bare-upper":
		return al.AsciiUpper(body)
	case "prefix-lower":
		return c.ckPrefix + ":" + body
	case "prefix-upper":
		return al.AsciiUpper(c.ckPrefix + ":" + body)
	case "prefix-mixed":
		if c.ckPrefix == "" {
			return ""
		}
		return al.AsciiUpper(c.ckPrefix[:1]) + c.ckPrefix[1:] + ":" + body
	case "mixed":
		b := []byte(body)
		for i := range b { // upper-case the first letter only
			if b[i] >= 'a' && b[i] <= 'z' {
				b[i] -= 32
				break
			}
		}
		if string(b) == body || string(b) == al.AsciiUpper(body) { // no second letter of other case
			return ""
		}
		return string(b)
	}
	return body
}

// rule names the first rule that makes the case non-canonical ("" = canonical).
func (c cashCase) rule() string {
	p := al.Nets[c.net].P
	known := c.ckPrefix != "" && (c.ckPrefix == p.CashAddressPrefix || c.ckPrefix == p.SlpAddressPrefix)
	switch {
	case !known:
		return "prefix"
	case len(c.extra) > 0:
		return "surplus"
	case c.padVal&byte(1<<uint(al.PadBits(1+len(c.hash)))-1) != 0:
		return "padding"
	case len(c.hash) != 20 && len(c.hash) != 32:
		return "length"
	case !(c.version == 0 && len(c.hash) == 20 || c.version == 8 && len(c.hash) == 20 || c.version == 11 && len(c.hash) == 32):
		return "version"
	}
	return ""
}

func (c cashCase) replay(s string, o al.Obs) map[string]interface{} {
	return map[string]interface{}{"net": al.Nets[c.net].Name, "checksum_prefix": c.ckPrefix, "version_byte": c.version, "hash": vh.Hex(c.hash),
		"padding_bits_value": c.padVal, "surplus_symbols": vh.Hex(c.extra), "rendering": c.render, "string": s, "string_hex": vh.Hex([]byte(s)), "observed": o.JSON()}
}

// canonical applies "accepted => normal form equals the address's own string" to any string.
func canonical(s string, net int, o al.Obs, family string, replay map[string]interface{}) {
	if o.Cls == 99 {
		rep.Violate("C02:panic", "DecodeAddress panicked", replay)
		return
	}
	if o.Cls != 0 {
		return
	}
	key := "C02:canonical:" + family
	for i := 0; i < len(s); i++ {
		if s[i] >= 0x80 {
			key = "C02:canonical:nonascii"
		}
	}
	var norm string
	switch o.Kind {
	case 0, 1, 2:
		norm = al.Normalise(s, net)
	case 3, 4:
		norm = s
	default:
		norm = al.AsciiLower(s)
	}
	if norm != o.Str {
		rep.Violate(key, "an accepted string differs from the decoded address's own string by more than ASCII case / one optional prefix", replay)
	}
	if o.Kind <= 2 && !o.Nets[net] && !isSlpResult(o, net) {
		// a cash-format result is either for the asked net or the SLP form of its hash on that net
		rep.Violate("C02:isfornet:cash", "accepted cash-format (non-SLP) address is not for the network asked for", replay)
	}
}

// isSlpResult: the decoded address re-encodes to the SLP form of its hash on this net.
func isSlpResult(o al.Obs, net int) bool {
	slp := al.Nets[net].P.SlpAddressPrefix
	if slp == "" {
		return false
	}
	typ := byte(0)
	if o.Kind != 0 {
		typ = 1
	}
	return al.RefCashAddr(slp, typ, o.Payload) == o.Enc
}

func runCash(c cashCase, corr bool) {
	s := c.text()
	if s == "" {
		return
	}
	var o al.Obs
	if corr {
		o = ctx.DecCase(c.net, s, "cash:"+c.rule()+":"+c.render)
	} else {
		_, o = al.Decode(s, c.net)
	}
	rule := c.rule()
	rep.Count("cash:"+orCanon(rule)+":"+c.render, s+"/"+fmt.Sprint(c.net), true)
	rp := c.replay(s, o)
	canonical(s, c.net, o, "cash", rp)
	if rule != "" && o.Cls == 0 && o.Kind <= 2 {
		rep.Violate("C02:reject:"+rule, "a valid-checksum CashAddr string that breaks the '"+rule+"' rule was accepted", rp)
	}
	// mixed case: a bare string is lower-cased before decoding (ASCII case folding is a documented
	// normalisation), a prefixed one is refused by DecodeCashAddress; the property requires neither
	if rule == "" && c.render != "prefix-mixed" {
		wantKind := map[byte]int{0: 0, 8: 1, 11: 2}[c.version]
		if o.Cls != 0 || o.Kind != wantKind || !bytes.Equal(o.Payload, c.hash) {
			rep.Violate("C02:accept:canonical", "a canonical CashAddr string was not decoded to its (type, hash)", rp)
		}
	}
}

func orCanon(r string) string {
	if r == "" {
		return "canonical"
	}
	return r
}

var renders = []string{"bare-lower", "bare-upper", "prefix-lower", "prefix-upper", "mixed", "prefix-mixed"}

func cashFamilies(r *vh.RNG) {
	full := cfg.Thorough() || cfg.Search
	ncorr := 0
	corrBudget := cfg.Scale(620, 2500)
	corr := func(p, q int) bool {
		if cfg.Search || ncorr >= corrBudget || !r.Chance(p, q) {
			return false
		}
		ncorr++
		return true
	}
	for net := range al.Nets {
		p := al.Nets[net].P
		prefixes := []string{p.CashAddressPrefix}
		if p.SlpAddressPrefix != "" {
			prefixes = append(prefixes, p.SlpAddressPrefix)
		}
		other := al.Nets[(net+1)%len(al.Nets)].P.CashAddressPrefix
		if other == p.CashAddressPrefix {
			other = al.Nets[(net+4)%len(al.Nets)].P.CashAddressPrefix
		}
		foreign := []string{"foo", other, "bitcoincashx", "b"}
		// (1) every version byte x the two accepted hash lengths, every prefix, every rendering
		for v := 0; v < 256; v++ {
			for _, L := range []int{20, 32} {
				h := r.Bytes(L)
				for pi, pfx := range prefixes {
					for ri, rn := range renders {
						if !full && net > 1 && (v+ri+pi)%3 != 0 {
							continue
						}
						c := cashCase{net: net, ckPrefix: pfx, version: byte(v), hash: h, render: rn}
						interesting := v == 0 || v == 8 || v == 11 || v&0x80 != 0 && (v&0x7f == 0 || v&0x7f == 8 || v&0x7f == 11) || v == 1 || v == 3 || v == 9 || v == 0x10 || v == 0x78 || v == 0xff
						runCash(c, interesting && corr(1, 3) || corr(1, 60))
					}
				}
			}
		}
		// (2) every hash length 0..65 x version bytes that announce a size (and a few others)
		for L := 0; L <= 65; L++ {
			for _, v := range []byte{0, 8, 11, 1, 2, 3, 9, 10, 12, 0x80, 0x88, 0x8b} {
				h := r.Bytes(L)
				for _, rn := range []string{"bare-lower", "prefix-upper"} {
					if !full && net > 0 && (L+int(v))%4 != 0 {
						continue
					}
					runCash(cashCase{net: net, ckPrefix: prefixes[(L+int(v))%len(prefixes)], version: v, hash: h, render: rn}, corr(1, 25))
				}
			}
		}
		// (3) every value of the padding bits, and surplus symbols (zero and non-zero), on the accepted shapes
		for _, vl := range [][2]int{{0, 20}, {8, 20}, {11, 32}} {
			for pv := 0; pv < 16; pv++ {
				for _, extra := range [][]byte{nil, {0}, {0, 0}, {1}, {31}, {0, 0, 0, 0, 0, 0, 0, 0}} {
					if pv >= 1<<uint(al.PadBits(1+vl[1])) {
						continue
					}
					h := r.Bytes(vl[1])
					for pi, pfx := range prefixes {
						for ri, rn := range renders[:4] {
							if !full && (pv+ri+pi+net)%2 != 0 {
								continue
							}
							runCash(cashCase{net: net, ckPrefix: pfx, version: byte(vl[0]), hash: h, padVal: byte(pv), extra: extra, render: rn},
								(pv != 0 || len(extra) == 1) && corr(1, 4) || corr(1, 30))
						}
					}
				}
			}
		}
		// (4) valid addresses of another prefix (foreign network / unknown), bare and prefixed
		for _, fp := range foreign {
			for _, vl := range [][2]int{{0, 20}, {8, 20}, {11, 32}} {
				h := r.Bytes(vl[1])
				for _, rn := range renders[:4] {
					runCash(cashCase{net: net, ckPrefix: fp, version: byte(vl[0]), hash: h, render: rn}, corr(1, 3))
				}
			}
		}
	}
	// (5) the full (version byte, length) plane, zero padding, one rendering per point
	if full {
		for v := 0; v < 256; v++ {
			for L := 0; L <= 65; L++ {
				net := (v + L) % len(al.Nets)
				runCash(cashCase{net: net, ckPrefix: al.Nets[net].P.CashAddressPrefix, version: byte(v), hash: r.Bytes(L), render: renders[(v+L)%4]}, false)
			}
		}
	}
}

// corrupted checksums, characters outside the charset, structural damage
func badChecksums(r *vh.RNG) {
	n := cfg.Scale(150, 1500)
	for i := 0; i < n; i++ {
		net := i % len(al.Nets)
		p := al.Nets[net].P
		pfx := p.CashAddressPrefix
		if p.SlpAddressPrefix != "" && i%3 == 0 {
			pfx = p.SlpAddressPrefix
		}
		vl := [][2]int{{0, 20}, {8, 20}, {11, 32}}[i%3]
		c := cashCase{net: net, ckPrefix: pfx, version: byte(vl[0]), hash: r.Bytes(vl[1]), render: renders[i%4]}
		s := []byte(c.text())
		// change one symbol (anywhere after the prefix) to another charset character of the same case
		start := strings.IndexByte(string(s), ':') + 1
		pos := start + r.Intn(len(s)-start)
		old := s[pos]
		for {
			nc := al.Charset[r.Intn(32)]
			if old >= 'A' && old <= 'Z' {
				nc = al.AsciiUpper(string(nc))[0]
			}
			if nc != old {
				s[pos] = nc
				break
			}
		}
		var o al.Obs
		if i < cfg.Scale(60, 200) {
			o = ctx.DecCase(net, string(s), "badchecksum")
		} else {
			_, o = al.Decode(string(s), net)
		}
		rep.Count("badchecksum", string(s), true)
		rp := map[string]interface{}{"net": p.Name, "string": string(s), "changed_position": pos, "observed": o.JSON()}
		canonical(string(s), net, o, "cash", rp)
		if o.Cls == 0 {
			rep.Violate("C02:reject:checksum", "a CashAddr string with one altered symbol was accepted", rp)
		}
	}
}

// Base58Check strings over all version bytes and payload lengths 0..40
func legacyFamilies(r *vh.RNG) {
	ncorr := 0
	for v := 0; v < 256; v++ {
		for L := 0; L <= 40; L++ {
			if !cfg.Thorough() && !cfg.Search && L != 20 && (v+L)%7 != 0 {
				continue
			}
			payload := r.Bytes(L)
			if L > 0 && (v+L)%5 == 0 {
				payload[0] = 0
			}
			s := al.RefBase58Check(byte(v), payload)
			net := (v + L) % len(al.Nets)
			isP, isS := false, false
			for _, n := range al.Nets {
				isP = isP || n.P.LegacyPubKeyHashAddrID == byte(v)
				isS = isS || n.P.LegacyScriptHashAddrID == byte(v)
			}
			reg := isP || isS
			var o al.Obs
			if !cfg.Search && ncorr < cfg.Scale(150, 400) && (L == 20 && (reg || v%16 == 0) || (v+L)%97 == 0) {
				o = ctx.DecCase(net, s, "legacy")
				ncorr++
			} else {
				_, o = al.Decode(s, net)
			}
			rep.Count("legacy", s, L == 20)
			rp := map[string]interface{}{"net": al.Nets[net].Name, "version_byte": v, "payload": vh.Hex(payload), "string": s, "observed": o.JSON()}
			canonical(s, net, o, "legacy", rp)
			want := L == 20 && reg
			if (o.Cls == 0) != want {
				// a Base58Check string could only be something else if it were 42/61/66/130 characters long
				rep.Violate("C02:legacy:accept", "Base58Check string accepted/rejected against 'payload of 20 bytes and a registered version byte'", rp)
			}
			if o.Cls == 0 {
				if !bytes.Equal(o.Payload, payload) || (o.Kind != 3 && o.Kind != 4) || (o.Kind == 3) != isP {
					rep.Violate("C02:legacy:fields", "legacy address decoded to the wrong kind or hash", rp)
				}
				for ni, n := range al.Nets {
					id := n.P.LegacyPubKeyHashAddrID
					if o.Kind == 4 {
						id = n.P.LegacyScriptHashAddrID
					}
					if o.Nets[ni] != (id == byte(v)) {
						rep.Violate("C02:legacy:nets", "accepted legacy address does not belong to exactly the nets whose version byte it carries", rp)
					}
				}
			}
			// a damaged Base58Check checksum must be refused
			if L == 20 && v%8 == 0 {
				b := []byte(s)
				last := b[len(b)-1]
				b[len(b)-1] = al.B58[(strings.IndexByte(al.B58, last)+1+r.Intn(56))%58]
				_, o2 := al.Decode(string(b), net)
				rep.Count("legacy:damaged", string(b), true)
				if o2.Cls == 0 {
					rep.Violate("C02:legacy:checksum", "Base58Check string with an altered last character was accepted", map[string]interface{}{"net": al.Nets[net].Name, "string": string(b), "observed": o2.JSON()})
				}
				if ncorr < cfg.Scale(170, 450) && !cfg.Search {
					ctx.DecCase(net, string(b), "legacy:damaged")
					ncorr++
				}
			}
		}
	}
}

// hex strings of public-key length with every first byte
func pubkeyFamilies(r *vh.RNG) {
	nkeys := cfg.Scale(2, 8)
	for k := 0; k < nkeys; k++ {
		u, c, _ := al.RandomKey(r)
		net := k % len(al.Nets)
		for b0 := 0; b0 < 256; b0++ {
			for _, base := range [][]byte{c, u} {
				ser := append([]byte{byte(b0)}, base[1:]...)
				for ui, s := range []string{hex.EncodeToString(ser), strings.ToUpper(hex.EncodeToString(ser))} {
					var o al.Obs
					near := b0 <= 9 || b0 == 0x82 || b0 == 0x84 || b0 == 0xff
					if k == 0 && !cfg.Search && (near || b0%32 == 5) && ui == b0%2 {
						o = ctx.DecCase(net, s, "pubkey:firstbyte")
					} else {
						_, o = al.Decode(s, net)
					}
					rep.Count("pubkey:firstbyte", s, true)
					rp := map[string]interface{}{"net": al.Nets[net].Name, "first_byte": b0, "string": s, "observed": o.JSON()}
					canonical(s, net, o, "pubkey", rp)
					okByte := b0 == 2 || b0 == 3 || b0 == 4 || b0 == 6 || b0 == 7
					if o.Cls == 0 && (!okByte || o.Kind != 5) {
						rep.Violate("C02:pubkey:format", "hex string of public-key length with a format byte outside {02,03,04,06,07} was accepted", rp)
					}
					if o.Cls == 0 && !o.Nets[net] {
						rep.Violate("C02:pubkey:isfornet", "accepted public key is not for the network asked for", rp)
					}
				}
			}
		}
		// wrong lengths, odd length, non-hex characters
		for _, s := range []string{hex.EncodeToString(c)[:64], hex.EncodeToString(c) + "00", hex.EncodeToString(u)[:128], "0" + hex.EncodeToString(c)[1:65] + "g", hex.EncodeToString(c)[:65] + ":"} {
			o := ctx.DecCase(net, s, "pubkey:malformed")
			rep.Count("pubkey:malformed", s, true)
			canonical(s, net, o, "pubkey", map[string]interface{}{"net": al.Nets[net].Name, "string": s, "observed": o.JSON()})
		}
	}
}

// non-ASCII look-alikes, malformed structure, random noise
func malformed(r *vh.RNG) {
	h := r.Bytes(20)
	for net := range al.Nets {
		p := al.Nets[net].P
		body := al.RefCashAddr(p.CashAddressPrefix, 0, h)
		for !strings.ContainsAny(body, "k") || !strings.ContainsAny(body, "s") {
			h = r.Bytes(20)
			body = al.RefCashAddr(p.CashAddressPrefix, 0, h)
		}
		full := p.CashAddressPrefix + ":" + body
		var ss []string
		// U+212A KELVIN SIGN lower-cases to 'k' under Unicode folding; U+017F LONG S folds to 's'; U+0130 to 'i'
		ss = append(ss, strings.Replace(body, "k", "K", 1), strings.Replace(full, "k", "K", 1), strings.Replace(al.AsciiUpper(body), "K", "K", 1),
			strings.Replace(body, "s", "ſ", 1), strings.Replace(full, "s", "ſ", 1), strings.Replace(full, "i", "İ", 1),
			strings.Replace(al.AsciiUpper(full), "S", "ſ", 1), strings.Replace(al.AsciiUpper(full), "K", "K", 1),
			body+"\xff", "\xc3"+body, strings.Replace(full, ":", "\xef\xbc\x9a", 1), body[:10]+"\x80"+body[11:])
		// structure
		ss = append(ss, "", ":", p.CashAddressPrefix, p.CashAddressPrefix+":", ":"+body, full+":", p.CashAddressPrefix+"::"+body, full[:len(full)-1], full+"q", "q"+full,
			p.CashAddressPrefix+":"+body[:7], p.CashAddressPrefix+":"+body[:8], " "+full, full+" ", strings.Replace(full, ":", ";", 1), p.CashAddressPrefix+body,
			al.AsciiUpper(p.CashAddressPrefix)+":"+body, p.CashAddressPrefix+":"+al.AsciiUpper(body), "1"+body, body+"1", "b"+body[1:], strings.Repeat("q", 42), strings.Repeat("q", 66), strings.Repeat("0", 130))
		if p.SlpAddressPrefix != "" {
			sb := al.RefCashAddr(p.SlpAddressPrefix, 0, h)
			ss = append(ss, p.CashAddressPrefix+":"+sb, p.SlpAddressPrefix+":"+body, strings.Replace(p.SlpAddressPrefix+":"+sb, "s", "ſ", 1))
		}
		for i := 0; i < cfg.Scale(10, 80); i++ {
			n := r.Intn(70)
			b := r.Bytes(n)
			for j := range b {
				switch r.Intn(4) {
				case 0:
					b[j] = al.Charset[b[j]&31]
				case 1:
					b[j] = al.B58[int(b[j])%58]
				case 2:
					b[j] = "0123456789abcdefABCDEF:"[int(b[j])%23]
				}
			}
			ss = append(ss, string(b))
		}
		for i, s := range ss {
			var o al.Obs
			if cfg.Search || (net > 1 && i%3 != 0) {
				_, o = al.Decode(s, net)
			} else {
				o = ctx.DecCase(net, s, "malformed")
			}
			rep.Count("malformed", s+"/"+fmt.Sprint(net), len(s) > 0)
			rp := map[string]interface{}{"net": p.Name, "string": s, "string_hex": vh.Hex([]byte(s)), "observed": o.JSON()}
			canonical(s, net, o, "malformed", rp)
			nonascii := false
			for j := 0; j < len(s); j++ {
				nonascii = nonascii || s[j] >= 0x80
			}
			if nonascii && o.Cls == 0 {
				rep.Violate("C02:canonical:nonascii", "a string containing a non-ASCII byte was accepted", rp)
			}
		}
	}
}

// legacyConstructed: Base58Check strings that sampling does not reach.
// (a) one character replaced by a multi-byte code point with the same low eight bits: Base58 knows no
//     normalisation at all, so every such string must be refused;
// (b) bodies solved for so that the digit string has a run of ten or more zero digits ('1') in its interior.
func legacyConstructed(r *vh.RNG) {
	for net := range al.Nets {
		p := al.Nets[net].P
		for ki, id := range []byte{p.LegacyPubKeyHashAddrID, p.LegacyScriptHashAddrID} {
			s := al.RefBase58Check(id, r.Bytes(20))
			for _, pos := range []int{0, 1, len(s) / 2, len(s) - 1} {
				for ai, alias := range al.RuneAliases(s, pos) {
					var o al.Obs
					if net < 2 && ai < 3 && !cfg.Search {
						o = ctx.DecCase(net, alias, "legacy:rune-alias")
					} else {
						_, o = al.Decode(alias, net)
					}
					rep.Count("legacy:rune-alias", alias, true)
					rp := map[string]interface{}{"net": p.Name, "genuine_string": s, "string": alias, "string_hex": vh.Hex([]byte(alias)), "position": pos, "observed": o.JSON()}
					canonical(alias, net, o, "legacy", rp)
					if o.Cls == 0 {
						rep.Violate("C02:canonical:nonascii", "a string containing a non-ASCII byte was accepted", rp)
					}
				}
			}
			for _, run := range [][2]int{{10, 20}, {20, 30}, {10, 30}, {9, 19}, {11, 21}, {6, 32}} {
				body := al.ZeroDigitRunBody(r, id, 21, run[0], run[1])
				if body == nil {
					continue
				}
				s := al.RefBase58Check(id, body[1:])
				var o al.Obs
				if ki == 0 && !cfg.Search {
					o = ctx.DecCase(net, s, "legacy:zero-digit-run")
				} else {
					_, o = al.Decode(s, net)
				}
				rep.Count("legacy:zero-digit-run", s, true)
				rp := map[string]interface{}{"net": p.Name, "version_byte": id, "payload": vh.Hex(body[1:]), "string": s, "zero_digits": fmt.Sprint(run), "observed": o.JSON()}
				canonical(s, net, o, "legacy", rp)
				if o.Cls != 0 || !bytes.Equal(o.Payload, body[1:]) || o.Enc != s {
					rep.Violate("C02:legacy:accept", "Base58Check string accepted/rejected against 'payload of 20 bytes and a registered version byte'", rp)
				}
			}
		}
	}
}

// histories: what a call returns may depend on its arguments only, not on what was done with earlier results.
// (a) a decoded public-key address is changed through its public setter SetFormat; decoding the same string
//     again must still give the format of the string;
// (b) one Params VALUE is overwritten in place with each network in turn (same pointer, other contents).
func histories(r *vh.RNG) {
	for k := 0; k < cfg.Scale(2, 6); k++ {
		u, c, h := al.RandomKey(r)
		net := k % len(al.Nets)
		for fi, ser := range [][]byte{u, c, h} {
			s := hex.EncodeToString(ser)
			for _, other := range []bchutil.PubKeyFormat{bchutil.PKFUncompressed, bchutil.PKFCompressed, bchutil.PKFHybrid} {
				a1, o1 := al.Decode(s, net)
				if pk, ok := a1.(*bchutil.AddressPubKey); ok && pk != nil {
					pk.SetFormat(other)
				}
				_, o2 := al.Decode(s, net)
				rep.Count("history:setformat", fmt.Sprintf("%s/%d/%d", s, net, other), true)
				rp := map[string]interface{}{"net": al.Nets[net].Name, "string": s, "history": fmt.Sprintf("a := DecodeAddress(s); a.SetFormat(%d); DecodeAddress(s)", other),
					"first": o1.JSON(), "second": o2.JSON()}
				canonical(s, net, o2, "pubkey", rp)
				if o1.Cls != 0 || o2.Cls != 0 || o2.Kind != 5 || o2.Fmt != []int{0, 1, 2}[fi] || o2.Str != s || !bytes.Equal(o2.Payload, ser) {
					rep.Violate("C02:canonical:pubkey", "decoding a public-key string after an earlier result was modified through SetFormat does not reproduce the string", rp)
				}
			}
		}
	}
	var active chaincfg.Params
	for home := range al.Nets {
		p := al.Nets[home].P
		h := r.Bytes(20)
		strs := []string{al.RefCashAddr(p.CashAddressPrefix, 0, h), p.CashAddressPrefix + ":" + al.RefCashAddr(p.CashAddressPrefix, 1, h)}
		if p.SlpAddressPrefix != "" {
			strs = append(strs, p.SlpAddressPrefix+":"+al.RefCashAddr(p.SlpAddressPrefix, 0, h))
		}
		for si, s := range strs {
			for step := 0; step <= len(al.Nets); step++ {
				net := (home + step) % len(al.Nets)
				q := al.Nets[net].P
				active = *q // same variable, other contents
				var a bchutil.Address
				var err error
				var o al.Obs
				if pn, msg := vh.Catch(func() { a, err = bchutil.DecodeAddress(s, &active) }); pn {
					o = al.Obs{Cls: 99, Err: "panic: " + msg}
				} else {
					o = al.Observe(a, err)
				}
				rep.Count("history:params-in-place", fmt.Sprintf("%s/%d/%d", s, net, step), true)
				rp := map[string]interface{}{"string": s, "home_net": p.Name, "asked_net": q.Name, "position_in_sequence": step,
					"history": "one chaincfg.Params variable overwritten in place with each network in turn and passed by the same pointer", "observed": o.JSON()}
				canonical(s, net, o, "crossnet", rp)
				same := q.CashAddressPrefix == p.CashAddressPrefix
				if si == 2 {
					same = q.SlpAddressPrefix == p.SlpAddressPrefix
				}
				if (o.Cls == 0) != same {
					rep.Violate("C02:netsep:cash", "a cash-format string is accepted exactly on the networks that have its prefix; this call answered otherwise", rp)
				} else if o.Cls == 0 && si < 2 && !o.Nets[net] {
					rep.Violate("C02:isfornet:cash", "accepted cash-format (non-SLP) address is not for the network asked for", rp)
				}
			}
		}
	}
}

// crossNet decodes one canonical string of every kind on its own network and then, back to back, on every other
// network and on its own again.  The answer may depend on the network asked for only: a cash-format string of
// another network's prefix must be refused, a bare one is re-read under the asked network's prefix, a public
// key takes the asked network's id, a legacy address is decoded alike everywhere.  (Results remembered from an
// earlier call with another network would show here.)
func crossNet(r *vh.RNG) {
	for home := range al.Nets {
		p := al.Nets[home].P
		h20, h32 := r.Bytes(20), r.Bytes(32)
		_, c, _ := al.RandomKey(r)
		type item struct{ kind, s string }
		items := []item{
			{"cash-bare", al.RefCashAddr(p.CashAddressPrefix, 0, h20)},
			{"cash-prefixed", p.CashAddressPrefix + ":" + al.RefCashAddr(p.CashAddressPrefix, 1, h20)},
			{"cash-prefixed-upper", al.AsciiUpper(p.CashAddressPrefix + ":" + al.RefCashAddr(p.CashAddressPrefix, 1, h32))},
			{"legacy-pkh", al.RefBase58Check(p.LegacyPubKeyHashAddrID, h20)},
			{"legacy-sh", al.RefBase58Check(p.LegacyScriptHashAddrID, h20)},
			{"pubkey", hex.EncodeToString(c)},
		}
		if p.SlpAddressPrefix != "" {
			items = append(items, item{"slp-bare", al.RefCashAddr(p.SlpAddressPrefix, 0, h20)},
				item{"slp-prefixed", p.SlpAddressPrefix + ":" + al.RefCashAddr(p.SlpAddressPrefix, 1, h32)})
		}
		for _, it := range items {
			order := []int{home}
			for d := 1; d < len(al.Nets); d++ {
				order = append(order, (home+d)%len(al.Nets))
			}
			order = append(order, home)
			for step, net := range order {
				q := al.Nets[net].P
				_, o := al.Decode(it.s, net)
				rep.Count("crossnet:"+it.kind, fmt.Sprintf("%s/%d/%d", it.s, net, step), true)
				rp := map[string]interface{}{"kind": it.kind, "string": it.s, "home_net": al.Nets[home].Name, "asked_net": al.Nets[net].Name,
					"position_in_sequence": step, "sequence": "the same string decoded on its own network, then on each other network, then on its own again", "observed": o.JSON()}
				canonical(it.s, net, o, "crossnet", rp)
				samePrefixes := q.CashAddressPrefix == p.CashAddressPrefix
				if strings.HasPrefix(it.kind, "slp") {
					samePrefixes = q.SlpAddressPrefix == p.SlpAddressPrefix
				}
				switch it.kind {
				case "cash-bare", "cash-prefixed", "cash-prefixed-upper", "slp-bare", "slp-prefixed":
					if (o.Cls == 0) != samePrefixes {
						rep.Violate("C02:netsep:cash", "a cash-format string is accepted exactly on the networks that have its prefix; this call answered otherwise", rp)
					} else if o.Cls == 0 && !strings.HasPrefix(it.kind, "slp") && !o.Nets[net] {
						rep.Violate("C02:isfornet:cash", "accepted cash-format (non-SLP) address is not for the network asked for", rp)
					}
				case "legacy-pkh", "legacy-sh":
					if o.Cls != 0 || !bytes.Equal(o.Payload, h20) {
						rep.Violate("C02:legacy:accept", "a legacy address with a registered version byte must decode alike on every network", rp)
					} else {
						for ni, n := range al.Nets {
							id := n.P.LegacyPubKeyHashAddrID
							if it.kind == "legacy-sh" {
								id = n.P.LegacyScriptHashAddrID
							}
							home_id := p.LegacyPubKeyHashAddrID
							if it.kind == "legacy-sh" {
								home_id = p.LegacyScriptHashAddrID
							}
							if o.Nets[ni] != (id == home_id) {
								rep.Violate("C02:legacy:nets", "accepted legacy address does not belong to exactly the nets whose version byte it carries", rp)
							}
						}
					}
				case "pubkey":
					if o.Cls != 0 || o.Kind != 5 || !o.Nets[net] {
						rep.Violate("C02:pubkey:isfornet", "a public key decoded for a network must report membership of that network", rp)
					}
				}
			}
		}
	}
}

func main() {
	cfg = vh.ParseFlags("C02")
	rep = vh.NewReport(cfg)
	rep.Rule = "every execution is a DecodeAddress call on a constructed string; non-trivial when the string carries a valid checksum / is well-formed up to the rule under test; distinct by (string, network)"
	ctx = &al.Ctx{Cfg: cfg, Rep: rep, Cases: vh.NewCases(cfg, "Run.Run_C02", 150)}
	root := vh.NewRNG(cfg.Seed)
	// environment monitors (round 3): tables, registered networks, white space around valid strings; plain children
	env := envrun.Start(cfg, rep)

	if !cfg.Search {
		ctx.ShaCase(root.Fork("sha").Bytes(25))
		ctx.ShaCase(root.Fork("sha2").Bytes(70))
	}
	cashFamilies(root.Fork("cash"))
	badChecksums(root.Fork("badck"))
	legacyFamilies(root.Fork("legacy"))
	pubkeyFamilies(root.Fork("pubkey"))
	malformed(root.Fork("malformed"))
	crossNet(root.Fork("crossnet"))
	legacyConstructed(root.Fork("legacy-constructed"))
	histories(root.Fork("histories"))
	env.Finish()

	if !cfg.Search {
		_, err := ctx.Cases.Flush()
		vh.Must(err)
	}
	rep.Cases = ctx.Cases.Len()
	rep.Extra["duplicate_cases_dropped"] = ctx.Cases.Dups
	rep.Sample(map[string]string{"example": "valid-checksum mainnet string with version byte 0x80 (reserved bit) must be refused",
		"string": cashCase{net: 0, ckPrefix: "bitcoincash", version: 0x80, hash: make([]byte, 20), render: "bare-lower"}.text()}, 4)
	vh.Must(rep.Write(cfg))
	fmt.Printf("C02 harness: %d executions, %d cases, %d violations\n", rep.Evaluations, rep.Cases, len(rep.Violations))
}

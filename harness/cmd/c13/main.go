// Command c13 drives /repo/gcs (Golomb-coded set filters): it evaluates the
// property's own predicates on the implementation (members always match through
// all four query forms, empty filter / empty query match nothing, the any-of
// forms agree with the item-by-item query, all of it against an independent
// big-integer / bit-list reference) and writes correspondence cases for the Coq
// model (Run/Run_C13.v).  It also hosts the allocation probe for the size hint
// of HashMatchAny (C13_alloc_bound, shared with C08), run in a child process
// under an address-space cap.
package main

import (
	"encoding/hex"
	"encoding/json"
	"fmt"
	"io"
	"os"
	"os/exec"
	"runtime"
	"strconv"
	"strings"
	"time"

	"github.com/aead/siphash"
	"github.com/gcash/bchutil/gcs"

	"verif/harness/cmd/c13/gref"
	"verif/harness/internal/vh"
)

var cfg vh.Config
var rep *vh.Report
var cases *vh.Cases

// spec is one filter to build.  Sets too large to print are described by Gen.
type spec struct {
	P    uint8
	M    uint64
	Key  [16]byte
	Data [][]byte
	Gen  string // non-empty: how Data was generated (e.g. "LE64(0..5999)")
}

func hexItems(items [][]byte) []string {
	out := make([]string, len(items))
	for i, it := range items {
		out[i] = hex.EncodeToString(it)
	}
	return out
}

func (s spec) replay(extra map[string]interface{}) map[string]interface{} {
	m := map[string]interface{}{"P": s.P, "M": strconv.FormatUint(s.M, 10), "key": hex.EncodeToString(s.Key[:]), "N": len(s.Data)}
	if s.Gen != "" {
		m["set"] = s.Gen
	} else {
		m["items"] = hexItems(s.Data)
	}
	for k, v := range extra {
		m[k] = v
	}
	return m
}

func trimQ(q [][]byte) interface{} {
	if len(q) > 40 {
		return map[string]interface{}{"count": len(q), "first": hexItems(q[:8])}
	}
	return hexItems(q)
}

// answers holds the implementation's observable answers for one query list.
type answers struct {
	single         []bool
	zip, hash, any bool
	err            string
}

func queryAll(f *gcs.Filter, key [16]byte, qs [][]byte, singles bool) (a answers) {
	p, msg := vh.Catch(func() {
		var err error
		if singles {
			for _, q := range qs {
				var b bool
				b, err = f.Match(key, q)
				if err != nil {
					a.err = "Match: " + err.Error()
				}
				a.single = append(a.single, b)
			}
		}
		if a.zip, err = f.ZipMatchAny(key, qs); err != nil {
			a.err = "ZipMatchAny: " + err.Error()
		}
		if a.hash, err = f.HashMatchAny(key, qs); err != nil {
			a.err = "HashMatchAny: " + err.Error()
		}
		if a.any, err = f.MatchAny(key, qs); err != nil {
			a.err = "MatchAny: " + err.Error()
		}
	})
	if p {
		a.err = "panic: " + msg
	}
	return
}

func errClass(err error) int {
	switch {
	case err == nil:
		return 0
	case err == gcs.ErrNTooBig:
		return 1
	case err == gcs.ErrPTooBig:
		return 2
	case err == io.EOF || err == io.ErrUnexpectedEOF:
		return 3
	}
	return 4
}

func addQueryCase(n uint32, p uint8, m uint64, data []byte, key [16]byte, qs [][]byte, a answers, what string) {
	cases.Add(fmt.Sprintf("Query %d %d %d %s %s %s %s %s %s %s", n, p, m, vh.CoqBytes(data), vh.CoqBytes(key[:]), gref.CoqItems(qs),
		gref.CoqBools(a.single), vh.CoqBool(a.zip), vh.CoqBool(a.hash), vh.CoqBool(a.any)),
		map[string]interface{}{"op": "FromBytes+Match/Zip/Hash/MatchAny", "family": what, "N": n, "P": p, "M": strconv.FormatUint(m, 10), "filter": vh.Hex(data),
			"key": vh.Hex(key[:]), "queries": hexItems(qs), "impl_single": a.single, "impl_zip": a.zip, "impl_hash": a.hash, "impl_any": a.any})
}

// checkBuilt builds the filter of s and runs every C13 monitor on it with the given query lists.
// corr: also record correspondence cases.  Returns the filter (nil on a build error).
func checkBuilt(s spec, queryLists [][][]byte, corr bool, family string) *gcs.Filter {
	n := len(s.Data)
	var f *gcs.Filter
	var err error
	if p, msg := vh.Catch(func() { f, err = gcs.BuildGCSFilter(s.P, s.M, s.Key, s.Data) }); p {
		rep.Violate("C13:build:panic", "BuildGCSFilter panicked", s.replay(map[string]interface{}{"panic": msg}))
		return nil
	}
	rep.Count("build:"+family, fmt.Sprintf("b%d/%d/%d/%x", s.P, s.M, n, s.Key[:4]), n > 0 && err == nil)
	rep.Histogram[fmt.Sprintf("P=%d", s.P)]++
	if err != nil {
		if s.P <= 32 {
			rep.Violate("C13:build:error", "BuildGCSFilter failed on admissible parameters", s.replay(map[string]interface{}{"error": err.Error()}))
		}
		if corr {
			cases.Add(fmt.Sprintf("Build %d %d %s %s %d 0 []", s.P, s.M, vh.CoqBytes(s.Key[:]), gref.CoqItems(s.Data), errClass(err)),
				map[string]interface{}{"op": "BuildGCSFilter", "spec": s.replay(nil), "impl_class": errClass(err)})
		}
		return nil
	}
	fb, _ := f.Bytes()
	if len(fb) > 20000 {
		corr = false // a list literal that long overflows coqc's stack; the monitors below still run
	}
	if corr {
		cases.Add(fmt.Sprintf("Build %d %d %s %s 0 %d %s", s.P, s.M, vh.CoqBytes(s.Key[:]), gref.CoqItems(s.Data), f.N(), vh.CoqBytes(fb)),
			map[string]interface{}{"op": "BuildGCSFilter", "spec": s.replay(nil), "impl_N": f.N(), "impl_bytes": vh.Hex(fb)})
	}
	// reference view of the set
	F := gref.Modulus(uint64(n), s.M)
	refSet := make(map[uint64]bool, n)
	for _, d := range s.Data {
		refSet[gref.Value(s.Key, F, d)] = true
	}

	// --- members: every member matches through all four forms
	step := 1
	if n > 150 {
		step = n / 150
	}
	for i := 0; i < n; i += step {
		d := s.Data[i]
		a := queryAll(f, s.Key, [][]byte{d}, true)
		rep.Count("member", fmt.Sprintf("m%x/%d/%d/%x", d, s.P, s.M, s.Key[:2]), true)
		if a.err != "" || !a.single[0] || !a.zip || !a.hash || !a.any {
			rep.Violate("C13:member:missed", "a member of the set is not reported by every query form",
				s.replay(map[string]interface{}{"member": hex.EncodeToString(d), "Match": a.single, "ZipMatchAny": a.zip, "HashMatchAny": a.hash, "MatchAny": a.any, "error": a.err}))
		}
	}
	// --- empty query matches nothing
	a0 := queryAll(f, s.Key, nil, false)
	rep.Count("emptyquery", "", false)
	if a0.err != "" || a0.zip || a0.hash || a0.any {
		rep.Violate("C13:empty:query", "an empty query matched", s.replay(map[string]interface{}{"ZipMatchAny": a0.zip, "HashMatchAny": a0.hash, "MatchAny": a0.any, "error": a0.err}))
	}
	// --- query lists: item-by-item vs reference; any-of forms vs "some item matches"
	for li, qs := range queryLists {
		singles := len(qs) <= 400
		a := queryAll(f, s.Key, qs, singles)
		rep.Count("query:"+family, fmt.Sprintf("q%d/%d/%d/%x/%d/%d", s.P, s.M, n, s.Key[:4], li, len(qs)), n > 0 && len(qs) > 0)
		rep.Histogram[sizeClass(len(qs), n)]++
		if a.err != "" {
			rep.Violate("C13:query:error", "a query failed or panicked", s.replay(map[string]interface{}{"queries": trimQ(qs), "error": a.err}))
			continue
		}
		want := false
		for i, q := range qs {
			ref := refSet[gref.Value(s.Key, F, q)]
			want = want || ref
			if singles && a.single[i] != ref {
				key := "C13:match:false_positive"
				if ref {
					key = "C13:match:missed"
				}
				rep.Violate(key, "Match disagrees with membership of the hashed value in the set of hashed members (independent reference)",
					s.replay(map[string]interface{}{"query": hex.EncodeToString(q), "Match": a.single[i], "reference": ref}))
			}
		}
		if n == 0 && (a.zip || a.hash || a.any) {
			rep.Violate("C13:empty:filter", "an empty filter matched", s.replay(map[string]interface{}{"queries": trimQ(qs), "ZipMatchAny": a.zip, "HashMatchAny": a.hash, "MatchAny": a.any}))
		}
		if a.zip != want || a.hash != want || a.any != want {
			rep.Violate("C13:strategies:agree", "an any-of form differs from 'some queried item matches individually'",
				s.replay(map[string]interface{}{"queries": trimQ(qs), "some_item_matches": want, "ZipMatchAny": a.zip, "HashMatchAny": a.hash, "MatchAny": a.any}))
			if len(qs) > 1 { // minimise: find a single responsible item
				for _, q := range qs {
					b := queryAll(f, s.Key, [][]byte{q}, true)
					if b.err == "" && (b.zip != b.single[0] || b.hash != b.single[0] || b.any != b.single[0]) {
						rep.Violate("C13:strategies:agree", "an any-of form differs from 'some queried item matches individually'",
							s.replay(map[string]interface{}{"queries": []string{hex.EncodeToString(q)}, "Match": b.single[0], "ZipMatchAny": b.zip, "HashMatchAny": b.hash, "MatchAny": b.any}))
						break
					}
				}
			}
		}
		if corr && singles && len(qs) <= 70 && (li+n+int(s.P))%5 == 0 {
			addQueryCase(f.N(), f.P(), s.M, fb, s.Key, qs, a, family)
		}
	}
	return f
}

func sizeClass(q, n int) string {
	switch {
	case q == 0:
		return "query=0"
	case q < n/2:
		return "query<N/2"
	case q == n/2:
		return "query=N/2"
	}
	return "query>N/2"
}

func randItem(r *vh.RNG) []byte {
	switch r.Intn(6) {
	case 0:
		return gref.LE64(uint64(r.Intn(1000)))
	case 1:
		return r.Bytes(r.Intn(4))
	case 2:
		return r.Bytes(36) // an outpoint
	}
	return r.Bytes(r.Intn(34))
}

func randKey(r *vh.RNG) (k [16]byte) {
	if r.Intn(6) == 0 {
		return
	}
	copy(k[:], r.Bytes(16))
	return
}

// queriesFor builds query lists around the strategy switch (N/2): members, non-members, mixed, duplicates.
func queriesFor(r *vh.RNG, data [][]byte, small bool) [][][]byte {
	n := len(data)
	non := func(k int) [][]byte {
		out := make([][]byte, k)
		for i := range out {
			out[i] = append([]byte{0xEE}, r.Bytes(9+r.Intn(6))...)
		}
		return out
	}
	var ls [][][]byte
	sizes := []int{1, 2, n/2 - 1, n / 2, n/2 + 1, n + 3}
	for _, sz := range sizes {
		if sz < 1 {
			continue
		}
		if small && sz > 40 {
			sz = 40
		}
		ls = append(ls, non(sz)) // (almost surely) no member
		if n > 0 {
			mixed := non(sz)
			mixed[r.Intn(sz)] = data[r.Intn(n)]
			if sz > 2 {
				mixed[r.Intn(sz)] = mixed[r.Intn(sz)] // duplicate
			}
			ls = append(ls, mixed)
		}
	}
	if n > 0 {
		k := n
		if k > 30 {
			k = 30
		}
		mem := make([][]byte, k)
		for i := range mem {
			mem[i] = data[r.Intn(n)]
		}
		ls = append(ls, mem)
	}
	return ls
}

func mShapes(p uint8, r *vh.RNG) []uint64 {
	two := uint64(1) << p
	ms := []uint64{two, two + 1 + uint64(r.Intn(int(two%1000+7))), two*3 + 1}
	if p <= 10 {
		ms = append(ms, 1, 0)
	}
	if 784931>>p <= 2048 {
		ms = append(ms, 784931)
	}
	if p >= 1 {
		ms = append(ms, two/2+1)
	}
	if p >= 26 {
		ms = append(ms, two*2, two*5+3) // quotients of several units next to P = 32 (deltas >= 2^32)
	}
	return ms
}

// ---------- families ----------
func familySmall(rng *vh.RNG) {
	r := rng.Fork("small")
	ns := []int{0, 1, 2, 3, 5, 8, 13, 21, 34, 55}
	rounds := cfg.Scale(1, 4)
	if cfg.Search {
		rounds = 12
	}
	for round := 0; round < rounds; round++ {
		for p := 0; p <= 32; p++ {
			ms := mShapes(uint8(p), r)
			for mi, m := range ms {
				// every N for the monitors, a rotating subset for the Coq cases
				for ni, n := range ns {
					corr := !cfg.Search && round == 0 && (ni+p+mi)%len(ns) == (mi*3)%len(ns) && (mi < 3 || p >= 26 && mi >= len(ms)-2)
					if cfg.Search || round > 0 || corr || (p+ni)%3 == 0 {
						s := spec{P: uint8(p), M: m, Key: randKey(r)}
						for i := 0; i < n; i++ {
							s.Data = append(s.Data, randItem(r))
						}
						if n > 3 && r.Intn(3) == 0 {
							s.Data[0] = s.Data[n-1] // duplicate member: a zero delta
						}
						checkBuilt(s, queriesFor(r, s.Data, true), corr, "small")
					}
				}
			}
		}
	}
	// fixed edges: P just beyond the limit; modulus wrapping mod 2^64; M = 0
	for _, p := range []uint8{33, 40, 255} {
		checkBuilt(spec{P: p, M: 10, Data: [][]byte{{1}}}, nil, true, "edge")
	}
	for _, m := range []uint64{1<<63 + 5, 1<<63 + 200, 1<<62 + 3} { // N*M wraps to a small modulus for suitable N
		for _, n := range []int{2, 4} {
			s := spec{P: 3, M: m, Key: randKey(r)}
			for i := 0; i < n; i++ {
				s.Data = append(s.Data, randItem(r))
			}
			if gref.Modulus(uint64(n), m) < 1<<20 {
				checkBuilt(s, queriesFor(r, s.Data, true), true, "wrap")
			}
		}
	}
}

// values that reduce to exactly 0, coinciding reduced values, duplicates fed directly to BuildGCSFilter
func familyZero(rng *vh.RNG) {
	r := rng.Fork("zero")
	be := func(v uint32) []byte { return []byte{byte(v >> 24), byte(v >> 16), byte(v >> 8), byte(v)} }
	// (a) the repository's brute-forced zero-hash vector, queried below and above N/2
	{
		s := spec{P: 19, M: 784931, Key: [16]byte{0x25, 0x28, 0x0d, 0x25, 0x26, 0xe1, 0xd3, 0xc7, 0xa5, 0x71, 0x85, 0x34, 0x92, 0xa5, 0x7e, 0x68}}
		for i := uint32(0); i < 12; i++ {
			s.Data = append(s.Data, be(i))
		}
		target := be(16060032)
		s.Data = append(s.Data, target)
		if gref.Value(s.Key, gref.Modulus(13, s.M), target) == 0 {
			rep.Count("zerohash", "repo-vector", true)
		}
		seven := [][]byte{target}
		for i := uint32(100); len(seven) < 7; i++ {
			seven = append(seven, be(i))
		}
		checkBuilt(s, [][][]byte{{target}, seven, {be(50), target, be(51)}}, !cfg.Search, "zero")
		s2 := s
		s2.Data = append(append([][]byte{}, s.Data[:12]...), be(12)) // the same without the zero-hash member
		checkBuilt(s2, [][][]byte{{target}, seven}, !cfg.Search, "zero")
	}
	// (b) tiny ranges: every value is 0 or coincides with another
	for i := 0; i < cfg.Scale(120, 600); i++ {
		n := 1 + r.Intn(10)
		s := spec{P: uint8(r.Intn(9)), M: uint64(r.Intn(4)), Key: randKey(r)}
		if i%7 == 0 {
			s.P = uint8(r.Intn(33))
		}
		for k := 0; k < n; k++ {
			s.Data = append(s.Data, randItem(r))
		}
		if n > 1 && i%3 == 0 {
			s.Data[n-1] = s.Data[0]
		}
		checkBuilt(s, queriesFor(r, s.Data, true), !cfg.Search && i%6 == 0, "zero")
	}
	// (c) brute-forced zero-hash members under ordinary parameters
	for i := 0; i < cfg.Scale(12, 60); i++ {
		p := uint8(r.Intn(14))
		n := 2 + r.Intn(14)
		s := spec{P: p, M: uint64(1)<<p + uint64(r.Intn(3)), Key: randKey(r)}
		F := gref.Modulus(uint64(n), s.M)
		var zero []byte
		for t := 0; t < 400000 && zero == nil; t++ {
			it := gref.LE64(r.U64())
			if gref.Value(s.Key, F, it) == 0 {
				zero = it
			}
		}
		if zero == nil {
			continue
		}
		rep.Count("zerohash", fmt.Sprintf("z%d", i), true)
		s.Data = append(s.Data, zero)
		for len(s.Data) < n {
			s.Data = append(s.Data, randItem(r))
		}
		ql := queriesFor(r, s.Data, true)
		big := [][]byte{zero}
		for len(big) < n {
			big = append(big, append([]byte{0xEE}, r.Bytes(10)...))
		}
		ql = append(ql, [][]byte{zero}, big)
		checkBuilt(s, ql, !cfg.Search && i < 6, "zero")
	}
	// (d) large P with M >= 2^P: deltas of 2^32 and more with a non-zero quotient
	for _, c := range []struct {
		p uint8
		m uint64
	}{{32, 1 << 33}, {31, 1 << 33}, {28, 1 << 32}, {32, 1<<34 + 5}, {30, 1 << 32}} {
		for _, n := range []int{1, 2, 7, 20, 45} {
			s := spec{P: c.p, M: c.m, Key: randKey(r)}
			for k := 0; k < n; k++ {
				s.Data = append(s.Data, randItem(r))
			}
			checkBuilt(s, queriesFor(r, s.Data, true), !cfg.Search && n == 7, "largeP")
		}
	}
}

func le64Range(n int) [][]byte {
	out := make([][]byte, n)
	for i := range out {
		out[i] = gref.LE64(uint64(i))
	}
	return out
}

func familyBig(rng *vh.RNG) {
	r := rng.Fork("big")
	type cfgT struct {
		n int
		p uint8
		m uint64
	}
	list := []cfgT{{1000, 19, 784931}, {6000, 19, 784931}, {3000, 8, 300}, {2500, 0, 1}, {2000, 32, 1 << 32}}
	if cfg.Thorough() || cfg.Search {
		list = append(list, cfgT{20000, 19, 784931}, cfgT{100000, 19, 784931}, cfgT{100000, 10, 1 << 10}, cfgT{50000, 25, 1<<25 + 77}, cfgT{70000, 5, 43})
	}
	for _, c := range list {
		s := spec{P: c.p, M: c.m, Key: randKey(r)}
		seed := r.U64()
		s.Gen = fmt.Sprintf("N=%d items: LE64(x*0x9E3779B97F4A7C15 + %d) for x in 0..N-1", c.n, seed)
		for i := 0; i < c.n; i++ {
			s.Data = append(s.Data, gref.LE64(uint64(i)*0x9E3779B97F4A7C15+seed))
		}
		checkBuilt(s, queriesFor(r, s.Data, false), false, "big")
	}
}

// collision search: a query whose reduced value differs from a member's by a multiple of 2^32
func familyCollision(rng *vh.RNG) {
	r := rng.Fork("collision")
	// (a) the replay of the repaired defect: N = 6000, default P/M, zero key, set LE64(0..5999)
	{
		s := spec{P: 19, M: 784931, Data: le64Range(6000), Gen: "LE64(0..5999)"}
		F := gref.Modulus(6000, s.M)
		members := map[uint32][]uint64{}
		full := map[uint64]bool{}
		for _, d := range s.Data {
			v := gref.Value(s.Key, F, d)
			members[uint32(v)] = append(members[uint32(v)], v)
			full[v] = true
		}
		var qs [][]byte
		limit := uint64(cfg.Scale(3000000, 12000000))
		for i := uint64(1 << 32); i < 1<<32+limit && len(qs) < cfg.Scale(2, 6); i++ {
			v := gref.Value(s.Key, F, gref.LE64(i))
			if _, ok := members[uint32(v)]; ok && !full[v] {
				qs = append(qs, gref.LE64(i))
			}
		}
		rep.Extra["collision_queries_N6000"] = hexItems(qs)
		var lists [][][]byte
		for _, q := range qs {
			lists = append(lists, [][]byte{q})
		}
		if len(qs) > 1 {
			lists = append(lists, qs)
		}
		for range qs {
			rep.Count("collision2^32", "c6000"+strconv.Itoa(len(qs)), true)
		}
		checkBuilt(s, lists, false, "collision")
	}
	// (b) birthday-constructed collisions small enough for the Coq cases
	type cc struct {
		n int
		p uint8
		m uint64
	}
	// the last two have N<<P < 2^32 <= N*M (values need more than 32 bits although N*2^P does not)
	list := []cc{{40, 32, 1 << 32}, {24, 30, 1 << 30}, {50, 28, 1<<28 + 12345}, {60, 20, 1 << 27}, {45, 26, 1<<27 + 999}, {60, 25, 1 << 27}}
	if cfg.Thorough() || cfg.Search {
		list = append(list, cc{60, 27, 1 << 27}, cc{33, 31, 1<<31 + 1}, cc{12, 32, 1 << 32}, cc{200, 16, 1 << 25}, cc{7000, 19, 784931}, cc{5473, 19, 784931}, cc{8191, 19, 784931})
	}
	for ci, c := range list {
		key := randKey(r)
		F := gref.Modulus(uint64(c.n), c.m)
		if F < 1<<32 {
			continue
		}
		seen := map[uint32][]byte{}
		seenV := map[uint32]uint64{}
		var a, b []byte
		for i := 0; i < 4000000 && a == nil; i++ {
			it := gref.LE64(r.U64())
			v := gref.Value(key, F, it)
			if prev, ok := seen[uint32(v)]; ok && seenV[uint32(v)] != v {
				a, b = prev, it
				break
			}
			seen[uint32(v)], seenV[uint32(v)] = it, v
		}
		if a == nil {
			rep.Extra[fmt.Sprintf("collision_not_found_%d", ci)] = true
			continue
		}
		s := spec{P: c.p, M: c.m, Key: key, Data: [][]byte{a}}
		vb := gref.Value(key, F, b)
		for len(s.Data) < c.n {
			it := randItem(r)
			if gref.Value(key, F, it) != vb {
				s.Data = append(s.Data, it)
			}
		}
		rep.Count("collision2^32", fmt.Sprintf("cb%d", ci), true)
		// lists below and above N/2 so that MatchAny takes both routes
		pad := func(k int) [][]byte {
			out := [][]byte{b}
			for len(out) < k {
				it := append([]byte{0xDD}, r.Bytes(8)...)
				if _, dup := seen[uint32(gref.Value(key, F, it))]; !dup {
					out = append(out, it)
				}
			}
			return out
		}
		checkBuilt(s, [][][]byte{{b}, pad(c.n/2 + 1), pad(3), {a, b}, {b, a}}, !cfg.Search && c.n <= 60, "collision")
		// the same with the roles swapped (b a member, a only queried): whichever of the two hashed values is
		// the smaller one, one of the two filters has the member as the LARGER of a pair of queried values that
		// agree in their low 32 bits
		s2 := spec{P: c.p, M: c.m, Key: key, Data: append([][]byte{b}, s.Data[1:]...)}
		va := gref.Value(key, F, a)
		ok := true
		for _, it := range s2.Data[1:] {
			if gref.Value(key, F, it) == va {
				ok = false
			}
		}
		if ok {
			rep.Count("collision2^32", fmt.Sprintf("cs%d", ci), true)
			checkBuilt(s2, [][][]byte{{a}, {a, b}, {b, a}, append(pad(3), a)}, !cfg.Search && ci == 0, "collision")
		}
	}
}

// hostile / non-built filters: correspondence only (the property speaks about built filters), plus
// the documented dispatch rule of MatchAny where the two strategies differ.
func familyHostile(rng *vh.RNG) {
	r := rng.Fork("hostile")
	count := cfg.Scale(60, 300)
	for i := 0; i < count; i++ {
		p := uint8(r.Intn(12))
		if i%7 == 0 {
			p = uint8(r.Intn(33))
		}
		m := uint64(1)<<p + uint64(r.Intn(5))
		key := randKey(r)
		var data []byte
		var n uint32
		var qs [][]byte
		switch i % 3 {
		case 0: // garbage bytes, arbitrary claimed N
			data = r.Bytes(r.Intn(24))
			n = uint32(r.Intn(12))
			if i%9 == 0 {
				n = uint32(100000 + r.Intn(900000)) // claims far more than the bytes can hold
			}
			for k := r.Intn(6); k >= 0; k-- {
				qs = append(qs, randItem(r))
			}
		default: // overfull: the stream encodes more values than N claims
			claimed := 2 + r.Intn(12)
			total := claimed + 1 + r.Intn(12)
			F := gref.Modulus(uint64(claimed), m)
			items := make([][]byte, total)
			for k := range items {
				items[k] = randItem(r)
			}
			vals := gref.Values(key, F, items)
			data = gref.Pack(gref.EncodeBits(uint(p), vals))
			n = uint32(claimed)
			// queries: some items beyond the claimed count, lists on both sides of N/2
			k := 1 + r.Intn(claimed)
			for len(qs) < k {
				qs = append(qs, items[r.Intn(total)])
			}
		}
		var f *gcs.Filter
		var err error
		if pn, msg := vh.Catch(func() { f, err = gcs.FromBytes(n, p, m, data) }); pn || err != nil {
			rep.Violate("C13:hostile:frombytes", "FromBytes failed or panicked on admissible parameters", map[string]interface{}{"N": n, "P": p, "M": m, "bytes": vh.Hex(data), "panic": msg})
			continue
		}
		t0 := time.Now()
		a := queryAll(f, key, qs, true)
		rep.Count("hostile", fmt.Sprintf("h%d/%x", n, data), len(data) > 0)
		if a.err != "" {
			rep.Violate("C13:hostile:panic", "a query on a deserialised filter failed or panicked", map[string]interface{}{"N": n, "P": p, "M": m, "bytes": vh.Hex(data), "queries": hexItems(qs), "error": a.err})
			continue
		}
		if time.Since(t0) > 2*time.Second {
			rep.Violate("C13:hostile:time", "queries on a small deserialised filter took more than 2 s", map[string]interface{}{"N": n, "P": p, "M": m, "bytes": vh.Hex(data), "queries": hexItems(qs)})
		}
		// dispatch rule: MatchAny is HashMatchAny when len(data) >= N/2, ZipMatchAny otherwise
		wantAny := a.zip
		if len(qs) >= int(n/2) {
			wantAny = a.hash
		}
		if a.zip != a.hash {
			rep.Histogram["hostile:zip!=hash"]++
		}
		if a.any != wantAny {
			rep.Violate("C13:any:dispatch", "MatchAny did not return the answer of the strategy its documented rule selects (hash when len(query) >= N/2, zip otherwise)",
				map[string]interface{}{"N": n, "P": p, "M": m, "bytes": vh.Hex(data), "key": vh.Hex(key[:]), "queries": hexItems(qs), "ZipMatchAny": a.zip, "HashMatchAny": a.hash, "MatchAny": a.any})
		}
		addQueryCase(n, p, m, data, key, qs, a, "hostile")
		cases.Add(fmt.Sprintf("Stream %d %s", p, vh.CoqBytes(data)), map[string]interface{}{"op": "model-internal: bstream machine reader vs bit-list reader", "P": p, "bytes": vh.Hex(data)})
	}
}

// long unary runs: quotients crossing 2^8 and 2^16 (and the exact boundaries 255/256/257, 65535/65536/65537
// with P = 0, N = 1, found by scanning items), so that a narrow quotient counter in the writer or the reader shows
func familyLongRun(rng *vh.RNG) {
	r := rng.Fork("longrun")
	type lc struct {
		p uint8
		q uint64 // M = q << p: the quotient of a single value is uniform in [0, q)
	}
	list := []lc{{0, 300}, {3, 520}, {0, 70000}, {1, 140000}, {5, 200000}, {0, 66000}}
	if cfg.Thorough() || cfg.Search {
		list = append(list, lc{8, 300000}, lc{0, 1 << 20}, lc{19, 70000}, lc{32, 66000})
	}
	maxQ := func(s spec) uint64 {
		vals := gref.Values(s.Key, gref.Modulus(uint64(len(s.Data)), s.M), s.Data)
		var last, mq uint64
		for _, v := range vals {
			if q := (v - last) >> s.P; q > mq {
				mq = q
			}
			last = v
		}
		return mq
	}
	note := func(s spec) {
		mq := maxQ(s)
		switch {
		case mq >= 1<<16:
			rep.Histogram["longrun:q>=2^16"]++
		case mq >= 1<<8:
			rep.Histogram["longrun:q>=2^8"]++
		default:
			rep.Histogram["longrun:q<2^8"]++
		}
		rep.Count("longrun", fmt.Sprintf("l%d/%d/%x", s.P, s.M, s.Key[:4]), mq >= 1<<8)
	}
	for li, c := range list {
		for _, n := range []int{1, 2, 3} {
			for rep2 := 0; rep2 < cfg.Scale(2, 6); rep2++ {
				s := spec{P: c.p, M: c.q<<c.p + uint64(r.Intn(3)), Key: randKey(r)}
				for i := 0; i < n; i++ {
					s.Data = append(s.Data, randItem(r))
				}
				note(s)
				// Coq: the two short ones (the run of exactly 65536 below also goes to Coq)
				corr := !cfg.Search && rep2 == 0 && li < 2 && n == 2
				checkBuilt(s, queriesFor(r, s.Data, true), corr, "longrun")
			}
		}
	}
	// exact boundaries: P = 0, N = 1, so the quotient is the hashed value itself
	for _, m := range []uint64{300, 70000} {
		targets := []uint64{255, 256, 257}
		if m > 1<<16 {
			targets = []uint64{65535, 65536, 65537}
		}
		key := randKey(r)
		found := map[uint64][]byte{}
		for t := 0; t < 3000000 && len(found) < len(targets); t++ {
			it := gref.LE64(r.U64())
			v := gref.Value(key, m, it)
			for _, tg := range targets {
				if v == tg && found[tg] == nil {
					found[tg] = it
				}
			}
		}
		for _, tg := range targets {
			it := found[tg]
			if it == nil {
				rep.Extra[fmt.Sprintf("longrun_boundary_not_found_%d", tg)] = true
				continue
			}
			rep.Histogram[fmt.Sprintf("longrun:q=%d", tg)]++
			s := spec{P: 0, M: m, Key: key, Data: [][]byte{it}}
			note(s)
			non := append([]byte{0xEE}, r.Bytes(9)...)
			checkBuilt(s, [][][]byte{{it}, {non}, {non, it}}, !cfg.Search && (tg <= 257 || tg == 65536), "longrun")
		}
	}
}

// codeword lengths around the machine word: one code is quotient + 1 + P bits; for every P the quotients
// that make it 63, 64 and 65 bits (P = 32: 30, 31, 32; P = 0: 62, 63, 64), and the neighbours of 32, found
// by scanning items for N = 1 (M = (q+2) << P, so the quotient is uniform in [0, q+2)), then reused in a
// three-item set
func codewordItem(r *vh.RNG, key [16]byte, p uint8, q uint64) (uint64, []byte) {
	m := (q + 2) << p
	for t := 0; t < 20000; t++ {
		it := gref.LE64(r.U64())
		if gref.Value(key, m, it)>>p == q {
			return m, it
		}
	}
	return m, nil
}

func familyCodeword(rng *vh.RNG) {
	r := rng.Fork("codeword")
	for p := 0; p <= 32; p++ {
		qs := []uint64{62 - uint64(p), 63 - uint64(p), 64 - uint64(p)}
		if p == 32 || cfg.Thorough() || cfg.Search {
			qs = append(qs, 31, 32, 33)
		}
		for _, q := range qs {
			key := randKey(r)
			m, it := codewordItem(r, key, uint8(p), q)
			if it == nil {
				rep.Extra[fmt.Sprintf("codeword_not_found_P%d_q%d", p, q)] = true
				continue
			}
			rep.Count("codeword", fmt.Sprintf("k%d/%d", p, q), true)
			rep.Histogram[fmt.Sprintf("codeword:bits=%d", q+1+uint64(p))]++
			non := append([]byte{0xEE}, r.Bytes(9)...)
			s := spec{P: uint8(p), M: m, Key: key, Data: [][]byte{it}}
			corr := !cfg.Search && (p == 32 && q == 32 || p == 0 && q == 64 || p == 31 && q == 33 || p == 8 && q == 55)
			checkBuilt(s, [][][]byte{{it}, {non, it}}, corr, "codeword")
			// the same code somewhere inside a longer stream (not byte aligned)
			s3 := spec{P: uint8(p), M: m / 3, Key: key, Data: [][]byte{it, randItem(r), randItem(r)}}
			checkBuilt(s3, [][][]byte{{it}, {non, it}}, false, "codeword")
		}
	}
}

// state left over between calls: filters of the same shape (same N, P, M, byte length) but different
// content, queried alternately; every member must still match through every form, every time
func familyInterleave(rng *vh.RNG) {
	r := rng.Fork("interleave")
	for i := 0; i < cfg.Scale(25, 120); i++ {
		p := uint8(r.Intn(21))
		if i%5 == 0 {
			p = uint8(r.Intn(33))
		}
		n := 1 + r.Intn(6)
		m := uint64(1)<<p + uint64(r.Intn(4))
		if i%4 == 0 {
			p, m = 19, 784931
		}
		mk := func() spec {
			s := spec{P: p, M: m, Key: randKey(r)}
			for k := 0; k < n; k++ {
				s.Data = append(s.Data, append([]byte{byte(k)}, r.Bytes(1+r.Intn(12))...))
			}
			return s
		}
		size := func(s spec) int {
			f, err := gcs.BuildGCSFilter(s.P, s.M, s.Key, s.Data)
			if err != nil {
				return -1
			}
			b, _ := f.Bytes()
			return len(b)
		}
		a := mk()
		la := size(a)
		var group []spec
		group = append(group, a)
		for t := 0; t < 60 && len(group) < 3; t++ {
			b := mk()
			if i%2 == 0 {
				b.Key = a.Key // same key, different items
			}
			if size(b) == la {
				group = append(group, b)
			}
		}
		rep.Count("interleave", fmt.Sprintf("i%d/%d/%d/%x", p, m, n, a.Key[:4]), len(group) > 1)
		rep.Histogram[fmt.Sprintf("interleave:group=%d", len(group))]++
		// A B (C) A B ...: each pass queries the members and a few foreign items (members of the others)
		for gi := range group {
			group[gi].Gen = fmt.Sprintf("interleave group %d, filter %d of %d of the same shape, queried alternately (stateful: re-run the family with the recorded seed); items=%v", i, gi, len(group), hexItems(group[gi].Data))
		}
		for pass := 0; pass < 2; pass++ {
			for gi, s := range group {
				var foreign [][]byte
				for gj, o := range group {
					if gj != gi {
						foreign = append(foreign, o.Data...)
					}
				}
				lists := [][][]byte{s.Data}
				if len(foreign) > 0 {
					lists = append(lists, foreign, append(append([][]byte{}, foreign...), s.Data[0]))
				}
				checkBuilt(s, lists, false, "interleave")
			}
		}
	}
}

// query buffers reused and overwritten in place between calls (a rescan loop does this): the answers must
// depend on the CONTENT of the items at the time of the call, not on the identity of the byte slices
func familyReuse(rng *vh.RNG) {
	r := rng.Fork("reuse")
	for i := 0; i < cfg.Scale(60, 300); i++ {
		p := uint8(r.Intn(21))
		m := uint64(1)<<p + uint64(r.Intn(4))
		if i%4 == 0 {
			p, m = 19, 784931
		}
		n := 4 + r.Intn(20)
		s := spec{P: p, M: m, Key: randKey(r)}
		for k := 0; k < n; k++ {
			s.Data = append(s.Data, r.Bytes(8))
		}
		f, err := gcs.BuildGCSFilter(s.P, s.M, s.Key, s.Data)
		if err != nil {
			continue
		}
		F := gref.Modulus(uint64(n), s.M)
		refSet := map[uint64]bool{}
		for _, d := range s.Data {
			refSet[gref.Value(s.Key, F, d)] = true
		}
		k := 1 + r.Intn(6)
		if i%3 == 0 {
			k = n/2 + 1 + r.Intn(3) // at or above N/2: MatchAny takes the hash route
		}
		bufs := make([][]byte, k)
		for j := range bufs {
			bufs[j] = append([]byte{0xEE}, r.Bytes(7)...)
		}
		var history []string
		step := func(what string) bool {
			history = append(history, what+": "+strings.Join(hexItems(bufs), ","))
			a := queryAll(f, s.Key, bufs, true)
			rep.Count("reuse", fmt.Sprintf("u%d/%d/%s", i, len(history), what), true)
			if a.err != "" {
				rep.Violate("C13:query:error", "a query failed or panicked", s.replay(map[string]interface{}{"sequence_same_buffers": history, "error": a.err}))
				return false
			}
			want := false
			for j, q := range bufs {
				ref := refSet[gref.Value(s.Key, F, q)]
				want = want || ref
				if a.single[j] != ref {
					key := "C13:match:false_positive"
					if ref {
						key = "C13:match:missed"
					}
					rep.Violate(key, "Match disagrees with membership of the hashed value (query buffers reused in place)",
						s.replay(map[string]interface{}{"sequence_same_buffers": history, "query": hex.EncodeToString(q), "Match": a.single[j], "reference": ref}))
					return false
				}
			}
			if a.zip != want || a.hash != want || a.any != want {
				rep.Violate("C13:strategies:agree", "an any-of form differs from 'some queried item matches individually' when the caller reuses (overwrites in place) the byte slices of an earlier query",
					s.replay(map[string]interface{}{"sequence_same_buffers": history, "some_item_matches": want, "ZipMatchAny": a.zip, "HashMatchAny": a.hash, "MatchAny": a.any}))
				return false
			}
			return true
		}
		s.Gen = fmt.Sprintf("reuse#%d (stateful: the same query slices are overwritten in place between calls; re-run the family with the recorded seed); items=%v", i, hexItems(s.Data))
		if !step("non-members") {
			continue
		}
		j := r.Intn(k)
		copy(bufs[j], s.Data[r.Intn(n)]) // same slice, now holding a member
		if !step("one buffer overwritten with a member") {
			continue
		}
		copy(bufs[j], append([]byte{0xEE}, r.Bytes(7)...))
		if !step("overwritten back with a non-member") {
			continue
		}
		for j := range bufs {
			copy(bufs[j], s.Data[r.Intn(n)])
		}
		step("all buffers overwritten with members")
	}
}

// digests and moduli that make the middle column of the 64x64 product overflow: M = c*2^32 - 1 (so
// N*M has its low word just below 2^32) and items whose SipHash has its high word within a few
// thousand of 2^32 (found by scanning).  fastReduction itself is monitored elsewhere; this drives
// the reduction as BuildGCSFilter and the queries apply it.
func carryItems(r *vh.RNG, key [16]byte, want int, slack uint64) [][]byte {
	var out [][]byte
	for t := 0; t < 40000000 && len(out) < want; t++ {
		it := gref.LE64(r.U64())
		if gref.Sip(key, it)>>32 >= 1<<32-slack {
			out = append(out, it)
		}
	}
	return out
}

func familyReduceWrap(rng *vh.RNG) {
	r := rng.Fork("reducewrap")
	type rc struct {
		c uint64 // M = c*2^32 - 1
		n int
	}
	list := []rc{{1000, 50}, {4096, 12}, {2000, 30}, {3000, 4}}
	if cfg.Thorough() || cfg.Search {
		list = append(list, rc{500, 200}, rc{64, 2000}, rc{8000, 9})
	}
	for li, c := range list {
		m := c.c<<32 - 1
		key := randKey(r)
		F := gref.Modulus(uint64(c.n), m)
		nHi, nLo := F>>32, F&0xffffffff
		// high word of the digest within nHi/4 of 2^32 (and the low word of N*M is within N of 2^32)
		crafted := carryItems(r, key, 3, nHi/4)
		s := spec{P: 32, M: m, Key: key, Data: crafted}
		for len(s.Data) < c.n {
			s.Data = append(s.Data, randItem(r))
		}
		rep.Count("reducewrap", fmt.Sprintf("w%d/%d/%x", c.c, c.n, key[:4]), len(crafted) > 0)
		rep.Histogram[fmt.Sprintf("reducewrap:crafted=%d", len(crafted))]++
		rep.Sample(map[string]interface{}{"reducewrap": map[string]interface{}{"N": c.n, "M": strconv.FormatUint(m, 10), "N*M_hi": nHi, "2^32-N*M_lo": 1<<32 - nLo, "crafted_items": hexItems(crafted)}}, 2)
		ql := queriesFor(r, s.Data, true)
		if len(crafted) > 0 {
			ql = append(ql, crafted, [][]byte{crafted[0]})
		}
		checkBuilt(s, ql, !cfg.Search && li == 1, "reducewrap")
	}
}

// valid encodings cut at every byte length (the last code straddles or touches the end of the stream for
// every alignment of P), with the true and an excessive N: EOF rules of the bit reader on the real code
// vs the model (correspondence), plus the hostile-input monitors
func familyTruncated(rng *vh.RNG) {
	r := rng.Fork("truncated")
	ps := []uint8{0, 1, 7, 8, 9, 15, 16, 17, 24, 25, 31, 32}
	idx := 0
	for _, p := range ps {
		m := uint64(1)<<p + 3
		key := randKey(r)
		n := 3 + r.Intn(3)
		var items [][]byte
		for k := 0; k < n; k++ {
			items = append(items, randItem(r))
		}
		full, err := gcs.BuildGCSFilter(p, m, key, items)
		if err != nil {
			continue
		}
		fb, _ := full.Bytes()
		for cut := 0; cut <= len(fb); cut++ {
			for _, claimed := range []uint32{uint32(n), uint32(n) + 4} {
				idx++
				data := append([]byte{}, fb[:cut]...)
				f, err := gcs.FromBytes(claimed, p, m, data)
				if err != nil {
					rep.Violate("C13:hostile:frombytes", "FromBytes failed on admissible parameters", map[string]interface{}{"N": claimed, "P": p, "M": m, "bytes": vh.Hex(data)})
					continue
				}
				qs := items
				if idx%2 == 0 {
					qs = items[:1+r.Intn(len(items))]
				}
				a := queryAll(f, key, qs, true)
				rep.Count("truncated", fmt.Sprintf("t%d/%d/%x", p, claimed, data), cut > 0 && cut < len(fb))
				if a.err != "" {
					rep.Violate("C13:hostile:panic", "a query on a deserialised filter failed or panicked", map[string]interface{}{"N": claimed, "P": p, "M": m, "bytes": vh.Hex(data), "queries": hexItems(qs), "error": a.err})
					continue
				}
				// the uncut stream with the true N is the built filter: every item must match
				if cut == len(fb) && claimed == uint32(n) {
					for i := range qs {
						if !a.single[i] {
							rep.Violate("C13:member:missed", "a member is not matched after Bytes()/FromBytes", map[string]interface{}{"N": claimed, "P": p, "M": strconv.FormatUint(m, 10), "key": vh.Hex(key[:]), "items": hexItems(items), "member": hex.EncodeToString(qs[i])})
						}
					}
				}
				wantAny := a.zip
				if len(qs) >= int(claimed/2) {
					wantAny = a.hash
				}
				if a.any != wantAny {
					rep.Violate("C13:any:dispatch", "MatchAny did not return the answer of the strategy its documented rule selects (hash when len(query) >= N/2, zip otherwise)",
						map[string]interface{}{"N": claimed, "P": p, "M": m, "bytes": vh.Hex(data), "key": vh.Hex(key[:]), "queries": hexItems(qs), "ZipMatchAny": a.zip, "HashMatchAny": a.hash, "MatchAny": a.any})
				}
				if !cfg.Search && (cfg.Thorough() || idx%3 == 0) {
					addQueryCase(claimed, p, m, data, key, qs, a, "truncated")
					if idx%6 == 0 {
						cases.Add(fmt.Sprintf("Stream %d %s", p, vh.CoqBytes(data)), map[string]interface{}{"op": "model-internal: bstream machine reader vs bit-list reader", "P": p, "bytes": vh.Hex(data)})
					}
				}
			}
		}
	}
}

func familyPrimitives(rng *vh.RNG) {
	r := rng.Fork("prim")
	// SipHash: Coq model vs github.com/aead/siphash (and the independent dchest implementation as a monitor)
	for i := 0; i < cfg.Scale(40, 120); i++ {
		var key [16]byte
		copy(key[:], r.Bytes(16))
		if i == 0 {
			for j := range key {
				key[j] = byte(j)
			}
		}
		ln := i % 40
		if i > 80 {
			ln = 250 + r.Intn(20) // length counter wraps at 256
		}
		msg := r.Bytes(ln)
		out := siphash.Sum64(msg, &key)
		rep.Count("siphash", fmt.Sprintf("s%x%x", key, msg), true)
		if ref := gref.Sip(key, msg); ref != out {
			rep.Violate("C13:dep:siphash", "two SipHash-2-4 implementations disagree", map[string]interface{}{"key": vh.Hex(key[:]), "msg": vh.Hex(msg), "aead": out, "dchest": ref})
		}
		cases.Add(fmt.Sprintf("Sip %s %s %d", vh.CoqBytes(key[:]), vh.CoqBytes(msg), out), map[string]interface{}{"op": "siphash.Sum64", "key": vh.Hex(key[:]), "msg": vh.Hex(msg), "impl": out})
	}
	// fastReduction against (v*n)>>64 with big integers
	edge := []uint64{0, 1, 2, 0xffffffff, 0x100000000, 0x100000001, 0xfffffffe00000001, 0xffffffff00000000, 0x8000000000000000, 0xffffffffffffffff, 0x00000001ffffffff, 0xffffffff00000001}
	total := cfg.Scale(20000, 400000)
	for i := 0; i < total; i++ {
		var v, n uint64
		switch {
		case i < len(edge)*len(edge):
			v, n = edge[i/len(edge)], edge[i%len(edge)]
		case i%3 == 0:
			v, n = r.U64(), r.U64()
		case i%3 == 1:
			v, n = r.U64(), uint64(r.Intn(100000)+1)*784931 // real moduli
		default:
			v, n = r.U64()|0xffffffff, r.U64()|0xffffffff00000000 // carry-heavy
		}
		out := gcs.VerifFastReduction(v, n>>32, uint64(uint32(n)))
		nontrivial := n >= 1<<32
		rep.Count("fastReduction", fmt.Sprintf("r%d/%d", v, n), nontrivial)
		if ref := gref.Reduce(v, n); ref != out {
			rep.Violate("C14:fastreduction:spec", "fastReduction(v, n>>32, uint32(n)) differs from floor(v*n/2^64)", map[string]interface{}{"v": strconv.FormatUint(v, 10), "n": strconv.FormatUint(n, 10), "impl": strconv.FormatUint(out, 10), "reference": strconv.FormatUint(ref, 10)})
		}
		if i < cfg.Scale(250, 600) {
			cases.Add(fmt.Sprintf("Red %d %d %d %d", v, n>>32, uint64(uint32(n)), out), map[string]interface{}{"op": "fastReduction", "v": strconv.FormatUint(v, 10), "n": strconv.FormatUint(n, 10), "impl": strconv.FormatUint(out, 10)})
		}
	}
}

// ---------- allocation probe (child process under an address-space cap) ----------
type probeSpec struct {
	P      uint8  `json:"P"`
	M      uint64 `json:"M"`
	NBytes string `json:"nbytes"` // hex, N-prefixed serialisation
}
type probeOut struct {
	N          uint32 `json:"N"`
	Len        int    `json:"len"`
	AllocBytes uint64 `json:"alloc_bytes"`
	Result     bool   `json:"result"`
	Err        string `json:"err"`
}

func probeChild() {
	var ps probeSpec
	if err := json.Unmarshal([]byte(os.Getenv("VERIF_GCS_PROBE")), &ps); err != nil {
		fmt.Println(`{"err":"bad probe spec"}`)
		os.Exit(0)
	}
	raw, _ := hex.DecodeString(ps.NBytes)
	var out probeOut
	f, err := gcs.FromNBytes(ps.P, ps.M, raw)
	if err != nil {
		out.Err = err.Error()
	} else {
		fb, _ := f.Bytes()
		out.N, out.Len = f.N(), len(fb)
		var key [16]byte
		var m0, m1 runtime.MemStats
		runtime.GC()
		runtime.ReadMemStats(&m0)
		res, err := f.HashMatchAny(key, [][]byte{{1, 2, 3}})
		runtime.ReadMemStats(&m1)
		out.AllocBytes = m1.TotalAlloc - m0.TotalAlloc
		out.Result = res
		if err != nil {
			out.Err = err.Error()
		}
	}
	j, _ := json.Marshal(out)
	fmt.Println(string(j))
	os.Exit(0)
}

func familyAlloc(rng *vh.RNG) {
	r := rng.Fork("alloc")
	self, err := os.Executable()
	if err != nil {
		rep.Extra["alloc_probe"] = "skipped: " + err.Error()
		return
	}
	type probe struct {
		p    uint8
		n    uint64
		body []byte
	}
	probes := []probe{
		{19, 0xfffffffe, []byte{0xff, 0x00, 0x00}}, // fe feffffff ff 00 00 : the repaired defect (N = 2^32-2)
		{19, 0xffffffff, []byte{0x00, 0x00}},       // N = 2^32-1
		{0, 0xffffffff, []byte{0xaa, 0x55, 0x00}},  // P = 0: at most 24 values
		{32, 50000000, r.Bytes(40)},                // 5*10^7 claimed, 40 bytes
		{5, 3000000, r.Bytes(1 + r.Intn(64))},
	}
	for i := 0; i < cfg.Scale(2, 10); i++ {
		probes = append(probes, probe{uint8(r.Intn(33)), uint64(1000000 + r.Intn(1<<31)), r.Bytes(r.Intn(200))})
	}
	for _, pr := range probes {
		nb := append(gref.VarInt(pr.n), pr.body...)
		ps := probeSpec{P: pr.p, M: 784931, NBytes: hex.EncodeToString(nb)}
		j, _ := json.Marshal(ps)
		// 3 GiB of address space: far above what the repaired code needs, far below the 2^32-entry map
		cmd := exec.Command("sh", "-c", "ulimit -v 3145728; exec \"$0\"", self)
		cmd.Env = append(os.Environ(), "VERIF_GCS_PROBE="+string(j), "GOGC=off", "GOMAXPROCS=2")
		done := make(chan struct{})
		var outb []byte
		var cerr error
		go func() { outb, cerr = cmd.Output(); close(done) }()
		select {
		case <-done:
		case <-time.After(150 * time.Second):
			if cmd.Process != nil {
				cmd.Process.Kill()
			}
			<-done
			cerr = fmt.Errorf("timeout after 150 s")
		}
		bound := uint64(len(pr.body)) * 8 / (uint64(pr.p) + 1)
		replay := map[string]interface{}{"call": "gcs.FromNBytes(P, M, nbytes) then HashMatchAny(zero key, [010203])", "P": pr.p, "M": 784931, "nbytes": ps.NBytes,
			"claimed_N": pr.n, "filter_len": len(pr.body), "values_the_bytes_can_hold": bound}
		rep.Count("allocprobe", ps.NBytes+strconv.Itoa(int(pr.p)), true)
		var po probeOut
		if cerr != nil || json.Unmarshal(lastLine(outb), &po) != nil {
			msg := "no output"
			if cerr != nil {
				msg = cerr.Error()
				if ee, ok := cerr.(*exec.ExitError); ok {
					msg += ": " + firstLine(ee.Stderr)
				}
			}
			replay["child"] = msg
			rep.Violate("C13:alloc:hint", "HashMatchAny on a short filter claiming a huge N died under a 3 GiB address-space cap (allocation driven by the claimed N)", replay)
			continue
		}
		// a map pre-sized for h entries costs well under 64 bytes per entry; 1 MiB of slack for the rest
		limit := uint64(1<<20) + 64*(bound+1)
		replay["allocated_bytes"] = po.AllocBytes
		replay["limit_bytes"] = limit
		if po.Err == "" && po.AllocBytes > limit {
			rep.Violate("C13:alloc:hint", "HashMatchAny allocated far more than the filter bytes can justify (pre-sizing from the claimed N)", replay)
		}
		rep.Sample(map[string]interface{}{"alloc_probe": replay}, 3)
	}
}

func lastLine(b []byte) []byte {
	s := strings.TrimSpace(string(b))
	if i := strings.LastIndexByte(s, '\n'); i >= 0 {
		s = s[i+1:]
	}
	return []byte(s)
}
func firstLine(b []byte) string {
	s := strings.TrimSpace(string(b))
	if i := strings.IndexByte(s, '\n'); i >= 0 {
		s = s[:i]
	}
	if len(s) > 200 {
		s = s[:200]
	}
	return s
}

// ---------- replay ----------
func runReplay(path string) {
	raw, err := os.ReadFile(path)
	vh.Must(err)
	var doc struct {
		Input map[string]interface{} `json:"input"`
	}
	vh.Must(json.Unmarshal(raw, &doc))
	in := doc.Input
	if _, ok := in["nbytes"]; ok { // allocation probe
		familyAlloc(vh.NewRNG(cfg.Seed))
		return
	}
	s := spec{}
	if v, ok := in["P"].(float64); ok {
		s.P = uint8(v)
	}
	if v, ok := in["M"].(string); ok {
		s.M, _ = strconv.ParseUint(v, 10, 64)
	}
	if v, ok := in["key"].(string); ok {
		b, _ := hex.DecodeString(v)
		copy(s.Key[:], b)
	}
	if v, ok := in["items"].([]interface{}); ok {
		for _, x := range v {
			b, _ := hex.DecodeString(fmt.Sprint(x))
			s.Data = append(s.Data, b)
		}
	} else if g, ok := in["set"].(string); ok && strings.HasPrefix(g, "LE64(0..") {
		hi, _ := strconv.Atoi(strings.TrimSuffix(strings.TrimPrefix(g, "LE64(0.."), ")"))
		s.Data, s.Gen = le64Range(hi+1), g
	} else {
		// generated big sets: re-run the families with the recorded seed
		rng := vh.NewRNG(cfg.Seed)
		familyBig(rng)
		familyCollision(rng)
		familyLongRun(rng)
		familyCodeword(rng)
		familyInterleave(rng)
		familyReuse(rng)
		familyReduceWrap(rng)
		return
	}
	var qs [][]byte
	for _, k := range []string{"queries", "query", "member"} {
		switch v := in[k].(type) {
		case []interface{}:
			for _, x := range v {
				b, _ := hex.DecodeString(fmt.Sprint(x))
				qs = append(qs, b)
			}
		case string:
			b, _ := hex.DecodeString(v)
			qs = append(qs, b)
		}
	}
	checkBuilt(s, [][][]byte{qs}, false, "replay")
}

func main() {
	if os.Getenv("VERIF_GCS_PROBE") != "" {
		probeChild()
		return
	}
	cfg = vh.ParseFlags("C13")
	rep = vh.NewReport(cfg)
	cases = vh.NewCases(cfg, "Run.Run_C13", 80)
	rep.Rule = "a filter build counts when N > 0; a query list when the filter and the list are non-empty; fastReduction when n >= 2^32 (both halves of the 128-bit product in play); collision2^32 = constructed queries whose hashed value differs from a member's by a multiple of 2^32"
	rng := vh.NewRNG(cfg.Seed)
	if cfg.Replay != "" {
		runReplay(cfg.Replay)
	} else {
		familySmall(rng)
		familyZero(rng)
		familyBig(rng)
		familyCollision(rng)
		familyAlloc(rng)
		familyLongRun(rng)
		familyCodeword(rng)
		familyInterleave(rng)
		familyReuse(rng)
		familyReduceWrap(rng)
		if !cfg.Search {
			familyHostile(rng)
			familyTruncated(rng)
			familyPrimitives(rng)
		}
	}
	rep.Cases = cases.Len()
	rep.Extra["duplicate_cases_dropped"] = cases.Dups
	_, err := cases.Flush()
	vh.Must(err)
	vh.Must(rep.Write(cfg))
	fmt.Printf("c13: %d implementation executions, %d correspondence cases, %d monitor violations\n", rep.Evaluations, rep.Cases, len(rep.Violations))
}
